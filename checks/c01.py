"""C01 - lexing and parsing are total; diagnostics are located in the input.

spec/Lexer.tla   (LexerCore: NextToken arm by arm; TLC: Progress, termination, every token Located)
   -> vhc01 lexreplay   predicted token streams of every input of <= L chunks against the real lexer
spec/Pump.tla    (PumpCore: ReadPeek call by call; TLC: every ReadPeek returns, bounded tokenizer calls)
   -> vhc01 pumpreplay  predicted tokenizer calls / delivered tokens against the real parser's pump
spec/Mutations.tla      truncations / deletions / replacements / insertions of valid programs
   -> vhc01 parse       ParseVCL / ParseSnippetVCL / ParseVCLOrSnippet on every input behind a recording tokenizer
                        with a pull budget, in a watched child
spec/C01Trace.tla       every recorded execution gets its verdict from TLC (monitor form): tokens Located,
                        outcome is a tree or a ParseError whose token is Located; pump calls as PumpCore makes them.
"""
import hashlib, json, os, random
from concurrent.futures import ThreadPoolExecutor
import vlib
from vlib import MachineryFault

LEVEL = "model_checking"
BIN = "vhc01"


def tlc_with_lead(ctx, module, cfg, emit_cfg, defines, tag, workers=None, timeout=1500):
    """Model-check; when the mechanism layer violates a requirement on the model (a lead, R1) run the
    emission-only config so that every behaviour - with its req flags - is still replayed."""
    m = ctx.tlc(module, cfg=cfg, defines=defines, timeout=timeout, tag=tag, workers=workers)
    lead = list(m.violated)
    if lead:
        m = ctx.tlc(module, cfg=emit_cfg, defines=defines, timeout=timeout, tag=tag + ":emit-after-lead", workers=workers)
    return m, lead


def split_file(path, n, workdir, name):
    outs = [open(os.path.join(workdir, "%s_%02d.jsonl" % (name, i)), "w") for i in range(n)]
    k = 0
    with open(path) as f:
        for line in f:
            outs[k % n].write(line)
            k += 1
    for o in outs:
        o.close()
    return [o.name for o in outs], k


def run_sharded(ctx, cmd, args_fn, in_path, name, n):
    shards, total = split_file(in_path, n, ctx.work, name)
    if total == 0:
        raise MachineryFault("no input for %s (dead driver)" % name)
    ctx.build_bin(BIN)

    def one(i):
        return ctx.harness(BIN, [cmd] + args_fn(i, shards[i]), stdin_path=shards[i], out_name="%s_res_%02d.jsonl" % (name, i))
    with ThreadPoolExecutor(max_workers=n) as ex:
        return list(ex.map(one, range(n)))


def validate(ctx, trace_files, tag, groups=32):
    """C01Trace over all records (+ canaries), spread over `groups` files that TLC's workers load in parallel;
    returns {record id: verdict}"""
    d = os.path.join(ctx.work, "tr_%s" % tag)
    os.makedirs(d, exist_ok=True)
    prefix = "traces_%s_" % tag
    outs = [open(os.path.join(d, "%s%d.ndjson" % (prefix, g)), "w") for g in range(groups)]
    n = 0
    for tf in trace_files:
        with open(tf) as f:
            for line in f:
                if not line.strip():
                    continue
                outs[n % groups].write(line)
                n += 1
    # The canaries are built inside the specification (C01Trace!CanaryRecsFor: a fixed source, its token stream as
    # LexerCore yields it, the tokenizer calls PumpCore makes) - nothing the lexer / parser under test produced enters
    # them - and an accepted canary is a deferred fault: violations found in the same run are reported first.
    canaries = {"control": lambda v: v["exact"] and not v["viol"] and v["runs"][0]["pump"] == 0 and not v["runs"][0]["viol"],
                "control-errtok": lambda v: not v["runs"][0]["viol"],
                "canary-col": lambda v: bool(v["viol"]) and not v["exact"], "canary-line": lambda v: bool(v["viol"]),
                "canary-type": lambda v: bool(v["viol"]),
                "canary-outcome": lambda v: "outcome" in v["runs"][0]["viol"], "canary-pump": lambda v: v["runs"][0]["pump"] != 0,
                "canary-errtok": lambda v: "errtok" in v["runs"][0]["viol"]}
    for o in outs:
        o.close()
    res = ctx.tlc("C01Trace", extra_files=[o.name for o in outs],
                  defines={"TracePrefix": '"%s"' % prefix, "Groups": str(groups)},
                  timeout=3000, tag="trace-validation:" + tag)
    if res.violated:
        raise MachineryFault("C01Trace reported %s" % res.violated)
    verdicts = {}
    nverd = 0
    with open(res.beh_path) as f:
        for line in f:
            v = json.loads(line)
            verdicts[v["id"]] = v
            nverd += 1
    ncan = sum(1 for k in verdicts if k in canaries)
    if nverd - ncan != n or len(verdicts) != nverd:
        raise MachineryFault("C01Trace gave %d verdicts (%d distinct ids, %d canaries) for %d records" % (nverd, len(verdicts), ncan, n))
    for cid, ok in canaries.items():
        if cid not in verdicts:
            ctx.defer_fault("C01Trace printed no verdict for its canary %s" % cid)
        elif not ok(verdicts[cid]):
            ctx.defer_fault("canary %s was judged wrongly by C01Trace (validator is vacuous): %s" % (cid, verdicts[cid]))
    return verdicts


def run_verdict(verdicts, rid):
    """verdict of the parse run with result id <record id>/<mode>"""
    src, mode = rid.rsplit("/", 1)
    v = verdicts.get(src)
    if v is None:
        return None
    for rv in v["runs"]:
        if rv["mode"] == mode:
            return rv
    return None


def run(ctx):
    quick = ctx.tier == "quick"
    ctx.rule = ("inputs = every source of <= L chunks of the alphabet of spec/Chars.tla (exhaustive) + every single-token "
                "mutation of the programs of spec/Mutations.tla (replacements thinned by the seed in the quick tier) + "
                "the repository's example files; each lexed and parsed as file, snippet and either; "
                "distinct = distinct token-type sequences / distinct (mode, outcome, tokenizer-call sequence)")
    ctx.assumptions = [
        "a token designates its text when the input at its (line, col) starts with the token's text (LexerCore!Located); "
        "the EOF sentinel may sit anywhere at or after the end of the last line or on the line after it",
        "the character table harness/internal/vchars (NUL, XFF, U2..U4 symbols) projects text faithfully",
        "hang = no answer from the watched child within 10 s for one input (normal: microseconds), re-run alone before it counts; a shard stops after 4 crash/hang observations",
    ]
    nshards = min(ctx.workers, 8)

    if ctx.replay:
        rp = json.load(open(ctx.replay))
        inp = rp["case"]["input"]
        text = inp["text"] if isinstance(inp, dict) and "text" in inp else None
        if text is None:
            raise MachineryFault("replay file has no input text")
        pin = os.path.join(ctx.work, "replay_in.jsonl")
        with open(pin, "w") as f:
            f.write(json.dumps({"id": "replay", "text": text, "lex": True}) + "\n")
        tr = os.path.join(ctx.work, "replay.traces")
        res = ctx.harness(BIN, ["parse", "-traces", tr], stdin_path=pin)
        verdicts = validate(ctx, [tr], "replay")
        for r in ctx.read_results(res):
            classify_parse(r, run_verdict(verdicts, r["id"]))
            ctx.add_result(r)
        v = verdicts.get("replay")
        if v is not None:
            r = {"id": "replay/lex", "input": {"text": text}, "class": {"stage": "lex"}, "validated": True}
            classify_lex(r, v)
            ctx.add_result(r)
        return

    # ------------------------------------------------------------------ 1. lexer model + replay
    ldefs = {"Chunks": "QuickChunks", "MaxLen": "3"} if quick else {"Chunks": "AllChunks", "MaxLen": "3"}
    lex, lead1 = tlc_with_lead(ctx, "Lexer", "Lexer.cfg", "LexerEmit.cfg", ldefs, "lexer-model", workers=min(ctx.workers, 8))
    beh_files = [lex.beh_path]
    # every arm of the whole alphabet next to every chunk (the quick tier's three-chunk run uses the sub-alphabet)
    if quick:
        wide, lw = tlc_with_lead(ctx, "Lexer", "Lexer.cfg", "LexerEmit.cfg", {"Chunks": "AllChunks", "MaxLen": "2"},
                                 "lexer-model-wide2", workers=min(ctx.workers, 8))
        lead1 += lw
        beh_files.append(wide.beh_path)
    # long inputs over a small alphabet (state carried from token to token) ...
    deep, ld = tlc_with_lead(ctx, "Lexer", "Lexer.cfg", "LexerEmit.cfg", {"Chunks": "DeepChunks", "MaxLen": "4" if quick else "5"},
                             "lexer-model-deep", workers=min(ctx.workers, 8), timeout=3000)
    lead1 += ld
    beh_files.append(deep.beh_path)
    # ... and seeded random walks over the whole alphabet, up to 10 chunks
    sim = ctx.tlc("Lexer", cfg="LexerEmit.cfg", simulate=(1500 if quick else 20000), depth=80,
                  defines={"Chunks": "AllChunks", "MaxLen": "10"}, timeout=1500, tag="lexer-simulate")
    beh_files.append(sim.beh_path)
    lexbeh = os.path.join(ctx.work, "lexbeh.jsonl")
    seen = set()
    model_bad = set()      # inputs on which the mechanism layer itself breaks the requirement (lead)
    with open(lexbeh, "w") as out:
        for bf in beh_files:
            for line in open(bf):
                b = json.loads(line)
                k = "\x01".join(b["input"])
                if k in seen:
                    continue
                seen.add(k)
                if not all(b["req"].values()):
                    model_bad.add(k)
                out.write(line)
    ctx.notes["lexer_inputs"] = len(seen)
    ctx.exhaustive = True
    lex_res = run_sharded(ctx, "lexreplay", lambda i, s: ["-traces", s + ".traces", "-sample", "40", "-prefix", "lx%d_" % i],
                          lexbeh, "lex", nshards)
    trace_files = [os.path.join(ctx.work, "lex_%02d.jsonl.traces" % i) for i in range(nshards)]

    # ------------------------------------------------------------------ 2. pump model + replay
    pump, lead2 = tlc_with_lead(ctx, "Pump", "Pump.cfg", "PumpEmit.cfg", {"MaxLen": "4" if quick else "5"}, "pump-model",
                                workers=min(ctx.workers, 8))
    pdeep, lp = tlc_with_lead(ctx, "Pump", "Pump.cfg", "PumpEmit.cfg", {"Kinds": "DeepKinds", "MaxLen": "5" if quick else "7"},
                              "pump-model-deep", workers=min(ctx.workers, 8))
    lead2 += lp
    pump_all = os.path.join(ctx.work, "pump_beh.jsonl")
    pump_bad = set()
    pseen = set()
    with open(pump_all, "w") as out:
        for bf in (pump.beh_path, pdeep.beh_path):
            for line in open(bf):
                b = json.loads(line)
                k = " ".join(b["toks"])
                if k in pseen:
                    continue
                pseen.add(k)
                out.write(line)
                if not all(b["req"].values()):
                    pump_bad.add(k)
    pump_res = ctx.harness(BIN, ["pumpreplay"], stdin_path=pump_all, out_name="pump_res.jsonl")

    # ------------------------------------------------------------------ 3. inputs for the parse runs
    stride = 20 if quick else 3
    mut = ctx.tlc("Mutations", defines={"Stride": str(stride), "Offset": str(ctx.seed % stride)}, tag="mutations", workers=4)
    # composed mutations (two or three faults), seeded.  In simulation mode TLC evaluates Emit on every candidate
    # successor (tens of thousands per state), so a few walks print plenty; a seeded sample of them is taken.
    mut2 = ctx.tlc("Mutations", simulate=(16 if quick else 160), depth=4, workers=4,
                   defines={"Stride": "1", "Offset": "0", "MaxSteps": "3"}, tag="mutations-composed-simulate")
    # valid programs of the grammar (spec/GrammarMC.tla, statement and declaration families: every statement /
    # declaration kind with its optional parts and every list production with 0, 1, 2 elements): totality on what
    # the grammar generates, beyond the hand-written base programs of Mutations.tla
    gram = ctx.tlc("GrammarMC", cfg="GrammarEmit.cfg", defines={"Full": "FALSE", "Families": '{"stmts", "decls"}'},
                   tag="grammar-programs", timeout=1500)
    if gram.behaviours == 0:
        raise MachineryFault("GrammarMC printed no program (dead driver)")
    pin = os.path.join(ctx.work, "parse_in.jsonl")
    base_ids = {}
    gram_ids = set()
    n_in = 0
    with open(pin, "w") as out:
        for line in open(lexbeh):
            b = json.loads(line)
            n_in += 1
            out.write(json.dumps({"id": "ck%d" % n_in, "chunks": b["input"], "class": {"source": "chunks"}}) + "\n")
        nm = 0
        for line in open(mut.beh_path):
            b = json.loads(line)
            nm += 1
            n_in += 1
            if b["mut"] == "base" and b["valid"]:
                base_ids["mu%d" % nm] = b["prog"]
            out.write(json.dumps({"id": "mu%d" % nm, "toks": b["toks"], "lex": True,
                                  "class": {"source": "mutation", "mut": b["mut"], "prog": b["prog"], "at": b["at"], "with": b["with"]}}) + "\n")
        seen_m = set()
        n2 = 0
        want = 1500 if quick else 15000
        pool = [line for line in open(mut2.beh_path) if '"steps":1,' not in line]
        pool.sort()               # TLC's workers print in any order; the sample depends on the seed only
        ctx.rng.shuffle(pool)
        for line in pool:
            if n2 >= want:
                break
            b = json.loads(line)
            k = "\x01".join(b["toks"])
            if b["steps"] < 2 or k in seen_m:
                continue
            seen_m.add(k)
            nm += 1
            n2 += 1
            n_in += 1
            out.write(json.dumps({"id": "mu%d" % nm, "toks": b["toks"], "lex": True,
                                  "class": {"source": "mutation", "mut": "composed", "prog": b["prog"], "at": b["at"], "with": b["with"]}}) + "\n")
        ctx.notes["mutants"] = nm
        ctx.notes["mutants_composed"] = n2
        ng = 0
        gseen = set()
        for line in open(gram.beh_path):
            b = json.loads(line)
            if "toks" not in b:
                continue          # GrammarMC's own bookkeeping line (required operator pairs)
            k = "\x01".join(b["toks"])
            if k in gseen:
                continue
            gseen.add(k)
            if quick and b["fam"] in ("seq", "declorder") and len(b["toks"]) > 0 \
                    and (int(hashlib.sha1(k.encode()).hexdigest()[:8], 16) + ctx.seed) % 4 != 0:
                continue        # the long order families: a seeded quarter in the quick tier
            ng += 1
            n_in += 1
            gram_ids.add("gr%d" % ng)
            # every generated program, and cut after its first third / two thirds (truncated valid programs)
            out.write(json.dumps({"id": "gr%d" % ng, "toks": b["toks"], "class": {"source": "grammar", "fam": b["fam"]}}) + "\n")
            if b["fam"] in ("stmt", "order") and b["toks"][:3] == ["sub", "vcl_recv", "{"] and b["toks"][-1] == "}" and len(b["toks"]) > 4:
                # the statements alone (what a snippet holds), and nested in a block (the snippet entry point has its own
                # dispatch for the first level and reaches ParseStatement only below it)
                body = b["toks"][3:-1]
                for tag, toks in (("body", body), ("nested", ["if", "(", "req.http.A", ")", "{"] + body + ["}"])):
                    n_in += 1
                    out.write(json.dumps({"id": "gr%d_%s" % (ng, tag), "toks": toks,
                                          "class": {"source": "grammar-statements", "fam": b["fam"]}}) + "\n")
            for cut in sorted({len(b["toks"]) // 3, 2 * len(b["toks"]) // 3} - {0, len(b["toks"])}):
                n_in += 1
                out.write(json.dumps({"id": "gr%d_cut%d" % (ng, cut), "toks": b["toks"][:cut],
                                      "class": {"source": "grammar-truncated", "fam": b["fam"]}}) + "\n")
        ctx.notes["grammar_programs"] = ng
        cor = ctx.harness(BIN, ["corpus", "-max", "1200" if quick else "6000", os.path.join(vlib.REPO, "examples")],
                          out_name="corpus_in.jsonl")
        nc = 0
        for line in open(cor):
            out.write(line)
            nc += 1
        ctx.notes["corpus_texts"] = nc
    parse_res = run_sharded(ctx, "parse", lambda i, s: ["-traces", s + ".traces"], pin, "parse", nshards)
    trace_files += [os.path.join(ctx.work, "parse_%02d.jsonl.traces" % i) for i in range(nshards)]

    # ------------------------------------------------------------------ 4. TLC gives every recorded execution its verdict
    verdicts = validate(ctx, trace_files, "all")

    # ------------------------------------------------------------------ 5. classification
    reproduced = 0
    for rp in lex_res:
        for r in ctx.read_results(rp):
            if "-skipped-from-" in r["id"]:
                ctx.add_result(r)
                continue
            k = "\x01".join(r["input"]["chunks"])
            v = verdicts.get(r["id"])
            if v is not None:
                r["validated"] = True
                classify_lex(r, v)
            if k in model_bad and r["class"].get("agrees"):
                # the code does what the mechanism layer does, and TLC found that this breaks the requirement
                r.setdefault("mismatch", []).append({"obs": "model-counterexample-reproduced"})
            if r.get("mismatch"):
                reproduced += 1
            ctx.add_result(r)
    for r in ctx.read_results(pump_res):
        if " ".join(r["input"]["kinds"]) in pump_bad and not r.get("drift") and not r.get("mismatch"):
            r.setdefault("mismatch", []).append({"obs": "model-counterexample-reproduced"})
        if r.get("mismatch"):
            reproduced += 1
        ctx.add_result(r)
    outcomes = {}
    rejected_valid = []
    max_eof = 0
    for rp in parse_res:
        for r in ctx.read_results(rp):
            if "-skipped-from-" in r["id"]:
                ctx.add_result(r)
                continue
            v = run_verdict(verdicts, r["id"])
            if v is None and not r.get("mismatch"):
                raise MachineryFault("no verdict for %s" % r["id"])
            if v is not None:
                classify_parse(r, v)
                max_eof = max(max_eof, v.get("eofcalls", 0))
            o = r["observed"]["outcome"]
            outcomes[o] = outcomes.get(o, 0) + 1
            src_id, mode = r["id"].rsplit("/", 1)
            if mode == "vcl" and o == "parse_error" and (src_id in base_ids or src_id in gram_ids):
                # a valid program is rejected: no statement of C01 is broken (that is C02's), but the inputs derived
                # from it no longer exercise what they were written for
                rejected_valid.append(r["input"]["text"][:120])
            if r.get("mismatch"):
                reproduced += 1
            ctx.add_result(r)
    # lex records of mutants / corpus texts
    for vid, v in verdicts.items():
        if v["lexed"] and (vid.startswith("mu") or vid.startswith("corpus")):
            r = {"id": vid + "/lex", "input": {"id": vid}, "validated": True,
                 "class": {"stage": "lex", "source": "mutation" if vid.startswith("mu") else "corpus"}}
            classify_lex(r, v)
            ctx.add_result(r)
    ctx.notes["parse_outcomes"] = outcomes
    ctx.notes["valid_programs_rejected"] = len(rejected_valid)
    if rejected_valid:
        ctx.drift.append({"id": "valid-programs", "drift": {"obs": "valid-program-rejected-by-ParseVCL", "count": len(rejected_valid),
                                                              "examples": rejected_valid[:3]}})
    ctx.notes["max_eof_calls_in_one_parse"] = max_eof
    ctx.notes["model_leads"] = lead1 + lead2
    if (lead1 or lead2) and reproduced == 0:
        raise MachineryFault("the mechanism layer violates %s on the model but the code does not reproduce it: "
                             "the specification misdescribes the code" % (lead1 + lead2))
    if outcomes.get("tree", 0) == 0 or outcomes.get("parse_error", 0) == 0:
        raise MachineryFault("dead driver: outcomes %s" % outcomes)


def classify_lex(r, v):
    if v["viol"]:
        r.setdefault("mismatch", []).append({"obs": "token-not-located", "tokens": v["viol"][:6]})
    if not v["exact"] and not r.get("drift"):
        r.setdefault("drift", []).append({"obs": "token-stream-differs-from-LexerCore"})


def classify_parse(r, v):
    if v is None:
        return
    r["validated"] = True
    for what in v["viol"]:
        item = {"obs": what, "outcome": r["observed"]["outcome"]}
        if what == "errtok":
            item["token"] = r["observed"].get("error_token")
        if r["observed"].get("detail"):
            item["detail"] = r["observed"]["detail"][:200]
        r.setdefault("mismatch", []).append(item)
    if v["pump"] != 0 and r["observed"]["outcome"] in ("tree", "parse_error"):
        r.setdefault("drift", []).append({"obs": "pump-calls-not-as-PumpCore", "at": v["pump"]})
