"""C02 - the parser builds the tree the grammar and the precedence table dictate.

spec/Grammar.tla    requirement: abstract syntax, documented precedence (Paren), Render; mechanism: Pratt, Dispatch
spec/GrammarMC.tla  bounded generation: TLC checks Pratt(Render(s)) = s and the statement dispatch on every case and
                    prints token texts + the projection the parser must return
   -> vhc02 replay    each program written plain and with seed-chosen whitespace / comments, parsed by the real
                      parser, projected by harness/internal/astproj, compared
spec/Literals.tla   INT64 boundaries / hex conversion / float texts on digit sequences, escape decoding as a state machine
   -> vhc02 literals
spec/C02Trace.tla   code -> spec: seeded random expressions beyond the bound, parsed by the real parser, judged by the
                    requirement layer (renders, grouped) and the mechanism layer (pratt)
"""
import json, os
from concurrent.futures import ThreadPoolExecutor
import vlib
from vlib import MachineryFault

LEVEL = "model_checking"
BIN = "vhc02"


def tlc_with_lead(ctx, module, cfg, emit_cfg, defines, tag, workers=None, timeout=2400):
    m = ctx.tlc(module, cfg=cfg, defines=defines, timeout=timeout, tag=tag, workers=workers)
    lead = list(m.violated)
    if lead:
        m = ctx.tlc(module, cfg=emit_cfg, defines=defines, timeout=timeout, tag=tag + ":emit-after-lead", workers=workers)
    return m, lead


def split_file(path, n, workdir, name):
    outs = [open(os.path.join(workdir, "%s_%02d.jsonl" % (name, i)), "w") for i in range(n)]
    k = 0
    with open(path) as f:
        for line in f:
            outs[k % n].write(line)
            k += 1
    for o in outs:
        o.close()
    return [o.name for o in outs], k


def validate(ctx, records, tag, groups=16):
    """C02Trace over the recorded expressions; the canaries are built inside the specification (C02Trace!CanaryRecs,
    from Grammar's constructors) - nothing the parser under test produced enters them - and an accepted canary is a
    deferred fault: violations found in the same run are reported first."""
    d = os.path.join(ctx.work, "tr_%s" % tag)
    os.makedirs(d, exist_ok=True)
    prefix = "traces_%s_" % tag
    outs = [open(os.path.join(d, "%s%d.ndjson" % (prefix, g)), "w") for g in range(groups)]
    n = 0
    for r in records:
        outs[n % groups].write(json.dumps(r) + "\n")
        n += 1
    for o in outs:
        o.close()
    res = ctx.tlc("C02Trace", extra_files=[o.name for o in outs], defines={"TracePrefix": '"%s"' % prefix, "Groups": str(groups)},
                  timeout=2400, tag="trace-validation:" + tag)
    if res.violated:
        raise MachineryFault("C02Trace reported %s" % res.violated)
    verdicts = {}
    nverd = 0
    for line in open(res.beh_path):
        v = json.loads(line)
        verdicts[v["id"]] = v
        nverd += 1
    spec_side = {k: v for k, v in verdicts.items() if k.startswith(("control-", "canary-order-", "canary-grouping-"))}
    if nverd - len(spec_side) != n or len(verdicts) != nverd:
        raise MachineryFault("C02Trace gave %d verdicts (%d distinct ids, %d spec-side) for %d records" % (nverd, len(verdicts), len(spec_side), n))
    kinds = {"control": 0, "canary-order": 0, "canary-grouping": 0}
    for k, v in spec_side.items():
        kind = k.rsplit("-", 1)[0]
        kinds[kind] += 1
        if kind == "control" and not (v["renders"] and v["grouped"] and v["pratt"]):
            ctx.defer_fault("C02Trace rejects a tree of the specification with its own rendering (%s: %s)" % (k, v))
        if kind == "canary-order" and v["renders"]:
            ctx.defer_fault("%s accepted by C02Trace (renders is vacuous)" % k)
        if kind == "canary-grouping" and (v["grouped"] or v["pratt"]):
            ctx.defer_fault("%s accepted by C02Trace (grouped / pratt is vacuous): %s" % (k, v))
    if min(kinds.values()) < 3:
        ctx.defer_fault("C02Trace printed too few spec-side canaries: %s" % kinds)
    ctx.notes["trace_canaries"] = kinds
    return verdicts


def pair_coverage(ctx, beh_path):
    """Vacuity guard on the generator: which <<parent operator, child operator, side>> pairs stand un-parenthesised in
    the printed expression cases, per context, against the set the specification prints (GrammarMC!RequiredPairs)."""
    required = None
    seen = {}

    def walk(t, ctxname):
        if isinstance(t, dict):
            if t.get("k") == "infix":
                for side in ("left", "right"):
                    ch = t[side]
                    if isinstance(ch, dict) and ch.get("k") == "infix":
                        seen.setdefault(ctxname, set()).add((t["op"], ch["op"], side))
            for v in t.values():
                walk(v, ctxname)
        elif isinstance(t, list):
            for v in t:
                walk(v, ctxname)
    for line in open(beh_path):
        if '"fam":"required-pairs"' in line:
            required = json.loads(line)
        elif '"fam":"expr"' in line:
            c = json.loads(line)
            walk(c["tree"], c["ctx"])
    if required is None:
        ctx.defer_fault("GrammarMC did not print its required operator pairs")
        return
    req = {tuple(p) for p in required["pairs"]}
    levels = required["levels"]
    missing = {cx: sorted(req - seen.get(cx, set())) for cx in required["ctxs"]}
    adjacent = sorted(p for p in req if abs(levels[p[1]] - levels[p[0]]) == 1)
    ctx.notes["operator_pairs"] = {
        "required_per_context": len(req), "adjacent_level_pairs": len(adjacent),
        "covered": {cx: len(req & seen.get(cx, set())) for cx in required["ctxs"]},
        "missing": {cx: ["%s over %s (%s)" % p for p in m] for cx, m in missing.items() if m},
        "adjacent_covered_in_every_context": ["%s>%s:%s" % (p[0], p[1], p[2][0].upper()) for p in adjacent
                                              if all(p in seen.get(cx, set()) for cx in required["ctxs"])],
    }
    if any(missing.values()):
        ctx.defer_fault("the generated expressions do not cover every un-parenthesised operator pair: %s" % ctx.notes["operator_pairs"]["missing"])


def run(ctx):
    quick = ctx.tier == "quick"
    ctx.rule = ("cases = programs generated by TLC from spec/GrammarMC.tla (every expression tree of <= 2 binary operators over the "
                "12 operators + juxtaposition with minimal and redundant parentheses, every atom kind beside every operator, "
                "every statement and declaration kind with its optional parts, if/else-if chains, switch shapes, ordered pairs / "
                "triples for source order; thorough adds <= 3 operators), the literal and escape cases of spec/Literals.tla, and "
                "seeded random expressions judged by spec/C02Trace.tla; distinct = distinct token sequences")
    ctx.assumptions = [
        "the documented precedence order of the property statement / docs (Grammar!DocPrec) is the requirement",
        "harness/internal/astproj projects the AST faithfully (structural recursion, no knowledge of precedence)",
        "float values are compared as Go's shortest decimal text of the parsed float64 against the text computed on digit sequences",
    ]
    nshards = min(ctx.workers, 8)
    ctx.build_bin(BIN)

    if ctx.replay:
        rp = json.load(open(ctx.replay))
        case = rp["case"]
        text = case["input"]["text"]
        exp = None
        for mm in case.get("mismatch") or []:
            if "expected" in mm:
                exp = mm["expected"]
        if exp is None or case["class"].get("fam") in ("literal", "randexpr"):
            raise MachineryFault("this replay file carries no expected tree; re-run the tier")
        beh = os.path.join(ctx.work, "replay.jsonl")
        # the text is replayed as one token: it is written exactly as recorded
        with open(beh, "w") as f:
            f.write(json.dumps({"fam": case["class"]["fam"], "toks": [text], "tree": exp, "req": {"pratt": True, "dispatch": True}}) + "\n")
        res = ctx.harness(BIN, ["replay"], stdin_path=beh)
        ctx.add_results(res)
        return

    # ------------------------------------------------------------------ 1. grammar model + replay
    fams = '{"pairs", "atoms", "stmts", "decls"}' if quick else '{"pairs", "atoms", "stmts", "decls", "triples"}'
    gm, lead1 = tlc_with_lead(ctx, "GrammarMC", "GrammarMC.cfg", "GrammarEmit.cfg",
                              {"Full": "FALSE" if quick else "TRUE", "Families": fams}, "grammar-model")
    ctx.notes["grammar_cases"] = gm.behaviours - 1
    if gm.behaviours == 0:
        raise MachineryFault("GrammarMC printed no case (dead driver)")
    pair_coverage(ctx, gm.beh_path)
    # canary of the comparison: an expected tree of the specification and a corrupted copy of it (&& and || swapped) go
    # through the harness's comparator as the two sides - no parse takes part, so the code under test cannot affect it
    canary_line = None
    for line in open(gm.beh_path):
        if '"fam":"expr"' in line and '"op":"&&"' in line and '"op":"||"' in line:
            c = json.loads(line)
            c["twin"] = c["tree"]
            s = json.dumps(c["tree"]).replace('"op": "&&"', '"op": "@@"').replace('"op": "||"', '"op": "&&"').replace('"op": "@@"', '"op": "||"')
            c["tree"] = json.loads(s)
            c["fam"] = "canary"
            canary_line = json.dumps(c)
            break
    if canary_line is None:
        ctx.defer_fault("no case to derive the comparison canary from")
    allb = os.path.join(ctx.work, "grammar_cases.jsonl")
    model_bad = 0
    with open(allb, "w") as out:
        for line in open(gm.beh_path):
            if '"fam":"required-pairs"' in line:
                continue
            out.write(line)
            if '"pratt":false' in line or '"dispatch":false' in line:
                model_bad += 1
    shards, total = split_file(allb, nshards, ctx.work, "gr")
    if canary_line is not None:
        with open(shards[0], "a") as f:
            f.write(canary_line + "\n")

    def one(i):
        return ctx.harness(BIN, ["replay", "-prefix", "g%d_" % i], stdin_path=shards[i], out_name="gr_res_%02d.jsonl" % i)
    with ThreadPoolExecutor(max_workers=nshards) as ex:
        gres = list(ex.map(one, range(nshards)))

    # ------------------------------------------------------------------ 2. literals
    lit, lead2 = tlc_with_lead(ctx, "Literals", "Literals.cfg", "LiteralsEmit.cfg", {"EscLen": "2" if quick else "3"},
                               "literals-model", workers=min(ctx.workers, 8))
    lres = ctx.harness(BIN, ["literals"], stdin_path=lit.beh_path, out_name="lit_res.jsonl")
    lit_bad = sum(1 for line in open(lit.beh_path) if '"ok":false' in line.split('"req"')[-1])

    # ------------------------------------------------------------------ 3. random expressions, judged by TLC
    rx = ctx.harness(BIN, ["randexpr", "-n", "3000" if quick else "30000", "-ops", "6"], out_name="rx.jsonl")
    rx_results = list(ctx.read_results(rx))
    verdicts = validate(ctx, [r["observed"] for r in rx_results], "rx")

    # ------------------------------------------------------------------ 4. classification
    reproduced = 0
    canary_seen = 0
    fam_counts = {}
    for rp in gres:
        for r in ctx.read_results(rp):
            if r["class"]["fam"] == "canary":
                canary_seen += 1
                if not any(m.get("obs") == "tree" for m in r.get("mismatch") or []):
                    ctx.defer_fault("the harness's comparator accepted a corrupted expected tree (comparison is vacuous)")
                continue
            fam_counts[r["class"]["fam"]] = fam_counts.get(r["class"]["fam"], 0) + 1
            if not r["class"]["model_ok"] and not r.get("mismatch"):
                # the code returns the written tree although the mechanism layer does not: the spec misdescribes the code
                r.setdefault("drift", []).append({"obs": "Pratt-or-Dispatch-of-the-spec-disagrees-with-the-code"})
            for m in r.get("mismatch") or []:
                m["fam"] = r["class"]["fam"]
            if r.get("mismatch"):
                reproduced += 1
            ctx.add_result(r)
    if canary_seen != 1 and canary_line is not None:
        ctx.defer_fault("comparison canary not seen")
    for r in ctx.read_results(lres):
        if r.get("mismatch"):
            reproduced += 1
        ctx.add_result(r)
    for r in rx_results:
        v = verdicts[r["id"]]
        r["validated"] = True
        r["observed"] = {"tokens": len(r["observed"]["toks"]), "verdict": v}
        if not v["renders"]:
            r.setdefault("mismatch", []).append({"obs": "tree-is-not-the-written-tokens-in-order"})
        if not v["grouped"]:
            r.setdefault("mismatch", []).append({"obs": "grouping-not-the-documented-one"})
        if not v["pratt"]:
            r.setdefault("drift", []).append({"obs": "Grammar!Pratt-returns-another-tree"})
        if r.get("mismatch"):
            reproduced += 1
        ctx.add_result(r)
    ctx.notes["cases_by_family"] = fam_counts
    ctx.notes["model_leads"] = lead1 + lead2
    ctx.exhaustive = True
    if (lead1 or lead2 or model_bad or lit_bad) and reproduced == 0:
        raise MachineryFault("the mechanism layer violates the requirement on the model (%s, %d grammar / %d literal cases) but "
                             "the code returns what the requirement demands: the specification misdescribes the code"
                             % (lead1 + lead2, model_bad, lit_bad))
