"""C04 - the lint command's verdict is consistent.

spec/LintCmd.tla: requirement (exit = 1 iff syntax error or an effective ERROR; counts per effective severity;
neither depends on -json / verbosity) vs mechanism (main -> runLint -> Runner.Run -> run -> counting loop ->
summary/exit) over the product program class x .falco.yml overrides x flags.  Every cell TLC emits is replayed
against the real `falco` binary built from the tree under test (vhc04 c04replay).
"""
import json, os
import vlib, wlint
from vlib import MachineryFault

LEVEL = "model_checking"


def run(ctx):
    quick = ctx.tier == "quick"
    ctx.rule = ("cells = (program class: clean / error / warning / info / ignored error and their combinations, "
                "x include {none, ok, with a diagnostic, syntax error, missing}, syntax error in main, snippets with and "
                "without @scope) x 10 rule-override settings x {plain, -json} x {-, -v, -vv, yaml verbose} x "
                "{-, -generated}, emitted by TLC from spec/LintCmd.tla with the required and the predicted outcome; "
                "each cell is one run of the real falco binary in a scratch directory; distinct = distinct cells")
    ctx.assumptions = [
        "the generated fixtures yield exactly the diagnostics LinterErrors(p) lists (checked on every run by the "
        "contract pass: falco lint -json -vv without overrides, per program)",
        "rule names and default severities of the six rules used are those of docs/rules.md",
        "remote (-r) mode is not exercised (no network)",
    ]
    falco = ctx.build_falco()
    if ctx.replay:
        rp = json.load(open(ctx.replay))
        cell = dict(rp["case"]["input"]["cell"]); cell["id"] = rp["case"]["id"]
        p = os.path.join(ctx.work, "replay.jsonl")
        open(p, "w").write(json.dumps(cell) + "\n")
        ctx.add_results(ctx.harness("vhc04", ["c04replay", "-falco", falco], stdin_path=p))
        return

    m = ctx.tlc("LintCmd", defines={"Full": "FALSE" if quick else "TRUE"}, timeout=1500, tag="cells",
                coverage=not quick)
    if m.violated:
        raise MachineryFault("LintCmd.tla: mechanism layer violates requirement layer on the model: %s - a lead, not "
                             "a verdict; see %s" % (m.violated, m.out_path))
    if m.behaviours == 0:
        raise MachineryFault("LintCmd.tla emitted no cell")
    if not quick:
        dead = wlint.dead_actions(m.out_path, ("ParseMain", "Lint", "Count", "CountDone", "RunReturn", "Report"))
        if dead:
            raise MachineryFault("LintCmd.tla actions never taken: %s" % dead)
    ctx.exhaustive = True
    ctx.notes["cells"] = m.behaviours

    # contract pass: one cell per distinct program
    progs = {}
    cells = []
    for line in open(m.beh_path):
        c = json.loads(line)
        cells.append(line)
        progs.setdefault(json.dumps(c["prog"], sort_keys=True), line)
    ress, n = wlint.replay_sharded(ctx, "vhc04", ["c04replay", "-falco", falco, "-contract"], iter(progs.values()), "contract")
    ctx.notes["program_classes"] = n
    for rp in ress:
        for r in ctx.read_results(rp):
            if r.get("mismatch"):
                raise MachineryFault("concretiser contract broken: %s" % json.dumps(r["mismatch"])[:600])

    # canaries: requirement prediction flipped -> mismatch; mechanism prediction corrupted -> drift only
    base = json.loads(cells[0])
    c1 = dict(base); c1["id"] = "canary-exit"; c1["reqExit"] = 1 - base["reqExit"]
    c2 = dict(base); c2["id"] = "canary-printed"; c2["printed"] = dict(base["printed"]); c2["printed"]["e"] += 1
    canaries = {"canary-exit": "mismatch", "canary-printed": "drift"}

    def lines():
        yield json.dumps(c1)
        yield json.dumps(c2)
        for l in cells:
            yield l
    ress, total = wlint.replay_sharded(ctx, "vhc04", ["c04replay", "-falco", falco], lines(), "cell",
                                       nshards=min(ctx.workers, 16))
    seen = set()
    groups = {}
    for rp in ress:
        for r in ctx.read_results(rp):
            if r["id"] in canaries:
                kind = canaries[r["id"]]
                ok = bool(r.get("mismatch")) if kind == "mismatch" else (bool(r.get("drift")) and not r.get("mismatch"))
                if not ok:
                    raise MachineryFault("canary %s was accepted by the comparison (vacuous replay)" % r["id"])
                seen.add(r["id"])
                continue
            ctx.add_result(r)
    if seen != set(canaries):
        raise MachineryFault("canary results missing: %s" % (set(canaries) - seen))
