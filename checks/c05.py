"""C05 - linter, reference tables and simulator agree on types, scopes and signatures.

vhc05 c05gen: __generator__/predefined.yml + builtin.yml of the tree under test -> Predefined.tla, Builtins.tla
spec/TypeTables.tla (TLC: consistency of the tables; every cell = an initial state; prints the expected lint verdict)
 -> vhc05 c05replay: each cell as a one-use program through linter.New(conf).Lint and, when accepted,
    through the simulator in every scope of the cell (worker processes; a dead worker = crash of that cell).
"""
import json, os, collections
import vlib
from vlib import MachineryFault

LEVEL = "model_checking"


def generate_tables(ctx):
    d = os.path.join(ctx.work, "generated")
    os.makedirs(d, exist_ok=True)
    out = ctx.harness("vhc05", ["c05gen", "-repo", vlib.REPO, "-out", d], out_name="gen.json")
    counts = json.load(open(out))
    if counts["variables"] < 100 or counts["functions"] < 50:
        raise MachineryFault("generated tables look empty: %s" % counts)
    ctx.notes["generated_tables"] = counts
    return [os.path.join(d, "Predefined.tla"), os.path.join(d, "Builtins.tla")]


def cell_id(c):
    k = c["kind"]
    if k in ("assign", "compare"):
        return "%s:%s[%s] %s %s/%s[%s]" % (k, c["lt"], c["linit"], c["op"], c["rt"], c["form"], c["rinit"])
    if k == "var":
        return "var:%s/%s@%s" % (c["name"], c["access"], "+".join(c["scopes"]))
    if k == "fnconv":
        return "fnconv:%s(%s)#%d<-%s/%s@%s" % (c["name"], ",".join(c["sig"]), c["pos"], c["rt"], c["form"], "+".join(c["scopes"]))
    if k == "dyn":
        return "dyn:%s:%s@%s" % (c["how"], c["name"], "+".join(c["scopes"]))
    if k == "fnsig":
        return "fnsig:%s:%s(%s)@%s" % (c["why"], c["name"], ",".join(c["sig"]), "+".join(c["scopes"]))
    if k == "fn":
        return "fn:%s(%s)@%s" % (c["name"], ",".join(c["sig"]), "+".join(c["scopes"]))
    return "stmt:%s%s@%s" % (c["stmt"], "(%s)" % c["action"] if c.get("action") else "", "+".join(c["scopes"]))


def run(ctx):
    quick = ctx.tier == "quick"
    ctx.rule = ("cells = (assignment/comparison operator x left kind x value type x literal/local/predefined) + "
                "(predefined variable x get/set/unset) + (built-in function x declared signature) + (restart/error/esi/"
                "synthetic/return(action)), the last three x one scope or a two-scope annotation; TLC computes for each "
                "cell whether the tables allow it, the replayer lints the one-use program and executes what the linter "
                "accepts in every scope of the cell; distinct = distinct cells")
    ctx.assumptions = [
        "the operator tables of spec/TypeTables.tla are a faithful reading of the Fastly assignment/comparison type "
        "table falco cites (cross-examined against linter and simulator: 5 750 cells, see notes/C05.md)",
        "the one-use program of a cell (harness/cmd/vhc05 render) uses the construct the cell names and nothing else "
        "that could be rejected",
        "simulator failures are classified by the text of the error (type / undefined / scope / argument); failures "
        "that depend on argument values or on state the test interpreter lacks are not verdicts",
    ]
    extra = generate_tables(ctx)
    if ctx.replay:
        rp = json.load(open(ctx.replay))
        cells = os.path.join(ctx.work, "rp_cells.jsonl")
        with open(cells, "w") as f:
            f.write(json.dumps(rp["case"]["input"]) + "\n")
        for r in ctx.read_results(ctx.harness("vhc05", ["c05replay", "-workers", "1"], stdin_path=cells)):
            ctx.add_result(r)
        return

    # quick: every operator and statement cell, a seeded quarter of the variable and function cells (single scopes
    # and two-scope annotations); thorough: everything
    mod = 4 if quick else 1
    rem = ctx.seed % mod
    m = ctx.tlc("TypeTables", extra_files=extra, timeout=2400, tag="cells",
                defines={"Mode": '"all"', "Pairs": "TRUE", "SliceMod": str(mod), "SliceRem": str(rem)})
    if m.violated:
        raise MachineryFault("TypeTables.tla: %s violated on the model (see %s)" % (m.violated, m.out_path))
    if m.behaviours == 0:
        raise MachineryFault("no cells emitted (dead driver)")
    ctx.exhaustive = not quick
    ctx.notes["slice"] = {"mod": mod, "rem": rem}

    # canaries: one allowed cell with the expectation flipped, one rejected cell with the expectation flipped
    cells = os.path.join(ctx.work, "cells.jsonl")
    canaries = {}
    kinds = collections.Counter()
    with open(cells, "w") as f:
        for line in open(m.beh_path):
            b = json.loads(line)
            kinds[b["cell"]["kind"]] += 1
            f.write(line)
            c = b["cell"]
            if c["kind"] == "assign" and c["op"] == "=" and c["lt"] == "INTEGER" and c["rt"] == "INTEGER" and c["form"] == "literal" \
                    and c["linit"] == "none":
                cb = json.loads(line); cb["id"] = "canary-accept-flipped"; cb["lint"] = "reject"
                canaries[cb["id"]] = cb
            if c["kind"] == "stmt" and c["stmt"] == "synthetic" and c["scopes"] == ["RECV"]:
                cb = json.loads(line); cb["id"] = "canary-reject-flipped"; cb["lint"] = "accept"
                canaries[cb["id"]] = cb
        for cb in canaries.values():
            f.write(json.dumps(cb) + "\n")
    if len(canaries) != 2:
        raise MachineryFault("canary cells not found among the emitted cells")
    ctx.notes["cells_by_kind"] = dict(kinds)

    res = ctx.harness("vhc05", ["c05replay", "-workers", str(min(ctx.workers, 12))], stdin_path=cells,
                      out_name="cells_res.jsonl", timeout=3000)
    seen = set()
    other = collections.Counter()
    skipped = collections.Counter()
    n = 0
    for r in ctx.read_results(res):
        if r["id"] in canaries:
            seen.add(r["id"])
            if not any(i.get("obs") == "lint" for i in (r.get("mismatch") or [])):
                raise MachineryFault("canary %s: flipped expectation was accepted (comparison is vacuous)" % r["id"])
            continue
        n += 1
        obs = r.get("observed") or {}
        if obs.get("skipped"):
            skipped[obs["skipped"]] += 1
        for s in obs.get("sim") or []:
            if s["outcome"] not in ("ok", "type", "undefined", "scope", "args", "crash"):
                other[s["outcome"]] += 1
        # keep the evidence small: programs are only kept for failing cells
        ctx.add_result(r)
    if seen != set(canaries):
        raise MachineryFault("canaries not replayed: %s" % sorted(set(canaries) - seen))
    if n != m.behaviours:
        raise MachineryFault("replayed %d of %d cells" % (n, m.behaviours))
    ctx.notes["cells_not_concretised"] = dict(skipped)
    ctx.notes["simulator_failures_outside_the_statement"] = dict(other)
