"""C06 - request processing follows the Fastly request state machine.

spec/Lifecycle.tla (TLC: mechanism |= requirement, k-switch cover of behaviours)
 -> vh c06replay (each behaviour through the real Interpreter.ServeHTTP)
 -> spec/LifecycleTrace.tla (every observed execution validated against the spec;
    this is what decides) + the repository's own interpreter tests through hook H1.
"""
import json, os, subprocess, shutil
import vlib
from vlib import MachineryFault

LEVEL = "model_checking"


def shard(path, n, workdir, name):
    outs = [open(os.path.join(workdir, "%s_%02d.jsonl" % (name, i)), "w") for i in range(n)]
    k = 0
    with open(path) as f:
        for line in f:
            outs[k % n].write(line)
            k += 1
    for o in outs:
        o.close()
    return [o.name for o in outs], k


def replay_sharded(ctx, cmd, beh_path, name, nshards=None):
    """run vh <cmd> on shards in parallel; returns (result paths, trace paths)"""
    from concurrent.futures import ThreadPoolExecutor
    n = nshards or min(ctx.workers, 16)
    shards, total = shard(beh_path, n, ctx.work, name)
    if total == 0:
        raise MachineryFault("no behaviours to replay (dead driver)")
    ctx.build_bin("vhc06")

    def one(i):
        tr = shards[i] + ".traces"
        out = ctx.harness("vhc06", [cmd, "-traces", tr, "-prefix", "%s%d_" % (name, i)], stdin_path=shards[i],
                          out_name="%s_res_%02d.jsonl" % (name, i))
        return out, tr
    with ThreadPoolExecutor(max_workers=n) as ex:
        res = list(ex.map(one, range(n)))
    return [r[0] for r in res], [r[1] for r in res]


def validate_traces(ctx, trace_files, canary=True, tag="traces", chunk=50000):
    """validate recorded traces with LifecycleTrace.tla (chunks of `chunk` traces, two TLC runs at a time); canaries
    (corrupted copies of accepted-looking traces) go into the first chunk and must be rejected.
    returns (all ids, accepted ids, list of TLC results)"""
    ids, canaries = [], []
    first_exact = None      # any generated-program trace with a long enough last request
    first_miss = None       # ... whose last request went recv hash miss fetch (no pass path: the store is determined)
    chunks, cur, out = [], 0, None

    def new_chunk():
        nonlocal out, cur
        if out:
            out.close()
        pth = os.path.join(ctx.work, "traces_%s_%d.ndjson" % (tag, len(chunks)))
        chunks.append(pth)
        out = open(pth, "w")
        cur = 0
    new_chunk()
    for tf in trace_files:
        with open(tf) as f:
            for line in f:
                line = line.strip()
                if not line:
                    continue
                tr = json.loads(line)
                if not tr.get("reqs"):
                    continue
                if cur >= chunk:
                    new_chunk()
                ids.append(tr["id"])
                out.write(json.dumps(tr) + "\n")
                cur += 1
                last = tr["reqs"][-1]
                if last.get("exact") and len(last["flows"]) >= 4 and last["outcome"] == "ok":
                    if first_exact is None:
                        first_exact = tr
                    if first_miss is None and last["restarts"] == 0 and "miss" in last["flows"] and "fetch" in last["flows"] \
                            and "pass" not in last["flows"] and last.get("knowAfter"):
                        first_miss = tr
    if canary:
        if first_exact is None:
            raise MachineryFault("no trace to derive canaries from")
        # canary 1: two flow entries swapped; canary 2: restart count off by one; canary 3: stored-after flag flipped
        c1 = json.loads(json.dumps(first_exact)); c1["id"] = "canary-flow"
        fl = c1["reqs"][-1]["flows"]; fl[-2], fl[-1] = fl[-1], fl[-2]
        c2 = json.loads(json.dumps(first_exact)); c2["id"] = "canary-restarts"; c2["reqs"][-1]["restarts"] += 1
        cs = [c1, c2]
        if first_miss is not None:
            c3 = json.loads(json.dumps(first_miss)); c3["id"] = "canary-stored"
            c3["reqs"][-1]["storedAfter"] = not c3["reqs"][-1]["storedAfter"]
            cs.append(c3)
        for c in cs:
            out.write(json.dumps(c) + "\n")
            canaries.append(c["id"])
    out.close()
    from concurrent.futures import ThreadPoolExecutor
    par = 2 if len(chunks) > 1 else 1

    def run_chunk(pth):
        return ctx.tlc("LifecycleTrace", extra_files=[pth], defines={"TraceFile": '"%s"' % os.path.basename(pth)},
                       timeout=2400, workers=max(2, ctx.workers // par), tag="trace-validation:" + os.path.basename(pth))
    with ThreadPoolExecutor(max_workers=par) as ex:
        results = list(ex.map(run_chunk, chunks))
    accepted = set()
    for res in results:
        with open(res.beh_path) as f:
            for line in f:
                accepted.add(json.loads(line)["accept"])
    for c in canaries:
        if c in accepted:
            ctx.defer_fault("canary trace %s was accepted by LifecycleTrace (validator is vacuous)" % c)
    return ids, accepted, results


def h1_traces(ctx):
    """run the repository's interpreter tests with hook H1 on and convert the dump to traces"""
    dump = os.path.join(ctx.work, "h1.ndjson")
    env = vlib.goenv(False)
    env["VERIF_TRACE"] = dump
    p = subprocess.run(["go", "test", "-tags", "verif", "-vet=off", "-count=1", "./interpreter/"], cwd=vlib.REPO,
                       env=env, capture_output=True, text=True, timeout=900)
    ctx.notes["h1_go_test_rc"] = p.returncode
    if not os.path.exists(dump):
        return None
    out = os.path.join(ctx.work, "h1_traces.ndjson")
    ctx.harness("vhc06", ["c06h1", "-in", dump, "-out", out])
    return out


def timed_priority(b):
    """a later request stores (miss path) while a short-lived object of another key has expired without having been asked for
    again; or an object stored short is stored again / extended before that lifetime is over and asked for after it"""
    short = {}      # url -> time its short lifetime ends
    for r in b["reqs"]:
        t = r.get("t", 0)
        acts = {(c["sub"], c["beh"]) for c in r["prog"]}
        stores = any(c["sub"] == "fetch" for c in r["prog"]) and r.get("storedAfter")
        for u, end in list(short.items()):
            if u != r["url"] and t > end and stores and ("recv", "pass") not in acts:
                return True
            if u == r["url"] and t <= end and (("hit", "extend") in acts or (stores and ("fetch", "shortttl") not in acts)):
                return True
        if ("fetch", "shortttl") in acts and r.get("storedAfter"):
            short[r["url"]] = t + 5
        elif r["url"] in short:
            del short[r["url"]]
    return False


def run(ctx):
    quick = ctx.tier == "quick"
    ctx.rule = ("behaviours = complete request histories emitted by TLC from spec/Lifecycle.tla (k-switch cover over "
                "(subroutine, behaviour) labels + seeded simulation), each replayed through Interpreter.ServeHTTP and "
                "validated against LifecycleTrace.tla; distinct = distinct sequences of lifecycle paths")
    ctx.assumptions = [
        "stub backend answers 200/500 with Cache-Control: max-age=100; objects stored by an earlier request are >1ms old (2ms pause)",
        "requirement tables RSucc/Beh in spec/Lifecycle.tla are a faithful reading of the Fastly lifecycle",
        "verif-tagged read-only accessors VerifRecord/VerifCacheFresh report the interpreter state truthfully",
    ]
    if ctx.replay:
        rp = json.load(open(ctx.replay))
        tr = rp["case"].get("observed") or rp["case"]
        inp = os.path.join(ctx.work, "replay_beh.jsonl")
        with open(inp, "w") as f:
            f.write(json.dumps(rp["case"]["input"]) + "\n")
        ress, trs = replay_sharded(ctx, "c06replay", inp, "rp", nshards=1)
        ids, accepted, _ = validate_traces(ctx, trs, canary=False, tag="replay")
        for r in ctx.read_results(ress[0]):
            if r["id"] not in accepted:
                r["mismatch"] = [{"obs": "trace-rejected"}]
            ctx.add_result(r)
        return

    # 1. model checking + behaviour emission
    if quick:
        covers = [{"MaxReq": "2", "KCover": "1", "Statuses": "{200}", "JailChoices": '{"no"}', "DefinedChoices": "SomeAbsent"},
                  {"MaxReq": "2", "KCover": "0", "Statuses": "{404, 201, 1200, 2200, 3200, 4200, 5301}", "JailChoices": '{"no"}',
                   "Restricted": "TRUE"}]
    else:
        covers = [{"MaxReq": "3", "KCover": "2", "Statuses": "{200, 500}", "JailChoices": '{"no"}'},
                  {"MaxReq": "3", "KCover": "1", "Statuses": "{200}", "JailChoices": '{"no", "long"}'},
                  {"MaxReq": "2", "KCover": "2", "Statuses": "{200}", "JailChoices": '{"no"}', "DefinedChoices": "SomeAbsent"}]
    beh_files = []
    for defs in covers:
        m = ctx.tlc("Lifecycle", defines=defs, timeout=1500, tag="cover")
        if m.violated:
            raise MachineryFault("Lifecycle.tla: mechanism layer violates requirement layer on the model: %s "
                                 "(a lead, not a verdict - see tlc output)" % m.violated)
        beh_files.append(m.beh_path)
    # timed histories (real time passes between requests; the replayer sleeps): object lifetimes and the penalty box
    for cfg in ("LifecycleTimedObj.cfg", "LifecycleTimedJail.cfg", "LifecycleTimedTwo.cfg"):
        tm = ctx.tlc("Lifecycle", cfg=cfg, timeout=900, tag="timed:" + cfg)
        if tm.violated:
            raise MachineryFault("Lifecycle.tla (%s) violates %s on the model" % (cfg, tm.violated))
        lines = open(tm.beh_path).readlines()
        if quick and len(lines) > 160:
            # histories in which an object of ANOTHER key has expired unrevisited when a request stores, or an object is
            # re-stored / extended before its first lifetime is over, come first (state a sweep or a timer could damage)
            prio = [l for l in lines if timed_priority(json.loads(l))]
            ctx.rng.shuffle(prio)
            prio = prio[:60]
            rest = [l for l in lines if l not in set(prio)]
            lines = prio + ctx.rng.sample(rest, min(len(rest), 160 - len(prio)))
        tp = os.path.join(ctx.work, "timed_" + cfg + ".jsonl")
        open(tp, "w").writelines(lines)
        beh_files.append(tp)
    # seeded simulation for depth beyond the cover
    sim = ctx.tlc("Lifecycle", cfg="LifecycleSim.cfg", simulate=(400 if quick else 6000), depth=60,
                  defines={"MaxReq": "3", "KCover": "0", "Statuses": "{200, 500, 404, 201, 1200, 2200, 3200, 4200, 5301, 1404}",
                           "JailChoices": '{"no", "long"}',
                           "DefinedChoices": "SomeAbsent"},
                  timeout=900, tag="simulate")
    beh_files.append(sim.beh_path)
    allb = os.path.join(ctx.work, "all_beh.jsonl")
    seen = set()
    with open(allb, "w") as out:
        for bf in beh_files:
            for line in open(bf):
                if line in seen:
                    continue
                seen.add(line)
                out.write(line)
    ctx.notes["behaviours_emitted"] = len(seen)
    ctx.exhaustive = False
    # 2. replay
    ress, trs = replay_sharded(ctx, "c06replay", allb, "b")
    # 3. traces from the repository's own tests (hook H1)
    h1 = h1_traces(ctx)
    # 4. trace validation decides
    ids, accepted, tres = validate_traces(ctx, trs + ([h1] if h1 else []))
    ctx.notes["traces_total"] = len(ids)
    ctx.notes["traces_from_repo_tests_h1"] = sum(1 for i in ids if i.startswith("h1_"))
    for rp in ress:
        for r in ctx.read_results(rp):
            r["validated"] = True
            if r["id"] not in accepted:
                obs = [d.get("obs") for d in (r.get("drift") or [])] or ["trace-rejected"]
                r["mismatch"] = (r.get("mismatch") or []) + [{"obs": "trace-rejected", "diff": ",".join(sorted(set(obs))),
                                                              "detail": (r.get("drift") or [])[:4]}]
            ctx.add_result(r)
    if h1:
        for line in open(h1):
            tr = json.loads(line)
            r = {"id": tr["id"], "input": tr, "validated": True, "key": "h1:" + json.dumps([q["flows"] for q in tr["reqs"]])}
            if tr["id"] not in accepted:
                r["mismatch"] = [{"obs": "trace-rejected", "source": "repo-test"}]
            ctx.add_result(r)
    for t in tres:
        if t.violated:
            raise MachineryFault("LifecycleTrace invariant %s failed on a recorded execution; inspect %s" % (t.violated, t.out_path))
