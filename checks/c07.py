"""C07 - expressions and assignments compute what VCL semantics prescribe (incl. ACL matching).

spec/Eval.tla     reference evaluator (requirement layer), written from the language reference
spec/EvalGen.tla  enumeration of one-step cells, if/switch shapes, statement-kind pairs and seeded random
                  programs; TLC computes the expected store / log lines after every top-level statement
spec/Acl.tla      longest-prefix requirement vs the scan of matchesAcl (TLC: mechanism |= requirement,
                  order independence), every list with the expected verdict for every address
 -> vhc07 replay  each program, statement by statement, through the exported Interpreter API with
                  read-back of the whole variable pool
 -> vhc07 acl     each list as a real `acl` declaration (IPv4 and IPv6 embedding), `var.p ~ acl` per address
"""
import copy, json, os, threading
from concurrent.futures import ThreadPoolExecutor
import vlib
from vlib import MachineryFault

LEVEL = "model_checking"

_lock = threading.Lock()


def tlc_jobs(ctx, jobs):
    """run several TLC jobs at the same time; each job = (name, kwargs for ctx.tlc).  ctx.tlc is not re-entrant
    (it numbers its scratch directories by the length of ctx.tlc_runs), so every job runs on a shallow copy of the
    context with its own work directory and the counters are merged afterwards."""
    def one(job):
        name, kw = job
        sub = copy.copy(ctx)
        sub.tlc_runs = []
        sub.work = os.path.join(ctx.work, "job_" + name)
        os.makedirs(sub.work, exist_ok=True)
        s0, t0 = sub.states, sub.transitions
        if "seed" in kw:
            sub.seed = kw.pop("seed")
        res = sub.tlc(**kw)
        with _lock:
            ctx.tlc_runs += sub.tlc_runs
            ctx.states += sub.states - s0
            ctx.transitions += sub.transitions - t0
        return name, res
    with ThreadPoolExecutor(max_workers=len(jobs)) as ex:
        return dict(ex.map(one, jobs))


def shard_lines(paths, n, workdir, name):
    outs = [open(os.path.join(workdir, "%s_%02d.jsonl" % (name, i)), "w") for i in range(n)]
    k = 0
    for p in paths:
        with open(p) as f:
            for line in f:
                if line.strip():
                    outs[k % n].write(line)
                    k += 1
    for o in outs:
        o.close()
    return [o.name for o in outs], k


def run_sharded(ctx, binary, cmd, shards, name):
    def one(i):
        return ctx.harness(binary, [cmd, "-prefix", "%s%d_" % (name, i)], stdin_path=shards[i],
                           out_name="%s_res_%02d.jsonl" % (name, i), timeout=3000)
    with ThreadPoolExecutor(max_workers=len(shards)) as ex:
        return list(ex.map(one, range(len(shards))))


def has_empty_regex(x):
    if isinstance(x, dict):
        if x.get("k") == "match" and not x.get("rx", {}).get("lit"):
            return True
        return any(has_empty_regex(v) for v in x.values())
    if isinstance(x, list):
        return any(has_empty_regex(v) for v in x)
    return False


def canary_round(ctx, cells_path, sim_path, acl_path):
    """Canaries are planted on the EXPECTED side of cases that pass on the tree under test: a few candidate cases are
    replayed twice in a separate harness run, once as emitted and once with one expected value corrupted.  A candidate
    whose original does not pass (the tree under test differs there - that is reported by the main replay) is not used.
    An accepted corruption, or no usable candidate, is a *deferred* fault: it never pre-empts real mismatches."""
    K = 6
    cands = []          # (kind, original, corrupted)
    with open(cells_path) as f:
        n = 0
        for line in f:
            b = json.loads(line)
            last = b["exp"][-1]
            if last["st"] == "ok" and last["S"]["i1"]["t"] == "INT" and last["S"]["s1"]["t"] == "STR" and not has_empty_regex(b["stmts"]):
                c1 = json.loads(line); c1["exp"][-1]["S"]["i1"]["i"] += 1
                c2 = json.loads(line); c2["exp"][-1]["S"]["s1"]["set"] = not c2["exp"][-1]["S"]["s1"]["set"]
                cands += [("expected-integer", b, c1), ("expected-set-flag", b, c2)]
                n += 1
                if n >= K:
                    break
    with open(sim_path) as f:
        n = 0
        for line in f:
            b = json.loads(line)
            if b["exp"][-1]["st"] == "ok" and b.get("fin", {}).get("i1", {}).get("t") == "STR" and not has_empty_regex(b["stmts"]):
                c3 = json.loads(line); c3["fin"]["i1"]["cs"] = c3["fin"]["i1"]["cs"] + ["9"]
                cands.append(("expected-final-value(whole-program)", b, c3))
                n += 1
                if n >= K:
                    break
    inp = os.path.join(ctx.work, "canary_progs.jsonl")
    with open(inp, "w") as o:
        for _, orig, bad in cands:
            o.write(json.dumps(orig) + "\n")
            o.write(json.dumps(bad) + "\n")
    out = ctx.harness("vhc07", ["replay", "-prefix", "cn"], stdin_path=inp, out_name="canary_progs_res.jsonl")
    step, whole = {}, {}
    for r in ctx.read_results(out):
        rid = r["id"][2:]
        if "_whole_" in rid:
            if not (r.get("class") or {}).get("skipped"):
                whole.setdefault(int(rid.split("_")[0]), []).append(bool(r.get("mismatch")))
        else:
            step[int(rid)] = bool(r.get("mismatch"))
    verdict = {}
    for k, (kind, _, _) in enumerate(cands):
        o, c = 2 * k + 1, 2 * k + 2
        if kind.startswith("expected-final"):
            usable = step.get(o) is False and len(whole.get(o, [])) == 2 and not any(whole[o]) and step.get(c) is False
            rejected = any(whole.get(c, []))
        else:
            usable = step.get(o) is False
            rejected = step.get(c) is True
        if usable:
            verdict.setdefault(kind, []).append(rejected)
    for kind in sorted(set(k for k, _, _ in cands)):
        v = verdict.get(kind, [])
        if not v:
            ctx.defer_fault("canary %s: none of the candidate cases passes on this tree, the comparison could not be exercised" % kind)
        elif not all(v):
            ctx.defer_fault("canary %s was accepted by the replayer (comparison is vacuous)" % kind)
    ctx.notes["canaries"] = {k: "%d/%d rejected" % (sum(v), len(v)) for k, v in verdict.items()}

    # ACL: same scheme
    acands = []
    with open(acl_path) as f:
        for line in f:
            b = json.loads(line)
            if len(b["acl"]) >= 1 and sum(b["amb"].values()) == 0:
                bad = json.loads(line)
                bad["r"]["0"] = 1 - bad["r"]["0"]
                acands.append((b, bad))
                if len(acands) >= K:
                    break
    ainp = os.path.join(ctx.work, "canary_acl.jsonl")
    with open(ainp, "w") as o:
        for orig, bad in acands:
            o.write(json.dumps(orig) + "\n")
            o.write(json.dumps(bad) + "\n")
    aout = ctx.harness("vhc07", ["acl", "-prefix", "ca"], stdin_path=ainp, out_name="canary_acl_res.jsonl")
    fam = {}
    for r in ctx.read_results(aout):
        n, family = r["id"][2:].split("_", 1)
        if family in ("v4", "v6"):
            fam.setdefault(int(n), []).append(bool(r.get("mismatch")))
    av = []
    for k in range(len(acands)):
        o, c = 2 * k + 1, 2 * k + 2
        if fam.get(o) and not any(fam[o]):
            av.append(bool(fam.get(c)) and all(fam[c]))
    if not av:
        ctx.defer_fault("ACL canary: none of the candidate lists passes on this tree, the comparison could not be exercised")
    elif not all(av):
        ctx.defer_fault("ACL canary was accepted (comparison is vacuous)")
    ctx.notes["canaries"]["acl-verdict"] = "%d/%d rejected" % (sum(av), len(av))


def run(ctx):
    quick = ctx.tier == "quick"
    ctx.rule = ("cases = programs (one-step cells, if/switch shapes, statement-kind pairs, seeded random programs) whose store "
                "and log lines after every top-level statement were computed by TLC from spec/Eval.tla, replayed statement by "
                "statement through the Interpreter API with full pool read-back; plus ACLs x addresses from spec/Acl.tla in an "
                "IPv4 and an IPv6 embedding; distinct = distinct program texts / ACL declarations")
    ctx.assumptions = [
        "spec/Eval.tla is a faithful reading of the Fastly language reference for the core language (DESIGN.md appendix B); "
        "cells it leaves UNSPEC / OOR are only required to yield a value or a reported error",
        "statement-by-statement execution through ProcessBlockStatement after TestProcessInit/SetScope equals execution inside a subroutine",
        "FLOAT values are compared exactly (all operands are dyadic rationals n/64 with small numerators); a negative zero prints like zero",
        "ACL: the W model bits are embedded at spread-out bit positions of IPv4/IPv6 addresses; all other address bits are zero",
    ]
    ctx.build_bin("vhc07")

    if ctx.replay:
        rp = json.load(open(ctx.replay))
        beh = rp["case"]["input"].get("beh")
        if beh is None:
            raise MachineryFault("replay file carries no behaviour")
        inp = os.path.join(ctx.work, "replay.jsonl")
        with open(inp, "w") as f:
            f.write(json.dumps(beh) + "\n")
        cmd = "acl" if "acl" in beh else "replay"
        ctx.add_results(ctx.harness("vhc07", [cmd, "-prefix", "rp"], stdin_path=inp))
        return

    # ------------------------------------------------------------------ 1. TLC: model checking + emission
    nsim = 4
    per = (150 if quick else 5000)
    jobs = [
        ("cells", dict(module="EvalGen", cfg="EvalCells.cfg", workers=1, timeout=1500, tag="cells")),
        ("shapes", dict(module="EvalGen", cfg="EvalShapes.cfg", workers=1, timeout=1500, tag="shapes")),
        ("acl", dict(module="Acl", cfg="Acl.cfg", workers=2, timeout=1500, tag="acl-exhaustive",
                     defines=({"W": "3", "MaxEntries": "2", "Canonical": "FALSE"} if quick else
                              {"W": "3", "MaxEntries": "3", "Canonical": "TRUE"}))),
        ("aclsim", dict(module="Acl", cfg="AclSim.cfg", workers=1, simulate=(300 if quick else 6000), depth=9, timeout=1500,
                        tag="acl-random")),
    ]
    if not quick:
        jobs.append(("acl2", dict(module="Acl", cfg="Acl.cfg", workers=2, timeout=1500, tag="acl-exhaustive-noncanonical",
                                  defines={"W": "3", "MaxEntries": "2", "Canonical": "FALSE"})))
        jobs.append(("acl4", dict(module="Acl", cfg="Acl.cfg", workers=2, timeout=1500, tag="acl-exhaustive-w4",
                                  defines={"W": "4", "MaxEntries": "2", "Canonical": "TRUE"})))
    for k in range(nsim):
        jobs.append(("sim%d" % k, dict(module="EvalGen", cfg="EvalSim.cfg", workers=1, simulate=per, depth=90, timeout=2400,
                                       seed=ctx.seed * 1000 + k, tag="sim")))
    res = tlc_jobs(ctx, jobs)
    for name, r in res.items():
        if r.violated:
            raise MachineryFault("%s: invariant %s violated on the model (a lead, not a verdict) - see %s" % (name, r.violated, r.out_path))
        if r.behaviours == 0:
            raise MachineryFault("%s emitted no behaviours (dead driver)" % name)
    ctx.notes["behaviours"] = {n: r.behaviours for n, r in res.items()}
    ctx.exhaustive = False
    ctx.notes["exhaustive_parts"] = "one-step cells, if/switch shapes, statement pairs, ACL lists within the stated bounds; random programs and long ACLs are sampled"

    # ------------------------------------------------------------------ 2. replay of programs
    nsh = min(ctx.workers, 16)
    prog_files = [res["cells"].beh_path, res["shapes"].beh_path] + [res["sim%d" % k].beh_path for k in range(nsim)]
    shards, total = shard_lines(prog_files, nsh, ctx.work, "prog")
    outs = run_sharded(ctx, "vhc07", "replay", shards, "p")
    for o in outs:
        for r in ctx.read_results(o):
            cls = r.get("class") or {}
            if cls.get("skipped"):
                continue
            if not r.get("validated"):
                raise MachineryFault("replayer could not bind a program: %s" % json.dumps(r.get("drift"))[:400])
            ctx.add_result(r)

    # ------------------------------------------------------------------ 3. replay of ACLs
    acl_files = [res[n].beh_path for n in res if n.startswith("acl")]
    shards, total = shard_lines(acl_files, nsh, ctx.work, "acl")
    outs = run_sharded(ctx, "vhc07", "acl", shards, "a")
    for o in outs:
        for r in ctx.read_results(o):
            if not r.get("validated"):
                raise MachineryFault("ACL replayer could not bind a case: %s" % json.dumps(r.get("drift"))[:400])
            ctx.add_result(r)

    # ------------------------------------------------------------------ 4. canaries (never pre-empt the verdict)
    canary_round(ctx, res["cells"].beh_path, res["sim0"].beh_path, res["acl"].beh_path)
