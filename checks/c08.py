"""C08 - simulation is total and bounded.

spec/Total.tla           requirement: outcome of every case is a value/response or a *reported* error; mechanism:
                         which of the two (type arms, zero-divisor and shift guards, call-depth guard, include cycles)
                         families: assignment operator x type x boundary operand class cells, built-in function x
                         declared signature x argument class vectors (table generated from __generator__/builtin.yml
                         of the tree under test), all call graphs over 3 subroutines x 1..N requests, all include
                         graphs over 3 modules
spec/LifecycleTotal.tla  the request state machine of Lifecycle.tla under hostile programs (restart / error in every
                         scope): restarts <= 3, bounded progress, never stuck; k-switch cover of histories
 -> vhc08 run            every case concretised to VCL and executed by the real interpreter in supervised child
                         processes (lib/watchrun.py): a Go panic / fatal error kills the child = "crash", no answer
                         within the budget (re-run alone) = "hang"; both are violations
"""
import json, os, sys
from concurrent.futures import ThreadPoolExecutor
import vlib
from vlib import MachineryFault
sys.path.insert(0, os.path.join(vlib.ROOT, "lib"))
import watchrun
from c07 import tlc_jobs

LEVEL = "model_checking"

# regression inputs: every crash / hang ever observed by this check stays in the population as a concrete case
SEEDED = [
    {"k": "stmt", "setup": "declare local var.i INTEGER;\n", "stmt": "set var.i <<= -1;\n"},
    {"k": "stmt", "setup": "declare local var.i INTEGER;\n", "stmt": "set var.i rol= -1;\n"},
    {"k": "stmt", "setup": "declare local var.i INTEGER;\n", "stmt": "set var.i ror= 65;\n"},
    {"k": "stmt", "setup": "declare local var.i INTEGER;\n", "stmt": "set var.i %= 0;\n"},
    {"k": "stmt", "setup": "declare local var.r RTIME;\n", "stmt": "set var.r /= 0;\n"},
    {"k": "stmt", "setup": "declare local var.i INTEGER;\ndeclare local var.f FLOAT;\nset var.f = 0.5;\n", "stmt": "set var.i /= var.f;\n"},
    {"k": "stmt", "setup": "", "stmt": "log accept.language_filter_basic(\"a\", \"a\", \"a\", -1);\n"},
    {"k": "stmt", "setup": "", "stmt": "log fastly.hash(\"\", 0, 0, 0);\n"},
    {"k": "stmt", "setup": "", "stmt": "log http_status_matches(0, \"\");\n"},
    {"k": "stmt", "setup": "", "stmt": "log randomstr(-1);\n"},
    {"k": "stmt", "setup": "", "stmt": "log randomstr(9223372036854775807);\n"},
    {"k": "stmt", "setup": "", "stmt": "log std.itoa_charset(0, \"\");\n"},
    {"k": "stmt", "setup": "", "stmt": "log std.itoa_charset(-1, \"a\");\n"},
    {"k": "serve", "vcl": "sub vcl_recv { return (restart); }\n", "nreq": 2},
    {"k": "serve", "vcl": "sub vcl_recv { restart; }\n", "nreq": 2},
    {"k": "serve", "vcl": "sub f { call f; }\nsub vcl_recv { call f; error 600; }\n", "nreq": 3},
    {"k": "serve", "vcl": "sub vcl_recv { if (req.http.A ~ \"(a+)+$\") { error 601; } error 600; }\nsub vcl_error { return (deliver); }\n", "nreq": 1},
]


def lifecycle_cfg(ctx, overrides, sim=False):
    """LifecycleTotal's configuration is derived from spec/Lifecycle.cfg at run time: Lifecycle.tla belongs to C06 and
    gains constants; every constant keeps C06's value unless overridden here."""
    consts = []
    in_consts = False
    for line in open(os.path.join(vlib.ROOT, "spec", "Lifecycle.cfg")):
        t = line.strip()
        if t.startswith("CONSTANT"):
            in_consts = True
            continue
        if in_consts:
            if ("=" in t or "<-" in t) and not t.startswith("\\*"):
                name = t.replace("<-", "=").split("=")[0].strip()
                consts.append((name, t))
            elif t:
                in_consts = False
    lines = ["SPECIFICATION TSpec", "CONSTANTS"]
    for name, t in consts:
        if overrides.get(name) == "<first>":
            # keep only the first choice C06 lists (its "nothing special" value), whatever its type is today
            val = t.split("=", 1)[1].strip() if "=" in t and "<-" not in t else None
            if val and val.startswith("{") and "," in val:
                t = "%s = %s}" % (name, val.split(",")[0])
            lines.append("  " + t)
            continue
        lines.append("  " + ("%s = %s" % (name, overrides[name]) if name in overrides else t))
    if sim:
        lines += ["INVARIANTS", "  Bounded", "  RestartsCounted", "  ProgressBound", "  EmitEndInv", "CHECK_DEADLOCK FALSE"]
    else:
        lines += ["INVARIANTS", "  Bounded", "  RestartsCounted", "  ProgressBound", "  NeverStuck", "  EmitInv", "VIEW View",
                  "CHECK_DEADLOCK FALSE"]
    path = os.path.join(ctx.work, "LifecycleTotalSim.cfg" if sim else "LifecycleTotal.cfg")
    with open(path, "w") as f:
        f.write("\n".join(lines) + "\n")
    return path


def load_cases(paths, prefix):
    cases = []
    for p in paths:
        with open(p) as f:
            for line in f:
                line = line.strip()
                if line:
                    b = json.loads(line)
                    b["id"] = "%s%d" % (prefix, len(cases) + 1)
                    cases.append(b)
    return cases


def case_text(b):
    c = b["case"]
    if c["k"] == "assign":
        return "set %s(%s) %s %s(%s) as %s" % (c["vt"], c["l"], c["op"], c["rt"], c["r"], c["form"])
    if c["k"] == "builtin":
        return "%s%s classes %s" % (c["fn"], c["types"], c["classes"])
    if c["k"] == "jump":
        return "%s %s in a %s subroutine called from vcl_%s" % (c["jstmt"], c["nest"], c["callkind"], c["scope"])
    if c["k"] == "esi":
        return "esi document %s" % " ".join(c["doc"])
    if c["k"] == "vars":
        return "read %s in vcl_%s after path %s" % (c["name"], c["scope"], c["path"])
    if c["k"] == "bigcalls":
        return "call graph %s of %d subs doubled=%s recursive=%s functional=%s" % (c["shape"], c["size"], c["doubled"], c["recursive"], c["functional"])
    if c["k"] == "initerr":
        return "init-error program %s x %d requests on one instance" % (c["class"], c["nreq"])
    if c["k"] == "director":
        return "director %s weight=%s quorum=%s retries=%s route=%s" % (c["dtype"], c["weight"], c["quorum"], c["retries"], c.get("route"))
    if c["k"] == "prog":
        return "random program of %d statements" % len(b["prog"]["stmts"])
    if c["k"] == "request":
        return "request %s path=%s query=%s headers=%s prog=%s" % (c["method"], c["path"], c["query"], c["headers"], c["prog"])
    return c["k"]


def run(ctx):
    quick = ctx.tier == "quick"
    ctx.rule = ("cases = cells of spec/Total.tla (assignment operator x type x boundary operand class; built-in x signature x "
                "argument class vector; call graph x requests; include graph) and hostile lifecycle histories of "
                "spec/LifecycleTotal.tla, each executed by the real interpreter in a supervised child process; "
                "distinct = distinct concrete VCL texts")
    ctx.assumptions = [
        "a case that does not answer within 60 s (normal: < 50 ms), also when re-run alone, is a hang",
        "children run with RLIMIT_AS = 6 GiB: exhausting it is a crash",
        "assignment / built-in cases run through ProcessBlockStatement after TestProcessInit (the test runner's path), "
        "call graphs, include graphs and lifecycle histories through Interpreter.ServeHTTP (the simulator's path)",
        "the built-in table is __generator__/builtin.yml of the tree under test",
    ]
    vh = ctx.build_bin("vhc08")
    budget = 60

    if ctx.replay:
        rp = json.load(open(ctx.replay))
        b = rp["case"]["input"]["beh"]
        b["id"] = "rp1"
        res = watchrun.supervise(vh, ["run"], [b], ctx.work, "replay", budget=budget, mem_bytes=6 << 30)
        classify(ctx, [b], res)
        return

    # ------------------------------------------------------------------ 1. the built-in table of this tree, TLC
    yml = os.path.join(vlib.REPO, "__generator__", "builtin.yml")
    table = os.path.join(ctx.work, "BuiltinsTable.tla")
    out = ctx.harness("vhc08", ["builtins-tla", "-yml", yml], out_name="BuiltinsTable.gen")
    os.replace(out, table)
    if os.path.getsize(table) < 1000:
        raise MachineryFault("built-in table could not be generated from %s" % yml)
    vyml = os.path.join(vlib.REPO, "__generator__", "predefined.yml")
    vtable = os.path.join(ctx.work, "VariablesTable.tla")
    os.replace(ctx.harness("vhc08", ["variables-tla", "-yml", vyml], out_name="VariablesTable.gen"), vtable)
    if os.path.getsize(vtable) < 1000:
        raise MachineryFault("variable table could not be generated from %s" % vyml)
    common = dict(module="Total", workers=2, timeout=1500, extra_files=[table, vtable])
    jobs = [
        ("assign", dict(common, cfg="Total_assign.cfg", tag="assign")),
        ("builtin", dict(common, cfg="Total_builtin.cfg", tag="builtin",
                         defines={"Mode": '"builtin"' if quick else '"builtin-full"'})),
        ("calls", dict(common, cfg="Total_calls.cfg", tag="calls", defines={"MaxReq": "2" if quick else "3"})),
        ("include", dict(common, cfg="Total_include.cfg", tag="include")),
        ("request", dict(common, cfg="Total_request.cfg", tag="request")),
        ("jump", dict(common, cfg="Total_jump.cfg", tag="jump")),
        ("bigcalls", dict(common, cfg="Total_bigcalls.cfg", tag="bigcalls")),
        ("vars", dict(common, cfg="Total_vars.cfg", tag="vars")),
        ("esi", dict(common, cfg="Total_esi.cfg", tag="esi", defines={"MaxReq": "2" if quick else "3"})),
        ("initerr", dict(common, cfg="Total_initerr.cfg", tag="initerr")),
        ("director", dict(common, cfg="Total_director.cfg", tag="director")),
        ("lifecycle", dict(module="LifecycleTotal", cfg="LifecycleTotal.cfg", workers=2, timeout=1500, tag="lifecycle",
                           extra_files=[lifecycle_cfg(ctx, dict({"Urls": '{"a"}', "JailChoices": "<first>", "MaxRestarts": "3"},
                                                              **({"MaxReq": "2", "KCover": "2", "Statuses": "{200}"} if quick else
                                                                 {"MaxReq": "3", "KCover": "3", "Statuses": "{200, 500}"})))])),
    ]
    # random walks over the statement alphabet of C07 (spec/EvalGen.tla, simulation mode): any program, also one the
    # reference evaluator stops predicting, must run to a value or a reported error
    for k in range(2):
        jobs.append(("walk%d" % k, dict(module="EvalGen", cfg="EvalSim.cfg", workers=1, simulate=(150 if quick else 4000), depth=90,
                                        timeout=2400, seed=ctx.seed * 1000 + 500 + k, tag="walk")))
    # seeded walks of the hostile lifecycle machine (longer histories than the k-switch cover reaches)
    simcfg = lifecycle_cfg(ctx, {"Urls": '{"a", "b"}', "JailChoices": "<first>", "MaxRestarts": "3", "MaxReq": "3", "KCover": "0",
                                 "Statuses": "{200, 500}"}, sim=True)
    jobs.append(("lifewalk", dict(module="LifecycleTotal", cfg="LifecycleTotalSim.cfg", workers=1, simulate=(300 if quick else 6000), depth=120,
                                  timeout=1500, extra_files=[simcfg], tag="lifecycle-walk")))
    res = tlc_jobs(ctx, jobs)
    for name, r in res.items():
        if r.violated:
            raise MachineryFault("%s: %s violated on the model (a lead, not a verdict) - see %s" % (name, r.violated, r.out_path))
        if r.behaviours == 0:
            raise MachineryFault("%s emitted no cases (dead driver)" % name)
    ctx.notes["cases_emitted"] = {n: r.behaviours for n, r in res.items()}
    ctx.exhaustive = True
    ctx.notes["exhaustive_parts"] = ("all cells / graphs of Total.tla within the class tables; lifecycle histories: k-switch cover "
                                     "(not all paths)")

    cases = []
    for name, pre in (("assign", "a"), ("builtin", "b"), ("calls", "c"), ("include", "i"), ("request", "r"), ("jump", "j"),
                      ("initerr", "e"), ("director", "d"), ("bigcalls", "g"), ("vars", "v"), ("esi", "x")):
        cases += load_cases([res[name].beh_path], pre)
    # lifecycle behaviours are wrapped into the case format
    import itertools
    with open(res["lifecycle"].beh_path) as f1, open(res["lifewalk"].beh_path) as f2:
        n = 0
        seen = set()
        for line in itertools.chain(f1, f2):
            if line in seen:
                continue
            seen.add(line)
            b = json.loads(line)
            n += 1
            cases.append({"id": "l%d" % n, "case": {"k": "lifecycle", "reqs": b["reqs"]}, "allowed": ["value", "error"],
                          "predict": "error" if any(r["outcome"] == "error" for r in b["reqs"]) else "value",
                          "per_req": ",".join(r["outcome"] for r in b["reqs"])})
    for k in range(2):
        with open(res["walk%d" % k].beh_path) as f:
            for n, line in enumerate(f):
                p = json.loads(line)
                p.pop("exp", None)
                cases.append({"id": "w%d_%d" % (k, n + 1), "case": {"k": "prog"}, "prog": p, "allowed": ["value", "error"], "predict": "any"})
    for i, c in enumerate(SEEDED):
        cases.append({"id": "s%d" % (i + 1), "case": c, "allowed": ["value", "error"], "predict": "any"})
    # canary: a case whose child certainly dies - the supervisor must report it as a crash and nothing else
    cases.append({"id": "canary-crash", "case": {"k": "stmt", "setup": "", "stmt": "VERIF-CANARY-PANIC"}, "allowed": [], "predict": "any"})

    # ------------------------------------------------------------------ 2. supervised execution, sharded
    nsh = min(ctx.workers, 12)
    shards = [cases[i::nsh] for i in range(nsh)]

    def one(i):
        return watchrun.supervise(vh, ["run"], shards[i], ctx.work, "shard%02d" % i, budget=budget, mem_bytes=6 << 30,
                                  env={"VERIF_CANARY": "1"}, family=lambda b: (b["case"]["k"], b["case"].get("fn")),
                                  max_bad_per_family=4)
    results = {}
    with ThreadPoolExecutor(max_workers=nsh) as ex:
        for r in ex.map(one, range(nsh)):
            results.update(r)
    can = results.pop("canary-crash", None)
    if not can or can.get("outcome") != "crash":
        # deferred: a supervisor problem must not hide crashes / hangs found in the same run
        ctx.defer_fault("the crash canary was not reported as a crash: %s" % can)
    cases = [c for c in cases if c["id"] != "canary-crash"]
    classify(ctx, cases, results)


def classify(ctx, cases, results):
    unbound = 0
    drifts = []
    for b in cases:
        r = results.get(b["id"])
        if r is None:
            raise MachineryFault("no result for case %s" % b["id"])
        c = b["case"]
        out = r.get("outcome")
        rec = {"id": b["id"], "input": {"case": c, "text": r.get("text"), "beh": b}, "observed": {"outcome": out, "msg": r.get("msg")},
               "validated": True, "class": {"family": c["k"], "fn": c.get("fn"), "op": c.get("op"), "vt": c.get("vt"), "rt": c.get("rt")}}
        if out == "skipped":
            # the family already produced several crashes / hangs in this shard (they are reported); not run
            ctx.notes["skipped_after_repeated_crashes"] = ctx.notes.get("skipped_after_repeated_crashes", 0) + 1
            continue
        if out == "unbound":
            unbound += 1
            why = "%s: %s" % (c.get("fn") or c["k"], (r.get("msg") or "")[:90])
            ctx.notes.setdefault("unbound_reasons", {})
            if len(ctx.notes["unbound_reasons"]) < 60:
                ctx.notes["unbound_reasons"][why] = ctx.notes["unbound_reasons"].get(why, 0) + 1
            rec["validated"] = False
            rec["drift"] = [{"obs": "unbound", "case": case_text(b), "msg": r.get("msg")}] if c["k"] not in ("assign", "builtin") else []
            rec["input"] = None
            ctx.add_result(rec)
            continue
        rec["key"] = r.get("text") or json.dumps(c, sort_keys=True)
        if out not in b.get("allowed", ["value", "error"]):
            rec["mismatch"] = [{"obs": out, "family": c["k"], "case": case_text(b), "msg": (r.get("msg") or "")[:300]}]
            fs = ctx.notes.setdefault("failing_summary", {})
            key = "%s %s: %s: %s" % (c["k"], c.get("fn") or c.get("name") or c.get("dtype") or c.get("class") or c.get("callkind") or c.get("op") or "", out,
                                      (r.get("msg") or "")[:70])
            if key in fs or len(fs) < 40:
                fs[key] = fs.get(key, 0) + 1
        else:
            if r.get("restarts", 0) > 3:
                rec["mismatch"] = [{"obs": "restarts-exceed-3", "got": r.get("restarts")}]
            pred = b.get("predict", "any")
            if pred != "any" and pred != out:
                rec["drift"] = [{"obs": "outcome-kind", "case": case_text(b), "predicted": pred, "got": out, "msg": (r.get("msg") or "")[:160]}]
                drifts += rec["drift"]
            elif c["k"] == "esi" and r.get("per_req"):
                rec["drift"] = [{"obs": "esi-body", "case": case_text(b), "predicted": "", "got": r["per_req"][:200], "msg": ""}]
                drifts += rec["drift"]
            elif c["k"] == "lifecycle" and b.get("per_req") and r.get("per_req") != b["per_req"]:
                rec["drift"] = [{"obs": "per-request-outcome", "predicted": b["per_req"], "got": r.get("per_req")}]
            # keep evidence small: passing cases carry no behaviour
            rec["input"] = {"case": case_text(b), "text": r.get("text")}
        ctx.add_result(rec)
    ctx.notes["unbound_cases"] = unbound
    summary = {}
    for d in drifts:
        k = "%s: predicted %s, got %s" % (d.get("case", d.get("obs")).split("(")[0] if d.get("obs") == "outcome-kind" else d.get("obs"),
                                           d.get("predicted"), d.get("got"))
        summary[k] = summary.get(k, 0) + 1
    ctx.notes["drift_total"] = len(drifts)
    ctx.notes["drift_examples"] = drifts[:40]
