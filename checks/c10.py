"""C10 - test-runner verdicts are faithful.

spec/Tester.tla (TLC: mechanism |= requirement over every sequence of <= MaxLen tests x coverage x main VCL,
prints per sequence the predicted cases, logs, summary, counter, exit status)
 -> vhc10 c10replay: every sequence rendered to main.vcl + main.test.vcl and run, each run in a process of
    its own, through tester.New(conf, opts).Run(main), `falco test -json` and `falco test`.
"""
import json, os
import vlib
from vlib import MachineryFault

LEVEL = "model_checking"

FAMILIES = ["assert", "true", "false", "equal", "not_equal", "strict_equal", "not_strict_equal", "equal_fold",
            "match", "not_match", "contains", "not_contains", "starts_with", "ends_with", "is_json", "is_notset"]


def tla_set(xs):
    return "{" + ", ".join('"%s"' % x for x in xs) + "}"


def split_behaviours(ctx, paths, name):
    """behaviours of several TLC runs -> (mains jsonl, runs jsonl, number of runs); duplicates dropped"""
    mains = os.path.join(ctx.work, name + "_mains.jsonl")
    runs = os.path.join(ctx.work, name + "_runs.jsonl")
    seen_m, seen_r, n = set(), set(), 0
    with open(mains, "w") as fm, open(runs, "w") as fr:
        for p in paths:
            for line in open(p):
                if '"kind":"main"' in line:
                    if line not in seen_m:
                        seen_m.add(line)
                        fm.write(line)
                    continue
                b = json.loads(line)
                k = (b["main"], b["cov"], tuple(b["order"]))
                if k in seen_r:
                    continue
                seen_r.add(k)
                fr.write(line)
                n += 1
    return mains, runs, n


def replay(ctx, mains, runs, name, modes="api,json,plain"):
    falco = ctx.build_falco()
    scratch = os.path.join(ctx.work, name + "_scratch")
    os.makedirs(scratch, exist_ok=True)
    return ctx.harness("vhc10", ["c10replay", "-falco", falco, "-mains", mains, "-workers", str(min(ctx.workers, 16)),
                                 "-modes", modes, "-scratch", scratch], stdin_path=runs, out_name=name + "_res.jsonl",
                       timeout=3000)


def run(ctx):
    quick = ctx.tier == "quick"
    ctx.rule = ("behaviours = test files (sequences of distinct test subroutines drawn from the pool of spec/Tester.tla, "
                "after the two helper subroutines every file starts with) x coverage on/off x main VCL variant, each "
                "with the verdicts/logs/summary/exit TLC computed; every behaviour is run through tester.Run, "
                "`falco test -json` and `falco test`, one process per run; distinct = distinct (main, coverage, sequence)")
    ctx.assumptions = [
        "the instances of the assertion families in harness/cmd/vhc10 (constAsserts) hold / fail as labelled",
        "the rendering of the abstract main VCL and of the test operations to VCL text (harness/cmd/vhc10) is faithful",
        "log lines are compared without their '(file line:col)' suffix: the position of a log statement of the test "
        "file moves with the tests around it",
        "describe groups (shared interpreter by design) are outside the property",
    ]
    if ctx.replay:
        rp = json.load(open(ctx.replay))
        b = rp["case"]["input"]
        # the main VCL records come from the specification again
        m = ctx.tlc("Tester", defines={"MaxLen": "0", "MainIds": "MainBoth", "Pool": "{}"}, tag="mains")
        mains, _, _ = split_behaviours(ctx, [m.beh_path], "rp")
        runs = os.path.join(ctx.work, "rp_runs.jsonl")
        with open(runs, "w") as f:
            f.write(json.dumps(b) + "\n")
        for r in ctx.read_results(replay(ctx, mains, runs, "rp")):
            ctx.add_result(r)
        return

    rng = ctx.rng
    fam_all = ["fam_%s_%s" % (f, h) for f in FAMILIES for h in ("hold", "fail")] + \
              ["pos_%s_%s" % (c, p) for c in FAMILIES + ["rterr", "badcall", "state", "hdr", "called", "hold"]
               for p in ("then", "elif", "else", "nested", "case")]
    beh_paths = []
    if quick:
        # every sequence of <= 2 tests over the core pool + a seeded sample of the assertion-family tests, main VCL 1;
        fams = rng.sample(fam_all, 6)
        # interference between tests does not depend on coverage: all pairs over the core pool without coverage,
        # pairs over a seeded part of it with coverage; every test alone both ways (m3)
        m1 = ctx.tlc("Tester", defines={"MaxLen": "2", "Pool": "CoreNames \\cup " + tla_set(fams), "MainIds": "MainOne",
                                        "MaxFam": "1", "Coverages": "NoCov"}, tag="len<=2 main1 no coverage")
        m1c = ctx.tlc("Tester", defines={"MaxLen": "2", "Pool": tla_set(rng.sample(CORE, 14)), "MainIds": "MainOne",
                                         "MaxFam": "0", "Coverages": "{TRUE}", "EmitAll": "FALSE"}, tag="len2 sample main1 coverage")
        # every single test and a seeded set of pairs against main VCL 2
        core2 = rng.sample(CORE, 8)
        m2 = ctx.tlc("Tester", defines={"MaxLen": "2", "Pool": tla_set(core2 + rng.sample(fam_all, 3)), "MainIds": "{2}",
                                        "MaxFam": "1"}, tag="len<=2 main2 sample")
        m3 = ctx.tlc("Tester", defines={"MaxLen": "1", "Pool": "AllTests", "MainIds": "MainBoth", "MaxFam": "1"},
                     tag="len1 all")
        runs_tlc = [m1, m1c, m2, m3]
        ctx.exhaustive = False
    else:
        # every file of <= 2 tests over the whole pool against main VCL 1, over the core pool against main VCL 2
        m1 = ctx.tlc("Tester", defines={"MaxLen": "2", "Pool": "CoreNames \\cup FamNames", "MainIds": "MainOne", "MaxFam": "1"},
                     tag="len<=2 core+fam main1", timeout=1800)
        m2 = ctx.tlc("Tester", defines={"MaxLen": "2", "Pool": "CoreNames", "MainIds": "{2}", "MaxFam": "0"},
                     tag="len<=2 core main2", timeout=1800)
        # every file of exactly 3 tests over a seeded part of the core pool
        m3 = ctx.tlc("Tester", defines={"MaxLen": "3", "Pool": tla_set(rng.sample(CORE, 14)), "MainIds": "MainOne",
                                        "MaxFam": "0", "EmitAll": "FALSE"}, tag="len3 sample main1", timeout=3000)
        m4 = ctx.tlc("Tester", defines={"MaxLen": "3", "Pool": tla_set(rng.sample(CORE, 8)), "MainIds": "{2}", "MaxFam": "0",
                                        "EmitAll": "FALSE"}, tag="len3 sample main2", timeout=3000)
        # length-4 files: seeded simulation
        m5 = ctx.tlc("Tester", cfg="TesterSim.cfg", simulate=1500, depth=40,
                     defines={"MaxLen": "4", "Pool": "AllTests", "MainIds": "MainBoth", "MaxFam": "2", "EmitAll": "FALSE"},
                     tag="len4 simulate", timeout=1800)
        # the positional tests: each alone against both main VCLs, and next to a seeded part of the core pool
        m6 = ctx.tlc("Tester", defines={"MaxLen": "1", "Pool": "AllTests", "MainIds": "MainBoth", "MaxFam": "1"},
                     tag="len1 all", timeout=1800)
        m7 = ctx.tlc("Tester", defines={"MaxLen": "2", "Pool": "PosNames \\cup " + tla_set(rng.sample(CORE, 8)),
                                        "MainIds": "MainOne", "MaxFam": "1", "EmitAll": "FALSE"},
                     tag="len2 positional x core sample", timeout=1800)
        runs_tlc = [m1, m2, m3, m4, m5, m6, m7]
        ctx.exhaustive = False
    for m in runs_tlc:
        if m.violated:
            raise MachineryFault("Tester.tla: the mechanism layer violates the requirement layer on the model: %s "
                                 "(a lead, not a verdict - see %s)" % (m.violated, m.out_path))
    # quick: the API for every file + one of the two CLI modes (alternating) for every third file; thorough: all three ways for the
    # files of one test (every test alone), API + alternating CLI mode for the others
    if quick:
        groups = [("all", [m.beh_path for m in runs_tlc], "api,cli3")]
    else:
        groups = [("single", [runs_tlc[5].beh_path], "api,json,plain"),
                  ("rest", [m.beh_path for i, m in enumerate(runs_tlc) if i != 5], "api,cli")]
    total = 0
    for gi, (gname, paths, modes) in enumerate(groups):
        mains, runs, n = split_behaviours(ctx, paths, gname)
        if n == 0:
            raise MachineryFault("no behaviours to replay (dead driver)")
        total += n
        # canaries: one expected verdict flipped, one expected log dropped, one exit status flipped
        canary_ids = plant_canaries(ctx, runs) if gi == 0 else {}
        res = replay(ctx, mains, runs, gname, modes=modes)
        seen_canaries = {}
        nres = 0
        for r in ctx.read_results(res):
            if r["id"] in canary_ids:
                seen_canaries[r["id"]] = r
                continue
            nres += 1
            ctx.add_result(r)
        if nres != n:
            raise MachineryFault("replayed %d of %d behaviours" % (nres, n))
        for cid, want in canary_ids.items():
            r = seen_canaries.get(cid)
            if r is None:
                raise MachineryFault("canary %s was not replayed" % cid)
            obs = {i.get("obs") for i in (r.get("mismatch") or [])}
            if want not in obs:
                raise MachineryFault("canary %s: corrupted expectation was accepted (comparison is vacuous): %s" % (cid, sorted(obs)))
        if canary_ids:
            ctx.notes["canaries"] = sorted(canary_ids)
    ctx.notes["behaviours_emitted"] = total


def plant_canaries(ctx, runs):
    """append corrupted copies of a suitable behaviour; returns {id: obs that must be reported}"""
    base = None
    for line in open(runs):
        b = json.loads(line)
        if (not b["cov"]) and any(c["req"]["logs"] for c in b["cases"]) and b["exitReq"] == 0:
            base = b
            break
    if base is None:
        raise MachineryFault("no behaviour to derive canaries from")
    out = {}
    with open(runs, "a") as f:
        c1 = json.loads(json.dumps(base)); c1["id"] = "canary-verdict"
        c1["cases"][-1]["req"]["verdict"] = "fail" if c1["cases"][-1]["req"]["verdict"] != "fail" else "pass"
        c2 = json.loads(json.dumps(base)); c2["id"] = "canary-logs"
        for c in c2["cases"]:
            if c["req"]["logs"]:
                c["req"]["logs"] = c["req"]["logs"][:-1]
                break
        c3 = json.loads(json.dumps(base)); c3["id"] = "canary-exit"; c3["exitReq"] = 1
        for c, want in ((c1, "verdict"), (c2, "logs"), (c3, "exit")):
            f.write(json.dumps(c) + "\n")
            out[c["id"]] = want
    return out


CORE = ["recv_a1", "recv_a2x", "recv_a3y", "recv_dflt", "recv_wrong", "recv_err", "recv_restart", "recv_pass", "recv_twice",
        "fail_assert", "fail_late", "runtime_err", "bad_call", "skipped", "skipped2", "mut_table", "read_table",
        "set_header", "read_header", "inject_var", "read_var", "mock_sub", "mock_fn", "unmocked", "set_host", "read_host",
        "logs", "logs_main", "two_scopes", "two_leak", "two_var", "deliver_fx", "deliver_log", "zone_unset", "zone_in",
        "zone_out", "zone_bad", "zone_noguard", "merge_set", "merge_read", "merge_twice", "mock_restore", "inject_twice",
        "host_twice", "seq_lookup_bare", "seq_err_bare", "seq_restart_bare", "seq_lookup_fall", "seq_three", "seq_bare_wrong",
        "seq_two_scopes", "seq_two_restart", "boom_then", "boom_elif", "boom_nested", "boom_case", "boom_helper", "boom_none",
        "empty"]
