"""C11 - linting is total and deterministic.

spec/Include.tla    every include graph over {main, a, b, missing} x {root level, inside a subroutine}: the
                    expansion (stack machine of resolveIncludeStatements / resolveFileInclusion) terminates and
                    reports a reachable cycle; emits each graph with the predicted reports.
spec/LintPasses.tla call graphs over lifecycle + user subroutines: scope inference under EVERY iteration order is
                    confluent (= least fixed point) and ends; map-ordered post passes emit an order-independent
                    multiset; emits each program with the order-independent predictions.
vhc11 c11replay     runs every case in a watched child process (crash / hang = requirement observations), N
                    repeated runs + permutations of the subroutine declarations, multisets compared; include
                    graphs also through the real `falco lint` binary under an address-space limit.
"""
import json, os
import vlib, wlint
from vlib import MachineryFault

LEVEL = "model_checking"
D5 = '{"acl", "table", "backend", "penaltybox", "ratecounter"}'
D2 = '{"acl", "penaltybox"}'


def run(ctx):
    quick = ctx.tier == "quick"
    ctx.rule = ("cases = (a) every include graph over main/a/b/missing (4096) x {root-level, in-subroutine, nested in if/else blocks} emitted by "
                "TLC from spec/Include.tla, (b) call-graph programs (lifecycle + user subroutines, explicit scopes, "
                "recursion, uncalled and duplicated subroutines, unused declarations / locals / functional subroutine / "
                "goto decorations) emitted from spec/LintPasses.tla; each linted by the real linter in a watched child "
                "process N times and under seeded permutations of the subroutine declarations; distinct = distinct "
                "graphs / programs")
    ctx.assumptions = [
        "a child that dies or does not answer within 20 s (60 s when re-tried alone) is a crash / hang; normal cases take milliseconds, tens of milliseconds on an overloaded machine",
        "the child caps its goroutine stacks at 64 MiB (debug.SetMaxStack) so a runaway recursion dies quickly; the "
        "falco binary is run under ulimit -v 4 GiB",
        "determinism over Go's randomised map iteration is sampled (N runs), it is enumerated only in the model",
        "locations are erased (line:position fields and `line N` / `position N` in messages) when permutations are compared",
    ]
    if ctx.replay:
        rp = json.load(open(ctx.replay))
        case = dict(rp["case"]["input"]["case"])
        p = os.path.join(ctx.work, "replay.jsonl")
        open(p, "w").write(json.dumps(case) + "\n")
        ctx.add_results(ctx.harness("vhc11", ["c11replay", "-falco", ctx.build_falco(), "-bin-every", "1"], stdin_path=p))
        return

    inc = ctx.tlc("Include", defines={"Guard": "TRUE", "MaxEdges": "12"}, timeout=1500, tag="include-graphs",
                  coverage=not quick)
    if inc.violated:
        raise MachineryFault("Include.tla: %s violated on the model (a lead, not a verdict); see %s" % (inc.violated, inc.out_path))
    runs = [inc]
    if quick:
        confs = [("passes-2users", {"NRoots": "2", "NUsers": "2", "MaxEdges": "8", "Sample": "0", "Decls": D5}),
                 # chains of different length into one helper that calls a further helper need 3 users and 4 calls
                 ("passes-3users-4calls", {"NRoots": "2", "NUsers": "3", "MaxEdges": "4", "Sample": "0", "Decls": "{}"}),
                 ("passes-5users-3roots-sample", {"NRoots": "3", "NUsers": "5", "MaxEdges": "9", "Sample": "1500", "Decls": D2})]
    else:
        confs = [("passes-2users", {"NRoots": "2", "NUsers": "2", "MaxEdges": "8", "Sample": "0", "Decls": D5}),
                 ("passes-3users-4calls", {"NRoots": "2", "NUsers": "3", "MaxEdges": "4", "Sample": "0", "Decls": D2}),
                 ("passes-3users-3roots", {"NRoots": "3", "NUsers": "3", "MaxEdges": "3", "Sample": "0", "Decls": "{}"}),
                 ("passes-6users-3roots-sample", {"NRoots": "3", "NUsers": "6", "MaxEdges": "12", "Sample": "6000", "Decls": D2})]
    for tag, defs in confs:
        m = ctx.tlc("LintPasses", defines=defs, timeout=2400, tag=tag)
        if m.violated:
            raise MachineryFault("LintPasses.tla (%s): %s violated on the model (a lead, not a verdict); see %s" % (tag, m.violated, m.out_path))
        runs.append(m)
    for m in runs:
        if m.behaviours == 0:
            raise MachineryFault("a specification emitted no behaviour")
    if not quick:
        dead = wlint.dead_actions(inc.out_path, ("Step", "Return", "Finish"))
        if dead:
            raise MachineryFault("Include.tla actions never taken: %s" % dead)
    ctx.notes["include_graphs"] = inc.behaviours
    ctx.notes["pass_programs"] = sum(m.behaviours for m in runs[1:])
    ctx.exhaustive = False

    falco = ctx.build_falco()
    # canaries: a mechanism prediction corrupted -> drift (and nothing else); a case that kills the child -> crash
    first = json.loads(open(inc.beh_path).readline())
    c1 = dict(first); c1["id"] = "canary-cyclic-count"; c1["cyclic"] = first["cyclic"] + 1
    c2 = {"id": "canary-child-dies", "kind": "die", "terminates": True, "deterministic": True}
    canaries = {"canary-cyclic-count", "canary-child-dies"}

    def lines():
        yield json.dumps(c1)
        for m in runs:
            for l in open(m.beh_path):
                yield l
    args = ["c11replay", "-runs", "6" if quick else "12", "-perms", "3" if quick else "8", "-falco", falco,
            "-fresh-every", "40" if quick else "15"]
    args += ["-bin-every", "40"] if quick else ["-bin-every", "8", "-bin-cyclic"]
    ress, total = wlint.replay_sharded(ctx, "vhc11", args, lines(), "c11", timeout=3000)
    seen = set()
    for rp in ress:
        for r in ctx.read_results(rp):
            if r["id"] == "canary-cyclic-count":
                if not r.get("drift") or r.get("mismatch"):
                    raise MachineryFault("canary-cyclic-count was accepted by the comparison (vacuous replay)")
                seen.add(r["id"])
                continue
            ctx.add_result(r)
    # the watchdog canary runs alone
    p = os.path.join(ctx.work, "canary_die.jsonl")
    open(p, "w").write(json.dumps(c2) + "\n")
    for r in ctx.read_results(ctx.harness("vhc11", ["c11replay"], stdin_path=p)):
        if not any(m.get("obs") == "crash" for m in r.get("mismatch") or []):
            raise MachineryFault("watchdog canary: a dying child was not reported as a crash")
        seen.add(r["id"])
    if seen != canaries:
        raise MachineryFault("canary results missing: %s" % (canaries - seen))
    ctx.notes["binary_runs"] = sum(1 for _ in [])  # filled below
    ctx.notes.pop("binary_runs")
