"""C12 - ignore comments suppress exactly what they cover.

spec/Ignore.tla: requirement (docs/linter.md: what each falco-ignore directive covers) and mechanism
(parser comment attachment + linter/ignore.go setup/teardown) over generated statement trees with
directives in every comment gap.  TLC checks mechanism |= requirement and emits, per program, the
set of (site, rule) diagnostics that must survive (requirement) and that will be reported (mechanism).
vhc12 c12replay renders each program in four comment styles, lints it with the real linter with and
without the directives, and compares the surviving sets (requirement -> verdict, mechanism -> drift).
"""
import json, os
import vlib, wlint
from vlib import MachineryFault

LEVEL = "model_checking"

RL2 = '{{}, {"r1"}}'
RL3 = '{{}, {"r1"}, {"r1", "r2"}}'
RL4 = '{{}, {"r1"}, {"r2"}, {"r1", "r2"}}'


def conf(n, depth, subs, d, rl=RL3, sample=0, odd=True, decl=None, plugin=False):
    # the runs over pairs / triples of directives leave out the placements that cover nothing, switch statements and
    # (unless decl=True) the sites whose diagnostic is raised by a later pass (declare local, unused acl)
    if decl is None:
        decl = odd
    return {"MaxStmts": str(n), "MaxDepth": str(depth), "MaxSubs": str(subs), "MaxDir": str(d),
            "RuleLists": rl, "Sample": str(sample), "Odd": "TRUE" if odd else "FALSE",
            "Switch": "TRUE" if odd else "FALSE", "Decl": "TRUE" if decl else "FALSE",
            # plugin=True: every statement site also carries the diagnostic of a lint plugin (one process per site and lint)
            "Plugin": "TRUE" if plugin else "FALSE"}


def run(ctx):
    quick = ctx.tier == "quick"
    ctx.rule = ("behaviours = programs (statement trees with if/else nesting over <= 2 subroutines) x sequences of "
                "falco-ignore directives in comment gaps, emitted by TLC from spec/Ignore.tla with the surviving "
                "(site, rule) set required by docs/linter.md and the set predicted by the mechanism model; each is "
                "rendered in 4 comment styles (//, #, /* */, mixed + decorations) and linted by the real linter "
                "with and without the directives; distinct = distinct rendered programs carrying >= 1 directive")
    ctx.assumptions = [
        "a site statement / if condition built from std.itoa(req.http.bar) + std.itoa(0, 1, 2) + std.itoa(c12.undefined) "
        "yields diagnostics of function/arguments, function/argument-type and one rule-less error (checked per case: "
        "the directive-free rendering must report every rule at every site)",
        "diagnostics are mapped to sites by line number; baseline and directive rendering have identical line layout "
        "(directives are replaced by neutral comments of the same shape)",
        "where docs/linter.md is silent (unclosed start, `end <rules>` under an unrestricted start, next-line with no "
        "following statement in its block) only the mechanism prediction is compared (drift)",
    ]
    if ctx.replay:
        rp = json.load(open(ctx.replay))
        inp = rp["case"]["input"]
        b = dict(inp["behaviour"]); b["id"] = rp["case"]["id"]; b["seed"] = inp["seed"]
        p = os.path.join(ctx.work, "replay.jsonl")
        open(p, "w").write(json.dumps(b) + "\n")
        out = ctx.harness("vhc12", ["c12replay", "-falco", ctx.build_falco(), "-bin-every", "1"], stdin_path=p)
        ctx.add_results(out)
        return

    if quick:
        runs = [("one-directive", conf(2, 1, 2, 1, decl=False), None),
                ("later-pass-sites", conf(2, 1, 1, 1), None),
                ("plugin-diagnostics", conf(2, 1, 1, 1, decl=False, plugin=True), None),
                ("later-pass-sites-pairs", conf(2, 0, 1, 2, RL2, odd=False, decl=True), None),
                ("later-pass-sites-2subs", conf(1, 0, 2, 2, RL2, odd=False, decl=True), None),
                ("two-directives", conf(2, 1, 1, 2, RL2, odd=False), None),
                ("deep-flat", conf(3, 0, 1, 3, RL2, odd=False), None),
                ("two-subs-flat", conf(2, 0, 2, 2, RL2, odd=False), None),
                ("rule-lists", conf(2, 0, 1, 2, RL4, odd=False), None),
                ("sample", conf(3, 2, 2, 3, RL4, 55), None)]
    else:
        runs = [("one-directive", conf(3, 2, 1, 1, decl=False), "coverage"),
                ("one-directive-2subs", conf(2, 1, 2, 1), None),
                ("plugin-diagnostics", conf(2, 1, 1, 1, decl=False, plugin=True), None),
                ("later-pass-sites-pairs", conf(2, 0, 2, 2, RL2, odd=False, decl=True), None),
                ("two-directives-2subs", conf(2, 1, 2, 2, RL2, odd=False), None),
                ("two-directives-nested", conf(2, 2, 1, 2, RL3, odd=False), None),
                ("deep-flat", conf(4, 0, 1, 3, RL2, odd=False), None),
                ("rule-lists", conf(2, 1, 1, 2, RL4, odd=False), None),
                ("sample", conf(4, 2, 2, 4, RL4, 120, decl=False), None),
                ("sample-later-pass", conf(3, 2, 2, 3, RL4, 80), None)]
    beh_files = []
    for tag, defs, cov in runs:
        m = ctx.tlc("Ignore", defines=defs, timeout=3000, tag=tag, coverage=bool(cov))
        if m.violated:
            raise MachineryFault("Ignore.tla (%s): mechanism layer violates requirement layer on the model: %s - a lead, "
                                 "not a verdict; see %s" % (tag, m.violated, m.out_path))
        if m.behaviours == 0:
            raise MachineryFault("Ignore.tla (%s) emitted no behaviour" % tag)
        if cov:
            dead = wlint.dead_actions(m.out_path, ("PostPass", "SubOpen", "SubSkip", "SubClose", "SwOpen", "SwClose", "Stmt", "Trail", "IfOpen", "Else", "Elif", "IfClose", "Place"))
            if dead:
                raise MachineryFault("Ignore.tla actions never taken: %s" % dead)
        ctx.notes.setdefault("programs_by_run", {})[tag] = m.behaviours
        beh_files.append(m.beh_path)
    ctx.exhaustive = False
    ctx.notes["exhaustive_parts"] = [t for t, d, c in runs if d["Sample"] == "0"]

    # canaries: one required pair dropped / one covered pair demanded
    canary = None
    for line in wlint.iter_lines(beh_files[:1]):
        b = json.loads(line)
        # a program WITHOUT directives: every pair is required and reported whatever is wrong with the directive
        # handling, so the corrupted expectation cannot coincide with a defect of the tree under test
        if not b["dirs"] and not b["silent"] and len(b["req"]) >= 2:
            canary = b
            break
    if canary is None:
        raise MachineryFault("no behaviour to derive a canary from")
    c1 = json.loads(json.dumps(canary)); c1["id"] = "canary-req-dropped"; c1["req"] = c1["req"][1:]
    c2 = json.loads(json.dumps(canary)); c2["id"] = "canary-mech-extra"
    c2["mech"] = c2["all"][1:]
    canaries = {"canary-req-dropped": "mismatch", "canary-mech-extra": "drift"}

    def lines():
        yield json.dumps(c1)
        yield json.dumps(c2)
        seen = set()
        for l in wlint.iter_lines(beh_files):
            if l in seen:
                continue
            seen.add(l)
            yield l
    falco = ctx.build_falco()
    args = ["c12replay", "-falco", falco, "-bin-every", "40" if quick else "25"] + (["-styles", "alt"] if quick else [])
    ress, total = wlint.replay_sharded(ctx, "vhc12", args, lines(), "ig", timeout=6000)
    ctx.notes["behaviours_replayed"] = total - 2
    seen_canary = set()
    for rp in ress:
        for r in ctx.read_results(rp):
            if r["id"] in canaries:
                kind = canaries[r["id"]]
                ok = bool(r.get("mismatch")) if kind == "mismatch" else (bool(r.get("drift")) and not r.get("mismatch"))
                if not ok:
                    ctx.defer_fault("canary %s was accepted by the comparison (vacuous replay)" % r["id"])
                seen_canary.add(r["id"])
                continue
            broken = [m for m in r.get("mismatch") or [] if m.get("obs") in ("concretiser-baseline", "lint-failed")]
            if broken:
                # not a verdict by itself, and it must not pre-empt the violations of the same run (LESSONS item 5): a change
                # to the linter under test can break the baseline of a generated program
                ctx.defer_fault("concretiser contract broken on %s: %s" % (r["id"], json.dumps(broken[0])[:300]))
                continue
            ctx.add_result(r)
    if seen_canary != set(canaries):
        ctx.defer_fault("canary results missing: %s" % (set(canaries) - seen_canary))
