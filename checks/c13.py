"""C13 - evaluation changes only what it names (trace validation, code -> spec).

spec/FrameGen.tla   TLC generates the programs: exhaustively every one-statement program and every
                    (call carrier, callee statement) pair, and by seeded simulation longer programs with
                    branches and nested calls.
harness vhc13       concretises each program to VCL (table look-up), runs it on the real interpreter and
                    records, through the exported Debugger interface, the whole pool of names before and
                    after every executed statement at every call depth.
spec/FrameTrace.tla monitor-form trace specification: one step per recorded event; the names that changed
                    must be within Allowed(program, statement) of spec/FrameDefs.tla (the requirement layer).
"""
import json, os, hashlib
from concurrent.futures import ThreadPoolExecutor
import vlib
from vlib import MachineryFault

LEVEL = "model_checking"
BIN = "vhc13"
ALL_SCOPES = ["recv", "hash", "hit", "miss", "pass", "fetch", "error", "deliver", "log"]


def tla_set(xs):
    return "{" + ", ".join('"%s"' % x for x in xs) + "}"


def generate(ctx, shape, scopes, max_stmts=1, simulate=None):
    defs = {"Scopes": tla_set(scopes), "Shape": '"%s"' % shape, "MaxStmts": str(max_stmts)}
    if simulate:
        m = ctx.tlc("FrameGen", defines=defs, simulate=simulate, depth=3 * max_stmts + 3, timeout=1500,
                    tag="generate %s %s x%d" % (shape, ",".join(scopes), max_stmts))
    else:
        m = ctx.tlc("FrameGen", defines=defs, timeout=1500, tag="generate %s %s" % (shape, ",".join(scopes)))
    if m.behaviours == 0:
        raise MachineryFault("FrameGen emitted no program (%s)" % shape)
    return m.beh_path


def record(ctx, prog_path, name, nshards=None):
    n = nshards or min(ctx.workers, 16)
    outs = [open(os.path.join(ctx.work, "%s_p%02d.jsonl" % (name, i)), "w") for i in range(n)]
    k = 0
    with open(prog_path) as f:
        for line in f:
            outs[k % n].write(line)
            k += 1
    for o in outs:
        o.close()
    ctx.build_bin(BIN)

    def one(i):
        return ctx.harness(BIN, ["c13record", "-prefix", "%s%d_" % (name, i)], stdin_path=outs[i].name,
                           out_name="%s_tr%02d.ndjson" % (name, i), timeout=3000)
    with ThreadPoolExecutor(max_workers=n) as ex:
        return list(ex.map(one, range(n)))


def make_canaries(traces):
    """three corrupted recordings; FrameTrace must list a break for each, in exactly the planted event:
    (1) a name the statement does not name changes across an assignment;
    (2) a caller local changes across a call; (3) re.group.1 changes across an expression without a match."""
    out = []
    want = {"set": None, "call": None, "log": None}
    for tr in traces:
        by_id = {s["id"]: s for s in tr["stmts"]}
        for i, e in enumerate(tr["events"]):
            s = by_id[e["sid"]]
            k = s["k"]
            if k == "set" and want["set"] is None and s["t"].startswith("var.") and s["t"] != "var.f" and s["sub"] == "main" \
                    and s["e"]["f"] not in ("sfcall",):
                c = json.loads(json.dumps(tr)); c["id"] = "canary-frame"
                j = c["pool"].index("var.f"); c["events"][i]["a"][j] = c["events"][i]["a"][j] + "#"
                want["set"] = (c, i + 1, "frame", "var.f")
            if k == "call" and want["call"] is None and s["sub"] == "main":
                c = json.loads(json.dumps(tr)); c["id"] = "canary-call"
                j = c["pool"].index("var.t"); c["events"][i]["a"][j] = c["events"][i]["a"][j] + "#"
                want["call"] = (c, i + 1, "call", "var.t")
            if k == "log" and want["log"] is None and s["e"]["f"] in ("slit", "svar", "scat") and s["sub"] == "main":
                c = json.loads(json.dumps(tr)); c["id"] = "canary-regroup"
                j = c["pool"].index("re.group.1"); c["events"][i]["a"][j] = c["events"][i]["a"][j] + "#"
                want["log"] = (c, i + 1, "unjudged", "re.group.1")
        if all(want.values()):
            break
    return [v for v in want.values() if v]


def validate(ctx, trace_files, tag, canary=True):
    """concatenate traces (+ canaries) into chunks, run FrameTrace on each chunk in parallel; returns verdicts by id"""
    traces_meta = {}
    nchunks = 1 if ctx.tier == "quick" else 4
    chunk_paths = [os.path.join(ctx.work, "traces_%s_%d.ndjson" % (tag, i)) for i in range(nchunks)]
    outs = [open(p, "w") for p in chunk_paths]
    sample = []
    n = 0
    for tf in trace_files:
        with open(tf) as f:
            for line in f:
                line = line.strip()
                if not line:
                    continue
                tr = json.loads(line)
                traces_meta[tr["id"]] = {"scope": tr["scope"], "stmts": tr["stmts"], "err": tr["err"], "n": len(tr["events"])}
                outs[n % nchunks].write(line + "\n")
                n += 1
                if len(sample) < 4000 and tr["events"]:
                    sample.append(tr)
    canaries = make_canaries(sample) if canary else []
    if canary and len(canaries) < 1:
        raise MachineryFault("no recorded trace to derive canaries from")
    for (c, ev, law, name) in canaries:
        outs[0].write(json.dumps(c) + "\n")
    for o in outs:
        o.close()
    if n == 0:
        raise MachineryFault("no trace recorded (dead driver)")

    def one(i):
        return ctx.tlc("FrameTrace", extra_files=[chunk_paths[i]], defines={"TraceFile": '"%s"' % os.path.basename(chunk_paths[i])},
                       timeout=2400, tag="trace-validation %s/%d" % (tag, i))
    ress = [one(i) for i in range(nchunks)]   # ctx.tlc is not re-entrant
    verdicts = {}
    for r in ress:
        if r.violated:
            raise MachineryFault("FrameTrace: unexpected invariant violation %s (%s)" % (r.violated, r.out_path))
        with open(r.beh_path) as f:
            for line in f:
                v = json.loads(line)
                verdicts[v["accept"]] = v
    for (c, ev, law, name) in canaries:
        v = verdicts.pop(c["id"], None)
        if v is None:
            ctx.defer_fault("canary trace %s was not judged" % c["id"])
            continue
        hits = [x for x in (v["viol"] + v["drift"]) if x["ev"] == ev and x["law"] == law and name in x["names"]]
        others = [x for x in (v["viol"] + v["drift"]) if not (x["ev"] == ev and name in x["names"])]
        if not hits:
            ctx.defer_fault("canary %s was accepted by FrameTrace (validator is vacuous)" % c["id"])
            continue
        ctx.notes.setdefault("canaries_rejected", []).append(c["id"])
        if others and not json.loads(json.dumps(others)) == []:
            # the underlying trace may itself carry breaks (on a defective tree); only the planted one is required
            pass
    return traces_meta, verdicts


def to_results(ctx, shape, meta, verdicts):
    aborted = rejected = 0
    for tid, m in meta.items():
        v = verdicts.get(tid)
        prog = {"scope": m["scope"], "stmts": m["stmts"]}
        key = hashlib.sha1(json.dumps(prog, sort_keys=True).encode()).hexdigest()
        r = {"id": tid, "input": prog, "observed": {"events": m["n"], "err": m["err"]}, "key": key if m["n"] else None,
             "class": {"scope": m["scope"], "shape": shape}, "validated": v is not None, "mismatch": [], "drift": []}
        if m["err"]:
            aborted += 1
        if v is None:
            rejected += 1
            r["drift"].append({"obs": "trace-structure", "err": m["err"]})
        else:
            for x in v["viol"]:
                r["mismatch"].append({"obs": x["law"], "stmt": x["k"], "op": x["op"], "form": x["f"], "callee": x["fn"],
                                      "in_sub": x["sub"], "target": x["t"], "changed": ",".join(sorted(x["names"])), "event": x["ev"]})
            for x in v["drift"]:
                r["drift"].append({"obs": x["law"], "stmt": x["k"], "op": x["op"], "form": x["f"],
                                   "changed": ",".join(sorted(x["names"])), "event": x["ev"]})
        if not r["mismatch"] and not r["drift"] and ctx.results_n % 40 != 0:
            r["input"] = None
        ctx.add_result(r)
    return aborted, rejected


def run(ctx):
    quick = ctx.tier == "quick"
    ctx.rule = ("one trace per program generated by TLC from spec/FrameGen.tla (exhaustive one-statement and call-pair "
                "programs, seeded simulation of longer programs), executed by the real interpreter with a read-back of the "
                "whole pool (64 names: locals and parameters of caller and callees of every VCL parameter type incl. TIME, BACKEND, REGEX, IP, ACL and a never-assigned STRING local, req.backend and the declared backend / director identifiers, re.group.0-2, 6 header names (value, other spelling, sub-field, second header, one starting not set, one starting empty) + 1 variable on each of "
                "req/bereq/beresp/obj/resp) around every executed statement at every call depth; each event is one step of "
                "spec/FrameTrace.tla; distinct = distinct programs with at least one event")
    ctx.assumptions = [
        "values are compared through their printed value plus flags (not-set, NaN/inf); pointer identity is observed only through later reads",
        "types covered: INTEGER FLOAT RTIME STRING BOOL TIME BACKEND locals, parameters of all ten VCL parameter types, STRING headers",
        "the effect of unset / add statements and re.group.* written by an expression without a match are reported as drift: the property statement does not speak about them",
        "objects that are not readable in the program's scope are read by switching the interpreter's scope between statements (SetScope), which touches no request state",
    ]
    if ctx.replay:
        rp = json.load(open(ctx.replay))
        inp = os.path.join(ctx.work, "replay_prog.jsonl")
        with open(inp, "w") as f:
            f.write(json.dumps(rp["case"]["input"]) + "\n")
        trs = record(ctx, inp, "rp", nshards=1)
        meta, verdicts = validate(ctx, trs, "replay", canary=False)
        to_results(ctx, "replay", meta, verdicts)
        return

    plan = []  # (shape, scopes, max_stmts, simulate)
    if quick:
        plan = [("one", ["recv", "fetch", "deliver"], 1, None),
                ("call", ["recv"], 2, None),
                ("free", ALL_SCOPES, 10, 1200)]
    else:
        plan = [("one", ALL_SCOPES, 1, None),
                ("call", ["recv", "miss", "fetch", "error", "deliver"], 2, None),
                ("free", ALL_SCOPES, 8, 12000),
                ("free", ALL_SCOPES, 14, 12000)]
    ctx.exhaustive = False
    tot_ab = tot_rej = tot = 0
    for (shape, scopes, ms, sim) in plan:
        progs = generate(ctx, shape, scopes, ms, sim)
        # de-duplicate (simulation may repeat a program)
        uniq = os.path.join(ctx.work, "progs_%s_%d.jsonl" % (shape, ms))
        seen = set()
        with open(uniq, "w") as out:
            for line in open(progs):
                h = hashlib.sha1(line.encode()).digest()
                if h in seen:
                    continue
                seen.add(h)
                out.write(line)
        ctx.notes.setdefault("programs_by_shape", {})["%s/%d" % (shape, ms)] = len(seen)
        ctx.notes["programs"] = ctx.notes.get("programs", 0) + len(seen)
        trs = record(ctx, uniq, "%s%d" % (shape, ms))
        meta, verdicts = validate(ctx, trs, "%s%d" % (shape, ms))
        ab, rej = to_results(ctx, "%s/%d" % (shape, ms), meta, verdicts)
        tot_ab += ab; tot_rej += rej; tot += len(meta)
    if set(ctx.notes.get("canaries_rejected", [])) != {"canary-frame", "canary-call", "canary-regroup"}:
        ctx.defer_fault("not every canary kind was planted and rejected: %s" % ctx.notes.get("canaries_rejected"))
    ctx.notes["traces_total"] = tot
    ctx.notes["runs_ended_in_runtime_error"] = tot_ab
    ctx.notes["traces_rejected_structurally"] = tot_rej
    if tot_rej > tot * 0.02:
        raise MachineryFault("%d of %d traces fail the mechanism part of FrameTrace (recorder or control flow broken)" % (tot_rej, tot))
    if tot_ab > tot * 0.2:
        raise MachineryFault("%d of %d generated programs end in a runtime error (generator out of date)" % (tot_ab, tot))
