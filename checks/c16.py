"""C16 - `falco fmt --write` never damages the file it rewrites.

vhc16 extract  : the system-call protocol of `falco fmt -w FILE` is EXTRACTED from the real binary (ptrace), one
                 per input class (parseable declarations, already formatted, statement-only snippet, syntax error,
                 formatter-crashing input, empty file, big file)
spec/FmtWrite.tla (TLC): every fault twin / short write / SIGKILL point of every extracted protocol; mechanism |=
                 requirement on the model (FmtWriteReq.cfg, a lead only) and one behaviour per schedule
vhc16 confirm  : every schedule is executed on the real binary (errno injection, real short writes, SIGKILL on entry
                 to the call, RLIMIT_FSIZE, unprivileged runs on a read-only file / directory)
spec/FmtWriteTrace.tla (TLC): every recorded run is validated: the requirement layer is evaluated on the bytes
                 OBSERVED after the run (this decides), the mechanism layer must explain them (drift otherwise).
"""
import json, os, shutil
import vlib
from vlib import MachineryFault

LEVEL = "fault_enumeration"

ERRNOS_QUICK = {"open_rd": ["EACCES"], "open_wr": ["EACCES"], "open_trunc": ["EACCES"], "creat": ["EACCES"],
                "read": ["EIO"], "write": ["ENOSPC"], "close": ["EIO"], "chmod": ["EPERM"], "fsync": ["EIO"],
                "truncate": ["EIO"], "rename": ["EACCES"], "link": ["EACCES"], "unlink": ["EACCES"]}
ERRNOS_THOROUGH = {"open_rd": ["EACCES", "EMFILE", "EIO"], "open_wr": ["EACCES", "EROFS", "EMFILE"],
                   "open_trunc": ["EACCES", "EROFS", "EMFILE"], "creat": ["EACCES", "EROFS", "ENOSPC", "EMFILE", "EDQUOT"],
                   "read": ["EIO", "ENOMEM"], "write": ["ENOSPC", "EIO", "EFBIG", "EDQUOT"], "close": ["EIO", "ENOSPC"],
                   "chmod": ["EPERM", "EIO"], "fsync": ["EIO", "ENOSPC"], "truncate": ["EIO", "EPERM"],
                   "rename": ["EACCES", "EXDEV", "ENOSPC", "EBUSY"], "link": ["EACCES", "EXDEV"], "unlink": ["EACCES", "EBUSY"]}


def tla_str(s):
    return '"' + s.replace("\\", "\\\\").replace('"', '\\"') + '"'


def tla_inputs(inputs):
    recs = []
    for i in inputs:
        steps = ", ".join('[op |-> %s, obj |-> %s, to |-> %s, n |-> %d, res |-> %s]' % (
            tla_str(s["op"]), tla_str(s["obj"]), tla_str(s["to"]), s["n"], tla_str(s.get("res", "ok"))) for s in i.get("steps") or [])
        recs.append('[name |-> %s, fmt |-> %s, L |-> %d, olen |-> %d, opfx |-> %d, end |-> %s, left |-> %d, steps |-> <<%s>>]' % (
            tla_str(i["name"]), tla_str(i["fmt"]), i["L"], i["olen"], i["opfx"], tla_str(i.get("end") or "ok"), i.get("left", -1), steps))
    return "<<" + ",\n  ".join(recs) + ">>"


def sched_key(inp, sched):
    return inp + "|" + ",".join("%d:%s:%d" % (f["at"], f["f"], f["k"]) for f in sched)


def realisations(inp, sched, errnos):
    if not sched:
        return [""]
    f = sched[0]
    if f["f"] == "kill":
        return ["kill"]
    if f["f"] == "short":
        return ["short", "fsize"]
    if f["f"] == "tmp":
        return ["inject:EINTR", "inject:EAGAIN", "inject:ESTALE"]
    if f["f"] == "perr":
        return ["pinject:" + errnos.get(inp["steps"][f["at"] - 1]["op"], ["EIO"])[0]]
    st = inp["steps"][f["at"] - 1]
    hows = ["inject:" + e for e in errnos.get(st["op"], ["EIO"])]
    if inp.get("env", "normal") == "normal":
        if st["op"] in ("open_wr", "open_trunc") and st["obj"] == "target":
            hows.append("ro_file")
        if st["op"] == "creat" and st["obj"] == "tmp":
            hows.append("ro_dir")
    return hows


def run(ctx):
    quick = ctx.tier == "quick"
    ctx.rule = ("one case = one run of the real `falco fmt -w FILE` under a ptrace tracer with one fault schedule explored "
                "by TLC on the extracted system-call protocol (failing call / short write / SIGKILL at a given call, or "
                "none) in one realisation (injected errno, lowered write count, RLIMIT_FSIZE, read-only file or directory as "
                "an unprivileged user); distinct = distinct (input class, schedule, realisation); non-trivial = all of them "
                "(every case runs the binary and compares the bytes of FILE)")
    ctx.rule += ("; plus multi-file commands (`falco fmt -w` on 150 distinct files, one traced round with delayed openat and "
                 "plain rounds): one case per (round, file), each file judged on its own - detection of interference between "
                 "files is probabilistic")
    ctx.assumptions = [
        "linux/amd64 with ptrace allowed; an injected errno stands for the kernel refusing the call without side effect",
        "the input classes generated from VERIF_SEED are representative for their class (protocols are extracted per input)",
        "power-loss durability (fsync ordering) is not claimed; only process-level failures and SIGKILL",
        "`the text falco fmt FILE prints` is taken from a run of the same binary on the same bytes (checked deterministic)",
    ]
    falco = ctx.build_falco()
    ctx.build_bin("vhc16")
    os.chmod(ctx.work, 0o755)           # unprivileged realisations must reach the binary and the run directories
    base = os.path.join(ctx.work, "c16")
    os.makedirs(os.path.join(base, "runs"))
    os.chmod(base, 0o755)
    os.chmod(os.path.join(base, "runs"), 0o755)
    os.chmod(falco, 0o755)
    seed_env = None
    rp = None
    if ctx.replay:
        rp = json.load(open(ctx.replay))["case"]["input"]
        seed_env = {"VERIF_SEED": str(rp["seed"]), "VERIF_TIER": rp.get("tier", ctx.tier)}
        quick = rp.get("tier", ctx.tier) == "quick"

    # 1. protocol extraction from the real binary
    exp = ctx.harness("vhc16", ["extract", "-falco", falco, "-dir", base, "-big", "300" if quick else "1500",
                                "-extra", "0" if quick else "4"], env=seed_env, out_name="extract.json")
    ctx.notes["environments_unavailable"] = [l.strip() for l in open(exp + ".err") if l.startswith("environment ")]
    inputs = json.load(open(exp))["inputs"]
    byname = {i["name"]: i for i in inputs}
    ctx.notes["protocols"] = {i["name"]: {"fmt": i["fmt"], "end": i["end"], "env": i.get("env"),
                                          "calls": ["%s(%s%s)%s" % (s["op"], s["obj"], "->" + s["to"] if s["to"] != "-" else "",
                                                                    "=%d" % s["n"] if s["op"] == "write" else ("!" if s["res"] != "ok" else ""))
                                                    for s in i["steps"]][-10:]} for i in inputs}
    defs = {"Inputs": tla_inputs(inputs),
            "ShortModes": '{"half"}' if quick else '{"one", "half", "allbutone"}', "MaxFaults": "1"}

    # 2. TLC: every fault / crash point of every extracted protocol
    m = ctx.tlc("FmtWrite", defines=defs, timeout=900, tag="explore")
    if m.violated:
        raise MachineryFault("FmtWrite.tla TypeOK failed: %s (see %s)" % (m.violated, m.out_path))
    req = ctx.tlc("FmtWrite", cfg="FmtWriteReq.cfg", defines=defs, timeout=900, tag="mechanism|=requirement")
    ctx.notes["model_verdict"] = ("violated: " + ",".join(req.violated)) if req.violated else "holds"
    pred = {}
    for line in open(m.beh_path):
        b = json.loads(line)
        pred.setdefault(sched_key(b["inp"], b["sched"]), {"inp": b["inp"], "sched": b["sched"], "out": []})["out"].append(
            {"exit": b["exit"], "file": b["file"], "tmp": b["tmp"], "viol": sorted(b["viol"])})
    if not pred:
        raise MachineryFault("TLC emitted no behaviours (dead driver)")
    ctx.exhaustive = True
    ctx.notes["schedules"] = len(pred)
    model_viol = bool(req.violated) or any(o["viol"] for p in pred.values() for o in p["out"])

    # 3. every schedule on the real binary
    errnos = ERRNOS_QUICK if quick else ERRNOS_THOROUGH
    specs = []
    for k, p in sorted(pred.items()):
        for how in realisations(byname[p["inp"]], p["sched"], errnos):
            if rp and not (p["inp"] == rp["inp"] and p["sched"] == rp["sched"] and how == rp["how"]):
                continue
            specs.append({"id": "%s|%s" % (k, how), "inp": p["inp"], "sched": p["sched"], "how": how, "key": k})
    if not specs:
        raise MachineryFault("no schedule to run (replay case not in the explored set?)")
    sp = os.path.join(ctx.work, "schedules.jsonl")
    with open(sp, "w") as f:
        for s in specs:
            f.write(json.dumps(s) + "\n")
    obs_path = ctx.harness("vhc16", ["confirm", "-falco", falco, "-dir", base, "-extract", exp, "-j", str(min(ctx.workers, 16))],
                           stdin_path=sp, env=seed_env, out_name="observations.jsonl")
    obs = list(ctx.read_results(obs_path))
    for o in obs:
        if (o.get("file") or {}).get("b") == "other":
            o["file"]["n"] = 0           # the model does not predict the length of a mixture
    if len(obs) != len(specs):
        raise MachineryFault("confirm returned %d observations for %d runs" % (len(obs), len(specs)))
    realised_keys, unreal = set(), []
    for s, o in zip(specs, obs):
        if o.get("err"):
            raise MachineryFault("run %s failed: %s" % (o["id"], o["err"]))
        o["key"] = s["key"]
        if o["realised"]:
            realised_keys.add(s["key"])
        else:
            unreal.append({"id": o["id"], "why": o.get("why")})
    ctx.notes["unrealised_runs"] = unreal[:20]
    if not rp:
        missing = [k for k in pred if k not in realised_keys]
        if missing:
            raise MachineryFault("schedules explored by TLC that no run realised: %s" % missing[:5])

    # 3b. several files rewritten by one command: every file is judged on its own
    multi_files, multi_obs = [], []
    if not rp:
        mp = ctx.harness("vhc16", ["multi", "-falco", falco, "-dir", base, "-n", "150", "-rounds", "4" if quick else "12"],
                         env=seed_env, out_name="multi.jsonl")
        for rec in ctx.read_results(mp):
            if "files" in rec:
                multi_files += rec["files"]
            else:
                if rec["file"]["b"] == "other":
                    rec["file"]["n"] = 0
                multi_obs.append(rec)
        if not multi_files or not multi_obs:
            raise MachineryFault("multi-file run produced nothing (dead driver)")
    ctx.notes["multi_file_runs"] = len(multi_obs)

    # 4. trace validation: requirement on what was observed, mechanism must explain it
    tp = os.path.join(ctx.work, "c16_traces.ndjson")
    done = [o for o in obs if o["realised"]]
    canary = None
    with open(tp, "w") as f:
        for o in done:
            f.write(json.dumps({"id": o["id"], "inp": o["inp"], "exit": o["exit"], "file": o["file"],
                                "events": [{"op": e["op"], "obj": e["obj"], "to": e["to"], "n": e["n"], "res": e["res"]}
                                           for e in o["events"]]}) + "\n")
        for o in multi_obs:
            f.write(json.dumps({"id": o["id"], "inp": o["inp"], "exit": o["exit"], "file": o["file"], "events": []}) + "\n")
        # canary: a run without any call on FILE that nevertheless left half of the formatted text after a reported failure
        for i in inputs:
            if canary is None and i["fmt"] == "text" and i["L"] >= 4 and i["opfx"] != i["L"] // 2:
                canary = {"id": "canary-damaged", "inp": i["name"], "exit": "fail", "file": {"b": "new", "n": i["L"] // 2},
                          "events": []}
        if canary is None:
            raise MachineryFault("no input to derive the canary from")
        f.write(json.dumps(canary) + "\n")
    tdefs = dict(defs)
    tdefs["TraceFile"] = '"%s"' % os.path.basename(tp)
    tdefs["Files"] = tla_inputs(multi_files) if multi_files else "<<>>"
    tv = ctx.tlc("FmtWriteTrace", defines=tdefs, extra_files=[tp], timeout=900, tag="trace-validation")
    acc = {}
    for line in open(tv.beh_path):
        a = json.loads(line)
        acc[a["accept"]] = a
    c = acc.get("canary-damaged")
    if not c or set(c["viol"]) != {"NeverDamaged", "FailureKeepsOriginal"} or c["explained"]:
        raise MachineryFault("canary (half-written file after a reported failure) was not rejected by FmtWriteTrace: %s" % c)

    # 5. verdicts
    seen_viol = False
    for o in done:
        a = acc.get(o["id"])
        if a is None:
            raise MachineryFault("trace %s was not consumed by FmtWriteTrace (see %s)" % (o["id"], tv.out_path))
        i = byname[o["inp"]]
        f0 = o["sched"][0] if o["sched"] else None
        st = i["steps"][f0["at"] - 1] if f0 and f0["at"] <= len(i["steps"]) else None
        r = {"id": o["id"],
             "input": {"inp": o["inp"], "sched": o["sched"], "how": o["how"], "seed": ctx.seed if not rp else rp["seed"],
                       "tier": "quick" if quick else "thorough", "fmt": i["fmt"], "orig_bytes": i["olen"], "fmt_bytes": i["L"]},
             "observed": {"exit": o["exit"], "rc": o["rc"], "file": o["file"], "tmp_left": o.get("left") or [],
                          "calls": ["%s(%s)=%s" % (e["op"], e["obj"], e["res"] if e["op"] != "write" or e["res"] != "ok" else e["n"])
                                    for e in o["events"]][-8:], "stderr": (o.get("stderr") or "")[-160:]},
             "class": {"inp": o["inp"], "fmt": i["fmt"], "fault": f0["f"] if f0 else "none",
                       "fault_op": st["op"] if st else ("exit" if f0 else "none"), "fault_obj": st["obj"] if st else "-",
                       "how": o["how"].split(":")[0], "exit": o["exit"], "file": o["file"]["b"]},
             "key": o["id"], "validated": True, "mismatch": [], "drift": []}
        for v in a["viol"]:
            seen_viol = True
            r["mismatch"].append({"obs": v, "expected": "orig" if v == "FailureKeepsOriginal" else "orig or the text falco fmt prints",
                                  "got": "%s:%d" % (o["file"]["b"], o["file"]["n"])})
        if not a["explained"]:
            r["drift"].append({"obs": "bytes-not-explained-by-calls", "model": a["model"], "got": o["file"]})
        if not a["follows"]:
            r["drift"].append({"obs": "calls-leave-extracted-protocol"})
        outs = pred[o["key"]]["out"]
        if not any(p["exit"] == o["exit"] and p["file"] == o["file"] for p in outs):
            r["drift"].append({"obs": "outcome-not-predicted", "expected": [(p["exit"], p["file"]) for p in outs],
                               "got": (o["exit"], o["file"])})
        ctx.add_result(r)
    mfby = {i["name"]: i for i in multi_files}
    for o in multi_obs:
        a = acc.get(o["id"])
        if a is None:
            raise MachineryFault("multi-file trace %s was not consumed by FmtWriteTrace" % o["id"])
        i = mfby[o["inp"]]
        r = {"id": o["id"], "input": {"inp": o["inp"], "multi": True, "how": o["how"], "seed": ctx.seed, "orig_bytes": i["olen"], "fmt_bytes": i["L"]},
             "observed": {"exit": o["exit"], "file": o["file"]},
             "class": {"inp": "multi", "fmt": "text", "fault": "none", "how": "multi", "exit": o["exit"], "file": o["file"]["b"]},
             "key": o["id"], "validated": True, "mismatch": [], "drift": []}
        for v in a["viol"]:
            seen_viol = True
            r["mismatch"].append({"obs": v, "expected": "orig or the text falco fmt prints for this file",
                                  "got": "%s:%d" % (o["file"]["b"], o["file"]["n"])})
        if o["exit"] == "ok" and o["file"]["b"] == "orig" and i["opfx"] != i["L"]:
            r["drift"].append({"obs": "success-without-rewrite"})
        ctx.add_result(r)
    ctx.notes["runs"] = len(done)
    if model_viol and not seen_viol and not rp:
        raise MachineryFault("the model violates the requirement (%s) but no run of the real binary reproduced a violation: "
                             "the mechanism layer misdescribes the code" % ctx.notes["model_verdict"])
    shutil.rmtree(base, ignore_errors=True)
