"""C17 - HTTP header variables obey store laws.

spec/Headers.tla: mechanism layer (net/http canonical key + headerKeyStore set-ness + the sub-field regular
expression of field.go, character by character) |= requirement layer (read-after-set / read-after-unset,
spelling-insensitivity, sub-field frame laws), checked by TLC on every reachable store to depth MaxOps.
Every (store, operation) transition is emitted once with a shortest witness sequence and the read-back both
layers predict after every operation, and replayed by harness/cmd/vhc17 through the real code on every
(object, scope) pair in which the object is writable, through VCL statements and through the variable API.
"""
import json, os
from concurrent.futures import ThreadPoolExecutor
import vlib
from vlib import MachineryFault

LEVEL = "model_checking"
BIN = "vhc17"


def shard(path, n, workdir, name):
    outs = [open(os.path.join(workdir, "%s_%02d.jsonl" % (name, i)), "w") for i in range(n)]
    k = 0
    with open(path) as f:
        for line in f:
            outs[k % n].write(line)
            k += 1
    for o in outs:
        o.close()
    return [o.name for o in outs], k


def replay(ctx, beh_path, name, extra=None, nshards=None):
    n = nshards or min(ctx.workers, 16)
    shards, total = shard(beh_path, n, ctx.work, name)
    if total == 0:
        raise MachineryFault("no behaviours to replay (dead driver)")
    ctx.build_bin(BIN)

    def one(i):
        return ctx.harness(BIN, ["c17replay", "-prefix", "%s%d_" % (name, i)] + (extra or []), stdin_path=shards[i],
                           out_name="%s_res_%02d.jsonl" % (name, i), timeout=3000)
    with ThreadPoolExecutor(max_workers=n) as ex:
        return list(ex.map(one, range(n))), total


def plant_canaries(ctx, beh_path):
    """two corrupted behaviours: (1) a required value is altered, (2) a cell the last operation changes is
    declared 'unchanged'.  The replay must report a mismatch for both."""
    eq_c = fr_c = None
    with open(beh_path) as f:
        for line in f:
            b = json.loads(line)
            st = b["steps"]
            last = st[-1]
            if eq_c is None:
                for i, row in enumerate(last["r"][0]):
                    for j, t in enumerate(row):
                        if t.startswith("=") and eq_c is None:
                            c = json.loads(line)
                            c["steps"][-1]["r"][0][i][j] = t + "#"
                            eq_c = c
            if fr_c is None and len(st) >= 2:
                prev = st[-2]["m"][0]
                for i, row in enumerate(last["m"][0]):
                    for j, t in enumerate(row):
                        if t != prev[i][j] and fr_c is None:
                            c = json.loads(line)
                            c["steps"][-1]["r"][0][i][j] = "~"
                            fr_c = c
            if eq_c and fr_c:
                break
    if not (eq_c and fr_c):
        raise MachineryFault("no behaviour to derive canaries from")
    p = os.path.join(ctx.work, "canaries.jsonl")
    with open(p, "w") as f:
        f.write(json.dumps(eq_c) + "\n" + json.dumps(fr_c) + "\n")
    ress, _ = replay(ctx, p, "canary", extra=["-pairs", "req:recv,resp:deliver"], nshards=1)
    got = list(ctx.read_results(ress[0]))
    want = ["readback", "frame"]
    for r, w in zip(got, want):
        if not any(m.get("obs") == w for m in (r.get("mismatch") or [])):
            ctx.defer_fault("canary (%s) was accepted by the replay comparison" % w)
    if len(got) != 2:
        raise MachineryFault("canary run produced %d results" % len(got))


def run(ctx):
    quick = ctx.tier == "quick"
    ctx.rule = ("one behaviour per (store, operation) transition of spec/Headers.tla reachable within MaxOps operations "
                "from the empty store (TLC VIEW = store before the operation, operation, depth), each with a shortest "
                "witness sequence; replayed on 17 (object, scope) pairs x {VCL statements, variable API} with a read-back "
                "of every spelling x {whole, sub-field key} cell after every operation; distinct = distinct operation sequences")
    ctx.assumptions = [
        "alphabet: header names Foo/fOO/FOO, X-Bar/x-bar; keys a, b, ab; values over {x, y, space, comma, =, newline}, empty, "
        "not-set; sub-field values with every character the quoting rule of field.go treats specially, a double quote, a backslash "
        "(before a letter, at the end, before a quote, doubled) in the 'special' alphabet",
        "vcl_pipe is not simulated by the interpreter (SetScope has no arm), so (req|bereq, PIPE) are not exercised",
        "sequences that mix a not-set API value and a not-set VCL expression are expressible in neither binding and are skipped",
        "Cookie sub-fields (separate code path) are outside the alphabet",
    ]
    if ctx.replay:
        rp = json.load(open(ctx.replay))
        inp = os.path.join(ctx.work, "replay_beh.jsonl")
        with open(inp, "w") as f:
            f.write(json.dumps(rp["case"]["input"]) + "\n")
        ress, _ = replay(ctx, inp, "rp", nshards=1)
        ctx.add_results(ress[0])
        return

    # 0. vacuity guard on the model: the requirement layer must reject the mechanism falco had before the fixes
    for leg in ('{"exact-keys"}', '{"empty-subfield"}', '{"add-unassigned"}'):   # ("unset-ws-truncates" needs depth 5)
        alpha = '"thorough"' if "add" in leg else '"quick"'
        g = ctx.tlc("Headers", defines={"Alphabet": alpha, "Mode": '"cover"', "MaxOps": "2", "Legacy": leg}, workers=2,
                    expect_violation=True, timeout=300, tag="vacuity-guard " + leg)
        if not g.violated:
            raise MachineryFault("Headers.tla: the laws accept the legacy mechanism %s (requirement layer is vacuous)" % leg)
    ctx.states, ctx.transitions = 0, 0   # the guard runs are not evidence of exploration

    # 1. model checking (mechanism |= requirement) + emission
    #    cover: every (store, operation) transition of the large alphabets, shortest witness
    #    seq:   every operation sequence of a small alphabet (reaches implementation states the abstract store
    #           does not distinguish), one object, and five objects of one context ("multi")
    #    walk:  seeded random walks over the large alphabet
    if quick:
        runs = [("cover", "quick", 3, None, "all"), ("seq", "special", 2, None, "all"),
                ("seq", "small", 4, None, "sampled"), ("seq", "multi", 3, None, "multi"), ("seq", "flow", 4, None, "multi"),
                ("walk", "thorough", 8, 400, "sampled")]
    else:
        runs = [("cover", "thorough", 3, None, "all"), ("cover", "deep", 4, None, "sampled"),
                ("seq", "small12", 5, None, "sampled"), ("seq", "special", 3, None, "sampled"), ("seq", "multi", 3, None, "multi"), ("seq", "flow", 5, None, "multi"),
                ("walk", "thorough", 8, 4000, "sampled")]
    groups = {}
    for mode, alpha, depth, sim, how in runs:
        defs = {"Alphabet": '"%s"' % alpha, "Mode": '"%s"' % mode, "MaxOps": str(depth), "Legacy": "{}"}
        if mode == "walk":
            m = ctx.tlc("Headers", cfg="HeadersWalk.cfg", defines=defs, simulate=sim, depth=depth + 2, timeout=2400,
                        tag="walk %s depth %d" % (alpha, depth))
        else:
            m = ctx.tlc("Headers", cfg=("Headers.cfg" if mode == "cover" else "HeadersSeq.cfg"), defines=defs,
                        timeout=2400, tag="laws+emit %s %s depth %d" % (mode, alpha, depth))
        if m.violated:
            raise MachineryFault("Headers.tla: the mechanism layer violates %s on the model (a lead, not a verdict; see %s)"
                                 % (m.violated, m.out_path))
        if m.behaviours == 0:
            raise MachineryFault("TLC emitted no behaviour (%s %s)" % (mode, alpha))
        groups.setdefault(how, []).append(m.beh_path)
        ctx.notes.setdefault("behaviours_emitted", {})["%s/%s/%d" % (mode, alpha, depth)] = m.behaviours
    files = {}
    for how, bfs in groups.items():
        files[how] = os.path.join(ctx.work, "beh_%s.jsonl" % how)
        seen = set()
        with open(files[how], "w") as out:
            for bf in bfs:
                for line in open(bf):
                    h = hash(line)
                    if h in seen:
                        continue
                    seen.add(h)
                    out.write(line)
    allb = files["all"]
    ctx.exhaustive = True
    ctx.notes["exhaustive_scope"] = ("cover/<large alphabet>/3: every transition on every (object, scope, binding); seq and deep "
                                     "cover: every behaviour on req:recv and beresp:fetch, the 15 other pairs on every 8th "
                                     "behaviour each (rotating); multi: every sequence in one context; walk: sampled")

    # 2. canaries
    plant_canaries(ctx, allb)

    # 3. replay on the real code
    nruns = total = 0
    for how, path in files.items():
        extra = {"all": None, "sampled": ["-every", "8"], "multi": None}[how]
        ress, n = replay(ctx, path, "b" + how[0], extra=extra)
        total += n
        for rp in ress:
            for r in ctx.read_results(rp):
                nruns += (r.get("observed") or {}).get("runs", 0)
                if not r.get("validated"):
                    ctx.notes["skipped_inexpressible"] = ctx.notes.get("skipped_inexpressible", 0) + 1
                ctx.add_result(r)
    ctx.notes["replay_runs"] = nruns
    ctx.notes["behaviours_replayed"] = total
    if nruns == 0:
        raise MachineryFault("replay executed nothing")
