"""C18 - concurrent requests and concurrent lint plugins are serialisable.

spec/Serial.tla    (TLC: serialisable with the handler lock, not without; emits every schedule of N requests
                    at the granularity of the replayer's gates)
 -> vhc18 sched    (race-instrumented; realises each schedule on the real Interpreter.ServeHTTP with gates in
                    Debugger.Run and the ResponseWriter) and vhc18 free (2..16 free-running requests, jitter,
                    GOMAXPROCS in {1,2,16})
 -> spec/LifecycleTrace.tla  (decides: TLC searches a linearisation of each concurrent trace - responses,
                    X-Cache, restart counts, rate-counter values, final cache must be those of some one-at-a-time
                    order consistent with real-time precedence)
 -> spec/SerialTrace.tla     (mechanism level: the recorded lock events are a behaviour of the locked handler)
spec/Plugins.tla   (TLC: every diagnostic reported with a synchronised append, lost update without)
 -> vhc18 plugins  (real linter + falco-vplug processes; multiset of reported diagnostics = expected)
The Go race detector supplies the observation "data race".
"""
import glob, json, os, subprocess
import vlib
from vlib import MachineryFault
from concurrent.futures import ThreadPoolExecutor

LEVEL = "model_checking"


def shard(path, n, workdir, name):
    outs = [open(os.path.join(workdir, "%s_%02d.jsonl" % (name, i)), "w") for i in range(n)]
    k = 0
    seen = set()
    with open(path) as f:
        for line in f:
            if line in seen:
                continue
            seen.add(line)
            outs[k % n].write(line)
            k += 1
    for o in outs:
        o.close()
    return [o.name for o in outs], k


def race_reports(ctx, pattern):
    reps = []
    for f in glob.glob(pattern):
        txt = open(f, errors="replace").read()
        for chunk in txt.split("=================="):
            if "WARNING: DATA RACE" in chunk:
                reps.append(chunk.strip()[:3000])
    return reps


def tolerant(ctx, crashes, *a, **kw):
    """ctx.harness, but a Go runtime crash inside falco code under concurrency (fatal error: concurrent map
    writes, nil dereference of another request's state ...) is an observation, not a machinery fault"""
    try:
        return ctx.harness(*a, **kw)
    except MachineryFault as e:
        outp = os.path.join(ctx.work, kw.get("out_name"))
        errp = outp + ".err"
        txt = open(errp, errors="replace").read() if os.path.exists(errp) else ""
        i = min([x for x in (txt.find("fatal error:"), txt.find("panic:")) if x >= 0] or [-1])
        if i >= 0 and "github.com/ysugimoto/falco/v2/" in txt[i:]:
            crashes.append(txt[i:i + 3000])
            return outp if os.path.exists(outp) else None
        raise


def validate(ctx, module, files, tag, canary_fn):
    """concatenate ndjson traces, add canaries, run the trace spec; returns (ids, accepted)"""
    allp = os.path.join(ctx.work, "%s_%s.ndjson" % (module, tag))
    ids, canaries = [], []
    first = None
    with open(allp, "w") as out:
        for tf in files:
            for line in open(tf):
                line = line.strip()
                if not line:
                    continue
                tr = json.loads(line)
                ids.append(tr["id"])
                out.write(line + "\n")
                if first is None and canary_fn(json.loads(line)) is not None:
                    first = tr
        if first is None:
            raise MachineryFault("no trace suitable for a canary (%s)" % module)
        c = canary_fn(json.loads(json.dumps(first)))
        c["id"] = "canary-" + module
        out.write(json.dumps(c) + "\n")
        canaries.append(c["id"])
    res = ctx.tlc(module, extra_files=[allp], defines={"TraceFile": '"%s"' % os.path.basename(allp)},
                  timeout=1800, tag="trace-validation:" + tag)
    accepted = set(json.loads(l)["accept"] for l in open(res.beh_path))
    for c in canaries:
        if c in accepted:
            ctx.defer_fault("canary %s accepted by %s" % (c, module))
    if res.violated:
        raise MachineryFault("%s: invariant %s failed on a recorded execution" % (module, res.violated))
    return ids, accepted


def canary_lifecycle(tr):
    # give the second request in linearisation order the counter value of the first: no order explains it
    if len(tr["reqs"]) < 2 or any(q["outcome"] != "ok" for q in tr["reqs"]):
        return None
    tr["reqs"][1]["seen"] = tr["reqs"][0]["seen"]
    return tr


def canary_events(tr):
    ev = tr["events"]
    ent = [i for i, e in enumerate(ev) if e["ev"] == "enter"]
    if len(ent) < 2:
        return None
    # move the second request's enter right after the first one's: two requests inside at once
    e = ev.pop(ent[1])
    ev.insert(ent[0] + 1, e)
    return tr


def run(ctx):
    quick = ctx.tier == "quick"
    ctx.rule = ("gated: every complete schedule of N requests enumerated by TLC from Serial.tla realised on the real "
                "handler; free: 2..16 free-running requests with jitter under GOMAXPROCS 1/2/16; plugins: P plugin "
                "processes x K diagnostics (x batch); distinct = distinct (kinds, schedule/enter order)")
    ctx.assumptions = [
        "harness built with the Go race detector; a race report in any run is a violation",
        "linearisation window of a request = [first statement executed, response header written]",
        "schedules are enumerated in the model and realised through gates (Debugger.Run, ResponseWriter.WriteHeader); "
        "free-running schedules are sampled",
    ]
    vh = ctx.build_bin("vhc18", race=True)
    plug = ctx.build_bin("falco-vplug")
    plugdir = os.path.dirname(plug)

    # ---- model: serialisable with the lock, not without (sanity of the requirement itself)
    m = ctx.tlc("Serial", defines={"N": "3", "KindSet": '{"L", "E", "F"}' if quick else '{"L", "P", "E", "R", "F"}'}, timeout=900, tag="schedules")
    if m.violated:
        raise MachineryFault("Serial.tla (Locked) violates %s on the model" % m.violated)
    u = ctx.tlc("Serial", cfg="SerialUnlocked.cfg", timeout=300, expect_violation=True, tag="unlocked-sanity")
    if "Serialisable" not in u.violated:
        raise MachineryFault("Serial.tla without the lock is still serialisable: the model is vacuous")
    pm_files = []
    plans = [(2, 1, False, "{}"), (3, 2, False, "{}"), (2, 2, True, "{}"), (4, 1, False, "{1, 2}"), (3, 1, False, "{1}")] if quick else \
            [(2, 1, False, "{}"), (2, 3, False, "{}"), (3, 2, False, "{}"), (4, 2, False, "{}"), (4, 3, False, "{}"), (2, 2, True, "{}"),
             (3, 3, True, "{}"), (4, 1, True, "{}"), (4, 1, False, "{1, 2}"), (3, 1, False, "{1}"), (4, 2, False, "{1, 2, 3}"), (4, 2, True, "{2}")]
    for (p, k, nested, fails) in plans:
        pm = ctx.tlc("Plugins", defines={"P": str(p), "K": str(k), "Nested": "TRUE" if nested else "FALSE", "Fails": fails}, timeout=600,
                     tag="plugins P=%d K=%d nested=%s fails=%s" % (p, k, nested, fails))
        if pm.violated:
            raise MachineryFault("Plugins.tla (synchronised, wait first) violates %s" % pm.violated)
        pm_files.append(pm.beh_path)
    pu = ctx.tlc("Plugins", cfg="PluginsUnsync.cfg", timeout=300, expect_violation=True, tag="plugins-unsync-sanity")
    if "AllReported" not in pu.violated:
        raise MachineryFault("Plugins.tla without synchronisation loses nothing: the model is vacuous")
    pd = ctx.tlc("Plugins", cfg="PluginsDeferredWait.cfg", timeout=300, expect_violation=True, tag="plugins-deferred-wait-sanity")
    if "AllReported" not in pd.violated:
        raise MachineryFault("Plugins.tla with the wait deferred behind the body loses nothing: the model is vacuous")

    extra = []
    if not quick:
        s4 = ctx.tlc("Serial", cfg="SerialSim.cfg", simulate=1500, depth=40, defines={"N": "4"}, timeout=600, tag="N=4 simulate")
        extra.append(s4.beh_path)

    racedir = os.path.join(ctx.work, "race")
    os.makedirs(racedir)
    env = {"GORACE": "log_path=%s/r halt_on_error=0 exitcode=0" % racedir}

    crashes = []
    # ---- gated replay of schedules
    allb = os.path.join(ctx.work, "sched_all.jsonl")
    with open(allb, "w") as o:
        for f in [m.beh_path] + extra:
            o.write(open(f).read())
    nsh = min(ctx.workers, 16)
    shards, total = shard(allb, nsh, ctx.work, "sched")
    if total == 0:
        raise MachineryFault("no schedules emitted")

    def one(i):
        tr, ev = shards[i] + ".traces", shards[i] + ".events"
        out = tolerant(ctx, crashes, vh, ["sched", "-traces", tr, "-events", ev, "-prefix", "s%d_" % i], stdin_path=shards[i],
                          env=env, out_name="sched_res_%02d.jsonl" % i, timeout=3000)
        return out, tr, ev
    with ThreadPoolExecutor(max_workers=nsh) as ex:
        gated = list(ex.map(one, range(nsh)))

    # ---- free-running
    free = []
    rounds = 24 if quick else 180
    for gmp in (1, 2, 16):
        tr, ev = os.path.join(ctx.work, "free_%d.traces" % gmp), os.path.join(ctx.work, "free_%d.events" % gmp)
        e2 = dict(env); e2["GOMAXPROCS"] = str(gmp)
        out = tolerant(ctx, crashes, vh, ["free", "-traces", tr, "-events", ev, "-rounds", str(rounds), "-maxn", "16", "-prefix", "f%d_" % gmp],
                          env=e2, out_name="free_res_%d.jsonl" % gmp, timeout=3000)
        free.append((out, tr, ev))

    # ---- plugins
    pw = os.path.join(ctx.work, "plug_workloads.jsonl")
    seen = set()
    with open(pw, "w") as o:
        for f in pm_files:
            for line in open(f):
                w = json.loads(line)
                key = (w["p"], w["k"], w.get("nested"), json.dumps(w.get("fails")))
                if key in seen:
                    continue
                seen.add(key)
                o.write(line)
    plug_outs = []
    for gmp in ("1", "2", ""):           # fewer CPUs than plugins, and the default
        e3 = dict(env)
        if gmp:
            e3["GOMAXPROCS"] = gmp
        plug_outs.append(ctx.harness(vh, ["plugins", "-plugdir", plugdir, "-batch", "100", "-repeat", "2" if quick else "6"],
                                     stdin_path=pw, env=e3, out_name="plug_res_%s.jsonl" % (gmp or "d"), timeout=1800))

    # ---- trace validation
    runs = [r for r in gated + free if r[0] is not None and os.path.exists(r[1]) and os.path.exists(r[2])]
    if crashes:
        ctx.add_result({"id": "crash-under-concurrency", "input": {"crashed_harness_processes": len(crashes)},
                        "class": {"mode": "crash"}, "mismatch": [{"obs": "crash-under-concurrency", "stderr_tail": crashes[0]}]})
    if not runs:
        return
    ids, acc = validate(ctx, "LifecycleTrace", [r[1] for r in runs], "serial", canary_lifecycle)
    eids, eacc = validate(ctx, "SerialTrace", [r[2] for r in runs], "lock", canary_events)
    for (res_path, _, _) in runs:
        for r in ctx.read_results(res_path):
            traced = bool(r.get("validated"))      # the harness wrote a trace for this case
            mm = r.get("mismatch") or []
            if traced and r["id"] not in acc:
                mm.append({"obs": "not-serialisable", "detail": "no one-at-a-time order explains the responses"})
            if traced and r["id"] not in eacc:
                r.setdefault("drift", []).append({"obs": "mutual-exclusion", "detail": "lock events are not a behaviour of the locked handler"})
            r["mismatch"] = mm
            ctx.add_result(r)
    for po in plug_outs:
        ctx.add_results(po)

    # ---- race detector
    reps = race_reports(ctx, racedir + "/r*")
    ctx.notes["race_reports"] = len(reps)
    if reps:
        ctx.add_result({"id": "race-detector", "input": {"reports": len(reps)}, "class": {"mode": "race"},
                        "mismatch": [{"obs": "data-race", "first_report": reps[0]}]})
    # canary for the response comparison: a foreign marker must be flagged (self-test of project())
    ctx.notes["schedules"] = total
