"""C19 - the AST codec round-trips every statement and decoding is total.

spec/Codec.tla (TLC): generated statements / declarations of every node kind (optional parts present and absent,
   empty and > 64 KiB strings, 4 KiB+ blocks sliding over the read-buffer boundary), the encoder and the decoder as
   field tables over one flat frame sequence; RoundTrip and DecTotal checked on the model (CodecReq.cfg, a lead only);
   one behaviour per node and per frame-level mutation (cut at / inside every frame, type substitution, leaf shrink)
 -> vhc19 replay: node -> VCL -> real parser -> codec.Encode -> frames compared -> codec.Decode -> projection compared
   with the semantic node TLC expects; mutated bytes decoded under a progress budget (also plugin.ReadLinterRequest)
 -> vhc19 bytes: every byte truncation, seeded bit flips / byte substitutions / splices (totality only).
"""
import json, os, sys
import vlib
from vlib import MachineryFault

LEVEL = "model_checking"
sys.setrecursionlimit(200000)      # behaviours carry trees nested 1000 deep (json)


def shard_file(path, n, workdir, name):
    # keep an rt behaviour and the mutations of its node in the same shard: shard by node
    outs = [open(os.path.join(workdir, "%s_%02d.jsonl" % (name, i)), "w") for i in range(n)]
    groups = {}
    for line in open(path):
        b = json.loads(line)
        groups.setdefault(json.dumps(b["node"], sort_keys=True), []).append((0 if b["kind"] == "rt" else 1, line))
    for k, (key, lines) in enumerate(sorted(groups.items())):
        for _, line in sorted(lines, key=lambda x: x[0]):
            outs[k % n].write(line)
    for o in outs:
        o.close()
    return [o.name for o in outs]


def run_sharded(ctx, cmd, shards, name):
    """run vhc19 <cmd> on every shard.  A harness process that dies (fatal Go error: stack overflow, out of memory - not
    a recoverable panic) is a totality observation on the case it was processing: the case is recorded as a crash and
    the rest of the shard is run in a new process."""
    from concurrent.futures import ThreadPoolExecutor
    ctx.build_bin("vhc19")

    def one(i):
        outs, path, part = [], shards[i], 0
        while True:
            out_name = "%s_res_%02d_%d.jsonl" % (name, i, part)
            try:
                outs.append(ctx.harness("vhc19", [cmd], stdin_path=path, out_name=out_name, timeout=3000))
                return outs
            except MachineryFault as e:
                outp = os.path.join(ctx.work, out_name)
                done = sum(1 for _ in open(outp)) if os.path.exists(outp) else 0
                lines = open(path).readlines()
                # bytes mode answers only rt behaviours: map answered results back to input lines
                idxs = [k for k, l in enumerate(lines) if cmd == "replay" or json.loads(l)["kind"] == "rt"]
                if done >= len(idxs) or part >= 20:
                    raise
                k = idxs[done]
                b = json.loads(lines[k])
                crash = {"id": "crash_%s_%02d_%d" % (name, i, part), "validated": True,
                         "input": {"kind": "mut" if b["kind"] == "mut" else "rt", "node": b["node"], "mut": b.get("mut")},
                         "observed": {"harness": str(e)[-300:]},
                         "class": {"case": b["kind"], "kind": b["node"]["k"], "mut": (b.get("mut") or {}).get("m", "none")},
                         "mismatch": [{"obs": "totality", "why": "crash", "detail": "the process died while this case was handled"}]}
                cp = os.path.join(ctx.work, "%s_crash_%02d_%d.jsonl" % (name, i, part))
                open(cp, "w").write(json.dumps(crash) + "\n")
                # keep what was answered, add the crash, continue after the crashing case
                outs.append(outp)
                outs.append(cp)
                part += 1
                path = os.path.join(ctx.work, "%s_rest_%02d_%d.jsonl" % (name, i, part))
                open(path, "w").writelines(lines[k + 1:])
    with ThreadPoolExecutor(max_workers=len(shards)) as ex:
        return [p for ps in ex.map(one, range(len(shards))) for p in ps]


def run(ctx):
    quick = ctx.tier == "quick"
    os.environ["JDK_JAVA_OPTIONS"] = "-Xss1g"      # recursive operators over 700-token sequences (main thread stack)
    ctx.rule = ("cases = (a) every node TLC generates from spec/Codec.tla, round-tripped through the real parser, encoder and "
                "decoder; (b) every frame-level mutation TLC enumerates of one maximal node per kind, decoded by the real decoder; "
                "(c) per node one batch of byte-level mutations (all truncations, seeded flips/substitutions/splices). "
                "distinct = distinct semantic node (a), distinct mutated byte string (b), distinct node (c)")
    ctx.assumptions = [
        "the concretiser (node -> VCL text) is checked per case: the parsed statement must project to the node TLC generated",
        "a decoder that reads past the end of input more than 10000 times is classified as never returning (no wall clock)",
        "byte-exact wire compatibility with older plugins is not part of the statement",
    ]
    defs = {"Tier": '"%s"' % ctx.tier, "MutBases": '"kinds"' if quick else '"all"'}
    if ctx.replay:
        rp = json.load(open(ctx.replay))["case"]["input"]
        defs = {"Tier": '"%s"' % rp.get("tier", ctx.tier), "MutBases": '"kinds"' if rp.get("tier", ctx.tier) == "quick" else '"all"'}
    m = ctx.tlc("Codec", defines=defs, timeout=3000, tag="generate+predict")
    if m.violated:
        raise MachineryFault("Codec.tla: %s (see %s)" % (m.violated, m.out_path))
    class _R:
        violated = []
    req = _R()
    if not quick and not ctx.replay:
        # the same two predicates as invariants (TLC stops at the first violation; a lead only)
        req = ctx.tlc("Codec", cfg="CodecReq.cfg", defines=defs, timeout=3000, tag="mechanism|=requirement")
    if m.behaviours == 0:
        raise MachineryFault("TLC emitted no behaviours (dead driver)")
    beh = m.beh_path
    nrt = nmut = 0
    model_rt_fail = model_total_fail = 0
    canary_line = None
    with open(beh) as f:
        for line in f:
            b = json.loads(line)
            if b["kind"] == "rt":
                nrt += 1
                if not b["rt"]:
                    model_rt_fail += 1
                if canary_line is None and b["rt"] and b["node"]["k"] == "set" and not b["long"]:
                    canary_line = b
            else:
                nmut += 1
                if not b["total"]:
                    model_total_fail += 1
    # RoundTrip / DecTotal as TLC evaluated them in every state of the emission run
    ctx.notes["model_verdict"] = "RoundTrip fails on %d of %d nodes, DecTotal on %d of %d mutations (model)" % (
        model_rt_fail, nrt, model_total_fail, nmut)
    ctx.notes["nodes"] = nrt
    ctx.notes["frame_mutations"] = nmut
    ctx.exhaustive = False
    if ctx.replay:
        want = json.dumps(rp["node"], sort_keys=True) if "node" in rp else None
        sel = os.path.join(ctx.work, "replay_beh.jsonl")
        with open(sel, "w") as o:
            for line in open(beh):
                b = json.loads(line)
                sem = json.dumps(b.get("sem", None), sort_keys=True)
                if rp["kind"] == "rt" and b["kind"] == "rt" and sem == want:
                    o.write(line)
                elif rp["kind"] == "mut" and json.dumps(b["node"], sort_keys=True) == want and \
                        (b["kind"] == "rt" or all(b["mut"].get(k) == v for k, v in rp["mut"].items())):
                    o.write(line)
                elif rp["kind"] == "bytes" and b["kind"] == "rt" and sem == want:
                    o.write(line)
        res = run_sharded(ctx, "bytes" if rp["kind"] == "bytes" else "replay", [sel], "rp")
        for pth in res:
            for r in ctx.read_results(pth):
                if rp["kind"] == "mut" and r["id"].startswith("rt"):
                    continue
                ctx.add_result(r)
        return
    n = min(ctx.workers, 16)
    shards = shard_file(beh, n, ctx.work, "beh")
    res = run_sharded(ctx, "replay", shards, "replay")
    bres = run_sharded(ctx, "bytes", shards, "bytes")
    seen_rt_fail = 0
    byte_inputs = 0
    for p in res + bres:
        for r in ctx.read_results(p):
            mm = r.get("mismatch") or []
            if any(x.get("obs") == "machinery" for x in mm):
                raise MachineryFault("concretiser / projection fault on %s: %s" % (r["id"], json.dumps(mm)[:400]))
            if r["id"].startswith("rt") and any(x.get("obs") == "roundtrip" for x in mm):
                seen_rt_fail += 1
            if r["id"].startswith("by"):
                byte_inputs += r["observed"]["inputs"]
            if isinstance(r.get("input"), dict):
                r["input"]["tier"] = ctx.tier
            ctx.add_result(r)
    # canary - after the run, and only if the run found nothing: a real violation is the verdict (exit 1) whatever the
    # canary would do.  The expected semantic node of one behaviour is corrupted; the replay must report exactly it.
    if not any(u for (_, u, _) in ctx.failing):
        if canary_line is None:
            raise MachineryFault("no behaviour to derive the canary from")
        can = json.loads(json.dumps(canary_line))
        can["sem"]["ident"]["v"] = "req.http.CANARY"
        cpath = os.path.join(ctx.work, "canary.jsonl")
        with open(cpath, "w") as o:
            o.write(json.dumps(can) + "\n")
        cres = [r for p in run_sharded(ctx, "replay", [cpath], "canary") for r in ctx.read_results(p)]
        if len(cres) != 1 or not any(mm.get("obs") in ("machinery", "roundtrip") for mm in (cres[0].get("mismatch") or [])):
            raise MachineryFault("canary (corrupted expected node) was accepted by the replay")
    ctx.notes["byte_level_inputs"] = byte_inputs
    if ctx.results_n < nrt + nmut:
        raise MachineryFault("replay returned %d results for %d behaviours" % (ctx.results_n, nrt + nmut))
    if (req.violated or model_rt_fail or model_total_fail) and seen_rt_fail == 0 and not any(f for f in ctx.failing):
        raise MachineryFault("the model violates the requirement (%s) but the real code did not: mechanism layer misdescribes the code"
                             % ctx.notes["model_verdict"])
