"""X01 (extension, not a listed property) - step debugging: the interpreter's DebugState plumbing and the DAP adapter.

spec/Stepper.tla (TLC)  requirement = where continue / stepIn / next / stepOut must stop, defined over the
                        denotational execution sequence of a program; mechanism = the per-block DebugState of
                        interpreter/statement.go + interpreter/subroutine.go and Debugger.Run of dap/debugger.go.
                        TLC checks the invariants (Stepper.cfg), proves inside the bounds that the mechanism departs
                        from the requirement only in the classes K1..K5 (OnlyKnownDevs), and prints every behaviour
                        (program, breakpoints, command per stop, mechanism stops, required stops, class per step).
vhx01 dap               replays behaviours on the real `falco dap` binary over the Debug Adapter Protocol (one adapter
                        process + one HTTP request per behaviour) and compares stops, stop reasons, the log sequence,
                        breakpoint answers, the terminated event and the HTTP response.
A stop that differs from the requirement is a mismatch; it is excused only when the real binary did exactly what the
mechanism layer says AND TLC classified that step as one of the known classes (known_findings/X01.jsonl).
A stop that differs from the mechanism layer but meets the requirement is drift.
"""
import json, os, re, collections
import vlib
from vlib import MachineryFault

LEVEL = "model_checking"


def programs_from(out_path):
    with open(out_path, errors="replace") as f:
        for line in f:
            if line.startswith('<<"PROGRAMS", '):
                s = line.strip()[len('<<"PROGRAMS", '):]
                s = s[:-2] if s.endswith(">>") else s
                return json.loads(json.loads(s))
    raise MachineryFault("TLC did not print the program data")


def run(ctx):
    quick = ctx.tier == "quick"
    ctx.rule = ("one case = one behaviour explored by TLC (program, breakpoint set, command issued at each stop) replayed on the "
                "real `falco dap` binary: one adapter process, one HTTP request; distinct = distinct (program, breakpoints, "
                "commands); non-trivial = all of them")
    ctx.assumptions = [
        "the four model programs (calls two deep, nested blocks, if/else-if/else chains, bare return, error inside a callee, "
        "functional subroutines called from expressions) stand for the statement kinds that touch the DebugState plumbing",
        "stops are identified by the line of the top stack frame and the number of log lines printed before the stop",
        "only the DAP front end is driven; the TUI front end (debugger/debugger.go) has the same Run logic but is not executed",
    ]
    # 1. invariants on the model
    inv = ctx.tlc("Stepper", cfg="Stepper.cfg", defines={"MaxStops": "3" if quick else "4", "MaxBps": "1" if quick else "2"},
                  timeout=1500, tag="inv")
    if inv.violated:
        raise MachineryFault("Stepper.tla: invariant violated on the model: %s (the mechanism layer or an invariant is wrong; "
                             "a lead only - see %s)" % (inv.violated, inv.out_path))
    # 2. behaviours
    em = ctx.tlc("Stepper", cfg="StepperEmit.cfg", defines={"MaxStops": "3", "MaxBps": "1"}, timeout=1500, tag="emit31")
    progs = programs_from(em.out_path)
    pj = os.path.join(ctx.work, "programs.json")
    with open(pj, "w") as f:
        json.dump(progs, f)
    behs = [json.loads(l) for l in open(em.beh_path)]
    if not quick:
        em2 = ctx.tlc("Stepper", cfg="StepperEmit.cfg", defines={"MaxStops": "4", "MaxBps": "2"}, timeout=2400, tag="emit42")
        behs2 = [json.loads(l) for l in open(em2.beh_path)]
    else:
        behs2 = []
    # stratified sample: every (program, classes of departures, number of stops) stratum is represented
    def pick(bs, per, cap):
        strata = collections.defaultdict(list)
        for b in bs:
            strata[(b["prog"], tuple(sorted(set(d["id"] for d in b["dev"]))), len(b["stops"]))].append(b)
        out = []
        for k in sorted(strata):
            v = strata[k]
            ctx.rng.shuffle(v)
            out += v[:per]
        ctx.rng.shuffle(out)
        return out[:cap], len(strata)
    if quick:
        sel, ns = pick(behs, 12, 900)
    else:
        sel1, ns1 = pick(behs, 60, 4000)
        sel2, ns2 = pick(behs2, 25, 6000)
        sel, ns = sel1 + sel2, ns1 + ns2
    ctx.notes["behaviours_explored"] = len(behs) + len(behs2)
    ctx.notes["strata"] = ns
    ctx.notes["replayed"] = len(sel)
    # canaries: the harness corrupts its own observation; the comparison must reject exactly these
    can = [dict(b, canary=c) for b, c in zip([b for b in sel if len(b["stops"]) >= 2][:2], ["stop", "log"])]
    inp = os.path.join(ctx.work, "behaviours.jsonl")
    with open(inp, "w") as f:
        for b in sel + can:
            f.write(json.dumps(b) + "\n")
    falco = ctx.build_falco()
    scratch = os.path.join(ctx.work, "vcl")
    os.makedirs(scratch, exist_ok=True)
    out = ctx.harness("vhx01", ["dap", "-falco", falco, "-programs", pj, "-dir", scratch, "-jobs", str(min(12, ctx.workers))],
                      stdin_path=inp, timeout=3000)
    seen_canary = 0
    classes = collections.Counter()
    for r in ctx.read_results(out):
        if r["id"].startswith("canary-"):
            seen_canary += 1
            want = "stop-differs-from-requirement" if r["id"].startswith("canary-stop") else "execution-changed"
            items = [m for m in r.get("mismatch", []) if m.get("obs") == want and m.get("dev", "unclassified") == "unclassified"]
            if not items:
                ctx.defer_fault("canary accepted: %s" % r["id"])
            continue
        for m in r.get("mismatch", []):
            classes[m.get("dev", m.get("obs"))] += 1
        ctx.add_result(r)
    if seen_canary != len(can):
        ctx.defer_fault("canaries executed: %d of %d" % (seen_canary, len(can)))
    ctx.notes["departure_items_seen"] = dict(classes)
    ctx.exhaustive = {"model": "Stepper.tla invariants exhaustive at MaxStops=%s MaxBps=%s; replay is a stratified sample" %
                      (("3", "1") if quick else ("4", "2"))}
