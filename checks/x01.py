"""X01 (extension, not a listed property) - step debugging: the interpreter's DebugState plumbing and the DAP adapter.

spec/Stepper.tla (TLC)  requirement = where continue / stepIn / next / stepOut must stop, defined over the
                        denotational execution sequence of a program; mechanism = the per-block DebugState of
                        interpreter/statement.go + interpreter/subroutine.go and Debugger.Run of dap/debugger.go.
                        TLC checks the invariants (Stepper.cfg), proves inside the bounds that the mechanism departs
                        from the requirement only in the classes K1..K5 (OnlyKnownDevs), and prints every behaviour
                        (program, breakpoints, command per stop, mechanism stops, required stops, class per step).
vhx01 dap               replays behaviours on the real `falco dap` binary over the Debug Adapter Protocol (one adapter
                        process + one HTTP request per behaviour) and compares stops, stop reasons, the log sequence,
                        breakpoint answers, the terminated event and the HTTP response.
A stop that differs from the requirement is a mismatch; it is excused only when the real binary did exactly what the
mechanism layer says AND TLC classified that step as one of the known classes (known_findings/X01.jsonl).
A stop that differs from the mechanism layer but meets the requirement is drift.
"""
import json, os, re, collections
import vlib
from vlib import MachineryFault

LEVEL = "model_checking"


def programs_from(out_path):
    with open(out_path, errors="replace") as f:
        for line in f:
            if line.startswith('<<"PROGRAMS", '):
                s = line.strip()[len('<<"PROGRAMS", '):]
                s = s[:-2] if s.endswith(">>") else s
                return json.loads(json.loads(s))
    raise MachineryFault("TLC did not print the program data")


def run(ctx):
    quick = ctx.tier == "quick"
    ctx.rule = ("one case = one behaviour explored by TLC (program, breakpoint set, command issued at each stop) replayed on the "
                "real `falco dap` binary: one adapter process, one HTTP request; distinct = distinct (program, breakpoints, "
                "commands); non-trivial = all of them")
    ctx.assumptions = [
        "the four model programs (calls two deep, nested blocks, if/else-if/else chains, bare return, error inside a callee, "
        "functional subroutines called from expressions) stand for the statement kinds that touch the DebugState plumbing",
        "stops are identified by the line of the top stack frame and the number of log lines printed before the stop",
        "the terminal front end is driven in-process on a tcell simulation screen (hook H2); a stop is recognised from the "
        "goroutine dump (channel receive inside breakPoint), a freeze from one dump showing both goroutines of the cycle",
    ]
    # 1. invariants on the model
    inv = ctx.tlc("Stepper", cfg="Stepper.cfg", defines={"MaxStops": "3" if quick else "4", "MaxBps": "1" if quick else "2"},
                  timeout=1500, tag="inv")
    if inv.violated:
        raise MachineryFault("Stepper.tla: invariant violated on the model: %s (the mechanism layer or an invariant is wrong; "
                             "a lead only - see %s)" % (inv.violated, inv.out_path))
    # 2. behaviours
    em = ctx.tlc("Stepper", cfg="StepperEmit.cfg", defines={"MaxStops": "3", "MaxBps": "1"}, timeout=1500, tag="emit31")
    progs = programs_from(em.out_path)
    pj = os.path.join(ctx.work, "programs.json")
    with open(pj, "w") as f:
        json.dump(progs, f)
    behs = [json.loads(l) for l in open(em.beh_path)]
    if not quick:
        em2 = ctx.tlc("Stepper", cfg="StepperEmit.cfg", defines={"MaxStops": "4", "MaxBps": "2"}, timeout=2400, tag="emit42")
        behs2 = [json.loads(l) for l in open(em2.beh_path)]
    else:
        behs2 = []
    # stratified sample: every (program, classes of departures, number of stops) stratum is represented
    def pick(bs, per, cap):
        strata = collections.defaultdict(list)
        for b in bs:
            strata[(b["prog"], tuple(sorted(set(d["id"] for d in b["dev"]))), len(b["stops"]))].append(b)
        out = []
        for k in sorted(strata):
            v = strata[k]
            ctx.rng.shuffle(v)
            out += v[:per]
        ctx.rng.shuffle(out)
        return out[:cap], len(strata)
    if quick:
        sel, ns = pick(behs, 12, 900)
    else:
        sel1, ns1 = pick(behs, 60, 4000)
        sel2, ns2 = pick(behs2, 25, 6000)
        sel, ns = sel1 + sel2, ns1 + ns2
    ctx.notes["behaviours_explored"] = len(behs) + len(behs2)
    ctx.notes["strata"] = ns
    ctx.notes["replayed"] = len(sel)
    # canaries: the harness corrupts its own observation; the comparison must reject exactly these
    can = [dict(b, canary=c) for b, c in zip([b for b in sel if len(b["stops"]) >= 2][:2], ["stop", "log"])]
    inp = os.path.join(ctx.work, "behaviours.jsonl")
    with open(inp, "w") as f:
        for b in sel + can:
            f.write(json.dumps(b) + "\n")
    falco = ctx.build_falco()
    scratch = os.path.join(ctx.work, "vcl")
    os.makedirs(scratch, exist_ok=True)
    out = ctx.harness("vhx01", ["dap", "-falco", falco, "-programs", pj, "-dir", scratch, "-jobs", str(min(12, ctx.workers))],
                      stdin_path=inp, timeout=3000)
    seen_canary = 0
    classes = collections.Counter()
    for r in ctx.read_results(out):
        if r["id"].startswith("canary-"):
            seen_canary += 1
            want = "stop-differs-from-requirement" if r["id"].startswith("canary-stop") else "execution-changed"
            items = [m for m in r.get("mismatch", []) if m.get("obs") == want and m.get("dev", "unclassified") == "unclassified"]
            if not items:
                ctx.defer_fault("canary accepted: %s" % r["id"])
            continue
        for m in r.get("mismatch", []):
            classes[m.get("dev", m.get("obs"))] += 1
        ctx.add_result(r)
    if seen_canary != len(can):
        ctx.defer_fault("canaries executed: %d of %d" % (seen_canary, len(can)))
    ctx.notes["departure_items_seen"] = dict(classes)

    # 3. the terminal front end: the same behaviours through debugger.New + a simulation screen (hook H2)
    from concurrent.futures import ThreadPoolExecutor
    tsel = [b for b in sel if len(b["stops"]) >= 1]
    ctx.rng.shuffle(tsel)
    tsel = tsel[:240 if quick else 1500]
    tcan = [dict(b, canary="stop") for b in tsel if len(b["stops"]) >= 2][:1]
    shards = min(8, ctx.workers)
    def tui_shard(i):
        part = tsel[i::shards] + (tcan if i == 0 else [])
        pth = os.path.join(ctx.work, "tui_in_%d.jsonl" % i)
        with open(pth, "w") as f:
            for b in part:
                f.write(json.dumps(b) + "\n")
        d = os.path.join(ctx.work, "tui_vcl_%d" % i)
        os.makedirs(d, exist_ok=True)
        return ctx.harness("vhx01", ["tui", "-programs", pj, "-dir", d], stdin_path=pth, timeout=3000, out_name="tui_out_%d.jsonl" % i)
    ctx.build_bin("vhx01")
    with ThreadPoolExecutor(max_workers=shards) as ex:
        outs = list(ex.map(tui_shard, range(shards)))
    tseen, tn = 0, 0
    for o in outs:
        for r in ctx.read_results(o):
            if r["id"].startswith("canary-"):
                tseen += 1
                if not any(m.get("dev") == "unclassified" for m in r.get("mismatch", [])):
                    ctx.defer_fault("canary accepted: %s" % r["id"])
                continue
            tn += 1
            ctx.add_result(r)
    if tseen != len(tcan):
        ctx.defer_fault("tui canaries executed: %d of %d" % (tseen, len(tcan)))
    ctx.notes["tui_replayed"] = tn

    # 4. the key-handling protocol of the terminal front end (spec/TuiLoop.tla)
    kt = ctx.tlc("TuiLoop", cfg="TuiLoop.cfg", timeout=600, tag="keys")
    if kt.violated:
        raise MachineryFault("TuiLoop.tla: invariant violated on the model: %s (a lead only; see %s)" % (kt.violated, kt.out_path))
    allowed = collections.defaultdict(set)
    for l in open(kt.beh_path):
        b = json.loads(l)
        allowed[(b["S"], b["K"])].add(b["outcome"])
    if allowed.get((1, 1)) != {"completes"} or "frozen" not in allowed.get((1, 2), set()):
        raise MachineryFault("TuiLoop.tla outcomes unexpected: %s" % dict(allowed))
    kin = os.path.join(ctx.work, "keys.jsonl")
    with open(kin, "w") as f:
        for (S, K), a in sorted(allowed.items()):
            f.write(json.dumps({"S": S, "K": K, "allowed": sorted(a), "reps": 2 if quick else 8}) + "\n")
        f.write(json.dumps({"S": 1, "K": 1, "allowed": ["completes"], "reps": 1, "canary": True}) + "\n")
    kd = os.path.join(ctx.work, "keys_vcl")
    kout = ctx.harness("vhx01", ["keys", "-programs", pj, "-dir", kd], stdin_path=kin, timeout=1500, out_name="keys_out.jsonl")
    kseen, outcomes = 0, collections.Counter()
    for r in ctx.read_results(kout):
        if r["id"].startswith("canary-"):
            kseen += 1
            if not any(m.get("dev") == "unclassified" for m in r.get("mismatch", [])):
                ctx.defer_fault("canary accepted: %s" % r["id"])
            continue
        outcomes["S%d K%d %s" % (r["input"]["S"], r["input"]["K"], r["observed"]["outcome"])] += 1
        ctx.add_result(r)
    if kseen != 1:
        ctx.defer_fault("key-protocol canary not executed")
    ctx.notes["key_protocol_outcomes"] = dict(outcomes)

    # 5. the goroutines of a DAP session (spec/DapSession.tla): early commands, the last response, disconnect
    dt = ctx.tlc("DapSession", cfg="DapSession.cfg", timeout=600, tag="dapsession")
    if dt.violated:
        raise MachineryFault("DapSession.tla: invariant violated on the model: %s (a lead only; see %s)" % (dt.violated, dt.out_path))
    dallowed = collections.defaultdict(list)
    for l in open(dt.beh_path):
        b = json.loads(l)
        if b["out"] not in dallowed[(b["S"], b["E"])]:
            dallowed[(b["S"], b["E"])].append(b["out"])
    if not dallowed:
        raise MachineryFault("DapSession.tla printed no outcome")
    pin = os.path.join(ctx.work, "proto.jsonl")
    with open(pin, "w") as f:
        for (S, E), a in sorted(dallowed.items()):
            f.write(json.dumps({"S": S, "E": E, "allowed": a, "reps": 2 if quick else 10}) + "\n")
        f.write(json.dumps({"S": 1, "E": 0, "allowed": dallowed[(1, 0)], "reps": 1, "canary": True}) + "\n")
    pout = ctx.harness("vhx01", ["proto", "-falco", falco, "-programs", pj, "-dir", os.path.join(ctx.work, "proto_vcl")],
                       stdin_path=pin, timeout=1500, out_name="proto_out.jsonl")
    pseen, pouts = 0, collections.Counter()
    for r in ctx.read_results(pout):
        if r["id"].startswith("canary-"):
            pseen += 1
            if not any(m.get("dev") == "unclassified" for m in r.get("mismatch", [])):
                ctx.defer_fault("canary accepted: %s" % r["id"])
            continue
        o = r["observed"]
        pouts["S%d E%d unanswered=%d discon=%s" % (r["input"]["S"], r["input"]["E"], o["unanswered_steps"], o["discon"])] += 1
        ctx.add_result(r)
    if pseen != 1:
        ctx.defer_fault("session-protocol canary not executed")
    ctx.notes["dap_session_outcomes"] = dict(pouts)
    ctx.exhaustive = {"model": "Stepper.tla invariants exhaustive at MaxStops=%s MaxBps=%s; replay is a stratified sample" %
                      (("3", "1") if quick else ("4", "2"))}
