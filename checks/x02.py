"""X02 (extension, not a listed property) - expansion of the `#FASTLY <scope>` macro into scoped snippets.

spec/Expand.tla (TLC)  requirement: every execution of a lifecycle subroutine runs its snippets exactly once, in order,
                       where the macro stands; mechanism: extractBoilerplateMacro rewrites the subroutine's statement
                       list in place on every execution.  TLC checks the invariants, classifies every departure
                       (K1 repeated copies after a restart, K2 a trailing macro expands at the top) and prints all
                       168 behaviours (macro position x snippets x restart site x restarts).
vhx02 replay           serves one request per behaviour and macro spelling through the real interpreter with
                       context.WithSnippets and compares the log lines with both sequences.
"""
import json, os
import vlib
from vlib import MachineryFault

LEVEL = "model_checking"


def run(ctx):
    ctx.rule = ("one case = one behaviour of Expand.tla (macro position, snippets per scope, restart site, restarts) in one "
                "macro spelling, one request served by the real interpreter (and a second one through the same interpreter); "
                "distinct = distinct (behaviour, spelling); non-trivial = all")
    ctx.assumptions = ["vcl_recv and vcl_deliver stand for the nine lifecycle subroutines (the expansion code is shared)",
                       "snippets are single log statements; what a snippet contains is not the subject"]
    t = ctx.tlc("Expand", cfg="Expand.cfg", timeout=600)
    if t.violated:
        raise MachineryFault("Expand.tla: invariant violated on the model: %s (a lead only; see %s)" % (t.violated, t.out_path))
    behs = [json.loads(l) for l in open(t.beh_path)]
    if len(behs) != 168:
        raise MachineryFault("expected 168 behaviours, got %d" % len(behs))
    can = dict(next(b for b in behs if b["dev"] == "none" and b["nsnip"] == 2 and b["pos"] == "lead2"), canary=True)
    inp = os.path.join(ctx.work, "behaviours.jsonl")
    with open(inp, "w") as f:
        for b in behs + [can]:
            f.write(json.dumps(b) + "\n")
    out = ctx.harness("vhx02", ["replay"], stdin_path=inp, timeout=900)
    seen = 0
    for r in ctx.read_results(out):
        if r["id"].startswith("canary:"):
            seen += 1
            if not any(m.get("dev") == "unclassified" for m in r.get("mismatch", [])):
                ctx.defer_fault("canary accepted: %s" % r["id"])
            continue
        ctx.add_result(r)
    if seen != 1:
        ctx.defer_fault("canary not executed")
    ctx.exhaustive = {"behaviours": len(behs), "note": "the whole state space of Expand.tla is replayed in five macro spellings"}
