"""X03 (extension, not a listed property) - the `falco console` session.

spec/Console.tla (TLC)  requirement: docs/console.md (scope commands in both forms, refused scopes leave the session where
                        it was, stored values persist across lines and scope changes, expression lines print (TYPE)value,
                        failing lines change nothing); mechanism: console.go's rewriting of `\\s` lines and unconditional
                        scope assignment.  Invariants exhaustive for sessions of 3 lines; seeded simulation prints sessions
                        of 24 lines.
driver (this file)      every session is typed into the real `falco console` binary on a pseudo terminal, one key per
                        write; after each line the output up to the next prompt and the scope shown in the prompt are
                        compared with what TLC printed for that line.
"""
import json, os, pty, re, select, time, fcntl, termios, struct, signal, collections
from concurrent.futures import ThreadPoolExecutor
import vlib
from vlib import MachineryFault

LEVEL = "model_checking"
PROMPT = re.compile(r'@([A-Z]+)>> $')
ANSI = re.compile(r'\x1b\][^\x07]*\x07|\x1b\[[0-9;?]*[a-zA-Z]|\x1b[=>DM78]')


def text_of(l):
    k = l["k"]
    if k == "sw":
        return {"s": "\\s %s", "scope": "\\scope %s", "s;": "\\s %s;"}[l["form"]] % l["arg"]
    return {"setA": 'set req.http.A = "%s";' % l["v"], "getA": "req.http.A;", "declX": "declare local var.x STRING;",
            "setX": 'set var.x = "%s";' % l["v"], "getX": "var.x;", "bad": "set req.http.A = ;", "badX": "set var.x = 10;", "help": "\\h", "empty": ""}[k]


class Session:
    def __init__(self, falco):
        self.pid, self.fd = pty.fork()
        if self.pid == 0:
            os.environ["TERM"] = "xterm"
            os.execv(falco, [falco, "console"])
        fcntl.ioctl(self.fd, termios.TIOCSWINSZ, struct.pack("HHHH", 50, 200, 0, 0))
        self.buf = ""

    def read_until_prompt(self, timeout=60.0):
        """returns (text before the prompt, scope in the prompt); the prompt must be the last thing on the terminal and
        the terminal must have been quiet for 60 ms (completion pop-ups repaint the prompt line)"""
        end = time.time() + timeout
        quiet_since = None
        while time.time() < end:
            r, _, _ = select.select([self.fd], [], [], 0.02)
            if r:
                try:
                    d = os.read(self.fd, 65536)
                except OSError:
                    raise MachineryFault("console closed its terminal")
                if not d:
                    raise MachineryFault("console closed its terminal")
                self.buf += d.decode(errors="replace")
                quiet_since = None
                continue
            clean = ANSI.sub("", self.buf).replace("\r", "")
            m = PROMPT.search(clean)
            if m:
                if quiet_since is None:
                    quiet_since = time.time()
                elif time.time() - quiet_since > 0.06:
                    self.buf = ""
                    return clean[:m.start()], m.group(1)
        raise MachineryFault("no prompt within %.0fs; terminal shows %r" % (timeout, ANSI.sub("", self.buf)[-200:]))

    def type_line(self, s):
        for ch in s:
            os.write(self.fd, ch.encode())
            time.sleep(0.004)
        # Enter must arrive alone (the line editor takes a burst of bytes as one unknown key and inserts it as text):
        # wait until the whole line has been echoed, i.e. every typed byte has been consumed
        end = time.time() + 20.0
        while s and time.time() < end:
            r, _, _ = select.select([self.fd], [], [], 0.02)
            if r:
                self.buf += os.read(self.fd, 65536).decode(errors="replace")
                continue
            if ANSI.sub("", self.buf).replace("\r", "").rstrip().endswith(s) or s in ANSI.sub("", self.buf).split(">> ")[-1]:
                break
        else:
            if s:
                raise MachineryFault("typed line was not echoed: %r" % s)
        time.sleep(0.03)
        os.write(self.fd, b"\r")

    def close(self):
        try:
            os.kill(self.pid, signal.SIGKILL)
        except OSError:
            pass
        try:
            os.waitpid(self.pid, 0)
        except OSError:
            pass
        os.close(self.fd)


def classify(out, typed):
    lines = [l for l in out.split("\n")]
    # the echo of the typed line (possibly repainted several times) comes first: drop everything up to its last occurrence
    body = []
    seen_echo = False
    for l in lines:
        if not seen_echo:
            if typed and l.rstrip().endswith(typed):
                seen_echo = True
                body = []
                continue
            if not typed:
                seen_echo = True
        body.append(l)
    body = [l.strip() for l in body if l.strip() and ">> " not in l]
    val = [l for l in body if re.match(r'^\((STRING|INTEGER|BOOL|FLOAT|RTIME|TIME|IP)\)', l) or l == "NULL"]
    if any("Scope changes to" in l for l in body):
        return "scope", any(("Invalid scope" in l or "Could not use INIT" in l) for l in body), body
    if any("falco console tool" in l for l in body):
        return "help", False, body
    if val:
        return val[-1], False, body
    if body:
        return "error", False, body
    return "", False, body


def run_session(falco, steps, canary=False):
    s = Session(falco)
    res = {"mismatch": [], "drift": [], "observed": []}
    try:
        _, scope = s.read_until_prompt(120.0)
        if scope != "RECV":
            raise MachineryFault("initial prompt shows %s" % scope)
        for i, st in enumerate(steps):
            typed = text_of(st["line"])
            s.type_line(typed)
            out, scope_after = s.read_until_prompt()
            printed, refused_msg, body = classify(out, typed)
            if canary and i == len(steps) - 1:
                scope_after = "HASH" if scope_after != "HASH" else "MISS"
            res["observed"].append({"typed": typed, "printed": printed, "scope": scope_after, "refused_msg": refused_msg})
            same_mech = scope_after == st["mscope"]
            if not same_mech:
                res["drift"].append({"obs": "scope-differs-from-mechanism", "at": i + 1, "typed": typed, "expected": st["mscope"], "got": scope_after})
            if scope_after != st["rscope"]:
                res["mismatch"].append({"obs": "scope-differs-from-requirement", "at": i + 1, "typed": typed, "expected": st["rscope"],
                                        "got": scope_after, "dev": st["dev"] if (same_mech and st["dev"] != "none") else "unclassified"})
            if st["refused"] and not refused_msg:
                res["mismatch"].append({"obs": "refusal-not-reported", "at": i + 1, "typed": typed})
            if printed != st["print"]:
                res["mismatch"].append({"obs": "line-output", "at": i + 1, "typed": typed, "expected": st["print"], "got": printed, "shown": body[-3:]})
            if not same_mech:
                break       # the rest of the session was computed for another state
    finally:
        s.close()
    return res


def run(ctx):
    quick = ctx.tier == "quick"
    ctx.rule = ("one case = one console session of 24 lines generated by TLC (seeded simulation of Console.tla), typed into the real "
                "`falco console` binary on a pseudo terminal; distinct = distinct sessions; non-trivial = all")
    ctx.assumptions = ["one key per write with 4 ms between keys: the line editor treats a burst of bytes as one unknown key",
                       "the prompt is recognised after 60 ms of silence on the terminal (completion pop-ups repaint it)",
                       "the line alphabet is small on purpose: scope commands in three spellings x eight arguments, two stored "
                       "values, one header, one local variable, a failing line, help, an empty line"]
    inv = ctx.tlc("Console", cfg="Console.cfg", timeout=900, tag="inv")
    if inv.violated:
        raise MachineryFault("Console.tla: invariant violated on the model: %s (a lead only; %s)" % (inv.violated, inv.out_path))
    n = 48 if quick else 400
    sim = ctx.tlc("Console", cfg="ConsoleSim.cfg", simulate=n, depth=30, timeout=900, tag="sim")
    behs = [json.loads(l) for l in open(sim.beh_path)]
    ctx.rng.shuffle(behs)
    # sessions in which a failing line is followed by a read of what it must not have changed come first
    def rare(b):
        ks = [st["line"]["k"] for st in b["steps"]]
        for i, k in enumerate(ks):
            if k == "badX" and "declX" in ks[:i] and "setX" not in ks[:i]:
                rest = ks[i + 1:]
                if "getX" in rest and "setX" not in rest[:rest.index("getX")]:
                    return True
            if k == "bad" and "getA" in ks[i + 1:i + 3]:
                return True
        return False
    first = [b for b in behs if rare(b)][:n // 3]
    behs = first + [b for b in behs if b not in first][:n - len(first)]
    if len(behs) < n // 2:
        raise MachineryFault("simulation produced %d sessions" % len(behs))
    falco = ctx.build_falco()
    jobs = min(12, ctx.workers)
    def one(ib):
        i, b = ib
        return i, b, run_session(falco, b["steps"])
    with ThreadPoolExecutor(max_workers=jobs) as ex:
        results = list(ex.map(one, enumerate(behs)))
    covered = collections.Counter()
    for i, b, r in results:
        for st in b["steps"]:
            covered[st["line"]["k"] + ":" + st["line"]["form"] + ":" + st["dev"]] += 1
        ctx.add_result({"id": "session-%d" % i, "input": {"lines": [text_of(s["line"]) for s in b["steps"]]},
                        "observed": r["observed"], "mismatch": r["mismatch"], "drift": r["drift"], "class": {"front": "console"},
                        "key": "session-%d-%d" % (ctx.seed, i), "validated": True})
    # canary: the last prompt of one session is reported wrong; the comparison must notice
    cr = run_session(falco, behs[0]["steps"], canary=True)
    if not any(m.get("dev") == "unclassified" or m["obs"].startswith("scope") for m in cr["mismatch"] + cr["drift"]):
        ctx.defer_fault("canary accepted")
    ctx.notes["line_kinds_covered"] = dict(covered)
    ctx.exhaustive = {"model": "Console.tla invariants exhaustive for sessions of 3 lines; replay = %d simulated sessions of 24 lines" % len(behs)}
