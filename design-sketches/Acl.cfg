SPECIFICATION Spec
CONSTANTS W = 3
 MaxEntries = 3
INVARIANT Agree
CHECK_DEADLOCK FALSE
