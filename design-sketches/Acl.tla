---- MODULE Acl ----
EXTENDS Naturals, Sequences, TLC, FiniteSets
\* addresses are W-bit numbers; an entry is [p: prefix value (only the top len bits matter), len: 0..W, neg: BOOLEAN]
CONSTANT W, MaxEntries
Addr == 0..(2^W - 1)
Pow(n) == 2^n
Top(a, len) == a \div Pow(W - len)                 \* the top len bits of a
CanonEntries == { [p |-> q * Pow(W - len), len |-> len, neg |-> n] : len \in 0..W, q \in 0..(2^W - 1), n \in BOOLEAN } \cap
                { e \in [p : Addr, len : 0..W, neg : BOOLEAN] : e.p % Pow(W - e.len) = 0 }
Contains(e, a) == Top(a, e.len) = Top(e.p, e.len)
\* requirement: longest-prefix entry containing a decides; conflicting duplicates are excluded
Containing(acl, a) == { i \in 1..Len(acl) : Contains(acl[i], a) }
MaxLenIdx(acl, a) == { i \in Containing(acl, a) : \A j \in Containing(acl, a) : acl[j].len <= acl[i].len }
Ambiguous(acl, a) == \E i, j \in MaxLenIdx(acl, a) : acl[i].neg # acl[j].neg
MatchR(acl, a) == Containing(acl, a) # {} /\ \A i \in MaxLenIdx(acl, a) : ~acl[i].neg
\* mechanism: interpreter/operator/operator.go matchesAcl — first entry that contains the address, or is negated, returns true
RECURSIVE Scan(_, _, _)
Scan(acl, a, i) == IF i > Len(acl) THEN FALSE
                   ELSE IF Contains(acl[i], a) THEN TRUE
                   ELSE IF acl[i].neg THEN TRUE
                   ELSE Scan(acl, a, i + 1)
MatchM(acl, a) == Scan(acl, a, 1)
VARIABLE acl
Init == acl = <<>>
Next == Len(acl) < MaxEntries /\ \E e \in CanonEntries : acl' = Append(acl, e)
Spec == Init /\ [][Next]_acl
Agree == \A a \in Addr : ~Ambiguous(acl, a) => MatchM(acl, a) = MatchR(acl, a)
\* without negation the mechanism is right:
NoNeg == (\A i \in 1..Len(acl) : ~acl[i].neg) => \A a \in Addr : MatchM(acl, a) = MatchR(acl, a)
====
