---- MODULE Expr ----
EXTENDS Naturals, Sequences, TLC, FiniteSets, Json
\* Requirement-level: trees are generated; Render inserts parentheses exactly where the documented
\* precedence/associativity requires; the parser must give back the tree (Grp nodes where parens were written).
BinOps == {"||","&&","~","!~","==","!=","<",">","<=",">=","+","juxt"}
Prec(o) == CASE o = "||" -> 2 [] o = "&&" -> 3 [] o \in {"~","!~"} -> 4 [] o \in {"==","!="} -> 5
             [] o \in {"<",">","<=",">="} -> 6 [] o \in {"+","juxt"} -> 7
PREFIX == 8
Atoms == {"a","b","s"}                       \* a,b identifiers; s string literal
Atom(x) == [k |-> "atom", v |-> x]
Bin(o,l,r) == [k |-> "bin", op |-> o, l |-> l, r |-> r]
Not(e) == [k |-> "not", e |-> e]
Grp(e) == [k |-> "grp", e |-> e]
\* all trees with at most n binary operators (n <= 2 here, written out to keep TLC's set construction cheap)
T0 == { Atom(x) : x \in Atoms } \cup { Not(Atom(x)) : x \in {"a"} }
T1 == { Bin(o, l, r) : o \in BinOps, l \in T0, r \in T0 }
T1n == T1 \cup { Not(t) : t \in T1 }
T2 == { Bin(o, l, r) : o \in BinOps, l \in T1n, r \in T0 } \cup { Bin(o, l, r) : o \in BinOps, l \in T0, r \in T1n }
Trees == T0 \cup T1n \cup T2
PrecOf(t) == IF t.k = "bin" THEN Prec(t.op) ELSE IF t.k = "not" THEN PREFIX ELSE 9
\* the tree the parser is expected to return for the rendered text: same tree with Grp where parentheses were needed
RECURSIVE Expect(_)
NeedL(o, l) == PrecOf(l) < Prec(o)
NeedR(o, r) == PrecOf(r) <= Prec(o)
Wrap(need, t) == IF need THEN Grp(t) ELSE t
Expect(t) == CASE t.k = "atom" -> t
               [] t.k = "not" -> Not(Wrap(PrecOf(t.e) < PREFIX, Expect(t.e)))
               [] t.k = "bin" -> Bin(IF t.op = "juxt" THEN "+" ELSE t.op, Wrap(NeedL(t.op, t.l), Expect(t.l)), Wrap(NeedR(t.op, t.r), Expect(t.r)))
RECURSIVE Render(_)
Par(need, toks) == IF need THEN <<"(">> \o toks \o <<")">> ELSE toks
Render(t) == CASE t.k = "atom" -> <<t.v>>
               [] t.k = "not" -> <<"!">> \o Par(PrecOf(t.e) < PREFIX, Render(t.e))
               [] t.k = "bin" -> Par(NeedL(t.op, t.l), Render(t.l)) \o (IF t.op = "juxt" THEN <<>> ELSE <<t.op>>) \o Par(NeedR(t.op, t.r), Render(t.r))
\* juxtaposition is only legal between string-ish atoms: require the right operand to start with an atom (not "!" or "(")
Legal(t) == LET RECURSIVE L(_)
                L(x) == CASE x.k = "atom" -> TRUE
                          [] x.k = "not" -> L(x.e)
                          [] x.k = "bin" -> L(x.l) /\ L(x.r) /\ (x.op = "juxt" => (Render(x.r)[1] \in Atoms))
            IN L(t)
VARIABLE t
Init == t \in { x \in Trees : Legal(x) }
Next == UNCHANGED t
Spec == Init /\ [][Next]_t
Emit == PrintT(<<"CASE", ToJson([toks |-> Render(t), tree |-> Expect(t)])>>)
====
