---- MODULE FmtW ----
EXTENDS Naturals, Sequences, TLC
\* File contents are abstract: "orig", "empty", "partial", "new".  Input kinds decide what parse/format do.
CONSTANT Protocol      \* sequence of steps the binary performs, extracted from an strace log
Kinds == {"decl", "snippet", "syntaxerr", "fmtpanic"}
VARIABLES kind, pc, file, tmp, exit, formatted
vars == <<kind, pc, file, tmp, exit, formatted>>
Init == kind \in Kinds /\ pc = 1 /\ file = "orig" /\ tmp = "none" /\ exit = "running" /\ formatted = "none"
Stop(code) == exit' = code /\ UNCHANGED <<kind, pc, file, tmp, formatted>>
Adv == pc' = pc + 1
Step ==
  /\ exit = "running" /\ pc <= Len(Protocol)
  /\ LET op == Protocol[pc] IN
     \/ /\ op = "parse"
        /\ IF kind = "syntaxerr" THEN Stop("fail") ELSE Adv /\ UNCHANGED <<kind, file, tmp, exit, formatted>>
     \/ /\ op = "format"
        /\ IF kind = "fmtpanic" THEN Stop("panic")
           ELSE Adv /\ formatted' = (IF kind = "snippet" THEN "nil" ELSE "text") /\ UNCHANGED <<kind, file, tmp, exit>>
     \/ /\ op = "checknil"
        /\ IF formatted = "nil" THEN Stop("fail") ELSE Adv /\ UNCHANGED <<kind, file, tmp, exit, formatted>>
     \/ /\ op = "open_trunc"
        /\ \/ Adv /\ file' = "empty" /\ UNCHANGED <<kind, tmp, exit, formatted>>
           \/ Stop("fail")                                   \* EACCES / read-only
     \/ /\ op = "write_target"
        /\ IF formatted = "nil" THEN Stop("panic")           \* io.Copy(w, nil)
           ELSE \/ Adv /\ file' = "new" /\ UNCHANGED <<kind, tmp, exit, formatted>>
                \/ /\ file' = "partial" /\ exit' = "fail" /\ UNCHANGED <<kind, pc, tmp, formatted>>   \* short write / EFBIG / ENOSPC
     \/ /\ op = "open_tmp"
        /\ \/ Adv /\ tmp' = "empty" /\ UNCHANGED <<kind, file, exit, formatted>>
           \/ Stop("fail")
     \/ /\ op = "write_tmp"
        /\ \/ Adv /\ tmp' = "new" /\ UNCHANGED <<kind, file, exit, formatted>>
           \/ /\ tmp' = "partial" /\ exit' = "fail" /\ UNCHANGED <<kind, pc, file, formatted>>
     \/ /\ op = "rename"
        /\ \/ Adv /\ file' = tmp /\ tmp' = "none" /\ UNCHANGED <<kind, exit, formatted>>
           \/ Stop("fail")
     \/ /\ op = "close" /\ Adv /\ UNCHANGED <<kind, file, tmp, exit, formatted>>
Finish == exit = "running" /\ pc > Len(Protocol) /\ Stop("ok")
Crash == exit = "running" /\ Stop("killed")                    \* SIGKILL between any two steps
Next == Step \/ Finish \/ Crash
Spec == Init /\ [][Next]_vars
NeverDamaged == file \in {"orig", "new"}
FailureKeepsOriginal == exit \in {"fail", "panic"} => file = "orig"   \* a reported failure; an external kill only owes NeverDamaged
SuccessIsNew == exit = "ok" => file = "new"
====
