SPECIFICATION Spec
CONSTANT Protocol <- Fixed
INVARIANT NeverDamaged
INVARIANT FailureKeepsOriginal
INVARIANT SuccessIsNew
CHECK_DEADLOCK FALSE
