---- MODULE FmtW_MC ----
EXTENDS FmtW
Current == <<"parse", "format", "open_trunc", "write_target", "close">>
Fixed   == <<"parse", "format", "checknil", "open_tmp", "write_tmp", "close", "rename">>
====
