---- MODULE Frame ----
EXTENDS Naturals, Sequences, TLC, Json
Trace == ndJsonDeserialize("trace.ndjson")
Pool == {"var.i", "var.j", "var.f", "var.r", "var.s", "var.t", "var.b", "req.http.H1", "req.http.H2"}
Derived(t) == IF t = "" THEN {} ELSE {t}
VARIABLES store, l
Init == l = 1 /\ store = [v \in Pool |-> ""]
Reset == l <= Len(Trace) /\ Trace[l].event = "reset" /\ store' = Trace[l].store /\ l' = l + 1
\* requirement: a statement changes nothing but what it names; the new value of the target is left to TLC (unlogged in the spec, logged in the trace)
Stmt == /\ l <= Len(Trace) /\ Trace[l].event = "stmt"
        /\ \A v \in Pool : Trace[l].before[v] = store[v]                                   \* continuity: reading is side-effect free
        /\ \A v \in Pool \ Derived(Trace[l].target) : Trace[l].after[v] = store[v]         \* frame condition
        /\ store' = [v \in Pool |-> Trace[l].after[v]]
        /\ l' = l + 1
Next == Reset \/ Stmt
Spec == Init /\ [][Next]_<<store, l>>
Accepted == TLCGet("stats").diameter - 1 = Len(Trace)
====
