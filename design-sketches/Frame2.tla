---- MODULE Frame2 ----
EXTENDS Naturals, Sequences, TLC, Json
Trace == ndJsonDeserialize("trace.ndjson")
Pool == {"var.i", "var.j", "var.f", "var.r", "var.s", "var.t", "var.b", "req.http.H1", "req.http.H2"}
Derived(t) == IF t = "" THEN {} ELSE {t}
VARIABLES store, l, viol
Init == l = 1 /\ store = [v \in Pool |-> ""] /\ viol = <<>>
Reset == l <= Len(Trace) /\ Trace[l].event = "reset" /\ store' = Trace[l].store /\ l' = l + 1 /\ UNCHANGED viol
Continuity(e) == \A v \in Pool : e.before[v] = store[v]
FrameOK(e) == \A v \in Pool \ Derived(e.target) : e.after[v] = e.before[v]
\* monitor form: the step is always taken; a broken frame condition is recorded, not blocking, so the whole trace is judged
Stmt == /\ l <= Len(Trace) /\ Trace[l].event = "stmt"
        /\ viol' = IF Continuity(Trace[l]) /\ FrameOK(Trace[l]) THEN viol
                   ELSE Append(viol, [line |-> l, text |-> Trace[l].text,
                                      changed |-> { v \in Pool \ Derived(Trace[l].target) : Trace[l].after[v] # Trace[l].before[v] }])
        /\ store' = [v \in Pool |-> Trace[l].after[v]]
        /\ l' = l + 1
Next == Reset \/ Stmt
Spec == Init /\ [][Next]_<<store, l, viol>>
Done == l = Len(Trace) + 1 => PrintT(<<"VIOLATIONS", Len(viol), viol>>)
Accepted == TLCGet("stats").diameter - 1 = Len(Trace)
====
