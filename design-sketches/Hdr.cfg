SPECIFICATION Spec
INVARIANT ReadLaw
VIEW View
CHECK_DEADLOCK FALSE
