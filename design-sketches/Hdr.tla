---- MODULE Hdr ----
EXTENDS Naturals, Sequences, TLC, FiniteSets
\* Sketch: whole-header set/unset/read on one HTTP object.  Sub-fields, add and the other objects are left to the real module.
Spellings == {"Foo", "fOO", "Bar"}
Canon(n) == IF n \in {"Foo", "fOO"} THEN "Foo" ELSE "Bar"
Canons == {"Foo", "Bar"}
NotSet == [set |-> FALSE, v |-> ""]
Val(x) == [set |-> TRUE, v |-> x]
Values == {Val("x"), Val("y"), Val(""), NotSet}
\* mechanism state (interpreter/variable/header.go + interpreter/http/http.go)
VARIABLES hdr,       \* canonical name -> value string ("" when absent), i.e. net/http Header.Get
          assigned,  \* headerKeyStore: set of EXACT spellings
          model,     \* requirement state: canonical name -> Value
          last       \* last operation label (1-switch cover)
vars == <<hdr, assigned, model, last>>
Init == hdr = [c \in Canons |-> ""] /\ assigned = {} /\ model = [c \in Canons |-> NotSet] /\ last = <<>>
ReadM(n) == IF hdr[Canon(n)] = "" THEN [set |-> n \in assigned, v |-> ""] ELSE Val(hdr[Canon(n)])
Set(n, val) ==
  /\ IF ~val.set THEN hdr' = [hdr EXCEPT ![Canon(n)] = ""] /\ assigned' = assigned \ {n}
     ELSE hdr' = [hdr EXCEPT ![Canon(n)] = val.v] /\ assigned' = assigned \cup {n}
  /\ model' = [model EXCEPT ![Canon(n)] = val]
  /\ last' = <<"set", n, val>>
Unset(n) == /\ hdr' = [hdr EXCEPT ![Canon(n)] = ""] /\ assigned' = assigned \ {n}
            /\ model' = [model EXCEPT ![Canon(n)] = NotSet] /\ last' = <<"unset", n>>
Next == \E n \in Spellings : Unset(n) \/ \E val \in Values : Set(n, val)
Spec == Init /\ [][Next]_vars
\* requirement: every spelling reads what the store law says
ReadLaw == \A n \in Spellings : ReadM(n) = model[Canon(n)]
View == <<hdr, assigned, model>>
====
