SPECIFICATION Spec
INVARIANT Emit
VIEW View
CHECK_DEADLOCK FALSE
