---- MODULE Hdr2 ----
EXTENDS Naturals, Sequences, TLC, FiniteSets, Json
\* Requirement-level header store with sub-fields, one HTTP object.  Emits operation sequences with the
\* read-back the store laws demand after every operation.
Spellings == {"Foo", "fOO", "Bar"}
Canon(n) == IF n \in {"Foo", "fOO"} THEN "Foo" ELSE "Bar"
Canons == {"Foo", "Bar"}
Keys == {"a", "b", "ab"}
Plain == {"x", "y z"}            \* whole-header values that are not key=value lists
FVals == {"x", "y z", ""}        \* sub-field values
NoFields == [k \in Keys |-> "<notset>"]
Empty == [set |-> FALSE, plain |-> "<none>", f |-> NoFields]
VARIABLES st, ops, last
vars == <<st, ops, last>>
Init == st = [c \in Canons |-> Empty] /\ ops = <<>> /\ last = <<>>
HasAny(h) == h.plain # "<none>" \/ \E k \in Keys : h.f[k] # "<notset>"
Op(o, new) == st' = new /\ ops' = Append(ops, [op |-> o, expect |-> [c \in Canons |-> [set |-> new[c].set, plain |-> new[c].plain, f |-> new[c].f]]]) /\ last' = o
SetH(n, v) == Op(<<"set", n, v>>, [st EXCEPT ![Canon(n)] = [set |-> TRUE, plain |-> v, f |-> NoFields]])
UnsetH(n) == Op(<<"unset", n>>, [st EXCEPT ![Canon(n)] = Empty])
SetF(n, k, v) == Op(<<"setf", n, k, v>>, [st EXCEPT ![Canon(n)] = [set |-> TRUE, plain |-> @.plain, f |-> [@.f EXCEPT ![k] = v]]])
UnsetF(n, k) == LET h == [st[Canon(n)] EXCEPT !.f[k] = "<notset>"] IN
                Op(<<"unsetf", n, k>>, [st EXCEPT ![Canon(n)] = IF HasAny(h) THEN h ELSE Empty])
MaxOps == 3
Next == Len(ops) < MaxOps /\ \E n \in Spellings :
          \/ \E v \in Plain : SetH(n, v)
          \/ UnsetH(n)
          \/ \E k \in Keys : (\E v \in FVals : SetF(n, k, v)) \/ UnsetF(n, k)
Spec == Init /\ [][Next]_vars
View == <<st, last, Len(ops)>>
Emit == Len(ops) > 0 => PrintT(<<"CASE", ToJson([ops |-> ops])>>)
====
