SPECIFICATION Spec
CONSTANT MaxDir = 2
INVARIANT Exact
INVARIANT NoLeak
CHECK_DEADLOCK FALSE
