SPECIFICATION Spec
CONSTANT MaxDir = 2
INVARIANT Emit
CHECK_DEADLOCK FALSE
