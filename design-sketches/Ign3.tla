---- MODULE Ign3 ----
EXTENDS Naturals, Sequences, TLC, FiniteSets, Json
\* A program is a sequence of subs; a sub is a block; a block is a sequence of statements;
\* a statement is "s" (simple, carries one r1 and one r2 diagnostic) or "if" with a nested block.
S == [k |-> "s"]
If(b) == [k |-> "if", body |-> b]
Shapes == { << <<S, S>>, <<S>> >>,
            << <<S, If(<<S, S>>), S>>, <<S>> >>,
            << <<If(<<S>>)>>, <<S, S>> >>,
            << <<S, If(<<S, If(<<S>>)>>)>>, <<S>> >> }
Rules == {"r1","r2"}
RuleLists == { {}, {"r1"}, {"r1","r2"} }     \* {} = all rules
\* ---- flatten a program into a sequence of source *events* in source order:
\*   <<"sub_open",i>>, <<"lead", sid>>, <<"stmt", sid, kind>>, <<"trail", sid>>, <<"if_open", sid>>, <<"block_end", bid>>, <<"if_close", sid>>, <<"sub_close", i>>
\* comment gaps are the "lead", "trail" (simple stmts only), "block_end" events and the "sublead" before each sub.
RECURSIVE FlatBlock(_, _), FlatStmts(_, _, _)
\* ids are paths (sequences of naturals)
FlatStmts(stmts, path, i) ==
  IF i > Len(stmts) THEN <<>>
  ELSE LET sid == Append(path, i) st == stmts[i] IN
       (IF st.k = "s"
        THEN << <<"lead", sid>>, <<"stmt", sid>>, <<"trail", sid>> >>
        ELSE << <<"lead", sid>>, <<"if_open", sid>> >> \o FlatBlock(st.body, sid) \o << <<"if_close", sid>> >>)
       \o FlatStmts(stmts, path, i+1)
FlatBlock(stmts, path) == FlatStmts(stmts, path, 1) \o << <<"block_end", path>> >>
RECURSIVE FlatProg(_, _)
FlatProg(p, i) == IF i > Len(p) THEN <<>>
                  ELSE << <<"sublead", <<i>>>>, <<"sub_open", <<i>>>> >> \o FlatBlock(p[i], <<i>>) \o << <<"sub_close", <<i>>>> >> \o FlatProg(p, i+1)
Gaps(ev) == { n \in 1..Len(ev) : ev[n][1] \in {"lead","trail","block_end","sublead"} }
Sites(ev) == { n \in 1..Len(ev) : ev[n][1] = "stmt" }
IsPrefix(a, b) == Len(a) <= Len(b) /\ SubSeq(b, 1, Len(a)) = a

\* ---- directives: [at |-> gap index, type, rules]
OwnLine(ev, g) == ev[g][1] \in {"lead","block_end","sublead"}
Legal(ev, d) == IF d.type = "this" THEN ev[d.at][1] = "trail" ELSE OwnLine(ev, d.at)

\* ---- Requirement: which (site, rule) are covered
Match(d, r) == d.rules = {} \/ r \in d.rules
\* statement owning a lead gap: same id; sublead covers all statements of the sub
CoversNext(ev, d, n) == d.type = "next" /\ ev[d.at][1] \in {"lead","sublead"} /\ IsPrefix(ev[d.at][2], ev[n][2])
CoversThis(ev, d, n) == d.type = "this" /\ ev[d.at][2] = ev[n][2]
\* ranges: a start directive is closed by the first later end directive with the same rule list or with the empty (all) list
Closer(ds, d) == { e \in ds : e.type = "end" /\ e.at > d.at /\ (e.rules = {} \/ e.rules = d.rules) }
WellFormed(ev, ds) ==
   /\ \A d \in ds : Legal(ev, d)
   /\ \A d \in ds : d.type = "start" => Closer(ds, d) # {}
   /\ \A d \in ds : d.type = "end" => \E s \in ds : s.type = "start" /\ s.at < d.at /\ (d.rules = {} \/ d.rules = s.rules)
   /\ \A d, e \in ds : d.at = e.at => d = e          \* one directive per gap
   /\ \A d \in ds : d.type = "next" => ev[d.at][1] # "block_end"
EndOf(ds, d) == CHOOSE m \in { e.at : e \in Closer(ds, d) } : \A x \in { e.at : e \in Closer(ds, d) } : m <= x
CoversRange(ev, ds, d, n) == d.type = "start" /\ d.at < n /\ n < EndOf(ds, d)
Covered(ev, ds) == { <<n, r>> \in Sites(ev) \X Rules :
                      \E d \in ds : Match(d, r) /\ (CoversNext(ev, d, n) \/ CoversThis(ev, d, n) \/ CoversRange(ev, ds, d, n)) }
Required(ev, ds) == (Sites(ev) \X Rules) \ Covered(ev, ds)

\* ---- Mechanism: linter/ignore.go + where the parser attaches the comment
Empty == [all |-> FALSE, rules |-> {}]
Ignore(s, rl) == IF rl = {} THEN [all |-> TRUE, rules |-> {}] ELSE [all |-> FALSE, rules |-> s.rules \cup rl]
Unignore(s, rl) == IF rl = {} THEN Empty ELSE [all |-> FALSE, rules |-> s.rules \ rl]
Enabled(st, r) == st.nx.all \/ st.th.all \/ st.rg.all \/ r \in st.nx.rules \/ r \in st.th.rules \/ r \in st.rg.rules
DirAt(ds, g) == { d \in ds : d.at = g }
\* Leading comments of a node = directive at its lead gap; Trailing = directive at its trail gap; block_end gap -> block Infix (never examined)
SetupLead(st, D) == IF D = {} THEN st ELSE LET d == CHOOSE x \in D : TRUE IN
     CASE d.type = "next"  -> [st EXCEPT !.nx = Ignore(st.nx, d.rules)]
       [] d.type = "start" -> [st EXCEPT !.rg = Ignore(st.rg, d.rules)]
       [] d.type = "end"   -> [st EXCEPT !.rg = Unignore(st.rg, d.rules)]
       [] OTHER -> st
SetupTrail(st, D) == IF D = {} THEN st ELSE LET d == CHOOSE x \in D : TRUE IN
     IF d.type = "this" THEN [st EXCEPT !.th = Ignore(st.th, d.rules)] ELSE st
TearLead(st, D) == IF D = {} THEN st ELSE LET d == CHOOSE x \in D : TRUE IN
     IF d.type = "next" THEN [st EXCEPT !.nx = Unignore(st.nx, d.rules)] ELSE st
TearTrail(st, D) == IF D = {} THEN st ELSE LET d == CHOOSE x \in D : TRUE IN
     IF d.type = "this" THEN [st EXCEPT !.th = Unignore(st.th, d.rules)] ELSE st
\* walk the event sequence; node stack not needed because teardown of a node uses the node's own comments:
\* we find the lead gap of the node being closed by id.
LeadGapOf(ev, id, kind) == CHOOSE g \in 1..Len(ev) : ev[g][1] = kind /\ ev[g][2] = id
RECURSIVE Walk(_, _, _, _, _)
Walk(ev, ds, n, st, rep) ==
  IF n > Len(ev) THEN [st |-> st, rep |-> rep]
  ELSE LET e == ev[n] IN
   CASE e[1] = "sublead" -> Walk(ev, ds, n+1, SetupLead(st, DirAt(ds, n)), rep)
     [] e[1] = "sub_close" -> Walk(ev, ds, n+1, TearLead(st, DirAt(ds, LeadGapOf(ev, e[2], "sublead"))), rep)
     [] e[1] = "lead" -> \* SetupStatement: leading now; trailing of a simple statement also at setup time
          LET s1 == SetupLead(st, DirAt(ds, n))
              s2 == IF n+2 <= Len(ev) /\ ev[n+2][1] = "trail" /\ ev[n+2][2] = e[2] THEN SetupTrail(s1, DirAt(ds, n+2)) ELSE s1
          IN Walk(ev, ds, n+1, s2, rep)
     [] e[1] = "stmt" -> Walk(ev, ds, n+1, st, rep \cup { <<n, r>> : r \in { x \in Rules : ~Enabled(st, x) } })
     [] e[1] = "trail" -> \* TeardownStatement of the simple statement
          LET s1 == TearLead(st, DirAt(ds, LeadGapOf(ev, e[2], "lead")))
              s2 == TearTrail(s1, DirAt(ds, n))
          IN Walk(ev, ds, n+1, s2, rep)
     [] e[1] = "if_close" -> Walk(ev, ds, n+1, TearLead(st, DirAt(ds, LeadGapOf(ev, e[2], "lead"))), rep)
     [] OTHER -> Walk(ev, ds, n+1, st, rep)     \* sub_open, if_open, block_end (Infix: not examined)
Result(ev, ds) == Walk(ev, ds, 1, [nx |-> Empty, th |-> Empty, rg |-> Empty], {})

\* ---- exploration: choose a shape, then add up to MaxDir directives
CONSTANT MaxDir
VARIABLES prog, dirs
Init == prog \in Shapes /\ dirs = {}
Ev == FlatProg(prog, 1)
AddDir == Cardinality(dirs) < MaxDir /\ \E g \in Gaps(Ev), t \in {"next","this","start","end"}, rl \in RuleLists :
            /\ Legal(Ev, [at |-> g, type |-> t, rules |-> rl])
            /\ \A d \in dirs : d.at # g
            /\ dirs' = dirs \cup {[at |-> g, type |-> t, rules |-> rl]} /\ UNCHANGED prog
Spec == Init /\ [][AddDir]_<<prog, dirs>>
Exact == WellFormed(Ev, dirs) => Result(Ev, dirs).rep = Required(Ev, dirs)
NoLeak == WellFormed(Ev, dirs) => Result(Ev, dirs).st = [nx |-> Empty, th |-> Empty, rg |-> Empty]
SetToSeq(SS) == LET RECURSIVE F(_) F(X) == IF X = {} THEN <<>> ELSE LET x == CHOOSE y \in X : TRUE IN <<x>> \o F(X \ {x}) IN F(SS)
Pairs(P) == SetToSeq({ [site |-> p[1], rule |-> p[2]] : p \in P })
Emit == WellFormed(Ev, dirs) => PrintT(<<"CASE", ToJson([ev |-> Ev, dirs |-> SetToSeq({ [at |-> d.at, type |-> d.type, rules |-> SetToSeq(d.rules)] : d \in dirs }),
                      required |-> Pairs(Required(Ev, dirs)), mech |-> Pairs(Result(Ev, dirs).rep)])>>)
====
