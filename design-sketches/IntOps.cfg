SPECIFICATION Spec
INVARIANT Emit
CHECK_DEADLOCK FALSE
