---- MODULE IntOps ----
EXTENDS Integers, Sequences, TLC, Json
\* One-step cells for INTEGER assignment operators.  Arithmetic results as integers (small operands),
\* bitwise / shift / rotate results as 64-bit two's-complement patterns (sequence of 0/1, most significant first).
Lefts  == {0, 1, 2, 5, 6, 7, 63, 64, 1000, -1, -2, -7, -64}
Rights == {0, 1, 2, 3, 5, 63, 64, -1, -3}
Ops == {"=", "+=", "-=", "*=", "/=", "%=", "|=", "&=", "^=", "<<=", ">>=", "rol=", "ror="}
RECURSIVE NatBits(_, _)
NatBits(n, w) == IF w = 0 THEN <<>> ELSE Append(NatBits(n \div 2, w - 1), n % 2)      \* w low bits of n >= 0, msb first
Flip(bs) == [i \in 1..Len(bs) |-> 1 - bs[i]]
Bits(n) == IF n >= 0 THEN NatBits(n, 64) ELSE Flip(NatBits(-n - 1, 64))               \* two's complement
Zip(a, b, f(_, _)) == [i \in 1..64 |-> f(a[i], b[i])]
Or(x, y) == IF x = 1 \/ y = 1 THEN 1 ELSE 0
And(x, y) == IF x = 1 /\ y = 1 THEN 1 ELSE 0
Xor(x, y) == IF x # y THEN 1 ELSE 0
Shl(bs, k) == [i \in 1..64 |-> IF i + k <= 64 THEN bs[i + k] ELSE 0]
Sar(bs, k) == [i \in 1..64 |-> IF i - k >= 1 THEN bs[i - k] ELSE bs[1]]               \* arithmetic: sign bit fills
Rol(bs, k) == [i \in 1..64 |-> bs[((i - 1 + k) % 64) + 1]]
Ror(bs, k) == [i \in 1..64 |-> bs[((i - 1 - k) % 64) + 1]]
TruncDiv(a, b) == LET q == (IF a >= 0 THEN a ELSE -a) \div (IF b >= 0 THEN b ELSE -b) IN IF (a >= 0) = (b >= 0) THEN q ELSE -q
TruncMod(a, b) == a - b * TruncDiv(a, b)
Val(n) == [kind |-> "int", v |-> n]
Pat(bs) == [kind |-> "bits", v |-> bs]
Err == [kind |-> "error"]
Unspec == [kind |-> "unspecified"]      \* outside C07's "within range"; C08 only demands value-or-error
Apply(op, l, r) ==
  CASE op = "="  -> Val(r)
    [] op = "+=" -> Val(l + r)
    [] op = "-=" -> Val(l - r)
    [] op = "*=" -> Val(l * r)
    [] op = "/=" -> IF r = 0 THEN Err ELSE Val(TruncDiv(l, r))
    [] op = "%=" -> IF r = 0 THEN Err ELSE Val(TruncMod(l, r))
    [] op = "|=" -> Pat(Zip(Bits(l), Bits(r), Or))
    [] op = "&=" -> Pat(Zip(Bits(l), Bits(r), And))
    [] op = "^=" -> Pat(Zip(Bits(l), Bits(r), Xor))
    [] op = "<<=" -> IF r < 0 \/ r > 63 THEN Unspec ELSE Pat(Shl(Bits(l), r))
    [] op = ">>=" -> IF r < 0 \/ r > 63 \/ l < 0 THEN Unspec ELSE Pat(Sar(Bits(l), r))
    [] op = "rol=" -> IF r < 0 \/ r > 64 THEN Unspec ELSE Pat(Rol(Bits(l), r))
    [] op = "ror=" -> IF r < 0 \/ r > 64 THEN Unspec ELSE Pat(Ror(Bits(l), r))
VARIABLES op, l, r
Init == op \in Ops /\ l \in Lefts /\ r \in Rights
Spec == Init /\ [][UNCHANGED <<op, l, r>>]_<<op, l, r>>
Emit == PrintT(<<"CELL", ToJson([op |-> op, l |-> l, r |-> r, expect |-> Apply(op, l, r)])>>)
====
