SPECIFICATION Spec
CONSTANTS
  MaxLen = 3
  Chunks <- ChunksDef
INVARIANT Terminated
INVARIANT Emit
CHECK_DEADLOCK FALSE
