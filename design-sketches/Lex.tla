---- MODULE Lex ----
EXTENDS Naturals, Sequences, TLC, Json
\* Sketch of lexer/lexer.go over an input given as a sequence of 1-character strings.
NUL == "<0>"
Letters == {"a","x","C","W","s","m"}
Digits  == {"0","1","."}          \* isDigit includes '.'
DecDigits == {"0","1"}
CONSTANT Chunks, MaxLen
VARIABLE chunks
Flatten(cs) == LET RECURSIVE F(_) F(i) == IF i > Len(cs) THEN <<>> ELSE cs[i] \o F(i+1) IN F(1)
Input == Flatten(chunks)
N == Len(Input)
Ch(i) == IF i >= 1 /\ i <= N THEN Input[i] ELSE NUL
\* lexer state: i = index of current char (N+1.. = EOF), line, col = l.index
ReadChar(s) == IF s.i + 1 > N THEN [s EXCEPT !.i = IF s.i > N THEN s.i ELSE s.i + 1, !.col = s.col + 1]
               ELSE IF Ch(s.i) = "\n" THEN [i |-> s.i + 1, line |-> s.line + 1, col |-> 1, eof |-> s.eof]
               ELSE [s EXCEPT !.i = s.i + 1, !.col = s.col + 1]
Peek(s) == Ch(s.i + 1)
RECURSIVE SkipWs(_)
SkipWs(s) == IF Ch(s.i) \in {" ", "\t", "\r"} THEN SkipWs(ReadChar(s)) ELSE s
Tok(ty, lit, s0) == [type |-> ty, lit |-> lit, line |-> s0.line, col |-> s0.col]
Cat(a, b) == a \o b
\* readers return <<literal (seq of chars), state positioned on the LAST consumed char>>
RECURSIVE ReadStr(_, _)
ReadStr(s, acc) == IF Ch(s.i) = "\"" \/ Ch(s.i) = NUL THEN <<acc, s>> ELSE ReadStr(ReadChar(s), Append(acc, Ch(s.i)))
RECURSIVE ReadEOL(_, _)
ReadEOL(s, acc) == LET a == Append(acc, Ch(s.i)) IN IF Peek(s) = NUL \/ Peek(s) = "\n" THEN <<a, s>> ELSE ReadEOL(ReadChar(s), a)
RECURSIVE ReadMulti(_, _)
ReadMulti(s, acc) == IF Ch(s.i) = NUL THEN <<acc, s>>
                     ELSE IF Ch(s.i) = "*" /\ Peek(s) = "/" THEN <<acc \o <<"*", "/">>, ReadChar(s)>>
                     ELSE ReadMulti(ReadChar(s), Append(acc, Ch(s.i)))
RECURSIVE ReadIdent(_, _)
ReadIdent(s, acc) == IF Ch(s.i) \in Letters THEN ReadIdent(ReadChar(s), Append(acc, Ch(s.i))) ELSE <<acc, s>>
RECURSIVE IdentMore(_, _)
IdentMore(s, acc) == IF Ch(s.i) \in {"-", ".", ":", "*"} \cup Digits
                     THEN LET r == ReadIdent(ReadChar(s), <<>>) IN IdentMore(r[2], acc \o <<Ch(s.i)>> \o r[1])
                     ELSE <<acc, s>>
RECURSIVE ReadDec(_, _)
ReadDec(s, acc) == IF Ch(s.i) \in DecDigits THEN ReadDec(ReadChar(s), Append(acc, Ch(s.i))) ELSE <<acc, s>>
\* NextToken: returns <<token, state after>>.  "after" mirrors the trailing l.readChar() unless the arm returns early.
NextToken(s00) ==
  LET s == SkipWs(s00) c == Ch(s.i) p == Peek(s)
      One(ty) == <<Tok(ty, <<c>>, s), ReadChar(s)>>
      Two(ty) == <<Tok(ty, <<c, p>>, s), ReadChar(ReadChar(s))>>
  IN
  CASE c = "=" -> IF p = "=" THEN Two("EQUAL") ELSE One("ASSIGN")
    [] c = ";" -> One("SEMICOLON")
    [] c = "(" -> One("LEFT_PAREN")
    [] c = ")" -> One("RIGHT_PAREN")
    [] c = "}" -> One("RIGHT_BRACE")
    [] c = "{" -> One("LEFT_BRACE")   \* sketch: long strings omitted
    [] c = "\n" -> One("LF")
    [] c = "\"" -> LET r == ReadStr(ReadChar(s), <<>>) IN <<Tok("STRING", r[1], s), ReadChar(r[2])>>
    [] c = "#" -> LET r == ReadEOL(s, <<>>) IN <<Tok("COMMENT", r[1], s), ReadChar(r[2])>>
    [] c = "/" -> IF p = "=" THEN Two("DIVISION")
                  ELSE IF p = "/" THEN LET r == ReadEOL(s, <<>>) IN <<Tok("COMMENT", r[1], s), ReadChar(r[2])>>
                  ELSE IF p = "*" THEN LET r == ReadMulti(s, <<>>) IN <<Tok("COMMENT", r[1], s), ReadChar(r[2])>>
                  ELSE One("SLASH")
    [] c = "|" -> IF p = "|" THEN (IF Peek(ReadChar(s)) = "=" THEN <<Tok("LOGICAL_OR", <<"|","|","=">>, s), ReadChar(ReadChar(ReadChar(s)))>>
                                   ELSE Two("OR"))
                  ELSE IF p = "=" THEN Two("BITWISE_OR")
                  ELSE <<[type |-> "", lit |-> <<>>, line |-> 0, col |-> 0], ReadChar(s)>>     \* the code leaves t zero-valued
    [] c = "*" -> IF p = "=" THEN Two("MULTIPLICATION") ELSE <<[type |-> "", lit |-> <<>>, line |-> 0, col |-> 0], ReadChar(s)>>
    [] c = "!" -> IF p = "=" THEN Two("NOTEQUAL") ELSE IF p = "~" THEN Two("NOT_REGEX_MATCH") ELSE One("NOT")
    [] c = NUL -> <<Tok("EOF", <<>>, s), ReadChar(IF s.eof THEN s ELSE [s EXCEPT !.line = s.line + 1, !.col = 0, !.eof = TRUE])>>
    [] OTHER ->
        IF c \in {"C","W"} /\ p = "!" THEN <<Tok("CONTROL", <<c, "!">>, s), ReadChar(ReadChar(s))>>
        ELSE IF c \in Letters THEN
             LET r1 == ReadIdent(s, <<>>) r2 == IdentMore(r1[2], r1[1]) IN <<Tok("IDENT", r2[1], s), r2[2]>>
        ELSE IF c \in Digits THEN
             LET d1 == ReadDec(s, <<>>)
                 d2 == IF Ch(d1[2].i) = "." THEN ReadDec(ReadChar(d1[2]), Append(d1[1], ".")) ELSE d1
                 isF == Ch(d1[2].i) = "."
                 e == d2[2]
             IN IF Ch(e.i) = "m" THEN (IF Peek(e) = "s" THEN <<Tok("RTIME", d2[1] \o <<"m","s">>, s), ReadChar(ReadChar(e))>>
                                       ELSE <<Tok("RTIME", Append(d2[1], "m"), s), ReadChar(e)>>)
                ELSE IF Ch(e.i) = "s" THEN <<Tok("RTIME", Append(d2[1], "s"), s), ReadChar(e)>>
                ELSE <<Tok(IF isF THEN "FLOAT" ELSE "INT", d2[1], s), e>>
        ELSE One("ILLEGAL")
S0 == ReadChar([i |-> 0, line |-> 1, col |-> 0, eof |-> FALSE])
RECURSIVE Stream(_, _)
Stream(s, n) == LET r == NextToken(s) IN
                IF r[1].type = "EOF" \/ n = 0 THEN <<r[1]>> ELSE <<r[1]>> \o Stream(r[2], n - 1)
Tokens == Stream(S0, 3 * N + 4)
\* requirement layer
LineOf(i) == 1 + Len(SelectSeq(SubSeq(Input, 1, i - 1), LAMBDA ch : ch = "\n"))
RECURSIVE LastLF(_)
LastLF(i) == IF i = 0 THEN 0 ELSE IF Input[i] = "\n" THEN i ELSE LastLF(i - 1)
ColOf(i) == i - LastLF(i - 1)
Located == \A k \in 1..Len(Tokens) : LET t == Tokens[k] IN
             t.type # "" /\ t.line >= 1 /\ t.col >= 1 /\ t.line <= LineOf(N + 1) + 1
Terminated == Tokens[Len(Tokens)].type = "EOF"
Init == chunks = <<>>
Next == Len(chunks) < MaxLen /\ \E c \in Chunks : chunks' = Append(chunks, c)
Spec == Init /\ [][Next]_chunks
Emit == PrintT(<<"CASE", ToJson([input |-> Input, tokens |-> Tokens])>>)
ChunksDef == { <<"a">>, <<"x">>, <<"C">>, <<"C","!">>, <<"0">>, <<"1">>, <<".">>, <<"m","s">>, <<"s">>, <<"-">>, <<":">>, <<"*">>, <<"\"">>, <<"{">>, <<"}">>, <<"/">>, <<"/","/">>, <<"/","*">>, <<"*","/">>, <<"#">>, <<"\n">>, <<" ">>, <<"=">>, <<"|">>, <<"!">>, <<"~">>, <<";">>, <<"(">>, <<"<0>">>, <<"@">> }
====
