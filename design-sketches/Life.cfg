SPECIFICATION Spec
CONSTANT MaxRestarts = 0
INVARIANT Bounded
CHECK_DEADLOCK FALSE
