---- MODULE Life ----
EXTENDS Naturals, Sequences, TLC, FiniteSets
CONSTANT MaxRestarts
Subs == {"recv","hash","hit","miss","pass","fetch","error","deliver","log"}
\* behaviours a sub can have (what the VCL author wrote for this (sub, restarts))
Beh(s) == CASE s = "recv"    -> {"absent","none","lookup","pass","error_stmt","restart_stmt","ret_restart","ret_error"}
            [] s = "hash"    -> {"absent","none","hash"}
            [] s = "hit"     -> {"absent","none","deliver","pass","error_stmt","restart_stmt","ret_restart"}
            [] s = "miss"    -> {"absent","none","fetch","deliver_stale","pass","error_stmt"}
            [] s = "pass"    -> {"absent","none","pass","error_stmt"}
            [] s = "fetch"   -> {"absent","none","deliver","deliver_stale","pass","hit_for_pass","error_stmt","restart_stmt","ret_restart"}
            [] s = "error"   -> {"absent","none","deliver","deliver_stale","restart_stmt","ret_restart"}
            [] s = "deliver" -> {"absent","none","deliver","restart_stmt","ret_restart"}
            [] s = "log"     -> {"absent","none","deliver"}
VARIABLES scope, restarts, flows, cached, pc
vars == <<scope, restarts, flows, cached, pc>>
Init == scope = "recv" /\ restarts = 0 /\ flows = <<>> /\ cached \in BOOLEAN /\ pc = "run"
Enter(s, b) == IF b = "absent" THEN flows ELSE Append(flows, <<s, restarts, b>>)
Go(s, b, next) == scope' = next /\ flows' = Enter(s, b) /\ UNCHANGED <<restarts, cached, pc>>
Fin(s, b, how) == pc' = how /\ flows' = Enter(s, b) /\ UNCHANGED <<scope, restarts, cached>>
DoRestart(s, b) == IF restarts < MaxRestarts
                   THEN scope' = "recv" /\ restarts' = restarts + 1 /\ flows' = Enter(s, b) /\ UNCHANGED <<cached, pc>>
                   ELSE Fin(s, b, "err")
IsRestart(b) == b \in {"restart_stmt","ret_restart"}
Step(s, b) ==
  CASE s = "recv" -> IF b \in {"absent","pass"} THEN Go(s,b,"hash_pass")
                     ELSE IF b \in {"none","lookup"} THEN Go(s,b,"hash")
                     ELSE IF b \in {"error_stmt","ret_error"} THEN Go(s,b,"error")
                     ELSE DoRestart(s,b)
    [] s = "hash" -> Go(s,b, IF cached THEN "hit" ELSE "miss")
    [] s = "hash_pass" -> Go("hash",b,"pass")
    [] s = "hit" -> IF b \in {"absent","none","deliver"} THEN Go(s,b,"deliver") ELSE IF b = "pass" THEN Go(s,b,"pass")
                    ELSE IF b = "error_stmt" THEN Go(s,b,"error") ELSE DoRestart(s,b)
    [] s = "miss" -> IF b \in {"absent","none","fetch"} THEN Go(s,b,"fetch") ELSE IF b = "deliver_stale" THEN Go(s,b,"deliver")
                     ELSE IF b = "pass" THEN Go(s,b,"pass") ELSE Go(s,b,"error")
    [] s = "pass" -> IF b = "error_stmt" THEN Go(s,b,"error") ELSE Go(s,b,"fetch")
    [] s = "fetch" -> IF b = "error_stmt" THEN Go(s,b,"error") ELSE IF IsRestart(b) THEN DoRestart(s,b) ELSE Go(s,b,"deliver")
    [] s = "error" -> IF IsRestart(b) THEN DoRestart(s,b) ELSE Go(s,b,"deliver")
    [] s = "deliver" -> IF IsRestart(b) THEN DoRestart(s,b) ELSE Go(s,b,"log")
    [] s = "log" -> Fin(s,b,"done")
Next == pc = "run" /\ \E b \in Beh(IF scope = "hash_pass" THEN "hash" ELSE scope) : Step(scope, b)
Spec == Init /\ [][Next]_vars
Bounded == restarts <= MaxRestarts
Count == pc # "run" => TLCSet(1, TLCGet(1) + 1)
====
