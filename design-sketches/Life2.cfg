SPECIFICATION Spec
CONSTANT MaxRestarts = 3
INVARIANT Bounded
VIEW View
CHECK_DEADLOCK FALSE
