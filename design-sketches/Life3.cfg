SPECIFICATION Spec
CONSTANT MaxRestarts = 3
INVARIANT Bounded
INVARIANT LogLastOnce
INVARIANT Emit
VIEW View
CHECK_DEADLOCK FALSE
