---- MODULE Life3 ----
EXTENDS Naturals, Sequences, TLC, FiniteSets, Json
\* Request lifecycle, requirement-level successor function + restart bound, one request, cache warm or cold.
\* Every lifecycle subroutine is defined; its behaviour at a given restart count is chosen lazily.
CONSTANT MaxRestarts
Beh(s) == CASE s = "recv"    -> {"none","lookup","pass","error_stmt","restart_stmt"}
            [] s = "hash"    -> {"none","hash"}
            [] s = "hit"     -> {"none","deliver","pass","error_stmt","restart_stmt"}
            [] s = "miss"    -> {"none","fetch","pass","error_stmt"}
            [] s = "pass"    -> {"none","pass","error_stmt"}
            [] s = "fetch"   -> {"none","deliver","deliver_stale","pass","hit_for_pass","error_stmt","restart_stmt"}
            [] s = "error"   -> {"none","deliver","restart_stmt"}
            [] s = "deliver" -> {"none","deliver","restart_stmt"}
            [] s = "log"     -> {"none","deliver"}
\* requirement: successor of (scope, behaviour); "R" = restart, "E" = vcl_error, "END" = finished
Succ(s, b, warm, viaPass) ==
  CASE s = "recv"    -> IF b = "pass" THEN "hash_pass" ELSE IF b \in {"none","lookup"} THEN "hash" ELSE IF b = "error_stmt" THEN "error" ELSE "R"
    [] s = "hash"    -> IF viaPass THEN "pass" ELSE IF warm THEN "hit" ELSE "miss"
    [] s = "hit"     -> IF b \in {"none","deliver"} THEN "deliver" ELSE IF b = "pass" THEN "pass" ELSE IF b = "error_stmt" THEN "error" ELSE "R"
    [] s = "miss"    -> IF b \in {"none","fetch"} THEN "fetch" ELSE IF b = "pass" THEN "pass" ELSE "error"
    [] s = "pass"    -> IF b = "error_stmt" THEN "error" ELSE "fetch"
    [] s = "fetch"   -> IF b = "error_stmt" THEN "error" ELSE IF b = "restart_stmt" THEN "R" ELSE "deliver"
    [] s = "error"   -> IF b = "restart_stmt" THEN "R" ELSE "deliver"
    [] s = "deliver" -> IF b = "restart_stmt" THEN "R" ELSE "log"
    [] s = "log"     -> "END"
VARIABLES scope, viaPass, restarts, warm, warm0, pc, prog, flows, last2, branch
vars == <<scope, viaPass, restarts, warm, warm0, pc, prog, flows, last2, branch>>
View == <<scope, viaPass, restarts, warm, warm0, pc, last2, branch>>
Init == scope = "recv" /\ viaPass = FALSE /\ restarts = 0 /\ warm \in BOOLEAN /\ warm0 = warm /\ pc = "run" /\ prog = <<>> /\ flows = <<>> /\ last2 = <<>> /\ branch = "none"
Push2(l, x) == IF Len(l) < 2 THEN Append(l, x) ELSE <<l[2], x>>
Step(b) ==
  LET s == scope  nx == Succ(s, b, warm, viaPass) IN
  /\ UNCHANGED warm0
  /\ prog' = Append(prog, [sub |-> s, at |-> restarts, beh |-> b])
  /\ flows' = Append(flows, s)
  /\ last2' = Push2(last2, <<s, b>>)
  /\ warm' = (IF s = "fetch" THEN TRUE ELSE warm)           \* updateCache: the stub backend always answers cacheable
  /\ branch' = (IF s = "hash" /\ ~viaPass THEN (IF warm THEN "HIT" ELSE "MISS") ELSE IF s = "hash" THEN "MISS" ELSE branch)
  /\ IF nx = "R" THEN (IF restarts < MaxRestarts
                       THEN scope' = "recv" /\ viaPass' = FALSE /\ restarts' = restarts + 1 /\ pc' = "run"
                       ELSE pc' = "err" /\ UNCHANGED <<scope, viaPass, restarts>>)
     ELSE IF nx = "END" THEN pc' = "done" /\ UNCHANGED <<scope, viaPass, restarts>>
     ELSE IF nx = "hash_pass" THEN scope' = "hash" /\ viaPass' = TRUE /\ pc' = "run" /\ UNCHANGED restarts
     ELSE scope' = nx /\ pc' = "run" /\ UNCHANGED <<viaPass, restarts>>
Next == pc = "run" /\ \E b \in Beh(scope) : Step(b)
Spec == Init /\ [][Next]_vars
\* requirement invariants on the (hidden) history
Bounded == restarts <= MaxRestarts
LogLastOnce == pc = "done" => (flows[Len(flows)] = "log" /\ Cardinality({i \in 1..Len(flows) : flows[i] = "log"}) = 1)
\* default continuation: every remaining subroutine falls off its end
RECURSIVE Rest(_, _, _, _)
Rest(s, vp, w, acc) == LET nx == Succ(s, "none", w, vp) IN
     IF nx = "END" THEN Append(acc, s)
     ELSE IF nx = "hash_pass" THEN Rest("hash", TRUE, w, Append(acc, s))
     ELSE Rest(nx, vp, IF s = "fetch" THEN TRUE ELSE w, Append(acc, s))
TailBranch(s, vp, w, br) == IF s \in {"recv"} \/ (s = "hash") THEN (IF vp \/ ~w THEN "MISS" ELSE "HIT") ELSE br
Emit == PrintT(<<"BEHAVIOUR", ToJson([
          warm0 |-> warm0,
          prog |-> prog,
          flows |-> IF pc = "run" THEN flows \o Rest(scope, viaPass, warm, <<>>) ELSE flows,
          restarts |-> restarts,
          outcome |-> IF pc = "err" THEN "error" ELSE "ok",
          xcache |-> IF pc = "run" THEN TailBranch(scope, viaPass, warm, branch) ELSE branch ])>>)
====
