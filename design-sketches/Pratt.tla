---- MODULE Pratt ----
EXTENDS Naturals, Sequences, TLC, Json, FiniteSets
\* Tokens are strings. Atoms: "a","b","c" (IDENT), "s" (STRING).  Binary ops; prefix "!" ; parens.
BinOps == {"||","&&","~","!~","==","!=","<",">","<=",">=","+"}
Prec(t) == CASE t = "||" -> 2 [] t = "&&" -> 3 [] t \in {"~","!~"} -> 4 [] t \in {"==","!="} -> 5
             [] t \in {"<",">","<=",">="} -> 6 [] t \in {"+","a","b","c","s"} -> 7 [] t = "(" -> 10 [] OTHER -> 1
LOWEST == 1
PREFIX == 8
Atoms == {"a","b","s"}

\* --- documented grouping (the oracle): trees are records
Atom(x) == [k |-> "atom", v |-> x]
Bin(o,l,r) == [k |-> "bin", op |-> o, l |-> l, r |-> r]
Not(e) == [k |-> "not", e |-> e]
Grp(e) == [k |-> "grp", e |-> e]

\* --- Pratt parser as in parser/expression_parser.go, functional form.
\* Parse(toks, i, prec) returns <<tree, next index>> where toks[next] is the peek token after the expression
RECURSIVE ParseExpr(_,_,_), Loop(_,_,_,_)
Tok(toks, i) == IF i <= Len(toks) THEN toks[i] ELSE ";"
ParsePrefix(toks, i) ==
   LET t == Tok(toks, i) IN
   IF t \in Atoms THEN <<Atom(t), i+1>>
   ELSE IF t = "!" THEN LET r == ParseExpr(toks, i+1, PREFIX) IN <<Not(r[1]), r[2]>>
   ELSE IF t = "(" THEN LET r == ParseExpr(toks, i+1, LOWEST) IN
                          IF Tok(toks, r[2]) = ")" THEN <<Grp(r[1]), r[2]+1>> ELSE <<[k |-> "err"], r[2]>>
   ELSE <<[k |-> "err"], i>>
Loop(toks, left, j, prec) ==
   LET p == Tok(toks, j) IN
   IF left.k = "err" THEN <<left, j>>
   ELSE IF p = ";" \/ ~(prec < Prec(p)) THEN <<left, j>>
   ELSE IF p \in BinOps \ {"+"} THEN
        LET r == ParseExpr(toks, j+1, Prec(p)) IN Loop(toks, IF r[1].k = "err" THEN r[1] ELSE Bin(p, left, r[1]), r[2], prec)
   ELSE IF p = "+" THEN
        LET r == ParseExpr(toks, j+1, Prec(p)) IN Loop(toks, IF r[1].k = "err" THEN r[1] ELSE Bin("+", left, r[1]), r[2], prec)
   ELSE IF p \in Atoms THEN \* juxtaposition: do not consume
        LET r == ParseExpr(toks, j, Prec(p)) IN Loop(toks, IF r[1].k = "err" THEN r[1] ELSE Bin("+", left, r[1]), r[2], prec)
   ELSE <<left, j>>
ParseExpr(toks, i, prec) == LET l == ParsePrefix(toks, i) IN Loop(toks, l[1], l[2], prec)

\* --- generator: token strings built step by step
VARIABLE toks
Alphabet == Atoms \cup BinOps \cup {"!","(",")"}
MaxLen == 5
Init == toks = <<>>
Next == Len(toks) < MaxLen /\ \E t \in Alphabet : toks' = Append(toks, t)
Spec == Init /\ [][Next]_toks
Result == ParseExpr(toks, 1, LOWEST)
Emit == Len(toks) > 0 /\ Result[1].k # "err" /\ Result[2] = Len(toks)+1 => PrintT(<<"CASE", ToJson([toks |-> toks, tree |-> Result[1]])>>)
====
