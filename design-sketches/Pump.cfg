SPECIFICATION Spec
CONSTANT MaxLen = 3
PROPERTY PumpReturns
CHECK_DEADLOCK FALSE
