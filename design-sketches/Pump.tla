---- MODULE Pump ----
EXTENDS Naturals, Sequences, TLC
\* Sketch of parser.ReadPeek over an abstract token sequence; the lexer returns EOF forever once exhausted.
TokKinds == {"IDENT", "LF", "COMMENT", "LBRACE", "RBRACE", "CONTROL", "PRAGMA", "SEMI"}
CONSTANT MaxLen
VARIABLES toks,      \* the input token sequence (chosen in Init-phase steps)
          phase,     \* "build" | "run"
          k,         \* next token index to pull from the lexer
          pc,        \* "top" | "lfrun" | "pragma" | "delivered"
          level, leadingN, emptyLines, eofPulls
vars == <<toks, phase, k, pc, level, leadingN, emptyLines, eofPulls>>
Pull(i) == IF i <= Len(toks) THEN toks[i] ELSE "EOF"
Init == toks = <<>> /\ phase = "build" /\ k = 1 /\ pc = "top" /\ level = 0 /\ leadingN = 0 /\ emptyLines = 0 /\ eofPulls = 0
Build == /\ phase = "build"
         /\ \/ Len(toks) < MaxLen /\ \E t \in TokKinds : toks' = Append(toks, t) /\ UNCHANGED <<phase, k, pc, level, leadingN, emptyLines, eofPulls>>
            \/ phase' = "run" /\ UNCHANGED <<toks, k, pc, level, leadingN, emptyLines, eofPulls>>
CountEof(t) == IF t = "EOF" THEN eofPulls + 1 ELSE eofPulls
\* one call of ReadPeek, as a loop of small steps
Top == /\ phase = "run" /\ pc = "top"
       /\ LET t == Pull(k) IN
          /\ k' = k + 1 /\ eofPulls' = CountEof(t)
          /\ CASE t = "LF" -> pc' = "lfrun" /\ UNCHANGED <<level, leadingN, emptyLines>>
               [] t = "COMMENT" -> pc' = "top" /\ leadingN' = leadingN + 1 /\ emptyLines' = 0 /\ UNCHANGED level
               [] t = "CONTROL" -> pc' = "top" /\ UNCHANGED <<level, leadingN, emptyLines>>
               [] t = "PRAGMA" -> pc' = "pragma" /\ UNCHANGED <<level, leadingN, emptyLines>>
               [] t = "LBRACE" -> pc' = "delivered" /\ level' = level + 1 /\ UNCHANGED <<leadingN, emptyLines>>
               [] t = "RBRACE" -> pc' = "delivered" /\ level' = level - 1 /\ UNCHANGED <<leadingN, emptyLines>>
               [] OTHER -> pc' = "delivered" /\ UNCHANGED <<level, leadingN, emptyLines>>
       /\ UNCHANGED <<toks, phase>>
LfRun == /\ phase = "run" /\ pc = "lfrun"
         /\ IF Pull(k) = "LF" THEN k' = k + 1 /\ emptyLines' = emptyLines + 1 /\ pc' = "lfrun" ELSE pc' = "top" /\ UNCHANGED <<k, emptyLines>>
         /\ UNCHANGED <<toks, phase, level, leadingN, eofPulls>>
\* the PRAGMA skip: for { t = NextToken(); if t == SEMICOLON break }   -- no EOF exit
Pragma == /\ phase = "run" /\ pc = "pragma"
          /\ LET t == Pull(k) IN
             /\ k' = (IF k <= Len(toks) THEN k + 1 ELSE k)          \* at EOF the lexer state no longer changes
             /\ eofPulls' = (IF t = "EOF" /\ eofPulls < 3 THEN eofPulls + 1 ELSE eofPulls)
             /\ pc' = (IF t = "SEMI" THEN "top" ELSE "pragma")
          /\ UNCHANGED <<toks, phase, level, leadingN, emptyLines>>
Next == Build \/ Top \/ LfRun \/ Pragma
Spec == Init /\ [][Next]_vars /\ WF_vars(Top) /\ WF_vars(LfRun) /\ WF_vars(Pragma)
PumpReturns == (phase = "run") ~> (pc = "delivered")
EofPullsBounded == eofPulls <= 2
====
