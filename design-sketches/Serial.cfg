SPECIFICATION Spec
CONSTANTS Reqs = {r1, r2, r3}
 Locked = FALSE
INVARIANT Serialisable
CHECK_DEADLOCK FALSE
