---- MODULE Serial ----
EXTENDS Naturals, Sequences, TLC, FiniteSets
\* N requests against ONE interpreter object.  Per-request state (ctx) lives on the shared object (Interpreter.ctx/process/vars).
\* Each request: Init (i.ctx := fresh ctx for r), Work (reads i.ctx, updates shared cache counter), Respond (reads i.ctx to build the response).
CONSTANT Reqs, Locked
VARIABLES pc, ctx, cache, resp, lock, order
vars == <<pc, ctx, cache, resp, lock, order>>
Init == pc = [r \in Reqs |-> "start"] /\ ctx = "none" /\ cache = 0 /\ resp = [r \in Reqs |-> "none"] /\ lock = "free" /\ order = <<>>
Acquire(r) == pc[r] = "start" /\ (Locked => lock = "free") /\ lock' = (IF Locked THEN r ELSE lock)
              /\ pc' = [pc EXCEPT ![r] = "init"] /\ order' = Append(order, r) /\ UNCHANGED <<ctx, cache, resp>>
DoInit(r) == pc[r] = "init" /\ ctx' = r /\ pc' = [pc EXCEPT ![r] = "work"] /\ UNCHANGED <<cache, resp, lock, order>>
DoWork(r) == pc[r] = "work" /\ cache' = cache + 1 /\ pc' = [pc EXCEPT ![r] = "respond"] /\ UNCHANGED <<ctx, resp, lock, order>>
Respond(r) == pc[r] = "respond" /\ resp' = [resp EXCEPT ![r] = <<ctx, cache>>]      \* builds the response from the SHARED ctx
              /\ pc' = [pc EXCEPT ![r] = "done"] /\ lock' = (IF Locked THEN "free" ELSE lock) /\ UNCHANGED <<ctx, cache, order>>
Next == \E r \in Reqs : Acquire(r) \/ DoInit(r) \/ DoWork(r) \/ Respond(r)
Spec == Init /\ [][Next]_vars
\* requirement: when all are done, every response is what the request gets in the sequential order `order`
Pos(r) == CHOOSE i \in 1..Len(order) : order[i] = r
Serialisable == (\A r \in Reqs : pc[r] = "done") => \A r \in Reqs : resp[r] = <<r, Pos(r)>>
Mutex == \A a, b \in Reqs : (pc[a] \in {"init","work","respond"} /\ pc[b] \in {"init","work","respond"}) => a = b
====
