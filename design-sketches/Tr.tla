---- MODULE Tr ----
EXTENDS Naturals, Sequences, TLC, Json
Trace == ndJsonDeserialize("trace.ndjson")
RECURSIVE Norm(_)
Norm(t) == CASE t.k = "rm" -> [k |-> "unset", v |-> t.v]
             [] t.k = "bin" -> [k |-> "bin", op |-> t.op, l |-> Norm(t.l), r |-> Norm(t.r)]
             [] t.k \in {"not","grp"} -> [k |-> t.k, e |-> Norm(t.e)]
             [] OTHER -> t
VARIABLE l
Init == l = 1
Next == l <= Len(Trace) /\ Trace[l].event = "Format" /\ Trace[l].out = Norm(Trace[l]["in"]) /\ l' = l + 1
Spec == Init /\ [][Next]_l
Accepted == TLCGet("stats").diameter - 1 = Len(Trace)
====
