import subprocess, os, json, re, tempfile, shutil, itertools
FALCO="/root/scratch/falco"
CLEAN='backend example { .host = "example.com"; }\nsub vcl_recv {\n  #FASTLY RECV\n  set req.backend = example;\n  return (lookup);\n}\n'
ERR=CLEAN.replace('  return (lookup);','  set req.http.X = undefined.variable;\n  return (lookup);')
WARN='backend example { .host = "example.com"; }\nsub vcl_recv {\n  set req.backend = example;\n  return (lookup);\n}\n'  # missing boilerplate -> warning
INFO=CLEAN.replace('  return (lookup);','  if (req.http.A ~ "a") { set req.http.B = re.group.0; }\n  if (req.http.C ~ "c") { set req.http.D = re.group.0; }\n  return (lookup);')
IGN=CLEAN.replace('  return (lookup);','  // falco-ignore-next-line\n  set req.http.X = undefined.variable;\n  return (lookup);')
PARSE='sub vcl_recv {\n  set req.http.a = ;\n}\n'
INC=CLEAN.replace('sub vcl_recv','include "mod";\nsub vcl_recv')
SNIP_OK='# @scope: recv\nset req.http.A = "1";\n'
SNIP_NO='set req.http.A = "1";\n'
classes={
 "clean":(CLEAN,{},None,"0"),
 "warn":(WARN,{},None,"0"),
 "info":(INFO,{},None,"0"),
 "error":(ERR,{},None,"1"),
 "ignored":(IGN,{},None,"0"),
 "parse_main":(PARSE,{},None,"1"),
 "parse_included":(INC,{"mod.vcl":"sub broken {\n  set = ;\n}\n"},None,"1"),
 "missing_module":(INC,{},None,"1"),
 "snippet_scope":(SNIP_OK,{},None,"0"),
 "snippet_noscope":(SNIP_NO,{},None,"1"),
 "warn_as_error":(WARN,{},{"subroutine/boilerplate-macro":"ERROR"},"1"),
 "error_ignored_by_rule":(CLEAN.replace('  return (lookup);','  set req.http.X = std.itoa(0, 1, 2);\n  return (lookup);'),{},{"function/arguments":"IGNORE"},"0"),
}
def run(cls,js,v):
    src,extra,rules,_=classes[cls]
    d=tempfile.mkdtemp(prefix="c04_")
    try:
        open(os.path.join(d,"main.vcl"),"w").write(src)
        for n,c in extra.items(): open(os.path.join(d,n),"w").write(c)
        if rules:
            open(os.path.join(d,".falco.yml"),"w").write("linter:\n  rules:\n"+"".join("    %s: %s\n"%kv for kv in rules.items()))
        cmd=[FALCO,"lint","-I",d]+(["-json"] if js else [])+([v] if v else [])+[os.path.join(d,"main.vcl")]
        p=subprocess.run(cmd,capture_output=True,text=True,cwd=d,timeout=30)
        out=p.stdout+p.stderr
        m=re.search(r"(\d+) errors, .*?(\d+) warnings, .*?(\d+) recommendations",out)
        summ=tuple(map(int,m.groups())) if m else None
        jc=None
        if js:
            try:
                j=json.loads(p.stdout[:p.stdout.rindex("}")+1]); jc=(j["Errors"],j["Warnings"],j["Infos"],len(j["ParseErrors"]))
            except Exception: jc="nojson"
        return p.returncode,summ,jc
    finally: shutil.rmtree(d,ignore_errors=True)
rows=[]
for cls in classes:
    res={}
    for js in (False,True):
        for v in (None,"-v","-vv"):
            res[(js,v)]=run(cls,js,v)
    exits={k:r[0] for k,r in res.items()}
    summs={r[1] for r in res.values()}
    want=classes[cls][3]
    flag=[]
    if len(set(exits.values()))>1: flag.append("EXIT-DEPENDS-ON-FLAGS")
    if any(str(int(e!=0))!=want for e in exits.values()): flag.append("EXIT!=expected(%s)"%want)
    if len(summs)>1: flag.append("COUNTS-DEPEND-ON-FLAGS")
    print("%-22s exits=%s counts=%s json=%s %s"%(cls,sorted(set(exits.values())),sorted(summs,key=str),sorted({str(r[2]) for r in res.values() if r[2] is not None}),"  <== "+", ".join(flag) if flag else ""))
