import subprocess, os, json, itertools, tempfile, shutil
from concurrent.futures import ThreadPoolExecutor
FALCO="/root/scratch/falco"
ops=["=","+=","-=","*=","/=","%=","|=","&=","^=","<<=",">>=","rol=","ror=","&&=","||="]
types=["INTEGER","FLOAT","STRING","BOOL","RTIME","IP"]
lits={"INTEGER":"2","FLOAT":"2.5","STRING":'"s"',"BOOL":"true","RTIME":"2s","IP":'"192.0.2.1"'}
init={"INTEGER":"6","FLOAT":"6.0","STRING":'"x"',"BOOL":"true","RTIME":"6s","IP":'"192.0.2.9"'}
cells=[]
for op in ops:
    for lt in types:
        for rt in types:
            for form in ("lit","var"):
                if form=="lit" and rt=="IP": continue  # IP literal is a string literal
                cells.append((op,lt,rt,form))
def body(op,lt,rt,form):
    s=f"declare local var.l {lt}; set var.l = {init[lt]}; "
    if form=="var":
        s+=f"declare local var.r {rt}; set var.r = {init[rt] if rt!='INTEGER' else '2'}; set var.l {op} var.r;"
    else:
        s+=f"set var.l {op} {lits[rt]};"
    return s
def run(cell):
    op,lt,rt,form=cell
    d=tempfile.mkdtemp(prefix="c05_")
    try:
        b=body(*cell)
        open(os.path.join(d,"main.vcl"),"w").write('backend example { .host = "example.com"; }\nsub vcl_recv {\n  #FASTLY RECV\n  %s\n  log var.l;\n  return (lookup);\n}\n'%b)
        open(os.path.join(d,"main.test.vcl"),"w").write('// @scope: recv\nsub test_x {\n  %s\n}\n'%b)
        l=subprocess.run([FALCO,"lint","-json",os.path.join(d,"main.vcl")],capture_output=True,text=True,timeout=30)
        lint="?"
        try:
            j=json.loads(l.stdout[:l.stdout.rindex("}")+1])
            lint="reject" if j["Errors"]>0 or j["ParseErrors"] else "accept"
            rules=sorted({e.get("Rule","") for v in j["LintErrors"].values() for e in v if e.get("Severity")=="Error"}) if lint=="reject" else []
        except Exception as e:
            lint="?"; rules=[str(e)[:40]]
        t=subprocess.run([FALCO,"test","-json",os.path.join(d,"main.vcl")],capture_output=True,text=True,timeout=30)
        if "panic:" in t.stderr or "panic:" in t.stdout: sim="PANIC"
        else:
            try:
                j=json.loads(t.stdout[:t.stdout.rindex("}")+1])
                e=j["tests"][0]["suites"][0].get("error")
                sim="error" if e else "ok"
            except Exception as e:
                sim="?"
        return (cell,lint,sim)
    finally:
        shutil.rmtree(d,ignore_errors=True)
with ThreadPoolExecutor(16) as ex:
    res=list(ex.map(run,cells))
from collections import Counter
c=Counter((l,s) for _,l,s in res)
print(len(res),"cells",dict(c))
bad=[(cell,l,s) for cell,l,s in res if (l=="accept" and s!="ok")]
print("lint-accept but sim fails:",len(bad))
for b in bad[:60]: print("  ",b)
strict=[(cell,l,s) for cell,l,s in res if (l=="reject" and s=="ok")]
print("lint-reject but sim ok:",len(strict))
json.dump([[list(c),l,s] for c,l,s in res],open("res.json","w"))
