import subprocess, os, json, tempfile, shutil
from concurrent.futures import ThreadPoolExecutor
FALCO="/root/scratch/falco"
scopes=["recv","hash","hit","miss","pass","fetch","error","deliver","log"]
stmts={"restart":"restart;","error":"error 601;","esi":"esi;","synthetic":'synthetic "x";'}
for a in ["lookup","pass","hash","deliver","fetch","deliver_stale","hit_for_pass","restart","error"]:
    stmts["return(%s)"%a]="return(%s);"%a
def run(job):
    name,scope=job
    st=stmts[name]
    d=tempfile.mkdtemp(prefix="c05s_")
    try:
        main='backend example { .host = "example.com"; }\nsub vcl_%s {\n  #FASTLY %s\n  set req.http.Z = "1";\n  %s\n}\n'%(scope,scope.upper(),st)
        open(os.path.join(d,"main.vcl"),"w").write(main)
        p=subprocess.run([FALCO,"lint","-json",os.path.join(d,"main.vcl")],capture_output=True,text=True,timeout=30)
        try:
            j=json.loads(p.stdout[:p.stdout.rindex("}")+1]); lint="reject" if j["Errors"]>0 or j["ParseErrors"] else "accept"
        except Exception: lint="?"
        # simulator: run the statement in that scope through a test subroutine
        open(os.path.join(d,"m.vcl"),"w").write('backend example { .host = "example.com"; }\nsub vcl_recv {\n  #FASTLY RECV\n  return (lookup);\n}\n')
        os.makedirs(os.path.join(d,"t"))
        shutil.copy(os.path.join(d,"m.vcl"),os.path.join(d,"t","main.vcl"))
        open(os.path.join(d,"t","main.test.vcl"),"w").write('// @scope: %s\nsub test_x {\n  %s\n}\n'%(scope,st))
        t=subprocess.run([FALCO,"test","-json",os.path.join(d,"t","main.vcl")],capture_output=True,text=True,timeout=30)
        if "panic:" in t.stderr: sim="PANIC"
        else:
            try:
                j=json.loads(t.stdout[:t.stdout.rindex("}")+1]); e=j["tests"][0]["suites"][0].get("error"); sim="error" if e else "ok"
            except Exception: sim="?"
        return (name,scope,lint,sim)
    finally: shutil.rmtree(d,ignore_errors=True)
jobs=[(n,s) for n in stmts for s in scopes]
with ThreadPoolExecutor(16) as ex: res=list(ex.map(run,jobs))
print("%-22s"%"statement"+" ".join("%-8s"%s for s in scopes))
for n in stmts:
    row=[]
    for s in scopes:
        l,si=[(r[2],r[3]) for r in res if r[0]==n and r[1]==s][0]
        row.append("%-8s"%({"accept":"A","reject":"r","?":"?"}[l]+"/"+{"ok":"ok","error":"err","PANIC":"PANIC","?":"?"}[si]))
    print("%-22s"%n+" ".join(row))
print("legend: lint A=accept r=reject / simulator ok|err (a test subroutine executing the statement in that scope)")
