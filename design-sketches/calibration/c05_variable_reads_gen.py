import yaml, json, subprocess, re, os
Y=yaml.safe_load(open('/repo/__generator__/predefined.yml'))
scopes=["RECV","HASH","HIT","MISS","PASS","FETCH","ERROR","DELIVER","LOG"]
subname={s:"vcl_"+s.lower() for s in scopes}
# collect gettable variables (skip patterns with placeholders like $N / %any%)
vars_=[]
for name,spec in Y.items():
    if not isinstance(spec,dict): continue
    g=spec.get("get")
    if not g: continue
    if "%" in name or "$" in name or "*" in name: continue
    vars_.append((name,g,(spec.get("on") or spec.get(True) or [])))
print(len(vars_),"gettable plain variables")
types={"STRING","INTEGER","FLOAT","BOOL","RTIME","TIME","IP","BACKEND","ACL"}
# main.vcl for lint: each scope sub uses every variable gettable there
lines=['backend example { .host = "example.com"; }']
linemap={}
for s in scopes:
    lines.append("sub %s {"%subname[s]); lines.append("  #FASTLY %s"%s)
    k=0
    for name,g,on in vars_:
        if s not in on: continue
        if g not in types: continue
        k+=1
        lines.append("  declare local var.v%d %s;"%(k,g))
        lines.append("  set var.v%d = %s;"%(k,name)); linemap[len(lines)]=(name,s)
    if s=="HASH": lines.append("  return (hash);")
    lines.append("}")
open("main.vcl","w").write("\n".join(lines)+"\n")
json.dump({str(k):v for k,v in linemap.items()},open("linemap.json","w"))
# test file: one sub per (var, scope)
t=[]
idx={}
n=0
for s in scopes:
    for name,g,on in vars_:
        if s not in on or g not in types: continue
        n+=1; idx["t%d"%n]=(name,s,g)
        t.append("// @scope: %s\nsub t%d {\n  declare local var.v %s;\n  set var.v = %s;\n}\n"%(s.lower(),n,g,name))
open("main.test.vcl","w").write("\n".join(t))
json.dump(idx,open("idx.json","w"))
print(n,"cells")
