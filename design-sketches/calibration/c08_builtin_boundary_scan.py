import yaml, subprocess, os, json, tempfile, shutil, re, resource
from concurrent.futures import ThreadPoolExecutor
FALCO="/root/scratch/falco"
Y=yaml.safe_load(open('/repo/__generator__/builtin.yml'))
classes={
 "STRING":['""','"a"','req.http.NotSet','"%E3%81%82 \\\\ ( [ * ? +"'],
 "INTEGER":['0','-1','9223372036854775807','64'],
 "FLOAT":['0.0','-1.5','1e308','0.5'],
 "BOOL":['true','false','true','false'],
 "RTIME":['0s','1s','100000y','1ms'],
 "TIME":['now','now','now','now'],
 "IP":['client.ip','client.ip','client.ip','client.ip'],
 "ID":['tbl','tbl','tbl','tbl'],
 "TABLE":['tbl','tbl','tbl','tbl'],
 "ACL":['internal','internal','internal','internal'],
 "BACKEND":['example','example','example','example'],
 "HEADER":['req.http.H','req.http.H','req.http.NotSet','req.http.H'],
}
MAIN='backend example { .host = "example.com"; }\nacl internal { "10.0.0.0"/8; }\ntable tbl STRING { "k": "v", }\nsub vcl_recv {\n  #FASTLY RECV\n  return (lookup);\n}\n'
jobs=[]
unknown=set()
for name,spec in Y.items():
    if not isinstance(spec,dict): continue
    sigs=spec.get("arguments") or [[]]
    ret=spec.get("return")
    on=spec.get("on") or spec.get(True) or []
    scope=(on[0] if on else "RECV").lower()
    for sig in sigs:
        sig=sig or []
        for k in range(4):
            args=[]
            ok=True
            for t in sig:
                if t not in classes: unknown.add(t); ok=False; break
                args.append(classes[t][k])
            if not ok: continue
            call="%s(%s)"%(name,", ".join(args))
            stmt=(call+";") if ret in (None,"VOID") else ("log "+call+";")
            jobs.append((name,scope,stmt))
            if not sig: break
print(len(jobs),"calls; unknown arg types:",unknown)
def limit(): resource.setrlimit(resource.RLIMIT_AS,(2<<30,2<<30))
def run(job):
    name,scope,stmt=job
    d=tempfile.mkdtemp(prefix="c08_")
    try:
        open(os.path.join(d,"main.vcl"),"w").write(MAIN)
        open(os.path.join(d,"main.test.vcl"),"w").write('// @scope: %s\nsub test_x {\n  set req.http.H = "h";\n  %s\n}\n'%(scope,stmt))
        try:
            p=subprocess.run([FALCO,"test","-json",os.path.join(d,"main.vcl")],capture_output=True,text=True,timeout=15,preexec_fn=limit)
        except subprocess.TimeoutExpired:
            return (job,"HANG","")
        if "panic:" in p.stderr or "fatal error" in p.stderr:
            m=re.search(r"(panic: .*|fatal error: .*)",p.stderr); return (job,"PANIC",m.group(1)[:120] if m else "")
        return (job,"ok","")
    finally:
        shutil.rmtree(d,ignore_errors=True)
with ThreadPoolExecutor(16) as ex: res=list(ex.map(run,jobs))
from collections import Counter
print(Counter(r[1] for r in res))
for job,out,msg in res:
    if out!="ok": print(out,job[2],"::",msg)
