import subprocess, os, json, itertools, tempfile, shutil, sys
from concurrent.futures import ThreadPoolExecutor
FALCO="/root/scratch/falco"
MAIN='''backend example { .host = "example.com"; }
table tbl STRING {
  "k": "v0",
}
sub vcl_recv {
  #FASTLY RECV
  if (req.http.A == "1") {
    set req.http.R = "a";
  } else if (req.http.A == "2") {
    set req.http.R = "b";
  } else {
    set req.http.R = "c";
  }
  switch (req.http.S) {
    case "x":
      set req.http.T = "x";
      fallthrough;
    case "y":
      set req.http.T = req.http.T "y";
      break;
    default:
      set req.http.T = "d";
      break;
  }
  return (lookup);
}
'''
T={
 "pass_elseif": ('recv','set req.http.A = "2"; testing.call_subroutine("vcl_recv"); assert.equal(req.http.R, "b");', ["pass"]),
 "pass_switch": ('recv','set req.http.S = "x"; testing.call_subroutine("vcl_recv"); assert.equal(req.http.T, "xy");', ["pass"]),
 "fail_assert": ('recv','assert.equal(req.http.R, "zzz");', ["fail"]),
 "runtime_err": ('recv','set req.http.X = undefined.variable;', ["fail"]),
 "skipped": ('recv @skip','assert.true(false);', ["skip"]),
 "mut_table": ('recv','testing.table_set(tbl, "k", "mutated"); assert.equal(table.lookup(tbl, "k"), "mutated");', ["pass"]),
 "read_table": ('recv','assert.equal(table.lookup(tbl, "k"), "v0");', ["pass"]),
 "set_header": ('recv','set req.http.Leak = "1"; assert.equal(req.http.Leak, "1");', ["pass"]),
 "read_header": ('recv','assert.is_notset(req.http.Leak);', ["pass"]),
 "inject_var": ('recv','testing.inject_variable("client.geo.country_code", "JP"); assert.equal(client.geo.country_code, "JP");', ["pass"]),
 "read_var": ('recv','assert.not_equal(client.geo.country_code, "JP");', ["pass"]),
 "logs": ('recv','log "hello"; assert.true(true);', ["pass"]),
 "two_scopes": ('recv, deliver','assert.true(true);', ["pass","pass"]),
}
def test_src(name):
    scope,body,_=T[name]
    ann="// @scope: "+scope.split(" @")[0]+"\n"
    if "@skip" in scope: ann+="// @skip\n"
    return ann+"sub test_%s {\n  %s\n}\n"%(name,body)
def run(job):
    seq,cov=job
    d=tempfile.mkdtemp(prefix="c10_")
    try:
        open(os.path.join(d,"main.vcl"),"w").write(MAIN)
        open(os.path.join(d,"main.test.vcl"),"w").write("\n".join(test_src(n) for n in seq))
        cmd=[FALCO,"test","-json"]+(["--coverage"] if cov else [])+[os.path.join(d,"main.vcl")]
        p=subprocess.run(cmd,capture_output=True,text=True,timeout=60)
        try:
            j=json.loads(p.stdout[:p.stdout.rindex("}")+1])
        except Exception as e:
            return (seq,cov,"NOJSON rc=%d %s"%(p.returncode,(p.stderr or p.stdout)[:200]),None,p.returncode)
        got={}
        for c in j["tests"][0]["suites"]:
            v="skip" if c.get("skip") else ("fail" if c.get("error") else "pass")
            got.setdefault(c["name"],[]).append(v)
        return (seq,cov,got,j["summary"],p.returncode)
    finally:
        shutil.rmtree(d,ignore_errors=True)
names=list(T)
jobs=[]
for k in (1,2,3):
    for seq in itertools.permutations(names,k):
        if k==3 and hash(seq)%4: continue   # sample a quarter of the triples
        for cov in (False,True):
            jobs.append((seq,cov))
print(len(jobs),"runs")
with ThreadPoolExecutor(16) as ex: res=list(ex.map(run,jobs))
bad=0; kinds={}
for seq,cov,got,summ,rc in res:
    if isinstance(got,str):
        bad+=1; kinds.setdefault("nojson",[]).append((seq,cov,got)); continue
    for n in seq:
        if got.get("test_"+n)!=T[n][2]:
            bad+=1; kinds.setdefault("verdict:"+n,[]).append((seq,cov,got.get("test_"+n)))
    anyfail=any(v=="fail" for n in seq for v in T[n][2])
    if (rc!=0)!=anyfail:
        bad+=1; kinds.setdefault("exit",[]).append((seq,cov,rc))
print("mismatches",bad)
for k,v in kinds.items():
    print(k,len(v)); 
    for x in v[:4]: print("   ",x)
