import subprocess, os, json, itertools, tempfile, shutil, resource
from concurrent.futures import ThreadPoolExecutor
FALCO="/root/scratch/falco"
mods=["main","a","b"]
targets=["main","a","b","missing"]
def limit():
    resource.setrlimit(resource.RLIMIT_AS,(2<<30,2<<30))
def body(name,incs,place):
    inc="".join('include "%s";\n'%t for t in incs)
    if place=="root":
        s=inc
        if name=="main": s+='backend example { .host = "example.com"; }\nsub vcl_recv {\n  #FASTLY RECV\n  set req.backend = example;\n  return (lookup);\n}\n'
        else: s+='sub helper_%s {\n  set req.http.X = "1";\n}\n'%name
        return s
    else:
        if name=="main": return 'backend example { .host = "example.com"; }\nsub vcl_recv {\n  #FASTLY RECV\n  set req.backend = example;\n%s  return (lookup);\n}\n'%("".join('  include "%s";\n'%t for t in incs))
        return "".join('include "%s";\n'%t for t in incs)+'set req.http.X%s = "1";\n'%name
def run(job):
    edges,place=job
    d=tempfile.mkdtemp(prefix="c11_")
    try:
        for m in mods:
            open(os.path.join(d,m+".vcl"),"w").write(body(m,[t for (s,t) in edges if s==m],place))
        try:
            p=subprocess.run([FALCO,"lint","-json","-I",d,os.path.join(d,"main.vcl")],capture_output=True,text=True,timeout=10,preexec_fn=limit)
            out="crash" if ("goroutine" in p.stderr or p.returncode not in (0,1)) else "ok(rc=%d)"%p.returncode
        except subprocess.TimeoutExpired:
            out="hang"
        return (edges,place,out)
    finally:
        shutil.rmtree(d,ignore_errors=True)
alledges=[(s,t) for s in mods for t in targets]
jobs=[]
for k in range(0,4):
    for es in itertools.combinations(alledges,k):
        for place in ("root","sub"):
            jobs.append((es,place))
print(len(jobs),"graphs with <=3 edges")
with ThreadPoolExecutor(16) as ex: res=list(ex.map(run,jobs))
from collections import Counter
def cyclic(es):
    g={m:[t for s,t in es if s==m and t in mods] for m in mods}
    seen=set(); stack=set()
    def dfs(u):
        if u in stack: return True
        if u in seen: return False
        seen.add(u); stack.add(u)
        r=any(dfs(v) for v in g[u]); stack.discard(u); return r
    return dfs("main")
c=Counter((place,("cycle-reachable" if cyclic(es) else "acyclic"),out.split("(")[0]) for es,place,out in res)
for k,v in sorted(c.items()): print(k,v)
