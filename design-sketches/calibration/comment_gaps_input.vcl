acl internal {
  "10.0.0.0"/8;
  !"10.1.0.0"/16;
}
backend example {
  .host = "example.com";
  .probe = {
    .request = "GET / HTTP/1.1";
  }
}
table t STRING {
  "a": "b",
}
sub f(STRING var.p) BOOL {
  return true;
}
sub vcl_recv {
  #FASTLY RECV
  declare local var.s STRING;
  set var.s = "a" + req.http.X;
  if (req.http.A == "1" && !req.http.B) {
    unset req.http.A;
  } else if (req.http.C ~ "^x") {
    add req.http.D = "d";
  } else {
    remove req.http.E;
  }
  switch (req.http.S) {
    case "a":
      log "a";
      break;
    default:
      esi;
      break;
  }
  call helper;
  std.collect(req.http.Cookie, ";");
  if (client.ip ~ internal) {
    error 401 "denied";
  }
  restart;
  return (lookup);
}
sub helper {
  synthetic "x";
  goto end;
  end:
}
