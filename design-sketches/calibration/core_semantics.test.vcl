// @scope: recv
sub test_notset_falsy {
  if (req.http.N) { set req.http.R = "t"; } else { set req.http.R = "f"; } assert.equal(req.http.R, "f");
}
// @scope: recv
sub test_empty_truthy {
  set req.http.E = ""; if (req.http.E) { set req.http.R = "t"; } else { set req.http.R = "f"; } assert.equal(req.http.R, "t");
}
// @scope: recv
sub test_notset_eq_empty_false {
  if (req.http.N == "") { set req.http.R = "t"; } else { set req.http.R = "f"; } assert.equal(req.http.R, "f");
}
// @scope: recv
sub test_notset_ne_empty_true {
  if (req.http.N != "") { set req.http.R = "t"; } else { set req.http.R = "f"; } assert.equal(req.http.R, "t");
}
// @scope: recv
sub test_notset_eq_notset {
  if (req.http.N == req.http.M) { set req.http.R = "t"; } else { set req.http.R = "f"; } assert.equal(req.http.R, "f");
}
// @scope: recv
sub test_local_from_notset_is_empty {
  declare local var.s STRING; set var.s = req.http.N; if (var.s == "") { set req.http.R = "t"; } else { set req.http.R = "f"; } assert.equal(req.http.R, "t");
}
// @scope: recv
sub test_local_unassigned_notset {
  declare local var.s STRING; assert.is_notset(var.s);
}
// @scope: recv
sub test_header_from_notset_is_notset {
  set req.http.Y = req.http.N; assert.is_notset(req.http.Y);
}
// @scope: recv
sub test_concat_notset_header {
  set req.http.Y = "a" req.http.N; assert.equal(req.http.Y, "a");
}
// @scope: recv
sub test_concat_notset_local {
  declare local var.s STRING; set var.s = "a" req.http.N "b"; assert.equal(var.s, "ab");
}
// @scope: recv
sub test_not_notset {
  if (!req.http.N) { set req.http.R = "t"; } else { set req.http.R = "f"; } assert.equal(req.http.R, "t");
}
// @scope: recv
sub test_int_to_string {
  declare local var.i INTEGER; set var.i = 42; set req.http.R = var.i; assert.equal(req.http.R, "42");
}
// @scope: recv
sub test_neg_int_to_string {
  declare local var.i INTEGER; set var.i = -7; set req.http.R = var.i; assert.equal(req.http.R, "-7");
}
// @scope: recv
sub test_float_to_string {
  declare local var.f FLOAT; set var.f = 1.5; set req.http.R = var.f; assert.equal(req.http.R, "1.500");
}
// @scope: recv
sub test_rtime_to_string {
  declare local var.r RTIME; set var.r = 90s; set req.http.R = var.r; assert.equal(req.http.R, "90.000");
}
// @scope: recv
sub test_rtime_ms_to_string {
  declare local var.r RTIME; set var.r = 1500ms; set req.http.R = var.r; assert.equal(req.http.R, "1.500");
}
// @scope: recv
sub test_bool_to_string {
  declare local var.b BOOL; set var.b = true; set req.http.R = var.b; assert.equal(req.http.R, "1");
}
// @scope: recv
sub test_bool_false_to_string {
  declare local var.b BOOL; set req.http.R = var.b; assert.equal(req.http.R, "0");
}
// @scope: recv
sub test_int_add {
  declare local var.i INTEGER; set var.i = 5; set var.i += 3; assert.equal(var.i, 8);
}
// @scope: recv
sub test_int_sub {
  declare local var.i INTEGER; set var.i = 5; set var.i -= 8; assert.equal(var.i, -3);
}
// @scope: recv
sub test_int_mul {
  declare local var.i INTEGER; set var.i = 5; set var.i *= -3; assert.equal(var.i, -15);
}
// @scope: recv
sub test_int_div_trunc {
  declare local var.i INTEGER; set var.i = 7; set var.i /= 2; assert.equal(var.i, 3);
}
// @scope: recv
sub test_int_div_neg_trunc {
  declare local var.i INTEGER; set var.i = -7; set var.i /= 2; assert.equal(var.i, -3);
}
// @scope: recv
sub test_int_mod {
  declare local var.i INTEGER; set var.i = 7; set var.i %= 3; assert.equal(var.i, 1);
}
// @scope: recv
sub test_int_mod_neg {
  declare local var.i INTEGER; set var.i = -7; set var.i %= 3; assert.equal(var.i, -1);
}
// @scope: recv
sub test_int_or {
  declare local var.i INTEGER; set var.i = 5; set var.i |= 2; assert.equal(var.i, 7);
}
// @scope: recv
sub test_int_and {
  declare local var.i INTEGER; set var.i = 6; set var.i &= 3; assert.equal(var.i, 2);
}
// @scope: recv
sub test_int_xor {
  declare local var.i INTEGER; set var.i = 6; set var.i ^= 3; assert.equal(var.i, 5);
}
// @scope: recv
sub test_int_shl {
  declare local var.i INTEGER; set var.i = 3; set var.i <<= 2; assert.equal(var.i, 12);
}
// @scope: recv
sub test_int_shr {
  declare local var.i INTEGER; set var.i = 12; set var.i >>= 2; assert.equal(var.i, 3);
}
// @scope: recv
sub test_int_rol {
  declare local var.i INTEGER; set var.i = 1; set var.i rol= 4; assert.equal(var.i, 16);
}
// @scope: recv
sub test_int_ror_wrap {
  declare local var.i INTEGER; set var.i = 1; set var.i ror= 1; set req.http.R = var.i; assert.equal(req.http.R, "-9223372036854775808");
}
// @scope: recv
sub test_int_rol_64_identity {
  declare local var.i INTEGER; set var.i = 5; set var.i rol= 64; assert.equal(var.i, 5);
}
// @scope: recv
sub test_float_add_int {
  declare local var.f FLOAT; set var.f = 1.5; set var.f += 2; set req.http.R = var.f; assert.equal(req.http.R, "3.500");
}
// @scope: recv
sub test_float_div {
  declare local var.f FLOAT; set var.f = 3.0; set var.f /= 2; set req.http.R = var.f; assert.equal(req.http.R, "1.500");
}
// @scope: recv
sub test_rtime_add {
  declare local var.r RTIME; set var.r = 1s; set var.r += 500ms; set req.http.R = var.r; assert.equal(req.http.R, "1.500");
}
// @scope: recv
sub test_rtime_mul {
  declare local var.r RTIME; set var.r = 2s; set var.r *= 3; set req.http.R = var.r; assert.equal(req.http.R, "6.000");
}
// @scope: recv
sub test_bool_and_assign {
  declare local var.b BOOL; set var.b = true; set var.b &&= false; assert.false(var.b);
}
// @scope: recv
sub test_bool_or_assign {
  declare local var.b BOOL; set var.b ||= true; assert.true(var.b);
}
// @scope: recv
sub test_lt_gt_dual {
  declare local var.i INTEGER; declare local var.j INTEGER; set var.i = 1; set var.j = 2; assert.true(var.i < var.j); assert.true(var.j > var.i); assert.false(var.i > var.j); assert.true(var.i <= var.j); assert.true(var.j >= var.i); assert.true(var.i != var.j);
}
// @scope: recv
sub test_string_eq {
  set req.http.A = "x"; assert.true(req.http.A == "x"); assert.false(req.http.A != "x"); assert.false(req.http.A == "X");
}
// @scope: recv
sub test_regex_match_group {
  set req.http.A = "hello"; if (req.http.A ~ "^he(l+)o$") { set req.http.R = re.group.1; } assert.equal(req.http.R, "ll");
}
// @scope: recv
sub test_regex_nomatch {
  set req.http.A = "hello"; assert.true(req.http.A !~ "^x"); assert.false(req.http.A ~ "^x");
}
// @scope: recv
sub test_and_or {
  set req.http.A = "x"; assert.true(req.http.A && !req.http.N); assert.true(req.http.N || req.http.A); assert.false(req.http.N && req.http.A);
}
// @scope: recv
sub test_if_elseif_else {
  set req.http.A = "2"; if (req.http.A == "1") { set req.http.R = "a"; } else if (req.http.A == "2") { set req.http.R = "b"; } else { set req.http.R = "c"; } assert.equal(req.http.R, "b");
}
// @scope: recv
sub test_switch_basic {
  set req.http.A = "b"; switch (req.http.A) { case "a": set req.http.R = "1"; break; case "b": set req.http.R = "2"; break; default: set req.http.R = "d"; break; } assert.equal(req.http.R, "2");
}
// @scope: recv
sub test_switch_default_first {
  set req.http.A = "b"; switch (req.http.A) { default: set req.http.R = "d"; break; case "b": set req.http.R = "2"; break; } assert.equal(req.http.R, "2");
}
// @scope: recv
sub test_switch_fallthrough {
  set req.http.A = "a"; set req.http.R = ""; switch (req.http.A) { case "a": set req.http.R = req.http.R "1"; fallthrough; case "b": set req.http.R = req.http.R "2"; break; default: set req.http.R = req.http.R "d"; break; } assert.equal(req.http.R, "12");
}
// @scope: recv
sub test_switch_nomatch_nodefault {
  set req.http.A = "z"; set req.http.R = "0"; switch (req.http.A) { case "a": set req.http.R = "1"; break; } assert.equal(req.http.R, "0");
}
// @scope: recv
sub test_switch_regex_case {
  set req.http.A = "abc"; switch (req.http.A) { case ~ "^ab": set req.http.R = "re"; break; default: set req.http.R = "d"; break; } assert.equal(req.http.R, "re");
}
// @scope: recv
sub test_header_append_op {
  set req.http.A = "x"; set req.http.A += "y"; assert.equal(req.http.A, "xy");
}
// @scope: recv
sub test_if_expr {
  set req.http.A = "x"; set req.http.R = if(req.http.A == "x", "yes", "no"); assert.equal(req.http.R, "yes");
}
// @scope: recv
sub test_unset_then_notset {
  set req.http.A = "x"; unset req.http.A; assert.is_notset(req.http.A);
}
// @scope: recv
sub test_newline_truncation {
  set req.http.A = "x%0Ay"; assert.equal(req.http.A, "x");
}
// @scope: recv
sub test_int_from_float_var {
  declare local var.i INTEGER; declare local var.f FLOAT; set var.f = 2.5; set var.i = var.f; assert.equal(var.i, 2);
}
// @scope: recv
sub test_string_from_int_literal_concat {
  declare local var.i INTEGER; set var.i = 3; set req.http.R = "n=" var.i; assert.equal(req.http.R, "n=3");
}
