backend example { .host = "example.com"; }
sub vcl_recv {
  #FASTLY RECV
  return (lookup);
}
