// falco-vplug: a lint plugin used by the C18 check.  `falco-vplug <name> <k> <batch>` reads the encoded
// statement from stdin and answers k*batch diagnostics "<name>-<i>-<j>".
package main

import (
	"fmt"
	"io"
	"os"
	"strconv"
	"time"

	"github.com/ysugimoto/falco/v2/plugin"
)

func main() {
	io.Copy(io.Discard, os.Stdin) // nolint:errcheck
	name, k, batch := "p", 1, 1
	if len(os.Args) > 1 {
		name = os.Args[1]
	}
	if name == "fail" {
		os.Stderr.WriteString("vplug: failing on request\n")
		os.Exit(1)
	}
	if len(os.Args) > 2 {
		k, _ = strconv.Atoi(os.Args[2])
	}
	if len(os.Args) > 3 {
		batch, _ = strconv.Atoi(os.Args[3])
	}
	// plugins finish at nearly the same time so that their reports overlap
	time.Sleep(time.Duration(20-time.Now().UnixMilli()%20) * time.Millisecond)
	resp := &plugin.LinterResponse{}
	for i := 1; i <= k; i++ {
		for j := 0; j < batch; j++ {
			resp.Error(fmt.Sprintf("%s-%d-%d", name, i, j))
		}
	}
	resp.Write(os.Stdout) // nolint:errcheck
}
