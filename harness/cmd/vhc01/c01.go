package main

// C01: lexing and parsing are total, diagnostics are located in the input.
//
//	lexreplay  - spec -> code: token streams predicted by spec/Lexer.tla against the real lexer
//	parse      - code -> spec: ParseVCL / ParseSnippetVCL / ParseVCLOrSnippet on every input behind a recording
//	             tokenizer with a pull budget, in a watched child process; the recorded executions are
//	             validated by spec/C01Trace.tla
//	pumpreplay - spec -> code: the parser's token pump driven token by token (spec/Pump.tla)
//	corpus     - inputs from files
//
// The Go side concretises, executes, records and tests equality; every expected value and every requirement
// verdict comes out of TLC.

import (
	"bufio"
	"encoding/json"
	"flag"
	"fmt"
	"io"
	"os"
	"os/exec"
	"path/filepath"
	"sort"
	"strings"
	"time"

	"github.com/pkg/errors"

	"verif/harness/internal/hx"
	"verif/harness/internal/vchars"

	"github.com/ysugimoto/falco/v2/lexer"
	"github.com/ysugimoto/falco/v2/parser"
	"github.com/ysugimoto/falco/v2/token"
)

func main() {
	hx.Commands["lexreplay"] = lexReplay
	hx.Commands["lexwork"] = lexWorker
	hx.Commands["parse"] = parseSupervisor
	hx.Commands["parsework"] = parseWorker
	hx.Commands["pumpreplay"] = pumpReplay
	hx.Commands["corpus"] = corpus
	hx.Main()
}

// ---------------------------------------------------------------------------------------------- tokens

// Tok is a token as Lexer.tla prints it (lit = joined symbols) ...
type Tok struct {
	Type string `json:"type"`
	Lit  string `json:"lit"`
	Line int    `json:"line"`
	Col  int    `json:"col"`
}

// ... and TTok as the trace specification reads it (lit = symbol sequence).
type TTok struct {
	Type string   `json:"type"`
	Lit  []string `json:"lit"`
	Line int      `json:"line"`
	Col  int      `json:"col"`
}

func tokOf(t token.Token) Tok {
	return Tok{Type: string(t.Type), Lit: vchars.Joined(t.Literal), Line: t.Line, Col: t.Position}
}
func ttokOf(t token.Token) TTok {
	return TTok{Type: string(t.Type), Lit: vchars.Symbols(t.Literal), Line: t.Line, Col: t.Position}
}

// lexAll: the real token stream through the first EOF plus `post` more pulls (never more than cap tokens).
func lexAll(src string, post int) (toks []token.Token, terminated bool) {
	l := lexer.NewFromString(src)
	limit := 2*len(src) + 8 + post
	seenEOF := false
	for len(toks) < limit {
		t := l.NextToken()
		toks = append(toks, t)
		if seenEOF {
			post--
			if post <= 0 {
				return toks, true
			}
		} else if t.Type == token.EOF {
			seenEOF = true
			if post == 0 {
				return toks, true
			}
		}
	}
	return toks, false
}

// ---------------------------------------------------------------------------------------------- lexreplay

type lexBehaviour struct {
	Input  []string `json:"input"`
	N      int      `json:"n"`
	Tokens []Tok    `json:"tokens"`
}

// Trace is one record of C01Trace.tla: one source text, its real token stream, the parses made of it.
type Trace struct {
	ID    string   `json:"id"`
	Input []string `json:"input"`
	Lexed bool     `json:"lexed"`
	Toks  []TTok   `json:"toks"` // the real stream through the first EOF (when lexed)
	Runs  []Run    `json:"runs"`
}

// Run is one parse of the source.
type Run struct {
	Mode    string   `json:"mode"`
	CM      []string `json:"cm"`      // tokenizer calls in order: method "N" (NextToken) / "P" (PeekToken)
	CT      []string `json:"ct"`      // ... and the type of the token each returned
	Outcome string   `json:"outcome"` // tree | parse_error | other_error | panic | spin
	Err     []TTok   `json:"err"`     // the ParseError token (0 or 1 element)
}

// lexWorker: stdin behaviours of Lexer.tla (each prefixed by its case id), stdout one workOut line per behaviour.
type lexIn struct {
	ID     string       `json:"id"`
	Sample bool         `json:"sample"`
	B      lexBehaviour `json:"b"`
}

func lexCase(li lexIn) workOut {
	b := li.B
	src := vchars.Concretize(b.Input)
	post := 0
	for i, t := range b.Tokens { // pulls after the first EOF, as predicted
		if t.Type == "EOF" {
			post = len(b.Tokens) - 1 - i
			break
		}
	}
	real, terminated := lexAll(src, post)
	res := hx.CaseResult{ID: li.ID, Input: map[string]any{"chunks": b.Input, "text": src}}
	var types []string
	same := len(real) == len(b.Tokens) && terminated
	main := true // still before / at the first EOF
	for i := range real {
		rt := tokOf(real[i])
		types = append(types, rt.Type)
		if i < len(b.Tokens) {
			e := b.Tokens[i]
			if rt != e {
				same = false
				what := "token"
				if !main {
					what = "token-after-eof"
				}
				if len(res.Drift) < 4 {
					res.Drift = append(res.Drift, map[string]any{"obs": what, "index": i, "expected": e, "got": rt})
				}
			}
		}
		if rt.Type == "EOF" {
			main = false
		}
	}
	if !terminated {
		res.Mismatch = append(res.Mismatch, map[string]any{"obs": "lexer-no-eof", "tokens": len(real)})
	}
	if !same && len(res.Drift) == 0 {
		res.Drift = append(res.Drift, map[string]any{"obs": "token-count", "expected": len(b.Tokens), "got": len(real)})
	}
	res.Observed = map[string]any{"types": types}
	res.Key = "lex:" + strings.Join(types, " ")
	res.Class = map[string]any{"stage": "lex", "agrees": same}
	res.Validated = same // equal to a stream TLC proved located: nothing more to decide
	wo := workOut{ID: li.ID, Results: []hx.CaseResult{res}}
	if !same || li.Sample {
		tr := Trace{ID: li.ID, Lexed: true, Input: vchars.Symbols(src), Toks: []TTok{}, Runs: []Run{}}
		for _, t := range real {
			tr.Toks = append(tr.Toks, ttokOf(t))
			if t.Type == token.EOF {
				break
			}
		}
		wo.Traces = append(wo.Traces, tr)
	}
	return wo
}

func lexWorker(args []string) int {
	w := bufio.NewWriterSize(os.Stdout, 1<<16)
	enc := json.NewEncoder(w)
	err := hx.Lines(func(line []byte) error {
		var li lexIn
		if err := json.Unmarshal(line, &li); err != nil {
			return err
		}
		enc.Encode(lexCase(li)) // nolint:errcheck
		return w.Flush()
	})
	if err != nil {
		fmt.Fprintln(os.Stderr, err)
		return 2
	}
	return 0
}

// lexReplay: stdin behaviours of Lexer.tla; each is lexed by the real lexer in a watched child (a reader that
// never returns is the observation hang) and compared with the prediction.
func lexReplay(args []string) int {
	fs := flag.NewFlagSet("lexreplay", flag.ExitOnError)
	tracesPath := fs.String("traces", "", "write trace records of cases that differ from the prediction (and every sample-th other)")
	sample := fs.Int("sample", 0, "also record every n-th agreeing case (0 = none)")
	prefix := fs.String("prefix", "lx", "case id prefix")
	watchdog := fs.Duration("watchdog", 10*time.Second, "per-input budget of the child")
	fs.Parse(args) // nolint:errcheck
	var inputs [][]byte
	n := 0
	if err := hx.Lines(func(line []byte) error {
		n++
		var b lexBehaviour
		if err := json.Unmarshal(line, &b); err != nil {
			return err
		}
		j, _ := json.Marshal(lexIn{ID: fmt.Sprintf("%s%d", *prefix, n), Sample: *sample > 0 && n%*sample == 0, B: b})
		inputs = append(inputs, j)
		return nil
	}); err != nil {
		fmt.Fprintln(os.Stderr, err)
		return 2
	}
	return supervise("lexwork", inputs, *tracesPath, *watchdog, func(in []byte) (string, any) {
		var li lexIn
		json.Unmarshal(in, &li) // nolint:errcheck
		return li.ID, map[string]any{"chunks": li.B.Input, "text": vchars.Concretize(li.B.Input)}
	}, "lex")
}

// ---------------------------------------------------------------------------------------------- parse

type parseInput struct {
	ID     string         `json:"id"`
	Chunks []string       `json:"chunks,omitempty"` // concretised by the chunk table
	Toks   []string       `json:"toks,omitempty"`   // token texts, joined by one blank
	Text   *string        `json:"text,omitempty"`
	Lex    bool           `json:"lex,omitempty"` // also record the token stream (kind "lex")
	Class  map[string]any `json:"class,omitempty"`
}

func (p parseInput) source() string {
	switch {
	case p.Text != nil:
		return *p.Text
	case p.Toks != nil:
		parts := make([]string, len(p.Toks))
		for i, t := range p.Toks {
			parts[i] = vchars.Concretize([]string{t})
		}
		return strings.Join(parts, " ")
	default:
		return vchars.Concretize(p.Chunks)
	}
}

type spinSignal struct{}

// recTok wraps the real lexer: records every call and enforces the pull budget.
type recTok struct {
	l      *lexer.Lexer
	calls  []string
	toks   []token.Token
	budget int
}

func (r *recTok) note(m string, t token.Token) token.Token {
	if len(r.calls) >= r.budget {
		panic(spinSignal{})
	}
	r.calls = append(r.calls, m+":"+string(t.Type))
	r.toks = append(r.toks, t)
	return t
}
func (r *recTok) NextToken() token.Token                            { return r.note("N", r.l.NextToken()) }
func (r *recTok) PeekToken() token.Token                            { return r.note("P", r.l.PeekToken()) }
func (r *recTok) RegisterCustomTokens(m map[string]token.TokenType) { r.l.RegisterCustomTokens(m) }

var modes = []string{"vcl", "snippet", "either"}

func parseOne(src, mode string, ntok int) (outcome string, detail string, errTok *token.Token, rt *recTok) {
	rt = &recTok{l: lexer.NewFromString(src), budget: 3*ntok + 16}
	defer func() {
		if r := recover(); r != nil {
			if _, ok := r.(spinSignal); ok {
				outcome, detail = "spin", fmt.Sprintf("more than %d tokenizer calls for %d tokens", rt.budget, ntok)
			} else {
				outcome, detail = "panic", fmt.Sprint(r)
			}
		}
	}()
	p := parser.New(rt)
	var err error
	switch mode {
	case "vcl":
		_, err = p.ParseVCL()
	case "snippet":
		_, err = p.ParseSnippetVCL()
	default:
		_, err = p.ParseVCLOrSnippet()
	}
	if err == nil {
		return "tree", "", nil, rt
	}
	if pe, ok := errors.Cause(err).(*parser.ParseError); ok {
		t := pe.Token
		return "parse_error", pe.Message, &t, rt
	}
	return "other_error", err.Error(), nil, rt
}

// parseWorker: stdin parseInput lines, stdout one line per input: {"id":..,"results":[..],"traces":[..]}
type workOut struct {
	ID      string          `json:"id"`
	Results []hx.CaseResult `json:"results"`
	Traces  []Trace         `json:"traces"`
}

func runParseCase(pi parseInput) workOut {
	src := pi.source()
	syms := vchars.Symbols(src)
	real, _ := lexAll(src, 0)
	wo := workOut{ID: pi.ID}
	src1 := Trace{ID: pi.ID, Lexed: pi.Lex, Input: syms, Toks: []TTok{}, Runs: []Run{}}
	if pi.Lex {
		for _, t := range real {
			src1.Toks = append(src1.Toks, ttokOf(t))
		}
	}
	for _, mode := range modes {
		outcome, detail, et, rt := parseOne(src, mode, len(real))
		id := pi.ID + "/" + mode
		tr := Run{Mode: mode, CM: []string{}, CT: []string{}, Outcome: outcome, Err: []TTok{}}
		for _, c := range rt.calls {
			tr.CM = append(tr.CM, c[:1])
			tr.CT = append(tr.CT, c[2:])
		}
		obs := map[string]any{"outcome": outcome, "calls": len(rt.calls)}
		if detail != "" {
			obs["detail"] = detail
		}
		if et != nil {
			tr.Err = append(tr.Err, ttokOf(*et))
			obs["error_token"] = tokOf(*et)
		}
		cls := map[string]any{"stage": "parse", "mode": mode, "outcome": outcome}
		for k, v := range pi.Class {
			cls[k] = v
		}
		wo.Results = append(wo.Results, hx.CaseResult{ID: id, Input: map[string]any{"text": src, "mode": mode}, Observed: obs,
			Class: cls, Key: "parse:" + mode + ":" + outcome + ":" + strings.Join(rt.calls, " ")})
		src1.Runs = append(src1.Runs, tr)
	}
	wo.Traces = append(wo.Traces, src1)
	return wo
}

func parseWorker(args []string) int {
	w := bufio.NewWriterSize(os.Stdout, 1<<16)
	enc := json.NewEncoder(w)
	err := hx.Lines(func(line []byte) error {
		var pi parseInput
		if err := json.Unmarshal(line, &pi); err != nil {
			return err
		}
		enc.Encode(runParseCase(pi)) // nolint:errcheck
		return w.Flush()
	})
	if err != nil {
		fmt.Fprintln(os.Stderr, err)
		return 2
	}
	return 0
}

// supervise feeds the inputs to a child (<this binary> <child>) and watches it: a child that dies (fatal error,
// stack exhaustion) or gives no answer within the watchdog is the observation crash / hang for the input it was
// working on (confirmed by running that input alone), and a fresh child continues after it.
const maxFailures = 4

func supervise(child string, inputs [][]byte, tracesPath string, watchdog time.Duration,
	describe func(in []byte) (id string, input any), stage string) int {
	out := hx.NewOut()
	defer out.Close()
	var tenc *json.Encoder
	if tracesPath != "" {
		tf, err := os.Create(tracesPath)
		if err != nil {
			fmt.Fprintln(os.Stderr, err)
			return 2
		}
		defer tf.Close()
		tbw := bufio.NewWriterSize(tf, 1<<20)
		defer tbw.Flush()
		tenc = json.NewEncoder(tbw)
	}
	emit := func(wo workOut) {
		for _, r := range wo.Results {
			out.Write(r)
		}
		if tenc != nil {
			for _, t := range wo.Traces {
				tenc.Encode(t) // nolint:errcheck
			}
		}
	}
	// runBatch runs inputs[from:to] in one child; returns the index of the first input that was not answered and why
	runBatch := func(from, to int) (next int, failure string) {
		cmd := exec.Command(os.Args[0], child)
		stdin, _ := cmd.StdinPipe()
		stdout, _ := cmd.StdoutPipe()
		cmd.Stderr = io.Discard
		if err := cmd.Start(); err != nil {
			return from, "cannot start child: " + err.Error()
		}
		go func() {
			bw := bufio.NewWriterSize(stdin, 1<<16)
			for i := from; i < to; i++ {
				bw.Write(inputs[i]) // nolint:errcheck
				bw.WriteByte('\n')  // nolint:errcheck
			}
			bw.Flush()
			stdin.Close()
		}()
		lines := make(chan []byte, 64)
		go func() {
			sc := bufio.NewScanner(stdout)
			sc.Buffer(make([]byte, 1<<20), 1<<28)
			for sc.Scan() {
				lines <- append([]byte{}, sc.Bytes()...)
			}
			close(lines)
		}()
		i := from
		for i < to {
			select {
			case b, ok := <-lines:
				var wo workOut
				if !ok || json.Unmarshal(b, &wo) != nil {
					cmd.Process.Kill() // nolint:errcheck
					cmd.Wait()         // nolint:errcheck
					return i, "crash"
				}
				emit(wo)
				i++
			case <-time.After(watchdog):
				cmd.Process.Kill() // nolint:errcheck
				cmd.Wait()         // nolint:errcheck
				return i, "hang"
			}
		}
		cmd.Wait() // nolint:errcheck
		return i, ""
	}
	failures := 0
	for i := 0; i < len(inputs); {
		if failures >= maxFailures {
			// enough evidence: every further hang costs a watchdog period; the rest of the shard is not judged
			out.Write(hx.CaseResult{ID: fmt.Sprintf("%s-skipped-from-%d", stage, i), Class: map[string]any{"stage": stage},
				Drift: []map[string]any{{"obs": "inputs-skipped-after-crashes-or-hangs", "skipped": len(inputs) - i}}})
			break
		}
		next, failure := runBatch(i, len(inputs))
		if failure == "" {
			break
		}
		// attribute: run the unanswered input alone; if it answers, the failure was not its own
		if n2, f2 := runBatch(next, next+1); f2 != "" && n2 == next {
			failures++
			id, input := describe(inputs[next])
			out.Write(hx.CaseResult{ID: id + "/any", Input: input, Observed: map[string]any{"outcome": f2},
				Class:    map[string]any{"stage": stage, "outcome": f2},
				Mismatch: []map[string]any{{"obs": "outcome", "outcome": f2}}})
		}
		i = next + 1
	}
	return 0
}

func parseSupervisor(args []string) int {
	fs := flag.NewFlagSet("parse", flag.ExitOnError)
	tracesPath := fs.String("traces", "", "trace records for C01Trace.tla")
	watchdog := fs.Duration("watchdog", 10*time.Second, "per-input budget of the child (normal: well under a millisecond)")
	fs.Parse(args) // nolint:errcheck
	var inputs [][]byte
	if err := hx.Lines(func(line []byte) error { inputs = append(inputs, append([]byte{}, line...)); return nil }); err != nil {
		fmt.Fprintln(os.Stderr, err)
		return 2
	}
	return supervise("parsework", inputs, *tracesPath, *watchdog, func(in []byte) (string, any) {
		var pi parseInput
		json.Unmarshal(in, &pi) // nolint:errcheck
		return pi.ID, map[string]any{"text": pi.source()}
	}, "parse")
}

// ---------------------------------------------------------------------------------------------- pumpreplay

type pumpDelivered struct {
	Type    string        `json:"type"`
	Nest    int           `json:"nest"`
	Empties int           `json:"empties"`
	Leading []pumpComment `json:"leading"`
}
type pumpComment struct {
	Pfx     bool `json:"pfx"`
	Empties int  `json:"empties"`
}
type pumpBehaviour struct {
	Toks      []string        `json:"toks"`
	Calls     []string        `json:"calls"`
	Delivered []pumpDelivered `json:"delivered"`
}

var pumpText = map[string]string{"LF": "\n", "COMMENT": "/*c*/", "LEFT_BRACE": "{", "RIGHT_BRACE": "}", "CONTROL": "C!",
	"PRAGMA": "pragma", "SEMICOLON": ";", "IDENT": "x", "STRING": `"s"`}

func pumpReplay(args []string) int {
	out := hx.NewOut()
	defer out.Close()
	n := 0
	err := hx.Lines(func(line []byte) error {
		var b pumpBehaviour
		if err := json.Unmarshal(line, &b); err != nil {
			return err
		}
		n++
		var parts []string
		for _, k := range b.Toks {
			t, ok := pumpText[k]
			if !ok {
				return fmt.Errorf("no concretisation for token kind %q", k)
			}
			parts = append(parts, t)
		}
		src := strings.Join(parts, " ")
		res := hx.CaseResult{ID: fmt.Sprintf("pump%d", n), Input: map[string]any{"kinds": b.Toks, "text": src},
			Key: "pump:" + strings.Join(b.Toks, " "), Class: map[string]any{"stage": "pump"}}
		rt := &recTok{l: lexer.NewFromString(src), budget: 3*len(b.Toks) + 16}
		var got []pumpDelivered
		outcome := func() (o string) {
			defer func() {
				if r := recover(); r != nil {
					if _, ok := r.(spinSignal); ok {
						o = "spin"
					} else {
						o = "panic: " + fmt.Sprint(r)
					}
				}
			}()
			p := parser.New(rt)
			for {
				m := p.CurToken()
				d := pumpDelivered{Type: string(m.Token.Type), Nest: m.Nest, Empties: m.PreviousEmptyLines, Leading: []pumpComment{}}
				for _, c := range m.Leading {
					d.Leading = append(d.Leading, pumpComment{Pfx: c.PrefixedLineFeed, Empties: c.PreviousEmptyLines})
				}
				got = append(got, d)
				if p.CurTokenIs(token.EOF) {
					return "returned"
				}
				p.NextToken()
			}
		}()
		res.Observed = map[string]any{"outcome": outcome, "calls": rt.calls}
		if outcome != "returned" {
			res.Mismatch = append(res.Mismatch, map[string]any{"obs": "pump-" + strings.SplitN(outcome, ":", 2)[0], "detail": outcome})
		} else {
			res.Validated = true
			if strings.Join(rt.calls, " ") != strings.Join(b.Calls, " ") {
				res.Drift = append(res.Drift, map[string]any{"obs": "pump-calls", "expected": b.Calls, "got": rt.calls})
			}
			ej, _ := json.Marshal(b.Delivered)
			gj, _ := json.Marshal(got)
			if string(ej) != string(gj) {
				res.Drift = append(res.Drift, map[string]any{"obs": "pump-delivered", "expected": b.Delivered, "got": got})
			}
		}
		out.Write(res)
		return nil
	})
	if err != nil {
		fmt.Fprintln(os.Stderr, err)
		return 2
	}
	return 0
}

// ---------------------------------------------------------------------------------------------- corpus

// corpus: prints parseInput lines for every *.vcl under the directories given (whole file when small enough for
// TLC to lex it, and in any case each of its top-level chunks separated by blank lines)
func corpus(args []string) int {
	fs := flag.NewFlagSet("corpus", flag.ExitOnError)
	maxBytes := fs.Int("max", 1500, "largest text (bytes) to emit")
	fs.Parse(args) // nolint:errcheck
	w := bufio.NewWriter(os.Stdout)
	defer w.Flush()
	enc := json.NewEncoder(w)
	var files []string
	for _, d := range fs.Args() {
		filepath.Walk(d, func(p string, info os.FileInfo, err error) error { // nolint:errcheck
			if err == nil && !info.IsDir() && strings.HasSuffix(p, ".vcl") {
				files = append(files, p)
			}
			return nil
		})
	}
	sort.Strings(files)
	seen := map[string]bool{}
	n := 0
	put := func(id, text string) {
		if len(text) == 0 || len(text) > *maxBytes || seen[text] || vchars.HasReplacementRune(text) {
			return
		}
		seen[text] = true
		n++
		t := text
		enc.Encode(parseInput{ID: fmt.Sprintf("corpus%d:%s", n, id), Text: &t, Lex: true, Class: map[string]any{"source": "corpus"}}) // nolint:errcheck
	}
	for _, f := range files {
		b, err := os.ReadFile(f)
		if err != nil {
			continue
		}
		base := filepath.Base(f)
		put(base, string(b))
		for i, part := range strings.Split(string(b), "\n\n") {
			put(fmt.Sprintf("%s#%d", base, i), part)
		}
	}
	return 0
}
