package main

// C04: replay of LintCmd.tla cells against the real `falco` binary.
//
// A cell = (program class, .falco.yml rule overrides, flags).  The cell is concretised as a
// scratch directory (main.vcl, optional mod.vcl, optional .falco.yml), `falco lint` is run in
// it, and exit status / summary line / JSON document / printed blocks are compared with the
// requirement prediction (verdict) and the mechanism prediction (drift) computed by TLC.

import (
	"bytes"
	"encoding/json"
	"flag"
	"fmt"
	"math/rand"
	"os"
	"os/exec"
	"path/filepath"
	"regexp"
	"sort"
	"strings"
	"time"

	"verif/harness/internal/hx"
)

func main() {
	hx.Commands["c04replay"] = c04Replay
	hx.Main()
}

type lcInc struct {
	Kind string `json:"kind"`
	At   string `json:"at"`
}
type lcProg struct {
	Main  string   `json:"main"`
	Diags []string `json:"diags"`
	Incs   []lcInc  `json:"incs"`
	Layout string   `json:"layout"`
}
type lcFlags struct {
	Json      bool   `json:"json"`
	Verb      int    `json:"verb"`
	Vsrc      string `json:"vsrc"`
	Generated bool   `json:"generated"`
}
type lcCounts struct {
	E int `json:"e"`
	W int `json:"w"`
	I int `json:"i"`
}
type lcDiag struct {
	Rule string `json:"rule"`
	Sev  string `json:"sev"`
	File string `json:"file"`
}
type lcCell struct {
	ID               string            `json:"id,omitempty"`
	Prog             lcProg            `json:"prog"`
	Ov               map[string]string `json:"ov"`
	Flags            lcFlags           `json:"flags"`
	Linter           []lcDiag          `json:"linter"`
	ReqExit          int               `json:"reqExit"`
	ReqCounts        lcCounts          `json:"reqCounts"`
	ReqCountsDefined bool              `json:"reqCountsDefined"`
	Exit             int               `json:"exit"`
	Summary          bool              `json:"summary"`
	Doc              bool              `json:"doc"`
	Verdict          string            `json:"verdict"`
	Counts           lcCounts          `json:"counts"`
	ParseErrs        int               `json:"parseErrs"`
	JsonLint         int               `json:"jsonLint"`
	Printed          struct {
		E     int `json:"e"`
		W     int `json:"w"`
		I     int `json:"i"`
		Parse int `json:"parse"`
	} `json:"printed"`
}

// ---- concretiser tables -------------------------------------------------------

var ruleName = map[string]string{
	"re": "function/arguments",
	"rw": "subroutine/boilerplate-macro",
	"ri": "error-statement/code",
	"rx": "function/argument-type",
	"rs": "snippet-scope-required",
	"rm": "include/module-load-failed",
	"rd": "subroutine/duplicated",
	"rv": "deprecated",
}
var sevName = map[string]string{"ERROR": "Error", "WARNING": "Warning", "INFO": "Info"}

func has(p lcProg, k string) bool {
	for _, d := range p.Diags {
		if d == k {
			return true
		}
	}
	return false
}

// the three statements that carry the E / X / I diagnostics, per layout of their lines: the token of the diagnostic
// at the start of a short line, right of a delimiter long string, after tabs, beyond column 300, on a continuation line
var wide = strings.Repeat("w", 300)
var layoutStmts = map[string][3]string{
	"plain": {
		"  set req.http.X = std.itoa(0, 1, 2);\n",
		"  // falco-ignore-next-line\n  set req.http.Y = std.itoa(req.http.bar);\n",
		"  if (req.http.E) { error 900; }\n",
	},
	"longstr": {
		"  set req.http.X = {JSON\"{ \"k\": \"v\" }\"JSON} std.itoa(0, 1, 2);\n",
		"  // falco-ignore-next-line\n  set req.http.Y = {JSON\"a\"JSON} std.itoa(req.http.bar);\n",
		"  if (req.http.E == {JSON\"x y\"JSON}) { error 900; }\n",
	},
	"tab": {
		"\tset req.http.X =\t\"a\"\tstd.itoa(0, 1, 2);\n",
		"\t// falco-ignore-next-line\n\tset req.http.Y =\t\"a\"\tstd.itoa(req.http.bar);\n",
		"\tif (req.http.E)\t{\terror 900; }\n",
	},
	"wide": {
		"  set req.http.X = \"" + wide + "\" std.itoa(0, 1, 2);\n",
		"  // falco-ignore-next-line\n  set req.http.Y = \"" + wide + "\" std.itoa(req.http.bar);\n",
		"  if (req.http.E == \"" + wide + "\") { error 900; }\n",
	},
	"multi": {
		"  set req.http.X =\n    \"a\"\n    std.itoa(0, 1, 2);\n",
		"  // falco-ignore-next-line\n  set req.http.Y =\n    \"a\"\n    std.itoa(req.http.bar);\n",
		"  if (req.http.E\n      == \"x\") {\n    error\n      900;\n  }\n",
	},
}

// moduleFiles writes the module(s) of the i-th include statement and tells whether main may call its subroutine
func moduleFiles(f map[string]string, i int, inc lcInc) {
	inc0 := inc
	name := fmt.Sprintf("mod%d", i)
	good := fmt.Sprintf("set req.http.M%d = \"1\";", i)
	diag := fmt.Sprintf("set req.http.M%d = std.itoa(0, 1, 2);", i)
	wrap := func(stmt string) string {
		if inc.At == "root" {
			return fmt.Sprintf("sub %s_recv {\n  %s\n}\n", name, stmt)
		}
		return stmt + "\n"
	}
	switch inc.Kind {
	case "ok":
		f[name+".vcl"] = wrap(good)
	case "diag":
		f[name+".vcl"] = wrap(diag)
	case "syntax":
		f[name+".vcl"] = wrap("set = ;")
	case "deep_syntax_if", "deep_syntax_else", "deep_diag_if", "deep_diag_else", "deep_warn_if", "deep_warn_else":
		// a statement module that includes the inner module from an if / else block
		inc := fmt.Sprintf("  include \"%s_inner\";\n", name)
		if strings.HasSuffix(inc0.Kind, "_if") {
			f[name+".vcl"] = fmt.Sprintf("if (req.http.D%d) {\n%s}\n%s\n", i, inc, good)
		} else {
			f[name+".vcl"] = fmt.Sprintf("if (req.http.D%d) {\n  set req.http.K%d = \"1\";\n} else {\n%s}\n%s\n", i, i, inc, good)
		}
		switch {
		case strings.HasPrefix(inc0.Kind, "deep_syntax"):
			f[name+"_inner.vcl"] = "set = ;\n"
		case strings.HasPrefix(inc0.Kind, "deep_diag"):
			f[name+"_inner.vcl"] = fmt.Sprintf("set req.http.I%d = std.itoa(0, 1, 2);\n", i)
		default:
			f[name+"_inner.vcl"] = fmt.Sprintf("set req.http.V%d = re.group.1;\n", i)
		}
	case "nest":
		f[name+".vcl"] = fmt.Sprintf("include \"%s_inner\";\n", name) + wrap(good)
		if inc.At == "root" {
			f[name+"_inner.vcl"] = fmt.Sprintf("sub %s_inner {\n  set = ;\n}\n", name)
		} else {
			f[name+"_inner.vcl"] = "set = ;\n"
		}
	}
}

func files(p lcProg) map[string]string {
	f := map[string]string{}
	var b strings.Builder
	for i, inc := range p.Incs {
		moduleFiles(f, i+1, inc)
	}
	// "again" includes the module of the first include statement once more
	modOf := func(i int) int {
		if p.Incs[i].Kind == "again" {
			return 1
		}
		return i + 1
	}
	rootIncludes := func() {
		for i, inc := range p.Incs {
			if inc.At == "root" {
				fmt.Fprintf(&b, "include \"mod%d\";\n", modOf(i))
			}
		}
	}
	// an include statement at a statement-level position
	stmtInclude := func(i int, at, indent string) string {
		inc := fmt.Sprintf("include \"mod%d\";\n", modOf(i))
		switch at {
		case "ifblock":
			return fmt.Sprintf("%sif (req.http.S%d) {\n%s  %s%s}\n", indent, i+1, indent, inc, indent)
		case "elseblock":
			return fmt.Sprintf("%sif (req.http.S%d) {\n%s  set req.http.T%d = \"1\";\n%s} else {\n%s  %s%s}\n", indent, i+1, indent, i+1, indent, indent, inc, indent)
		case "case":
			return fmt.Sprintf("%sswitch (req.http.S%d) {\n%scase \"a\":\n%s  %s%s  break;\n%s}\n", indent, i+1, indent, indent, inc, indent, indent)
		}
		return indent + inc // "sub", "top"
	}
	st := layoutStmts[p.Layout]
	if p.Layout == "" {
		st = layoutStmts["plain"]
	}
	switch p.Main {
	case "syntax":
		b.WriteString("backend example { .host = \"example.com\"; }\n")
		rootIncludes()
		b.WriteString("sub vcl_recv {\n  #FASTLY RECV\n  set req.http.a = ;\n}\n")
	case "snip_scope", "snip_noscope":
		if p.Main == "snip_scope" {
			b.WriteString("# @scope: recv\n")
		}
		b.WriteString("set req.http.A = \"1\";\n")
		if has(p, "E") {
			b.WriteString("set req.http.X = std.itoa(0, 1, 2);\n")
		}
		if has(p, "X") {
			b.WriteString("// falco-ignore-next-line\nset req.http.Y = std.itoa(req.http.bar);\n")
		}
		for i, inc := range p.Incs {
			b.WriteString(stmtInclude(i, inc.At, ""))
		}
	default:
		b.WriteString("backend example { .host = \"example.com\"; }\n")
		rootIncludes()
		b.WriteString("sub vcl_recv {\n")
		if !has(p, "W") {
			b.WriteString("  #FASTLY RECV\n")
		}
		b.WriteString("  set req.backend = example;\n")
		for i, inc := range p.Incs {
			// the subroutine of a root-level module is called so that it is not reported as unused;
			// nothing of a module that does not parse is referenced
			if inc.At == "root" && (inc.Kind == "ok" || inc.Kind == "diag" || inc.Kind == "nest") {
				fmt.Fprintf(&b, "  call mod%d_recv;\n", i+1)
			}
		}
		if has(p, "E") {
			b.WriteString(st[0])
		}
		if has(p, "X") {
			b.WriteString(st[1])
		}
		if has(p, "I") {
			b.WriteString(st[2])
		}
		for i, inc := range p.Incs {
			if inc.At != "root" {
				b.WriteString(stmtInclude(i, inc.At, "  "))
			}
		}
		b.WriteString("}\nsub vcl_deliver {\n")
		if !has(p, "W") {
			b.WriteString("  #FASTLY DELIVER\n")
		}
		b.WriteString("}\n")
	}
	f["main.vcl"] = b.String()
	return f
}

func levelSpelling(l string, rng *rand.Rand) string {
	switch rng.Intn(3) {
	case 0:
		return strings.ToLower(l)
	case 1:
		return strings.ToUpper(l[:1]) + strings.ToLower(l[1:])
	}
	return l
}

func yamlFor(c *lcCell, rng *rand.Rand) string {
	var b strings.Builder
	var keys []string
	for k, v := range c.Ov {
		if v != "-" {
			keys = append(keys, k)
		}
	}
	sort.Strings(keys)
	if len(keys) == 0 && !(c.Flags.Verb > 0 && c.Flags.Vsrc == "yaml") {
		return ""
	}
	b.WriteString("linter:\n")
	if c.Flags.Verb > 0 && c.Flags.Vsrc == "yaml" {
		b.WriteString("  verbose: " + []string{"", "warning", "info"}[c.Flags.Verb] + "\n")
	}
	if len(keys) > 0 {
		b.WriteString("  rules:\n")
		for _, k := range keys {
			b.WriteString("    " + ruleName[k] + ": " + levelSpelling(c.Ov[k], rng) + "\n")
		}
	}
	return b.String()
}

// ---- execution + projection -----------------------------------------------------

type obs struct {
	Exit      int       `json:"exit"`
	Summary   *lcCounts `json:"summary"` // counts of the summary line, nil = no summary line
	Doc       *lcCounts `json:"doc"`     // counts of the JSON document, nil = no document
	ParseErrs int       `json:"parseErrs"`
	JsonLint  int       `json:"jsonLint"`
	JsonRules []string  `json:"jsonRules,omitempty"`
	PrintedE  int       `json:"printedE"`
	PrintedW  int       `json:"printedW"`
	PrintedI  int       `json:"printedI"`
	PrintedP  int       `json:"printedParse"`
	Verdict   string    `json:"verdict"`
	Crash     string    `json:"crash,omitempty"`
	Stderr    string    `json:"stderr,omitempty"`
}

var summaryRe = regexp.MustCompile(`(\d+) errors, \D*(\d+) warnings, \D*(\d+) recommendations`)

func runFalco(falco, dir string, args []string) obs {
	var o obs
	cmd := exec.Command(falco, args...)
	cmd.Dir = dir
	cmd.Env = append(os.Environ(), "CI=", "NO_COLOR=1", "HOME="+dir)
	var so, se bytes.Buffer
	cmd.Stdout, cmd.Stderr = &so, &se
	done := make(chan error, 1)
	if err := cmd.Start(); err != nil {
		o.Crash = "start: " + err.Error()
		return o
	}
	go func() { done <- cmd.Wait() }()
	select {
	case err := <-done:
		if err != nil {
			if ee, ok := err.(*exec.ExitError); ok {
				o.Exit = ee.ExitCode()
			} else {
				o.Crash = err.Error()
			}
		}
	case <-time.After(120 * time.Second):
		cmd.Process.Kill() // nolint:errcheck
		o.Crash = "timeout"
		return o
	}
	if o.Exit != 0 && o.Exit != 1 {
		o.Crash = fmt.Sprintf("exit status %d", o.Exit)
	}
	errText := se.String()
	if m := summaryRe.FindStringSubmatch(errText); m != nil {
		c := lcCounts{}
		fmt.Sscanf(m[1], "%d", &c.E) // nolint:errcheck
		fmt.Sscanf(m[2], "%d", &c.W) // nolint:errcheck
		fmt.Sscanf(m[3], "%d", &c.I) // nolint:errcheck
		o.Summary = &c
	}
	o.PrintedE = strings.Count(errText, "[ERROR]")
	o.PrintedW = strings.Count(errText, "[WARNING]")
	o.PrintedI = strings.Count(errText, "[INFO]")
	o.PrintedP = strings.Count(errText, "\U0001F4A5")
	switch {
	case strings.Contains(errText, "VCL looks great"):
		o.Verdict = "great"
	case strings.Contains(errText, "VCL looks good"):
		o.Verdict = "good"
	case strings.Contains(errText, "VCL lint warnings encountered"):
		o.Verdict = "warnings"
	default:
		o.Verdict = "-"
	}
	if o.Crash != "" || len(errText) < 600 {
		o.Stderr = errText
	}
	if so.Len() > 0 {
		var d struct {
			Errors, Warnings, Infos int
			LintErrors              map[string][]struct {
				Severity string
				Rule     string
				Token    struct{ File string }
			}
			ParseErrors map[string]json.RawMessage
		}
		dec := json.NewDecoder(bytes.NewReader(so.Bytes()))
		if err := dec.Decode(&d); err == nil {
			o.Doc = &lcCounts{d.Errors, d.Warnings, d.Infos}
			o.ParseErrs = len(d.ParseErrors)
			for _, v := range d.LintErrors {
				o.JsonLint += len(v)
				for _, e := range v {
					o.JsonRules = append(o.JsonRules, e.Rule+"|"+e.Severity+"|"+filepath.Base(e.Token.File))
				}
			}
			sort.Strings(o.JsonRules)
		}
	}
	return o
}

var includeLine = regexp.MustCompile(`(?m)^[ \t]*include "([a-z0-9_]+)";[ \t]*\n`)

// inlined returns the program with every module written in place of its include statement (modules that do not
// exist stay include statements).  It is what the fixtures are calibrated on: the statements yield the model's
// diagnostics whatever the include machinery of the tree under test does.
func inlined(f map[string]string) map[string]string {
	main := f["main.vcl"]
	for depth := 0; depth < 8; depth++ {
		next := includeLine.ReplaceAllStringFunc(main, func(m string) string {
			name := includeLine.FindStringSubmatch(m)[1]
			if body, ok := f[name+".vcl"]; ok {
				return body
			}
			return m
		})
		if next == main {
			break
		}
		main = next
	}
	return map[string]string{"main.vcl": main}
}

func setup(c *lcCell, rng *rand.Rand) (string, error) {
	return setupFiles(c, rng, files(c.Prog))
}

func setupFiles(c *lcCell, rng *rand.Rand, fs map[string]string) (string, error) {
	dir, err := os.MkdirTemp("", "vhc04_")
	if err != nil {
		return "", err
	}
	for n, s := range fs {
		if err := os.WriteFile(filepath.Join(dir, n), []byte(s), 0o644); err != nil {
			return dir, err
		}
	}
	if y := yamlFor(c, rng); y != "" {
		if err := os.WriteFile(filepath.Join(dir, ".falco.yml"), []byte(y), 0o644); err != nil {
			return dir, err
		}
	}
	return dir, nil
}

func args(c *lcCell, dir string) []string {
	a := []string{"lint", "-I", dir}
	if c.Flags.Json {
		a = append(a, "-json")
	}
	if c.Flags.Verb > 0 && c.Flags.Vsrc == "cli" {
		a = append(a, []string{"", "-v", "-vv"}[c.Flags.Verb])
	}
	if c.Flags.Generated {
		a = append(a, "-generated")
	}
	return append(a, filepath.Join(dir, "main.vcl"))
}

// contract of the concretiser: with -json -vv and no overrides the program yields exactly the
// diagnostics LinterErrors(p) lists (rule, default severity, file) - checked once per program.
var contractSeen = map[string]string{}

func contract(falco string, c *lcCell) string {
	key, _ := json.Marshal(c.Prog)
	if r, ok := contractSeen[string(key)]; ok {
		return r
	}
	res := ""
	if c.ReqCountsDefined {
		plain := lcCell{Prog: c.Prog, Ov: map[string]string{}, Flags: lcFlags{Json: true, Verb: 2, Vsrc: "cli"}}
		// calibrated on the program with its modules written in place: what the include machinery of the tree under
		// test does with the same statements is the subject of the check, not of the contract
		dir, err := setupFiles(&plain, rand.New(rand.NewSource(1)), inlined(files(c.Prog)))
		if err == nil {
			o := runFalco(falco, dir, args(&plain, dir))
			var want, got []string
			// (the report for a module that does not exist cannot be written in place: it is left to the cells)
			for _, d := range c.Linter {
				if d.Rule != "rm" {
					want = append(want, ruleName[d.Rule]+"|"+sevName[d.Sev])
				}
			}
			for _, d := range o.JsonRules {
				if !strings.HasPrefix(d, ruleName["rm"]+"|") {
					got = append(got, d[:strings.LastIndex(d, "|")])
				}
			}
			sort.Strings(want)
			sort.Strings(got)
			// a binary that dies here is not a broken fixture: the replay of the program's cells reports the crash
			if o.Crash == "" && strings.Join(want, ",") != strings.Join(got, ",") {
				res = fmt.Sprintf("program %s (modules written in place): linter reports %v, model lists %v", key, got, want)
			}
		} else {
			res = err.Error()
		}
		os.RemoveAll(dir)
	}
	contractSeen[string(key)] = res
	return res
}

func c04Replay(argv []string) int {
	fs := flag.NewFlagSet("c04replay", flag.ExitOnError)
	prefix := fs.String("prefix", "c", "case id prefix")
	falco := fs.String("falco", "", "path of the falco binary under test")
	contractOnly := fs.Bool("contract", false, "only check the concretiser contract of each cell's program")
	fs.Parse(argv) // nolint:errcheck
	if *falco == "" {
		fmt.Fprintln(os.Stderr, "-falco required")
		return 2
	}
	out := hx.NewOut()
	defer out.Close()
	n := 0
	err := hx.Lines(func(line []byte) error {
		var c lcCell
		if err := json.Unmarshal(line, &c); err != nil {
			return err
		}
		n++
		id := c.ID
		if id == "" {
			id = fmt.Sprintf("%s%d", *prefix, n)
		}
		rng := rand.New(rand.NewSource(hx.Seed()*7919 + int64(n)))
		res := hx.CaseResult{ID: id, Validated: true}
		progKey, _ := json.Marshal(c.Prog)
		ovKey, _ := json.Marshal(c.Ov)
		res.Key = string(progKey) + string(ovKey) + fmt.Sprint(c.Flags)
		res.Class = map[string]any{"main": c.Prog.Main, "incs": fmt.Sprint(c.Prog.Incs), "json": c.Flags.Json, "verb": c.Flags.Verb,
			"vsrc": c.Flags.Vsrc, "generated": c.Flags.Generated, "syntax_error": !c.ReqCountsDefined}
		if *contractOnly {
			if msg := contract(*falco, &c); msg != "" {
				res.Mismatch = append(res.Mismatch, map[string]any{"obs": "concretiser-contract", "detail": msg})
				res.Input = c
			}
			out.Write(res)
			return nil
		}
		dir, err := setup(&c, rng)
		if err != nil {
			return err
		}
		a := args(&c, dir)
		o := runFalco(*falco, dir, a)
		yml, _ := os.ReadFile(filepath.Join(dir, ".falco.yml"))
		os.RemoveAll(dir)
		mm := func(obsName string, want, got any) {
			res.Mismatch = append(res.Mismatch, map[string]any{"obs": obsName, "expected": want, "got": got})
		}
		dr := func(obsName string, want, got any) {
			res.Drift = append(res.Drift, map[string]any{"obs": obsName, "model": want, "real": got})
		}
		// ---- requirement observables
		if o.Crash != "" {
			mm("crash", "exit 0 or 1", o.Crash)
		}
		if (o.Exit != 0) != (c.ReqExit != 0) {
			mm("exit", c.ReqExit, o.Exit)
		}
		if c.ReqCountsDefined {
			if o.Summary != nil && *o.Summary != c.ReqCounts {
				mm("summary-counts", c.ReqCounts, *o.Summary)
			}
			if o.Doc != nil && *o.Doc != c.ReqCounts {
				mm("json-counts", c.ReqCounts, *o.Doc)
			}
			if o.Summary == nil && o.Doc == nil {
				// the counts could not be read (reworded summary line?): not a verdict
				res.Drift = append(res.Drift, map[string]any{"obs": "no-counts-readable", "model": c.ReqCounts})
			}
		}
		if o.Verdict != "-" && c.ReqExit != 0 {
			mm("success-message-on-failure", "-", o.Verdict)
		}
		// ---- mechanism observables
		if (o.Summary != nil) != c.Summary {
			dr("summary-line", c.Summary, o.Summary != nil)
		}
		if (o.Doc != nil) != c.Doc {
			dr("json-document", c.Doc, o.Doc != nil)
		}
		if o.Summary != nil && c.Summary && *o.Summary != c.Counts {
			dr("summary-counts", c.Counts, *o.Summary)
		}
		if o.Verdict != c.Verdict {
			dr("closing-message", c.Verdict, o.Verdict)
		}
		if o.PrintedE != c.Printed.E || o.PrintedW != c.Printed.W || o.PrintedI != c.Printed.I || o.PrintedP != c.Printed.Parse {
			dr("printed-blocks", c.Printed, []int{o.PrintedE, o.PrintedW, o.PrintedI, o.PrintedP})
		}
		if o.Doc != nil && (o.ParseErrs != c.ParseErrs || o.JsonLint != c.JsonLint) {
			dr("json-lists", []int{c.ParseErrs, c.JsonLint}, []int{o.ParseErrs, o.JsonLint})
		}
		if n <= 2 || c.ID != "" || len(res.Mismatch) > 0 || len(res.Drift) > 0 {
			res.Input = map[string]any{"cell": c, "args": a[1:], "files": files(c.Prog), "falco_yml": string(yml)}
			res.Observed = o
		}
		out.Write(res)
		return nil
	})
	if err != nil {
		fmt.Fprintln(os.Stderr, err)
		return 2
	}
	return 0
}
