package main

// C05 replay: every cell TLC printed from spec/TypeTables.tla (+ the generated Predefined/Builtins
// modules) is turned into a one-use program, linted through linter.New(conf).Lint and - when the
// linter accepts it - executed in the simulator in every scope of the cell.
//
//	c05replay  parent: shards the cells over worker processes (this binary, c05worker); a worker that
//	           dies marks the cell it was working on as a crash and is restarted for the rest
//	c05worker  reads cells on stdin, writes one result line per cell
//
// No oracle here: the expected lint verdict comes with the cell; the simulator observation is
// classified by the text of the error it returned (projection).

import (
	"bufio"
	"encoding/json"
	"flag"
	"fmt"
	"io"
	ghttp "net/http"
	"os"
	"os/exec"
	"regexp"
	"strings"
	"sync"
	"time"

	"verif/harness/internal/hx"

	"github.com/ysugimoto/falco/v2/ast"
	"github.com/ysugimoto/falco/v2/config"
	"github.com/ysugimoto/falco/v2/interpreter"
	icontext "github.com/ysugimoto/falco/v2/interpreter/context"
	ihttp "github.com/ysugimoto/falco/v2/interpreter/http"
	"github.com/ysugimoto/falco/v2/lexer"
	"github.com/ysugimoto/falco/v2/linter"
	"github.com/ysugimoto/falco/v2/parser"
	"github.com/ysugimoto/falco/v2/resolver"
)

type cell struct {
	Kind       string   `json:"kind"`
	Op         string   `json:"op,omitempty"`
	Lt         string   `json:"lt,omitempty"`
	Rt         string   `json:"rt,omitempty"`
	Form       string   `json:"form,omitempty"`
	Linit      string   `json:"linit,omitempty"`
	Rinit      string   `json:"rinit,omitempty"`
	Pos        int      `json:"pos,omitempty"`
	Ptype      string   `json:"ptype,omitempty"`
	Name       string   `json:"name,omitempty"`
	Access     string   `json:"access,omitempty"`
	Get        string   `json:"get,omitempty"`
	Set        string   `json:"set,omitempty"`
	Deprecated bool     `json:"deprecated,omitempty"`
	Sig        []string `json:"sig,omitempty"`
	Ret        string   `json:"ret,omitempty"`
	Extra      string   `json:"extra,omitempty"`
	Why        string   `json:"why,omitempty"`
	How        string   `json:"how,omitempty"`
	Base       string   `json:"base,omitempty"`
	Stmt       string   `json:"stmt,omitempty"`
	Action     string   `json:"action,omitempty"`
	Scopes     []string `json:"scopes,omitempty"`
}

type behaviour struct {
	ID   string `json:"id,omitempty"`
	Cell cell   `json:"cell"`
	Lint string `json:"lint"`
}

// ---------------------------------------------------------------- concretize

const preamble = `backend example { .host = "example.com"; }
director dir random { { .backend = example; .weight = 1; } }
acl internal { "192.0.2.0"/24; }
table tbl STRING { "k": "v", }
table tblb BACKEND { "k": example, }
table tbool BOOL { "k": true, }
table tint INTEGER { "k": 1, }
table tfloat FLOAT { "k": 1.5, }
table trtime RTIME { "k": 1s, }
table tacl ACL { "k": internal, }
ratecounter rc {}
penaltybox pb {}
`

var literal = map[string]string{
	"INTEGER": "2", "FLOAT": "2.5", "STRING": `"s"`, "BOOL": "true", "RTIME": "2s", "BACKEND": "example", "ACL": "internal",
}

// how a local variable of each type is given a value before it is used as an operand
var localInit = map[string]string{
	"INTEGER": "2", "FLOAT": "2.5", "STRING": `"s"`, "BOOL": "true", "RTIME": "2s", "TIME": "now", "IP": `"192.0.2.1"`,
	"BACKEND": "example", "ACL": "",
}

// a predefined variable of each type that can be read in vcl_recv
var predefinedOf = map[string]string{
	"INTEGER": "client.requests", "FLOAT": "math.PI", "STRING": "req.url", "BOOL": "req.is_ssl", "RTIME": "req.grace",
	"TIME": "now", "IP": "server.ip", "HEADER": "req.http.Y", "REQBACKEND": "req.backend",
}

// the type a value of kind t is initialised from (spec: InitType)
func initType(t, how string) string {
	switch {
	case t == "HEADER":
		if how == "predefined" {
			return "HEADER"
		}
		return "STRING"
	case t == "IP" && how == "literal":
		return "STRING"
	case t == "BACKEND" && how == "predefined":
		return "REQBACKEND"
	}
	return t
}

func literalFor(kind string) (string, bool) {
	if kind == "IP" {
		return `"192.0.2.9"`, true // an address written as a string literal
	}
	l, ok := literal[initType(kind, "literal")]
	return l, ok
}

// statements that give `target` (a local of kind `kind`, or a header) its value in the way `how` says
func initStmts(target, kind, how, tag string) ([]string, bool) {
	switch how {
	case "", "none":
		return nil, true
	case "literal":
		l, ok := literalFor(kind)
		if !ok {
			return nil, false
		}
		return []string{fmt.Sprintf("set %s = %s;", target, l)}, true
	case "local":
		t := initType(kind, "local")
		v := "var.i" + tag
		out := []string{fmt.Sprintf("declare local %s %s;", v, t)}
		if l, ok := literalFor(t); ok {
			out = append(out, fmt.Sprintf("set %s = %s;", v, l))
		} else if t == "TIME" {
			out = append(out, fmt.Sprintf("set %s = now;", v))
		}
		return append(out, fmt.Sprintf("set %s = %s;", target, v)), true
	case "predefined":
		p, ok := predefinedOf[initType(kind, "predefined")]
		if !ok {
			return nil, false
		}
		return []string{fmt.Sprintf("set %s = %s;", target, p)}, true
	}
	return nil, false
}

func operand(rt, form, rinit string) (setup []string, text string, ok bool) {
	switch form {
	case "literal":
		t, ok := literal[rt]
		return nil, t, ok
	case "local":
		if _, ok := localInit[rt]; !ok {
			return nil, "", false
		}
		setup = append(setup, fmt.Sprintf("declare local var.r %s;", rt))
		if rinit == "" {
			rinit = "literal"
			if rt == "TIME" || rt == "ACL" {
				rinit = "local"
			}
		}
		init, ok := initStmts("var.r", rt, rinit, "r")
		if !ok {
			return nil, "", false
		}
		return append(setup, init...), "var.r", true
	case "predefined":
		t, ok := predefinedOf[rt]
		return nil, t, ok
	}
	return nil, "", false
}

func leftOf(lt, linit string) (setup []string, text string, ok bool) {
	target := "var.l"
	if lt == "HEADER" {
		target = "req.http.L"
	} else {
		setup = append(setup, fmt.Sprintf("declare local var.l %s;", lt))
	}
	init, ok := initStmts(target, lt, linit, "l")
	return append(setup, init...), target, ok
}

// the name of a table row with its placeholder filled in
func concreteVar(name string) string {
	switch {
	case strings.HasPrefix(name, "backend.%any%"):
		return strings.Replace(name, "%any%", "example", 1)
	case strings.HasPrefix(name, "director.%any%"):
		return strings.Replace(name, "%any%", "dir", 1)
	case strings.HasPrefix(name, "ratecounter.%any%"):
		return strings.Replace(name, "%any%", "rc", 1)
	case strings.HasSuffix(name, ".http.%any%"):
		return strings.Replace(name, "%any%", "X-Any", 1)
	}
	return strings.Replace(name, "%any%", "any", 1)
}

var setLiteral = map[string]string{
	"INTEGER": "1", "FLOAT": "1.5", "STRING": `"s"`, "BOOL": "true", "RTIME": "1s", "IP": `"192.0.2.1"`,
	"BACKEND": "example", "REQBACKEND": "example",
}

// an argument of each declared parameter type
// argument values some built-ins need to get past their own value checks (instances, not expectations)
var stringArg = map[string]map[int]string{
	"std.itoa_charset": {2: `"ab"`}, "std.atoi": {1: `"1"`}, "std.atof": {1: `"1.5"`}, "std.strtol": {1: `"1"`},
	"std.strtof": {1: `"1.5"`}, "std.ip": {1: `"192.0.2.1"`, 2: `"192.0.2.2"`}, "std.str2ip": {1: `"192.0.2.1"`, 2: `"192.0.2.2"`},
	"uuid.version3": {1: `"6ba7b810-9dad-11d1-80b4-00c04fd430c8"`}, "uuid.version5": {1: `"6ba7b810-9dad-11d1-80b4-00c04fd430c8"`},
	"time.hex_to_time":     {2: `"5f5e100"`},
	"digest.time_hmac_md5": {1: `"czE="`}, "digest.time_hmac_sha1": {1: `"czE="`}, "digest.time_hmac_sha256": {1: `"czE="`},
	"digest.time_hmac_sha512": {1: `"czE="`},
	"crypto.encrypt_hex":      {4: `"000102030405060708090a0b0c0d0e0f"`, 5: `"000102030405060708090a0b0c0d0e0f"`, 6: `"00112233445566778899aabbccddeeff"`},
	"crypto.decrypt_hex":      {4: `"000102030405060708090a0b0c0d0e0f"`, 5: `"000102030405060708090a0b0c0d0e0f"`, 6: `"00112233445566778899aabbccddeeff"`},
	"crypto.encrypt_base64":   {4: `"000102030405060708090a0b0c0d0e0f"`, 5: `"000102030405060708090a0b0c0d0e0f"`, 6: `"ABEiM0RVZneImaq7zN3u/w=="`},
	"crypto.decrypt_base64":   {4: `"000102030405060708090a0b0c0d0e0f"`, 5: `"000102030405060708090a0b0c0d0e0f"`, 6: `"ABEiM0RVZneImaq7zN3u/w=="`}, "accept.media_lookup": {1: `"a/b"`, 2: `"c/d"`, 3: `"e/f"`, 4: `"a/b"`},
}
var intArg = map[string]map[int]string{
	"std.itoa": {2: "10"}, "std.strtol": {2: "10"}, "std.strtof": {2: "10"},
	"ratelimit.check_rate":  {3: "1", 4: "10", 5: "100"},
	"ratelimit.check_rates": {3: "1", 4: "10", 5: "100", 7: "1", 8: "60", 9: "100"},
}

func argOf(t string, fn string, i int) (string, bool) {
	switch t {
	case "STRING":
		if v, ok := stringArg[fn][i]; ok {
			return v, true
		}
		if strings.Contains(fn, "base64") && !strings.Contains(fn, "encode") && !strings.HasPrefix(fn, "crypto.") {
			return `"czE="`, true
		}
		return `"s"`, true
	case "INTEGER":
		if v, ok := intArg[fn][i]; ok {
			return v, true
		}
		return "1", true
	case "FLOAT":
		return "1.5", true
	case "BOOL":
		return "true", true
	case "RTIME":
		if strings.HasPrefix(fn, "ratelimit.") {
			return "2m", true
		}
		return "1s", true
	case "TIME":
		return "now", true
	case "IP":
		return "client.ip", true
	case "BACKEND":
		return "example", true
	case "ACL":
		return "internal", true
	case "TABLE":
		for suffix, tbl := range map[string]string{"_backend": "tblb", "_bool": "tbool", "_integer": "tint", "_float": "tfloat",
			"_rtime": "trtime", "_acl": "tacl"} {
			if strings.HasSuffix(fn, suffix) {
				return tbl, true
			}
		}
		return "tbl", true
	case "ID":
		switch {
		case strings.HasPrefix(fn, "ratelimit.") && strings.Contains(fn, "penaltybox"):
			return "pb", true
		case strings.HasPrefix(fn, "ratelimit.check_rates"):
			if i == 10 {
				return "pb", true
			}
			return "rc", true
		case strings.HasPrefix(fn, "ratelimit.check_rate"):
			if i == 6 {
				return "pb", true
			}
			return "rc", true
		case strings.HasPrefix(fn, "ratelimit.ratecounter"):
			return "rc", true
		case strings.HasPrefix(fn, "table."):
			return "tbl", true
		case strings.HasPrefix(fn, "header."):
			return "req", true
		case strings.HasPrefix(fn, "setcookie."):
			return "beresp", true
		case fn == "std.count":
			return "req.headers", true
		case strings.HasPrefix(fn, "crypto."):
			return map[int]string{1: "aes128", 2: "cbc", 3: "pkcs7"}[i], i >= 1 && i <= 3
		case strings.HasPrefix(fn, "digest.rsa_verify") || strings.HasPrefix(fn, "digest.ecdsa_verify"):
			if i == 1 {
				return "sha256", true
			}
			return "url_nopad", true
		case strings.HasPrefix(fn, "std.collect") || strings.HasPrefix(fn, "std.count"):
			return "req.http.X-Any", true
		}
		return "req", true
	case "STRING_LIST":
		return `"s"`, true
	}
	return "", false
}

type program struct {
	Src     string
	SubName string
	OK      bool
	Why     string
}

func render(c *cell) program {
	var body []string
	switch c.Kind {
	case "assign", "compare":
		ls, l, lok := leftOf(c.Lt, c.Linit)
		rs, r, ok := operand(c.Rt, c.Form, c.Rinit)
		if !ok || !lok {
			return program{Why: "no instance of " + c.Rt + "/" + c.Form}
		}
		if c.Lt == "IP" && c.Rt == "STRING" && c.Form == "literal" {
			r = `"192.0.2.7"` // a STRING literal that is an address
		}
		body = append(body, ls...)
		body = append(body, rs...)
		if c.Kind == "assign" {
			body = append(body, fmt.Sprintf("set %s %s %s;", l, c.Op, r))
		} else {
			body = append(body, fmt.Sprintf("if (%s %s %s) { set req.http.Z = \"1\"; }", l, c.Op, r))
		}
	case "var", "dyn":
		n := concreteVar(c.Name)
		if c.Kind == "dyn" && c.How == "undeclared" {
			n = strings.Replace(c.Name, "%any%", "nosuch", 1)
		}
		switch c.Access {
		case "get":
			t := c.Get
			if t == "" {
				t = c.Set
			}
			switch t {
			case "REQBACKEND":
				t = "BACKEND"
			case "ID":
				// a header collection (req.headers ...) is only ever an argument of a built-in, there is no
				// statement that reads it
				return program{Why: "no statement reads a value of type ID"}
			case "":
				t = "STRING"
			}
			body = append(body, fmt.Sprintf("declare local var.v %s;", t), fmt.Sprintf("set var.v = %s;", n))
		case "set":
			t := c.Set
			if t == "" {
				t = c.Get
			}
			lit, ok := setLiteral[t]
			if !ok {
				lit = `"s"`
			}
			body = append(body, fmt.Sprintf("set %s = %s;", n, lit))
		case "unset":
			body = append(body, fmt.Sprintf("unset %s;", n))
		}
	case "fn", "fnsig", "fnconv":
		var args []string
		for i, t := range c.Sig {
			if c.Kind == "fnconv" && i+1 == c.Pos {
				// a value of another type where a STRING is declared
				setup, a, ok := operand(c.Rt, c.Form, "")
				if !ok {
					return program{Why: "no instance of " + c.Rt + "/" + c.Form}
				}
				body = append(body, setup...)
				args = append(args, a)
				continue
			}
			a, ok := argOf(t, c.Name, i+1)
			if !ok {
				return program{Why: "no argument instance of type " + t}
			}
			args = append(args, a)
		}
		call := fmt.Sprintf("%s(%s)", c.Name, strings.Join(args, ", "))
		switch c.Ret {
		case "":
			body = append(body, call+";")
		case "REGEX":
			body = append(body, fmt.Sprintf("if (req.url ~ %s) { set req.http.Z = \"1\"; }", call))
		default:
			body = append(body, fmt.Sprintf("declare local var.v %s;", c.Ret), fmt.Sprintf("set var.v = %s;", call))
		}
	case "stmt":
		switch c.Stmt {
		case "restart":
			body = append(body, "restart;")
		case "error":
			body = append(body, "error 601;")
		case "esi":
			body = append(body, "esi;")
		case "synthetic":
			body = append(body, `synthetic "x";`)
		case "return":
			body = append(body, fmt.Sprintf("return(%s);", c.Action))
		}
	default:
		return program{Why: "unknown cell kind " + c.Kind}
	}
	var sb strings.Builder
	sb.WriteString(preamble)
	name := ""
	scopes := c.Scopes
	if len(scopes) == 0 {
		scopes = []string{"RECV"}
	}
	if len(scopes) == 1 {
		name = "vcl_" + strings.ToLower(scopes[0])
		fmt.Fprintf(&sb, "sub %s {\n  #FASTLY %s\n", name, scopes[0])
	} else {
		name = "cell_sub"
		fmt.Fprintf(&sb, "// @scope: %s\nsub %s {\n", strings.ToLower(strings.Join(scopes, ", ")), name)
	}
	for _, b := range body {
		sb.WriteString("  " + b + "\n")
	}
	sb.WriteString("}\n")
	return program{Src: sb.String(), SubName: name, OK: true}
}

// ---------------------------------------------------------------- execute + project

type lintObs struct {
	Verdict string   `json:"verdict"` // accept | reject | parse | fatal
	Errors  []string `json:"errors,omitempty"`
}

func lintProgram(src string) (lintObs, *ast.VCL) {
	v, err := parser.New(lexer.NewFromString(src)).ParseVCL()
	if err != nil {
		return lintObs{Verdict: "parse", Errors: []string{err.Error()}}, nil
	}
	l := linter.New(&config.LinterConfig{})
	l.Lint(v, nil)
	if l.FatalError != nil {
		return lintObs{Verdict: "fatal", Errors: []string{l.FatalError.Error.Error()}}, v
	}
	o := lintObs{Verdict: "accept"}
	for _, e := range l.Errors {
		if e.Severity == linter.ERROR {
			o.Verdict = "reject"
			o.Errors = append(o.Errors, fmt.Sprintf("%s|%s", e.Rule, firstLine(e.Message)))
		}
	}
	return o, v
}

func firstLine(s string) string {
	if i := strings.IndexByte(s, '\n'); i >= 0 {
		return s[:i]
	}
	return s
}

type simObs struct {
	Scope   string `json:"scope"`
	Outcome string `json:"outcome"` // ok | type | undefined | scope | args | crash | other
	Message string `json:"message,omitempty"`
}

type silent struct{ interpreter.DefaultDebugger }

func (silent) Message(string)                {}
func (silent) Log(*ast.LogStatement, string) {}

// what kind of failure the text of a simulator error describes (the kinds the property names)
var simKinds = []struct {
	kind string
	re   *regexp.Regexp
}{
	{"undefined", regexp.MustCompile(`(?i)undefined variable|is not defined|not found in|undefined (acl|backend|table|function)|could not find|is not declared|not implemented`)},
	{"scope", regexp.MustCompile(`(?i)could not (access|call) in scope|is not available in scope|unavailable in scope|could only be enable on|scope`)},
	{"args", regexp.MustCompile(`(?i)expects? \d+ arguments?|argument(s)? (count|length)|not enough arguments|too many arguments|ArgumentNotEnough|ArgumentNotInRange|expects at least|wrong type in argument|argument .* type|TypeMismatch|type mismatch|arguments mismatch|could not use as|expects [A-Z]+ as argument`)},
	{"type", regexp.MustCompile(`(?i)invalid assignment|could not assign|invalid (addition|subtraction|multiplication|division|remainder|bitwise|logical|shift|rotate|operator)|invalid type|type mismatch|unexpected type|could not (compare|convert|cast)|comparison|cannot (assign|convert|compare|use)|incompatible|unsupported type|invalid .* type|not supported|could not be|literal`)},
}

// refusals that depend on the value an operand happens to hold, not on its type or name
var valueDependent = regexp.MustCompile(`(?i)failed to parse IP from string|invalid IP format|division by zero|divide by zero|out of range|shift|rotate`)

func classify(msg string) string {
	for _, k := range simKinds {
		if k.re.MatchString(msg) {
			return k.kind
		}
	}
	return "other"
}

func findSub(v *ast.VCL, name string) *ast.SubroutineDeclaration {
	for _, s := range v.Statements {
		if d, ok := s.(*ast.SubroutineDeclaration); ok && d.Name.Value == name {
			return d
		}
	}
	return nil
}

// hung is set when a simulator run did not come back; the worker then leaves after answering (exit status 77)
var hung bool

func simulate(src, subName, scope string) simObs {
	ch := make(chan simObs, 1)
	go func() { ch <- simulateNow(src, subName, scope) }()
	select {
	case o := <-ch:
		return o
	case <-time.After(4 * time.Second):
		hung = true
		return simObs{Scope: scope, Outcome: "hang", Message: "no answer within 4s"}
	}
}

func simulateNow(src, subName, scope string) (o simObs) {
	o.Scope = scope
	defer func() {
		if r := recover(); r != nil {
			o.Outcome = "crash"
			o.Message = fmt.Sprint(r)
		}
	}()
	ip := interpreter.New(icontext.WithResolver(resolver.NewStaticResolver("main", src)))
	ip.Debugger = silent{}
	req, err := ihttp.NewRequest(ghttp.MethodGet, "http://localhost/path?q=1", ghttp.NoBody)
	if err != nil {
		return simObs{Scope: scope, Outcome: "other", Message: "harness: " + err.Error()}
	}
	req.RemoteAddr = "192.0.2.1:11111"
	if err := ip.TestProcessInit(req); err != nil {
		o.Message = firstLine(err.Error())
		o.Outcome = "init:" + classify(o.Message)
		return o
	}
	// the subroutine the linter has seen, parsed again (the interpreter mutates what it runs)
	v, err := parser.New(lexer.NewFromString(src)).ParseVCL()
	if err != nil {
		return simObs{Scope: scope, Outcome: "other", Message: "harness: " + err.Error()}
	}
	sub := findSub(v, subName)
	if sub == nil {
		return simObs{Scope: scope, Outcome: "other", Message: "harness: subroutine not found"}
	}
	if err := ip.ProcessTestSubroutine(icontext.ScopeByString(scope), sub); err != nil {
		o.Message = firstLine(err.Error())
		o.Outcome = classify(o.Message)
		return o
	}
	o.Outcome = "ok"
	return o
}

type observed struct {
	Program string   `json:"program,omitempty"`
	Lint    lintObs  `json:"lint"`
	Sim     []simObs `json:"sim,omitempty"`
}

func cellID(c *cell) string {
	switch c.Kind {
	case "assign", "compare":
		return fmt.Sprintf("%s:%s[%s] %s %s/%s[%s]", c.Kind, c.Lt, c.Linit, c.Op, c.Rt, c.Form, c.Rinit)
	case "var":
		return fmt.Sprintf("var:%s/%s@%s", c.Name, c.Access, strings.Join(c.Scopes, "+"))
	case "dyn":
		return fmt.Sprintf("dyn:%s:%s@%s", c.How, c.Name, strings.Join(c.Scopes, "+"))
	case "fn":
		return fmt.Sprintf("fn:%s(%s)@%s", c.Name, strings.Join(c.Sig, ","), strings.Join(c.Scopes, "+"))
	case "fnsig":
		return fmt.Sprintf("fnsig:%s:%s(%s)@%s", c.Why, c.Name, strings.Join(c.Sig, ","), strings.Join(c.Scopes, "+"))
	case "fnconv":
		return fmt.Sprintf("fnconv:%s(%s)#%d<-%s/%s@%s", c.Name, strings.Join(c.Sig, ","), c.Pos, c.Rt, c.Form, strings.Join(c.Scopes, "+"))
	case "stmt":
		return fmt.Sprintf("stmt:%s%s@%s", c.Stmt, map[bool]string{true: "(" + c.Action + ")", false: ""}[c.Action != ""], strings.Join(c.Scopes, "+"))
	}
	return c.Kind
}

func classOf(c *cell) map[string]any {
	m := map[string]any{"kind": c.Kind, "nscopes": len(c.Scopes)}
	switch c.Kind {
	case "assign", "compare":
		m["op"], m["lt"], m["rt"], m["form"], m["linit"], m["rinit"] = c.Op, c.Lt, c.Rt, c.Form, c.Linit, c.Rinit
	case "var":
		m["name"], m["access"] = c.Name, c.Access
	case "dyn":
		m["name"], m["how"] = c.Name, c.How
	case "fn":
		m["name"] = c.Name
	case "fnsig":
		m["name"], m["why"] = c.Name, c.Why
	case "fnconv":
		m["name"], m["rt"], m["form"], m["ptype"] = c.Name, c.Rt, c.Form, c.Ptype
	case "stmt":
		m["stmt"] = c.Stmt
		if c.Action != "" {
			m["action"] = c.Action
		}
	}
	return m
}

func evalCell(b *behaviour) *hx.CaseResult {
	c := &b.Cell
	id := b.ID
	if id == "" {
		id = cellID(c)
	}
	res := &hx.CaseResult{ID: id, Input: b, Class: classOf(c), Key: id}
	p := render(c)
	if !p.OK {
		res.Observed = map[string]any{"skipped": p.Why}
		res.Key = nil
		return res
	}
	lo, _ := lintProgram(p.Src)
	obs := observed{Lint: lo}
	res.Validated = true
	switch {
	case lo.Verdict == "parse" || lo.Verdict == "fatal":
		// the rendering is at fault or the linter gave up: neither is a verdict on the cell
		res.Drift = append(res.Drift, map[string]any{"obs": "lint-" + lo.Verdict, "errors": lo.Errors})
		obs.Program = p.Src
	case lo.Verdict != b.Lint:
		res.Mismatch = append(res.Mismatch, map[string]any{"obs": "lint", "expected": b.Lint, "got": lo.Verdict, "errors": lo.Errors})
		obs.Program = p.Src
	}
	if lo.Verdict == "accept" {
		// everything the linter accepts executes in the simulator in that scope
		scopes := c.Scopes
		if len(scopes) == 0 {
			scopes = []string{"RECV"}
		}
		for _, sc := range scopes {
			so := simulate(p.Src, p.SubName, sc)
			obs.Sim = append(obs.Sim, so)
			switch so.Outcome {
			case "ok":
			case "type", "undefined", "scope", "args", "crash":
				res.Mismatch = append(res.Mismatch, map[string]any{"obs": "sim", "simkind": so.Outcome, "scope": sc, "message": so.Message})
				obs.Program = p.Src
			case "other":
				// a cell that passes no argument to a built-in has nothing value-dependent about it, apart from the
				// few messages listed in valueDependent: any other refusal of the simulator is a failure to execute
				// what the linter accepted (an unknown suffix, a state it lacks ...)
				if c.Kind != "fn" && c.Kind != "fnsig" && c.Kind != "fnconv" && !valueDependent.MatchString(so.Message) {
					res.Mismatch = append(res.Mismatch, map[string]any{"obs": "sim", "simkind": "error", "scope": sc, "message": so.Message})
					obs.Program = p.Src
				}
			default:
				// "other" / "hang": a failure the property does not speak about (a value the built-in rejects, a
				// state the test interpreter does not have, a run that does not end - C08): kept in the
				// observation and counted by the check, not a verdict and not a drift of the specification
			}
		}
	}
	res.Observed = obs
	return res
}

func c05Worker(args []string) int {
	out := bufio.NewWriter(os.Stdout)
	enc := json.NewEncoder(out)
	err := hx.Lines(func(line []byte) error {
		var b behaviour
		if err := json.Unmarshal(line, &b); err != nil {
			return err
		}
		r := evalCell(&b)
		if err := enc.Encode(r); err != nil {
			return err
		}
		if err := out.Flush(); err != nil {
			return err
		}
		if hung {
			os.Exit(77) // a goroutine is still stuck in the simulator: start afresh
		}
		return nil
	})
	if err != nil {
		fmt.Fprintln(os.Stderr, err)
		return 2
	}
	return 0
}

// runShard feeds cells to a worker process; if the worker dies the cell it did not answer is a crash
func runShard(self string, lines [][]byte, emit func([]byte)) {
	start := 0
	for start < len(lines) {
		cmd := exec.Command(self, "c05worker")
		stdin, _ := cmd.StdinPipe()
		stdout, _ := cmd.StdoutPipe()
		var stderr strings.Builder
		cmd.Stderr = &stderr
		if err := cmd.Start(); err != nil {
			fmt.Fprintln(os.Stderr, "cannot start worker:", err)
			os.Exit(2)
		}
		go func(from int) {
			w := bufio.NewWriter(stdin)
			for _, l := range lines[from:] {
				w.Write(l)        // nolint:errcheck
				w.WriteByte('\n') // nolint:errcheck
			}
			w.Flush()
			stdin.Close()
		}(start)
		rd := bufio.NewReaderSize(stdout, 1<<20)
		done := 0
		for {
			l, err := rd.ReadBytes('\n')
			if len(l) > 1 {
				emit(l)
				done++
			}
			if err != nil {
				break
			}
		}
		io.Copy(io.Discard, stdout) // nolint:errcheck
		werr := cmd.Wait()
		start += done
		if ee, ok := werr.(*exec.ExitError); ok && ee.ExitCode() == 77 {
			continue // the worker answered a cell whose run hung and left on purpose
		}
		if start < len(lines) {
			// the worker died on lines[start]
			var b behaviour
			json.Unmarshal(lines[start], &b) // nolint:errcheck
			id := b.ID
			if id == "" {
				id = cellID(&b.Cell)
			}
			msg := fmt.Sprintf("worker died: %v: %s", werr, tailStr(stderr.String(), 600))
			r := &hx.CaseResult{ID: id, Input: &b, Class: classOf(&b.Cell), Key: id, Validated: true,
				Mismatch: []map[string]any{{"obs": "sim", "simkind": "crash", "scope": "?", "message": msg}}}
			bt, _ := json.Marshal(r)
			emit(append(bt, '\n'))
			start++
		}
	}
}

func tailStr(s string, n int) string {
	if len(s) > n {
		return s[len(s)-n:]
	}
	return s
}

func c05Replay(args []string) int {
	fs := flag.NewFlagSet("c05replay", flag.ExitOnError)
	workers := fs.Int("workers", 8, "worker processes")
	fs.Parse(args) // nolint:errcheck
	self, _ := os.Executable()
	var lines [][]byte
	hx.Lines(func(line []byte) error { // nolint:errcheck
		lines = append(lines, append([]byte(nil), line...))
		return nil
	})
	n := *workers
	if n > len(lines) {
		n = len(lines)
	}
	if n == 0 {
		return 0
	}
	shards := make([][][]byte, n)
	for i, l := range lines {
		shards[i%n] = append(shards[i%n], l)
	}
	out := bufio.NewWriterSize(os.Stdout, 1<<20)
	var mu sync.Mutex
	var wg sync.WaitGroup
	for _, sh := range shards {
		wg.Add(1)
		go func(sh [][]byte) {
			defer wg.Done()
			runShard(self, sh, func(b []byte) {
				mu.Lock()
				out.Write(b) // nolint:errcheck
				mu.Unlock()
			})
		}(sh)
	}
	wg.Wait()
	out.Flush()
	return 0
}

// c05show: print the program of each cell on stdin (debugging)
func c05Show(args []string) int {
	hx.Lines(func(line []byte) error { // nolint:errcheck
		var b behaviour
		if json.Unmarshal(line, &b) == nil {
			p := render(&b.Cell)
			fmt.Printf("# %s expected lint=%s\n%s\n", cellID(&b.Cell), b.Lint, p.Src)
		}
		return nil
	})
	return 0
}
