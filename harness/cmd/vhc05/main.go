package main

import "verif/harness/internal/hx"

func main() {
	hx.Commands["c05gen"] = c05Gen
	hx.Commands["c05replay"] = c05Replay
	hx.Commands["c05worker"] = c05Worker
	hx.Commands["c05show"] = c05Show
	hx.Main()
}
