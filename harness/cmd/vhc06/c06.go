package main

// C06 (and the lifecycle part of C08/C18): replay of Lifecycle.tla behaviours
// through the real Interpreter.ServeHTTP, and recording of the observed
// executions as traces for LifecycleTrace.tla.

import (
	"bufio"
	"encoding/json"
	"flag"
	"fmt"
	"io"
	"net/http"
	"net/http/httptest"
	"net/url"
	"os"
	"strconv"
	"strings"
	"time"

	"verif/harness/internal/hx"

	"github.com/ysugimoto/falco/v2/ast"
	"github.com/ysugimoto/falco/v2/interpreter"
	"github.com/ysugimoto/falco/v2/interpreter/context"
	"github.com/ysugimoto/falco/v2/resolver"
)

func main() {
	hx.Commands["c06replay"] = c06Replay
	hx.Commands["c06h1"] = c06H1
	hx.Main()
}

type lcChoice struct {
	Sub string `json:"sub"`
	At  int    `json:"at"`
	Beh string `json:"beh"`
}

type lcReq struct {
	URL          string     `json:"url"`
	Status       int        `json:"status"`
	Prog         []lcChoice `json:"prog"`
	Flows        []string   `json:"flows"`
	StoredBefore bool       `json:"storedBefore"`
	Restarts     int        `json:"restarts"`
	Outcome      string     `json:"outcome"`
	Branch       string     `json:"branch"`
	Cached       bool       `json:"cached"`
	StoredAfter  bool       `json:"storedAfter"`
	FinalBranch  string     `json:"finalBranch"`
	Seen         int        `json:"seen"`
	SawJail      bool       `json:"sawJail"`
	Jail         string     `json:"jail"` // "no" | "short" | "long"
	Look         bool       `json:"look"`
	Wait         int        `json:"wait"` // ticks of real time before this request
}

type lcBehaviour struct {
	Defined []string `json:"defined"` // lifecycle subroutines the program defines (nil = all)
	Reqs    []lcReq  `json:"reqs"`
}

func (b lcBehaviour) defines(s string) bool {
	if b.Defined == nil {
		return true
	}
	for _, d := range b.Defined {
		if d == s {
			return true
		}
	}
	return false
}

// observed request, the event record of LifecycleTrace.tla
type lcObsReq struct {
	URL          string   `json:"url"`
	Status       int      `json:"status"`
	Exact        bool     `json:"exact"`
	KnowBefore   bool     `json:"knowBefore"`
	StoredBefore bool     `json:"storedBefore"`
	Flows        []string `json:"flows"`
	Acts         []string `json:"acts"`
	Defined      []string `json:"defined"`
	Restarts     int      `json:"restarts"`
	Outcome      string   `json:"outcome"`
	XCache       string   `json:"xcache"`
	Cached       bool     `json:"cached"`
	KnowAfter    bool     `json:"knowAfter"`
	StoredAfter  bool     `json:"storedAfter"`
	Seen         int      `json:"seen"`     // rate counter value the request logged, -1 = unknown
	Jail         string   `json:"jail"`     // what the request does to the penalty box: "no" | "short" | "long"
	Look         bool     `json:"look"`     // the request looks whether the client is in the box
	Wait         int      `json:"wait"`     // ticks of real time the harness let pass before the request
	JailSeen     int      `json:"jailSeen"` // 1/0: the request found the client in the penalty box, -1 = unknown
	StartSeq     int      `json:"startSeq"` // concurrent traces: global sequence numbers of start / end
	EndSeq       int      `json:"endSeq"`
}

type lcObsTrace struct {
	ID         string     `json:"id"`
	Concurrent bool       `json:"concurrent"`
	Reqs       []lcObsReq `json:"reqs"`
}

// one tick of the specification's clock in real time; ShortTTL of the timed configurations (spec/LifecycleTimed*.cfg)
const lcTickMs = 150
const lcShortTTL = 5

var lcSubs = []string{"recv", "hash", "hit", "miss", "pass", "fetch", "error", "deliver", "log"}

func lcStmt(b string) string {
	switch b {
	case "none":
		return ""
	case "error_stmt":
		return "error 601;"
	case "error_ret":
		return "return(error);"
	case "restart_stmt":
		return "restart;"
	case "restart_ret":
		return "return(restart);"
	case "expire":
		return "set obj.ttl = 1ms;"
	case "extend":
		return "set obj.ttl = 1h;"
	case "unknown":
		return "return(deliver_stal);"
	case "ttl0":
		return "set beresp.ttl = 0s;"
	case "shortttl":
		return fmt.Sprintf("set beresp.ttl = %dms;", lcShortTTL*lcTickMs)
	case "uncacheable":
		return "set beresp.cacheable = false;"
	default:
		return "return(" + b + ");"
	}
}

// lcProgram renders the lazily chosen behaviours of all requests of a history as one VCL program.
// The same behaviour is written in one of several equivalent ways (directly, inside nested blocks, through a
// called subroutine that returns the action) chosen from the seed: the specification's prediction does not
// depend on it, the interpreter's state propagation paths (block / if / call statement) differ.
func lcProgram(b lcBehaviour, backend string, style func(k int) int) string {
	var sb, helpers strings.Builder
	sb.WriteString(backend)
	sb.WriteString("ratecounter rc {}\npenaltybox pb {}\n")
	k := 0
	for _, s := range lcSubs {
		if !b.defines(s) {
			continue // an absent subroutine takes its default action and leaves no flow entry
		}
		fmt.Fprintf(&sb, "sub vcl_%s {\n  log \"s:%s:\" req.restarts;\n", s, s)
		if s == "hit" {
			// ctx.ObjectTTL survives a restart: after an "expire" arm (obj.ttl = 1ms) every later visit of vcl_hit in the
			// same request would shorten the lifetime of whatever object it hit; reset it on those visits only
			for n, r := range b.Reqs {
				for _, c := range r.Prog {
					if c.Sub == "hit" && c.Beh == "expire" {
						fmt.Fprintf(&sb, "  if (req.http.X-Req == \"%d\" && req.restarts > %d) { set obj.ttl = 0s; }\n", n+1, c.At)
					}
				}
			}
		}
		if s == "recv" {
			// shared state that outlives a request: the n-th request served sees n
			// reading the one-second rate must not disturb what the counter holds for the wider windows
			sb.WriteString("  if (req.restarts == 0) { log \"rate1:\" ratecounter.rc.rate.1s; }\n")
			sb.WriteString("  if (req.restarts == 0) { set req.http.X-Count = ratelimit.ratecounter_increment(rc, \"k\", 1); log \"count:\" req.http.X-Count; }\n")
			sb.WriteString("  if (req.restarts == 0) {\n    if (req.http.X-Look == \"1\") { if (ratelimit.penaltybox_has(pb, \"k\")) { log \"jail:1\"; } else { log \"jail:0\"; } }\n")
			fmt.Fprintf(&sb, "    if (req.http.X-Jail == \"long\") { ratelimit.penaltybox_add(pb, \"k\", 10m); }\n    if (req.http.X-Jail == \"short\") { ratelimit.penaltybox_add(pb, \"k\", %dms); }\n  }\n", lcShortTTL*lcTickMs)
		}
		if s == "hash" {
			// a cache key may also be told apart by a request header that vcl_hash adds to the hash
			sb.WriteString("  if (req.http.X-Vary) { set req.hash += req.http.X-Vary; }\n")
		}
		var arms []string
		arm := func(format string, a ...any) { arms = append(arms, fmt.Sprintf(format, a...)) }
		for n, r := range b.Reqs {
			for _, c := range r.Prog {
				if c.Sub == s && c.Beh != "none" {
					k++
					st := lcStmt(c.Beh)
					cond := fmt.Sprintf("req.http.X-Req == \"%d\" && req.restarts == %d", n+1, c.At)
					scoped := c.Beh == "expire" || c.Beh == "extend" || c.Beh == "ttl0" || c.Beh == "uncacheable"
					switch style(k) {
					case 1: // nested blocks
						arm("  if (req.http.X-Req == \"%d\") { if (req.restarts == %d) { { %s } } else { log \"other\"; } }\n", n+1, c.At, st)
					case 2: // through a called subroutine (not for the variants that write scope-specific variables)
						if c.Beh == "expire" || c.Beh == "extend" || c.Beh == "ttl0" || c.Beh == "uncacheable" {
							arm("  if (%s) { %s }\n", cond, st)
						} else {
							fmt.Fprintf(&helpers, "sub helper_%d { %s }\n", k, st)
							arm("  if (%s) { call helper_%d; }\n", cond, k)
						}
					case 3: // inside a switch case; the default clause is written last or first
						if k%2 == 0 {
							arm("  switch (req.http.X-Req) {\n    case \"%d\":\n      if (req.restarts == %d) { %s }\n      break;\n    default:\n      break;\n  }\n", n+1, c.At, st)
						} else {
							arm("  switch (req.http.X-Req) {\n    default:\n      break;\n    case \"%d\":\n      if (req.restarts == %d) { %s }\n      break;\n  }\n", n+1, c.At, st)
						}
					case 4: // through two levels of called subroutines
						if scoped {
							arm("  if (%s) { %s }\n", cond, st)
						} else {
							fmt.Fprintf(&helpers, "sub inner_%d { %s }\nsub outer_%d { if (req.http.X-Req) { call inner_%d; } log \"not reached when inner returned an action\"; }\n", k, st, k, k)
							arm("  if (%s) { call outer_%d; }\n", cond, k)
						}
					default:
						arm("  if (%s) { %s }\n", cond, st)
					}
				}
			}
		}
		// Fastly concatenates several declarations of one lifecycle subroutine: sometimes write the arms (they are
		// mutually exclusive, so their order is immaterial) over two declarations
		cut := len(arms)
		if len(arms) >= 2 && style(k+101)%2 == 1 {
			cut = len(arms) / 2
		}
		for i, a := range arms {
			if i == cut {
				// the second declaration announces itself: it must run at most once per visit of the subroutine
				fmt.Fprintf(&sb, "}\nsub vcl_%s {\n  log \"d2:%s\";\n", s, s)
			}
			sb.WriteString(a)
		}
		sb.WriteString("}\n")
	}
	return helpers.String() + sb.String()
}

type silentDebugger struct{ interpreter.DefaultDebugger }

func (silentDebugger) Message(string)                {}
func (silentDebugger) Log(*ast.LogStatement, string) {}

type lcReport struct {
	Flows []struct {
		Subroutine string `json:"subroutine"`
	} `json:"flows"`
	Logs []struct {
		Message string `json:"message"`
	} `json:"logs"`
	Restarts int    `json:"restarts"`
	Cached   bool   `json:"cached"`
	Error    string `json:"error"`
	Client   struct {
		Headers map[string]string `json:"headers"`
	} `json:"client_response"`
}

func lcServe(ip *interpreter.Interpreter, u string, vary string, jail string, look bool, n int, status int) (rep lcReport, code int, crashed string) {
	defer func() {
		if r := recover(); r != nil {
			crashed = fmt.Sprint(r)
		}
	}()
	rec := httptest.NewRecorder()
	req := httptest.NewRequest("GET", "http://localhost/"+u, nil)
	req.Header.Set("X-Req", strconv.Itoa(n))
	req.Header.Set("X-Status", strconv.Itoa(status))
	if vary != "" {
		req.Header.Set("X-Vary", vary)
	}
	if jail != "" && jail != "no" {
		req.Header.Set("X-Jail", jail)
	}
	if look {
		req.Header.Set("X-Look", "1")
	}
	ip.ServeHTTP(rec, req)
	res := rec.Result()
	code = res.StatusCode
	body, _ := io.ReadAll(res.Body)
	json.Unmarshal(body, &rep) // nolint:errcheck
	return
}

// the stub origin: X-Status = HTTP status code + 1000 * freshness-header variant (spec/Lifecycle.tla Variant)
func lcBackend() (*httptest.Server, string) {
	server := httptest.NewServer(http.HandlerFunc(func(w http.ResponseWriter, r *http.Request) {
		st := 200
		if v := r.Header.Get("X-Status"); v != "" {
			if n, err := strconv.Atoi(v); err == nil {
				st = n
			}
		}
		switch st / 1000 {
		case 0:
			w.Header().Set("Cache-Control", "max-age=100")
		case 1:
			w.Header().Set("Cache-Control", "max-age=0")
		case 2:
			w.Header().Set("Cache-Control", "s-maxage=0")
		case 3:
			w.Header().Set("Surrogate-Control", "max-age=100")
			w.Header().Set("Cache-Control", "max-age=0")
		case 4:
		case 5:
			w.Header().Set("Cache-Control", "s-maxage=100")
		}
		w.WriteHeader(st % 1000)
		w.Write([]byte("OK")) // nolint:errcheck
	}))
	u, _ := url.Parse(server.URL)
	return server, fmt.Sprintf("backend example { .host = \"%s\"; .port = \"%s\"; .ssl = false; }\n", u.Hostname(), u.Port())
}

func eqStrings(a, b []string) bool {
	if len(a) != len(b) {
		return false
	}
	for i := range a {
		if a[i] != b[i] {
			return false
		}
	}
	return true
}

type caseResult = hx.CaseResult

func c06Replay(args []string) int {
	fs := flag.NewFlagSet("c06replay", flag.ExitOnError)
	tracePath := fs.String("traces", "", "file to write observed traces to (ndjson)")
	prefix := fs.String("prefix", "b", "id prefix")
	plain := fs.Bool("plain", false, "render every behaviour directly (no style variation)")
	fs.Parse(args) // nolint:errcheck
	seed := hx.Seed()

	server, backend := lcBackend()
	defer server.Close()
	var tw *bufio.Writer
	if *tracePath != "" {
		f, err := os.Create(*tracePath)
		if err != nil {
			fmt.Fprintln(os.Stderr, err)
			return 2
		}
		defer f.Close()
		tw = bufio.NewWriter(f)
		defer tw.Flush()
	}
	out := bufio.NewWriter(os.Stdout)
	defer out.Flush()
	enc := json.NewEncoder(out)

	sc := bufio.NewScanner(os.Stdin)
	sc.Buffer(make([]byte, 1<<20), 1<<26)
	n := 0
	for sc.Scan() {
		line := sc.Bytes()
		if len(line) == 0 {
			continue
		}
		var b lcBehaviour
		if err := json.Unmarshal(line, &b); err != nil {
			fmt.Fprintln(os.Stderr, "bad behaviour:", err)
			return 2
		}
		n++
		id := fmt.Sprintf("%s%d", *prefix, n)
		vcl := lcProgram(b, backend, func(k int) int {
			if *plain {
				return 0
			}
			return int((seed*31 + int64(n)*17 + int64(k)*7) % 5)
		})
		ip := interpreter.New(context.WithResolver(resolver.NewStaticResolver("main", vcl)))
		ip.Debugger = silentDebugger{}
		res := caseResult{ID: id, Input: b}
		obs := lcObsTrace{ID: id}
		hashes := map[string]string{}
		var keyParts []string
		// timed histories: the specification's clock advances by r.Wait ticks before request k; the harness sleeps
		// that long and stops the history (keeping the prefix) if real time ran more than 200ms ahead of the plan -
		// the margins between every reachable age and ShortTTL are at least 300ms (spec/LifecycleTimed*.cfg)
		timed := false
		for _, r := range b.Reqs {
			if r.Wait > 0 || r.Jail == "short" {
				timed = true
			}
			for _, c := range r.Prog {
				if c.Beh == "shortttl" {
					timed = true
				}
			}
		}
		t0 := time.Now()
		planned := time.Duration(0)
		for k, r := range b.Reqs {
			if k > 0 {
				// objects stored by the previous request are "old" (entry time more than 1ms ago) for this one
				w := time.Duration(r.Wait) * lcTickMs * time.Millisecond
				planned += w
				if w < 2*time.Millisecond {
					w = 2 * time.Millisecond
				}
				time.Sleep(w)
			}
			if timed && time.Since(t0)-planned > 200*time.Millisecond {
				res.Drift = append(res.Drift, map[string]any{"obs": "timing", "detail": "real time ran ahead of the plan; history cut", "at_req": k + 1})
				break
			}
			// cache key -> (URL, X-Vary): either distinct URLs or one URL told apart by the header vcl_hash adds
			path, vary := r.URL, ""
			if !*plain {
				switch (seed + int64(n)) % 3 {
				case 1:
					if b.defines("hash") {
						path, vary = "k", r.URL
					}
				case 2: // keys that differ only in the query string
					path = "k?q=" + r.URL
				}
			}
			hash, known := hashes[r.URL]
			before := false
			if known {
				before = ip.VerifCacheFresh(hash)
			}
			rep, code, crashed := lcServe(ip, path, vary, r.Jail, r.Look, k+1, r.Status)
			rec := ip.VerifRecord()
			if rec.Hash != "" {
				if known && rec.Hash != hash {
					res.Drift = append(res.Drift, map[string]any{"obs": "hash", "expected": hash, "got": rec.Hash})
				}
				hash = rec.Hash
				hashes[r.URL] = hash
			}
			o := lcObsReq{URL: r.URL, Status: r.Status, Exact: true, KnowBefore: true, StoredBefore: before,
				Defined: rec.Defined, KnowAfter: hash != "", Jail: r.Jail, Look: r.Look, Wait: r.Wait, JailSeen: -1}
			var got []string
			for _, f := range rep.Flows {
				if strings.HasPrefix(f.Subroutine, "vcl_") {
					got = append(got, strings.TrimPrefix(f.Subroutine, "vcl_"))
				}
			}
			if got == nil {
				got = []string{}
			}
			o.Flows = got
			// behaviour chosen for each observed flow entry: every subroutine logs "s:<name>:<req.restarts>" first, so
			// the restart count of each entry is known even when vcl_recv is absent
			var visits [][2]string
			for _, lg := range rep.Logs {
				if strings.HasPrefix(lg.Message, "s:") {
					p := strings.SplitN(lg.Message, ":", 3)
					if len(p) == 3 {
						visits = append(visits, [2]string{p[1], p[2]})
					}
				}
			}
			// a second declaration of a lifecycle subroutine runs at most once per visit of that subroutine
			d2, vis := map[string]int{}, map[string]int{}
			for _, lg := range rep.Logs {
				if strings.HasPrefix(lg.Message, "d2:") {
					d2[strings.TrimPrefix(lg.Message, "d2:")]++
				}
			}
			for _, v := range visits {
				vis[v[0]]++
			}
			for sname, cnt := range d2 {
				if cnt > vis[sname] {
					res.Mismatch = append(res.Mismatch, map[string]any{"obs": "second-declaration-runs", "req": k + 1, "sub": sname,
						"expected_at_most": vis[sname], "got": cnt})
				}
			}
			o.Acts = []string{}
			for i, s := range got {
				act := "none"
				if i < len(visits) && visits[i][0] == s {
					at, _ := strconv.Atoi(visits[i][1])
					for _, c := range r.Prog {
						if c.Sub == s && c.At == at {
							act = c.Beh
						}
					}
				} else {
					res.Drift = append(res.Drift, map[string]any{"obs": "visit-log", "req": k + 1, "flow": s})
				}
				o.Acts = append(o.Acts, act)
			}
			o.Seen = -1
			for _, lg := range rep.Logs {
				if lg.Message == "jail:1" {
					o.JailSeen = 1
				} else if lg.Message == "jail:0" {
					o.JailSeen = 0
				}
				if strings.HasPrefix(lg.Message, "count:") {
					if n, err := strconv.Atoi(strings.TrimPrefix(lg.Message, "count:")); err == nil {
						o.Seen = n
					}
				}
			}
			if o.Seen != r.Seen && b.defines("recv") {
				res.Drift = append(res.Drift, map[string]any{"obs": "seen", "req": k + 1, "expected": r.Seen, "got": o.Seen})
			}
			o.Restarts = rep.Restarts
			o.Cached = rep.Cached
			o.XCache = rep.Client.Headers["x-cache"]
			o.StoredAfter = hash != "" && ip.VerifCacheFresh(hash)
			switch {
			case crashed != "":
				o.Outcome = "crash"
			case rep.Error != "" || code != 200:
				o.Outcome = "error"
			default:
				o.Outcome = "ok"
			}
			obs.Reqs = append(obs.Reqs, o)
			// comparison with the mechanism prediction (diagnostic; the verdict comes from the trace spec)
			d := func(name string, exp, got any) {
				res.Drift = append(res.Drift, map[string]any{"obs": name, "req": k + 1, "expected": exp, "got": got})
			}
			if !eqStrings(got, r.Flows) {
				d("flows", r.Flows, got)
			}
			if o.Restarts != r.Restarts {
				d("restarts", r.Restarts, o.Restarts)
			}
			if o.Outcome != r.Outcome {
				d("outcome", r.Outcome, o.Outcome+": "+rep.Error+crashed)
			}
			if before != r.StoredBefore {
				d("storedBefore", r.StoredBefore, before)
			}
			if o.StoredAfter != r.StoredAfter {
				d("storedAfter", r.StoredAfter, o.StoredAfter)
			}
			if r.Outcome == "ok" && r.Branch != "none" && o.XCache != r.Branch {
				d("xcache", r.Branch, o.XCache)
			}
			if r.Outcome == "ok" && o.Cached != r.Cached {
				d("cached", r.Cached, o.Cached)
			}
			keyParts = append(keyParts, strings.Join(r.Flows, ">"))
			if crashed != "" {
				break
			}
		}
		res.Key = strings.Join(keyParts, " | ")
		res.Observed = obs
		if tw != nil {
			bt, _ := json.Marshal(obs)
			tw.Write(bt)       // nolint:errcheck
			tw.WriteByte('\n') // nolint:errcheck
		}
		enc.Encode(res) // nolint:errcheck
	}
	return 0
}

// c06h1 converts the dump written by hook H1 (one record per request served by
// any Interpreter of the test process) into traces for LifecycleTrace.tla.
func c06H1(args []string) int {
	fs := flag.NewFlagSet("c06h1", flag.ExitOnError)
	in := fs.String("in", "", "H1 dump")
	outp := fs.String("out", "", "traces ndjson")
	fs.Parse(args) // nolint:errcheck
	f, err := os.Open(*in)
	if err != nil {
		fmt.Fprintln(os.Stderr, err)
		return 2
	}
	defer f.Close()
	type rec struct {
		Seq         int      `json:"seq"`
		Interp      string   `json:"interp"`
		Flows       []string `json:"flows"`
		Defined     []string `json:"defined"`
		Restarts    int      `json:"restarts"`
		Cached      bool     `json:"cached"`
		Error       string   `json:"error"`
		XCache      string   `json:"xcache"`
		HasResponse bool     `json:"has_response"`
		Purge       bool     `json:"purge"`
		Hash        string   `json:"hash"`
		StoredAfter bool     `json:"stored_after"`
	}
	order := []string{}
	groups := map[string][]rec{}
	sc := bufio.NewScanner(f)
	sc.Buffer(make([]byte, 1<<20), 1<<26)
	for sc.Scan() {
		var r rec
		if json.Unmarshal(sc.Bytes(), &r) != nil {
			continue
		}
		if _, ok := groups[r.Interp]; !ok {
			order = append(order, r.Interp)
		}
		groups[r.Interp] = append(groups[r.Interp], r)
	}
	o, err := os.Create(*outp)
	if err != nil {
		fmt.Fprintln(os.Stderr, err)
		return 2
	}
	defer o.Close()
	w := bufio.NewWriter(o)
	defer w.Flush()
	names := []string{"a", "b", "c"}
	for gi, key := range order {
		tr := lcObsTrace{ID: fmt.Sprintf("h1_%d", gi+1)}
		urls := map[string]string{}
		for _, r := range groups[key] {
			// purge requests run vcl_recv only and are outside the lifecycle property
			if r.Purge {
				break
			}
			u, ok := urls[r.Hash]
			if !ok {
				if len(urls) >= len(names) {
					break
				}
				u = names[len(urls)]
				urls[r.Hash] = u
			}
			q := lcObsReq{URL: u, Status: 0, Exact: false, KnowBefore: false, Flows: r.Flows, Acts: []string{},
				Defined: r.Defined, Restarts: r.Restarts, XCache: r.XCache, Cached: r.Cached,
				KnowAfter: r.Hash != "", StoredAfter: r.StoredAfter, Seen: -1, JailSeen: -1, Jail: "no"}
			if q.Flows == nil {
				q.Flows = []string{}
			}
			if q.Defined == nil {
				q.Defined = []string{}
			}
			if r.Error != "" {
				q.Outcome = "error"
			} else {
				q.Outcome = "ok"
			}
			tr.Reqs = append(tr.Reqs, q)
		}
		if len(tr.Reqs) == 0 {
			continue
		}
		b, _ := json.Marshal(tr)
		w.Write(b)        // nolint:errcheck
		w.WriteByte('\n') // nolint:errcheck
	}
	return 0
}
