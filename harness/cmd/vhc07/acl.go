package main

// ACL replay: every list emitted by spec/Acl.tla is written as a real `acl` declaration, once
// with IPv4 and once with IPv6 addresses, and `var.p ~ acl` is evaluated by the interpreter for
// every address of the model.

import (
	"encoding/json"
	"flag"
	"fmt"
	"net"
	"os"
	"strings"

	"verif/harness/internal/evalrt"
	"verif/harness/internal/hx"
)

type aclEntry struct {
	P      int  `json:"p"`
	Len    int  `json:"len"`
	Neg    bool `json:"neg"`
	NoMask bool `json:"nomask"`
}

type aclBeh struct {
	W   int            `json:"w"`
	Acl []aclEntry     `json:"acl"`
	R   map[string]int `json:"r"`
	Amb map[string]int `json:"amb"`
	M   map[string]int `json:"m"`
	// verdicts of the sub-lists at odd / even positions (mixed-family rendering)
	ROdd    map[string]int `json:"rodd"`
	AmbOdd  map[string]int `json:"ambodd"`
	REven   map[string]int `json:"reven"`
	AmbEven map[string]int `json:"ambeven"`
}

// embedding of the W model bits (most significant first) into real addresses:
// pos[k] = bit index (0 = most significant) of model bit k, plen[k] = real prefix length of a model prefix of k bits.
type embedding struct {
	family string
	bytes  int
	pos    []int
	plen   []int
}

func embeddings(w int) []embedding {
	switch w {
	case 3:
		return []embedding{
			{"v4", 4, []int{0, 9, 31}, []int{0, 8, 16, 32}},
			{"v6", 16, []int{0, 33, 127}, []int{0, 32, 64, 128}},
		}
	case 4:
		return []embedding{
			{"v4", 4, []int{0, 9, 20, 31}, []int{0, 8, 16, 24, 32}},
			{"v6", 16, []int{0, 33, 70, 127}, []int{0, 32, 64, 96, 128}},
		}
	}
	return nil
}

func (e embedding) addr(w, a int) string {
	b := make([]byte, e.bytes)
	for k := 0; k < w; k++ {
		if a&(1<<uint(w-1-k)) != 0 {
			p := e.pos[k]
			b[p/8] |= 1 << uint(7-p%8)
		}
	}
	return net.IP(b).String()
}

func (e embedding) aclText(name string, w int, entries []aclEntry) string {
	var sb strings.Builder
	fmt.Fprintf(&sb, "acl %s {\n", name)
	for _, en := range entries {
		sb.WriteString("  ")
		if en.Neg {
			sb.WriteString("!")
		}
		fmt.Fprintf(&sb, "%q", e.addr(w, en.P))
		if !en.NoMask {
			fmt.Fprintf(&sb, "/%d", e.plen[en.Len])
		}
		sb.WriteString(";\n")
	}
	sb.WriteString("}\n")
	return sb.String()
}

func aclReplay(args []string) int {
	fs := flag.NewFlagSet("acl", flag.ExitOnError)
	prefix := fs.String("prefix", "a", "id prefix")
	fs.Parse(args) // nolint:errcheck
	out := hx.NewOut()
	defer out.Close()
	n := 0
	err := hx.Lines(func(line []byte) error {
		var b aclBeh
		if err := json.Unmarshal(line, &b); err != nil {
			return fmt.Errorf("bad behaviour: %v", err)
		}
		n++
		embs := embeddings(b.W)
		if embs == nil {
			return fmt.Errorf("no embedding for W=%d", b.W)
		}
		for _, e := range embs {
			res := runAcl(&b, e, line)
			res.ID = fmt.Sprintf("%s%d_%s", *prefix, n, e.family)
			out.Write(res)
		}
		if len(b.Acl) >= 2 && b.ROdd != nil {
			res := runAclMixed(&b, embs[0], embs[1], line)
			res.ID = fmt.Sprintf("%s%d_mixed", *prefix, n)
			out.Write(res)
		}
		return nil
	})
	if err != nil {
		fmt.Fprintln(os.Stderr, err)
		return 2
	}
	return 0
}

func runAcl(b *aclBeh, e embedding, raw []byte) hx.CaseResult {
	res := hx.CaseResult{Validated: true}
	decl := e.aclText("t", b.W, b.Acl)
	nAddr := 1 << uint(b.W)
	var prog strings.Builder
	prog.WriteString("declare local var.p IP;\ndeclare local var.o STRING;\nset var.o = \"\";\n")
	addrs := make([]string, nAddr)
	for a := 0; a < nAddr; a++ {
		addrs[a] = e.addr(b.W, a)
		fmt.Fprintf(&prog, "set var.p = %q;\nif (var.p ~ t) { set var.o = var.o \"1\"; } else { set var.o = var.o \"0\"; }\n", addrs[a])
	}
	hasNeg, hasNoMask := false, false
	for _, en := range b.Acl {
		hasNeg = hasNeg || en.Neg
		hasNoMask = hasNoMask || en.NoMask
	}
	input := map[string]any{"family": e.family, "acl": decl, "addresses": addrs}
	res.Input = input
	res.Key = e.family + ":" + decl
	res.Class = map[string]any{"component": "acl", "family": e.family, "entries": len(b.Acl), "has_negated": hasNeg, "has_unmasked": hasNoMask}
	fail := func(item map[string]any) {
		res.Mismatch = append(res.Mismatch, item)
		input["beh"] = json.RawMessage(raw)
	}
	m, err := evalrt.NewMachine("recv", decl)
	if err != nil {
		fail(map[string]any{"obs": "acl-declaration-rejected", "error": err.Error()})
		return res
	}
	stmts, perr := evalrt.ParseStatements(prog.String())
	if perr != nil {
		res.Drift = append(res.Drift, map[string]any{"obs": "parse", "error": perr.Error()})
		res.Validated = false
		return res
	}
	o := m.Exec(stmts)
	if o.Kind != "ok" {
		fail(map[string]any{"obs": "status", "expected": "ok", "got": o.Kind, "msg": o.Msg})
		return res
	}
	got := m.Read("var.o")
	res.Observed = got.Str
	if len(got.Str) != nAddr {
		fail(map[string]any{"obs": "result-vector", "got": got.Str})
		return res
	}
	for a := 0; a < nAddr; a++ {
		k := fmt.Sprint(a)
		g := int(got.Str[a] - '0')
		if b.Amb[k] == 1 {
			if g != b.M[k] {
				res.Drift = append(res.Drift, map[string]any{"obs": "ambiguous-entry-tie", "addr": addrs[a], "expected": b.M[k], "got": g})
			}
			continue
		}
		if g != b.R[k] {
			fail(map[string]any{"obs": "acl-match", "addr": addrs[a], "expected": b.R[k] == 1, "got": g == 1})
		}
	}
	return res
}

// runAclMixed writes the entries at odd positions as IPv4 and those at even positions as IPv6 entries of one acl.
// IPv4 addresses are matched through a STRING operand with `~`, IPv6 addresses through an IP operand with `!~`
// (the verdict is the negation) - the other operand types and operator of the property statement.
func runAclMixed(b *aclBeh, e4, e6 embedding, raw []byte) hx.CaseResult {
	res := hx.CaseResult{Validated: true}
	var sb strings.Builder
	sb.WriteString("acl t {\n")
	hasNeg, hasNoMask := false, false
	for i, en := range b.Acl {
		e := e4
		if i%2 == 1 {
			e = e6
		}
		sb.WriteString("  ")
		if en.Neg {
			sb.WriteString("!")
		}
		fmt.Fprintf(&sb, "%q", e.addr(b.W, en.P))
		if !en.NoMask {
			fmt.Fprintf(&sb, "/%d", e.plen[en.Len])
		}
		sb.WriteString(";\n")
		hasNeg = hasNeg || en.Neg
		hasNoMask = hasNoMask || en.NoMask
	}
	sb.WriteString("}\n")
	decl := sb.String()
	nAddr := 1 << uint(b.W)
	var prog strings.Builder
	prog.WriteString("declare local var.p IP;\ndeclare local var.s STRING;\ndeclare local var.o STRING;\nset var.o = \"\";\n")
	addrs := []string{}
	for a := 0; a < nAddr; a++ {
		x := e4.addr(b.W, a)
		addrs = append(addrs, x)
		fmt.Fprintf(&prog, "set var.s = %q;\nif (var.s ~ t) { set var.o = var.o \"1\"; } else { set var.o = var.o \"0\"; }\n", x)
	}
	for a := 0; a < nAddr; a++ {
		x := e6.addr(b.W, a)
		addrs = append(addrs, x)
		fmt.Fprintf(&prog, "set var.p = %q;\nif (var.p !~ t) { set var.o = var.o \"0\"; } else { set var.o = var.o \"1\"; }\n", x)
	}
	input := map[string]any{"family": "mixed", "acl": decl, "addresses": addrs}
	res.Input = input
	res.Key = "mixed:" + decl
	res.Class = map[string]any{"component": "acl", "family": "mixed", "entries": len(b.Acl), "has_negated": hasNeg, "has_unmasked": hasNoMask}
	fail := func(item map[string]any) {
		res.Mismatch = append(res.Mismatch, item)
		input["beh"] = json.RawMessage(raw)
	}
	m, err := evalrt.NewMachine("recv", decl)
	if err != nil {
		fail(map[string]any{"obs": "acl-declaration-rejected", "error": err.Error()})
		return res
	}
	stmts, perr := evalrt.ParseStatements(prog.String())
	if perr != nil {
		res.Drift = append(res.Drift, map[string]any{"obs": "parse", "error": perr.Error()})
		res.Validated = false
		return res
	}
	if o := m.Exec(stmts); o.Kind != "ok" {
		fail(map[string]any{"obs": "status", "expected": "ok", "got": o.Kind, "msg": o.Msg})
		return res
	}
	got := m.Read("var.o")
	res.Observed = got.Str
	if len(got.Str) != 2*nAddr {
		fail(map[string]any{"obs": "result-vector", "got": got.Str})
		return res
	}
	for i := 0; i < 2*nAddr; i++ {
		a := i % nAddr
		k := fmt.Sprint(a)
		exp, amb := b.ROdd[k], b.AmbOdd[k]
		if i >= nAddr {
			exp, amb = b.REven[k], b.AmbEven[k]
		}
		if amb == 1 {
			continue
		}
		if g := int(got.Str[i] - '0'); g != exp {
			fail(map[string]any{"obs": "acl-match", "addr": addrs[i], "expected": exp == 1, "got": g == 1})
		}
	}
	return res
}
