package main

// C07: replay of the programs emitted by spec/EvalGen.tla (expected stores computed by the
// reference evaluator spec/Eval.tla) and of the ACL matches emitted by spec/Acl.tla through
// falco's interpreter.

import (
	"crypto/sha1"
	"encoding/hex"
	"encoding/json"
	"flag"
	"fmt"
	"math/rand"
	"os"
	"strings"

	"verif/harness/internal/evalrt"
	"verif/harness/internal/hx"
)

func main() {
	hx.Commands["replay"] = replay
	hx.Commands["acl"] = aclReplay
	hx.Main()
}

func stmtClass(s *evalrt.Stmt) map[string]any {
	c := map[string]any{"kind": s.K}
	if s.K == "set" {
		c["op"] = s.Op
		c["target"] = s.Tgt[:1]
		if s.E != nil {
			c["rhs"] = s.E.K
		}
	}
	return c
}

// hasNegIdent reports whether the statement contains unary minus applied to a variable.
func exprHas(e *evalrt.Expr, f func(*evalrt.Expr) bool) bool {
	if e == nil {
		return false
	}
	if f(e) {
		return true
	}
	for _, x := range []*evalrt.Expr{e.E, e.L, e.R, e.C, e.Th, e.El} {
		if exprHas(x, f) {
			return true
		}
	}
	for _, p := range e.Parts {
		if exprHas(p, f) {
			return true
		}
	}
	return false
}

func stmtHas(s *evalrt.Stmt, f func(*evalrt.Expr) bool) bool {
	if exprHas(s.E, f) || exprHas(s.Ctl, f) {
		return true
	}
	for _, a := range s.Arms {
		if exprHas(a.C, f) {
			return true
		}
		for _, b := range a.Body {
			if stmtHas(b, f) {
				return true
			}
		}
	}
	for _, b := range s.Els {
		if stmtHas(b, f) {
			return true
		}
	}
	for _, c := range s.Cases {
		for _, b := range c.Body {
			if stmtHas(b, f) {
				return true
			}
		}
	}
	return false
}

func replay(args []string) int {
	fs := flag.NewFlagSet("replay", flag.ExitOnError)
	prefix := fs.String("prefix", "p", "id prefix")
	fs.Parse(args) // nolint:errcheck
	out := hx.NewOut()
	defer out.Close()
	rng := rand.New(rand.NewSource(hx.Seed()))
	n := 0
	err := hx.Lines(func(line []byte) error {
		var p evalrt.Program
		if err := json.Unmarshal(line, &p); err != nil {
			return fmt.Errorf("bad behaviour: %v", err)
		}
		n++
		style := evalrt.StyleFor(rng)
		res := runProgram(&p, style, line)
		res.ID = fmt.Sprintf("%s%d", *prefix, n)
		out.Write(res)
		// the same program once more as a whole, inside a subroutine frame (plain and functional), for the
		// programs with nesting; only if the step-wise replay agreed (otherwise the difference is already reported)
		if len(res.Mismatch) == 0 && res.Validated && p.Fin != nil && (p.Tag == "sim" || p.Tag == "pair" || p.Tag == "if-nested" || strings.HasPrefix(p.Tag, "canary")) {
			for _, functional := range []bool{false, true} {
				w := runWhole(&p, style, functional, line)
				w.ID = fmt.Sprintf("%s%d_whole_%v", *prefix, n, functional)
				out.Write(w)
			}
		}
		return nil
	})
	if err != nil {
		fmt.Fprintln(os.Stderr, err)
		return 2
	}
	return 0
}

func isFree(p *evalrt.Program, name string) bool {
	for _, n := range p.Free {
		if n == name {
			return true
		}
	}
	return false
}

func runProgram(p *evalrt.Program, style evalrt.Style, raw []byte) hx.CaseResult {
	res := hx.CaseResult{Validated: true}
	r := evalrt.Renderer{Scope: p.Scope, Style: style}
	var text strings.Builder
	for _, s := range p.Stmts {
		text.WriteString(r.Stmt(s, "  "))
	}
	h := sha1.Sum([]byte(p.Scope + "\n" + text.String()))
	res.Key = p.Tag + ":" + hex.EncodeToString(h[:6])
	input := map[string]any{"scope": p.Scope, "tag": p.Tag, "vcl": text.String()}
	res.Input = input
	res.Class = map[string]any{"tag": p.Tag, "scope": p.Scope}
	fail := func(item map[string]any) {
		res.Mismatch = append(res.Mismatch, item)
		input["beh"] = json.RawMessage(raw)
	}
	m, err := evalrt.NewMachine(p.Scope, "")
	if err != nil {
		res.Drift = append(res.Drift, map[string]any{"obs": "init", "error": err.Error()})
		return res
	}
	observed := []map[string]any{}
	for i, s := range p.Stmts {
		if i >= len(p.Exp) {
			break
		}
		exp := p.Exp[i]
		stext := r.Stmt(s, "")
		cls := stmtClass(s)
		cls["step"] = i + 1
		cls["stmt"] = strings.TrimSpace(stext)
		cls["neg_ident"] = stmtHas(s, func(e *evalrt.Expr) bool { return e.K == "neg" && e.E != nil && e.E.K == "id" })
		// a regular expression that can only match the empty string at some position (^, $, ^$, empty pattern)
		cls["empty_regex"] = stmtHas(s, func(e *evalrt.Expr) bool { return e.K == "match" && e.Rx != nil && len(e.Rx.Lit) == 0 })
		item := func(kv map[string]any) map[string]any {
			for k, v := range cls {
				if _, ok := kv[k]; !ok {
					kv[k] = v
				}
			}
			return kv
		}
		stmts, perr := evalrt.ParseStatements(stext)
		if perr != nil {
			// the concretiser produced text the parser rejects: a fault of the binding, not a verdict
			res.Drift = append(res.Drift, map[string]any{"obs": "parse", "stmt": stext, "error": perr.Error()})
			res.Validated = false
			return res
		}
		o := m.Exec(stmts)
		observed = append(observed, map[string]any{"step": i + 1, "outcome": o.Kind, "msg": o.Msg})
		switch exp.St {
		case "ok":
			if o.Kind != "ok" {
				fail(item(map[string]any{"obs": "status", "expected": "ok", "got": o.Kind, "msg": o.Msg}))
				res.Observed = observed
				return res
			}
		case "err":
			if o.Kind != "error" {
				fail(item(map[string]any{"obs": "status", "expected": "error", "got": o.Kind, "msg": o.Msg}))
			}
			res.Observed = observed
			return res
		default: // "unspec", "oor": any value or a reported error; a crash is C08's business, noted here
			if o.Kind == "crash" {
				res.Drift = append(res.Drift, item(map[string]any{"obs": "crash-in-unspecified", "msg": o.Msg}))
			}
			res.Observed = observed
			return res
		}
		// read the whole pool back
		for _, name := range evalrt.PoolNames {
			ev, ok := exp.S[name]
			if !ok || isFree(p, name) {
				continue
			}
			got := m.Read(name)
			if !evalrt.Same(ev, got) {
				fail(item(map[string]any{"obs": "value", "name": name, "is_target": s.K == "set" && s.Tgt == name,
					"expected": evalrt.ShowVal(ev), "got": evalrt.ShowGot(got)}))
			}
		}
		logs := m.Logs()
		if len(logs) != exp.NLogs {
			fail(item(map[string]any{"obs": "nlogs", "expected": exp.NLogs, "got": len(logs)}))
		} else if exp.NLogs > 0 && evalrt.NormText(logs[len(logs)-1]) != evalrt.NormText(strings.Join(exp.LastLog, "")) {
			fail(item(map[string]any{"obs": "log", "expected": strings.Join(exp.LastLog, ""), "got": logs[len(logs)-1]}))
		}
		if i == len(p.Exp)-1 {
			for _, pair := range p.Law {
				if len(pair) == 2 {
					a, b := m.Read(pair[0]), m.Read(pair[1])
					if a != b {
						fail(item(map[string]any{"obs": "law", "law": pair[0] + " = " + pair[1], "expected": "equal",
							"got": evalrt.ShowGot(a) + " vs " + evalrt.ShowGot(b)}))
					}
				}
			}
		}
		if len(res.Mismatch) > 0 {
			break // later steps would only repeat the difference
		}
	}
	res.Observed = observed
	return res
}

// runWhole executes the program as ONE subroutine body (its own frame of locals and re.group), followed by statements
// that export every pooled name to a header; the headers are compared with the final values TLC computed.
func runWhole(p *evalrt.Program, style evalrt.Style, functional bool, raw []byte) hx.CaseResult {
	res := hx.CaseResult{Validated: true}
	mode := "sub"
	if functional {
		mode = "functional-sub"
	}
	r := evalrt.Renderer{Scope: p.Scope, Style: style}
	last := p.Exp[len(p.Exp)-1]
	if last.St != "ok" && last.St != "err" {
		res.Validated = false // the reference stops predicting inside this program: nothing to compare as a whole
		res.Class = map[string]any{"tag": p.Tag, "mode": mode, "skipped": true}
		return res
	}
	var body strings.Builder
	for i, s := range p.Stmts {
		if i >= len(p.Exp) {
			break
		}
		body.WriteString(r.Stmt(s, "  "))
	}
	names := []string{}
	for _, n := range evalrt.PoolNames {
		if v, ok := p.Fin[n]; ok && v.T == "STR" {
			names = append(names, n)
			fmt.Fprintf(&body, "  set %s = %s;\n", evalrt.ExportName(n), evalrt.ConcreteName(p.Scope, n))
		}
	}
	src := "sub whole {\n" + body.String() + "}\n"
	if functional {
		src = "sub whole BOOL {\n" + body.String() + "  return true;\n}\n"
	}
	h := sha1.Sum([]byte(mode + p.Scope + src))
	res.Key = "whole:" + hex.EncodeToString(h[:6])
	input := map[string]any{"scope": p.Scope, "tag": p.Tag, "mode": mode, "vcl": src}
	res.Input = input
	res.Class = map[string]any{"tag": p.Tag, "scope": p.Scope, "mode": mode,
		"empty_regex": false, "kind": "whole"}
	for _, s := range p.Stmts {
		if stmtHas(s, func(e *evalrt.Expr) bool { return e.K == "match" && e.Rx != nil && len(e.Rx.Lit) == 0 }) {
			res.Class["empty_regex"] = true
		}
	}
	fail := func(item map[string]any) {
		res.Mismatch = append(res.Mismatch, item)
		input["beh"] = json.RawMessage(raw)
	}
	sub, perr := evalrt.ParseSubroutine(src)
	if perr != nil {
		res.Drift = append(res.Drift, map[string]any{"obs": "parse", "error": perr.Error()})
		res.Validated = false
		return res
	}
	m, err := evalrt.NewMachine(p.Scope, "")
	if err != nil {
		res.Drift = append(res.Drift, map[string]any{"obs": "init", "error": err.Error()})
		res.Validated = false
		return res
	}
	o := m.RunSub(sub, functional)
	res.Observed = map[string]any{"outcome": o.Kind, "msg": o.Msg}
	if last.St == "err" {
		if o.Kind != "error" {
			fail(map[string]any{"obs": "status", "expected": "error", "got": o.Kind, "msg": o.Msg})
		}
		return res
	}
	if o.Kind != "ok" {
		fail(map[string]any{"obs": "status", "expected": "ok", "got": o.Kind, "msg": o.Msg})
		return res
	}
	for _, n := range names {
		got := m.ReadConcrete(evalrt.ExportName(n))
		if !evalrt.Same(p.Fin[n], got) {
			fail(map[string]any{"obs": "value", "name": n, "expected": evalrt.ShowVal(p.Fin[n]), "got": evalrt.ShowGot(got)})
		}
	}
	if logs := m.Logs(); len(logs) != last.NLogs {
		fail(map[string]any{"obs": "nlogs", "expected": last.NLogs, "got": len(logs)})
	} else if last.NLogs > 0 && evalrt.NormText(logs[len(logs)-1]) != evalrt.NormText(strings.Join(last.LastLog, "")) {
		fail(map[string]any{"obs": "log", "expected": strings.Join(last.LastLog, ""), "got": logs[len(logs)-1]})
	}
	return res
}
