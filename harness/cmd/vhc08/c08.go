package main

// C08: totality. Cases emitted by spec/Total.tla (abstract: operand classes, call graphs, include graphs,
// built-in function x argument class vectors) are concretised to VCL and executed by the real interpreter.
//
// `run` executes the cases of stdin one after the other and prints one result line per case, flushed
// immediately. Nothing is recovered: a Go panic or fatal error kills this process exactly as it kills the
// simulator, and the supervising check (checks/c08.py) attributes the death / the missing answer to the
// first unanswered case (outcome "crash" / "hang").
//
// `builtins-tla` converts __generator__/builtin.yml of the tree under test into the TLA+ module
// BuiltinsTable (data for spec/Total.tla).

import (
	"bufio"
	"encoding/json"
	"flag"
	"fmt"
	"io"
	"net/http/httptest"
	"os"
	"path/filepath"
	"runtime/debug"
	"sort"
	"strings"
	"time"

	"gopkg.in/yaml.v3"

	"verif/harness/internal/evalrt"
	"verif/harness/internal/hx"

	"net/http"
	"net/url"
	"strconv"
	"sync"

	"github.com/ysugimoto/falco/v2/interpreter"
	"github.com/ysugimoto/falco/v2/interpreter/context"
	"github.com/ysugimoto/falco/v2/resolver"
)

func main() {
	// a runaway recursion must die quickly: the default limit of 1 GB per goroutine stack takes many seconds to
	// reach; the outcome (fatal error: stack overflow, process killed) is the same
	debug.SetMaxStack(32 << 20)
	hx.Commands["run"] = run
	hx.Commands["builtins-tla"] = builtinsTLA
	hx.Commands["variables-tla"] = variablesTLA
	hx.Main()
}

type tcase struct {
	K          string   `json:"k"`
	Vt         string   `json:"vt"`
	Op         string   `json:"op"`
	L          string   `json:"l"`
	Rt         string   `json:"rt"`
	R          string   `json:"r"`
	Form       string   `json:"form"`
	Fn         string   `json:"fn"`
	Scope      string   `json:"scope"`
	Ret        string   `json:"ret"`
	Types      []string `json:"types"`
	Classes    []int    `json:"classes"`
	Edges      [][2]int `json:"edges"`
	NReq       int      `json:"nreq"`
	Cyclic     bool     `json:"cyclic"`
	Functional bool     `json:"functional"`
	// lifecycle histories emitted by spec/LifecycleTotal.tla (same shape as Lifecycle.tla behaviours)
	Reqs []lcReq `json:"reqs"`
	// esi family
	Doc    []string `json:"doc"`
	Out    []string `json:"out"`
	ExpErr bool     `json:"experr"`
	Route  string   `json:"route"`
	// vars family
	Name string `json:"name"`
	// bigcalls family
	Shape     string `json:"shape"`
	Size      int    `json:"size"`
	Doubled   bool   `json:"doubled"`
	Recursive bool   `json:"recursive"`
	// jump / initerr / director families
	StmtC    string `json:"jstmt"`
	Nest     string `json:"nest"`
	CallKind string `json:"callkind"`
	Class    string `json:"class"`
	DType    string `json:"dtype"`
	Weight   string `json:"weight"`
	Quorum   string `json:"quorum"`
	Retries  string `json:"retries"`
	// request family: classes of method / path / query / headers and the program that inspects them
	Method  string `json:"method"`
	Path    string `json:"path"`
	Query   string `json:"query"`
	Headers string `json:"headers"`
	Prog    string `json:"prog"`
	// raw: direct VCL (seeded regression inputs)
	Setup string `json:"setup"`
	Stmt  string `json:"stmt"`
	VCL   string `json:"vcl"`
}

type behaviour struct {
	ID      string   `json:"id"`
	Case    tcase    `json:"case"`
	Allowed []string `json:"allowed"`
	Predict string   `json:"predict"`
	// k = "prog": a whole program of spec/EvalGen.tla (random walk over the statement alphabet of C07)
	Prog *evalrt.Program `json:"prog,omitempty"`
}

type result struct {
	ID       string `json:"id"`
	Outcome  string `json:"outcome"` // "value" | "error" | "unbound" (the concretiser could not express the case)
	Msg      string `json:"msg,omitempty"`
	Text     string `json:"text,omitempty"`
	Restarts int    `json:"restarts,omitempty"` // lifecycle cases: largest restart count reported for a request
	PerReq   string `json:"per_req,omitempty"`  // lifecycle cases: outcome of each request ("ok,error,...")
}

// ---------------------------------------------------------------- concretise: operand classes

// literal text and "variable" text (an expression that is not a literal) per type and class
func classText(t, c string) (lit string, viaVar string) {
	switch t {
	case "INTEGER":
		switch c {
		case "P31":
			return "2147483648", ""
		case "MAX":
			return "9223372036854775807", "math.INTEGER_MAX"
		case "MIN":
			return "-9223372036854775808", "math.INTEGER_MIN"
		}
		return c, ""
	case "FLOAT":
		switch c {
		case "BIG":
			return "1e308", "math.FLOAT_MAX"
		case "NAN":
			return "", "math.NAN"
		case "PINF":
			return "", "math.POS_INFINITY"
		case "NINF":
			return "", "math.NEG_INFINITY"
		}
		return c, ""
	case "STRING", "HEADER":
		switch c {
		case "empty":
			return `""`, ""
		case "notset":
			return "", "req.http.Never-Set"
		case "a":
			return `"a"`, ""
		case "num":
			return `"12"`, ""
		}
	case "BOOL":
		return c, ""
	case "RTIME":
		if c == "BIG" {
			return "290y", ""
		}
		return c, ""
	case "IP":
		switch c {
		case "v4":
			return `"192.0.2.1"`, ""
		case "v6":
			return `"2001:db8::1"`, ""
		case "notset":
			return "", "" // a declared, never assigned IP local
		}
	}
	return c, ""
}

// prepare returns statements that leave variable `name` of type t holding class c.
func prepare(name, t, c string) string {
	if t == "HEADER" {
		lit, _ := classText(t, c)
		if c == "notset" {
			return fmt.Sprintf("unset %s;\n", name)
		}
		return fmt.Sprintf("set %s = %s;\n", name, lit)
	}
	decl := fmt.Sprintf("declare local %s %s;\n", name, t)
	if c == "notset" {
		return decl // a declared, never assigned STRING / IP local is not set
	}
	lit, via := classText(t, c)
	if via != "" {
		return decl + fmt.Sprintf("set %s = %s;\n", name, via)
	}
	return decl + fmt.Sprintf("set %s = %s;\n", name, lit)
}

func assignText(c *tcase) (setup, stmt string, ok bool) {
	left := "var.l"
	if c.Vt == "HEADER" {
		left = "req.http.L"
	}
	setup = prepare(left, c.Vt, c.L)
	var rhs string
	if c.Form == "lit" {
		lit, _ := classText(c.Rt, c.R)
		if lit == "" {
			return "", "", false
		}
		rhs = lit
	} else {
		setup += prepare("var.r", c.Rt, c.R)
		rhs = "var.r"
	}
	return setup, fmt.Sprintf("set %s %s %s;\n", left, c.Op, rhs), true
}

// ---------------------------------------------------------------- concretise: built-in arguments

var argClasses = map[string][]string{
	// strings of length 0, 1, 2, 3 (sizes that multiply with counts), not set, and awkward contents
	// 9..20: truncated / malformed percent escapes as VALUES (%25 is the literal's escape for a percent sign), a lone
	// surrogate escape, invalid UTF-8 bytes, a lone quote, a lone backslash, separators only, 64 KiB, numeric garbage
	"STRING": {`""`, `"a"`, "req.http.Never-Set", `"%E3%81%82 \ ( [ * ? + {"`, `"ab"`, `"abc"`, `"-1"`, `"9999999999999999999999"`,
		`"rate=100%25"`, `"x%254"`, `"%25zz"`, `"%25u12"`, `"%25uD800"`, `digest.base64_decode("//5hwA==")`, `"%22"`, `"\"`, `",;=&,;=&"`, "var.long64k",
		`"0x"`, `"a=%25&b=%252&%25=c"`},
	// 2^62 and 2^62+1: with a size of 2..4 the product wraps around 2^63 / 2^64
	"INTEGER": {"0", "-1", "9223372036854775807", "64", "math.INTEGER_MIN", "1", "4611686018427387904", "4611686018427387905"},
	"FLOAT":   {"0.0", "-1.5", "math.FLOAT_MAX", "0.5", "math.NAN", "math.POS_INFINITY"},
	"BOOL":    {"true", "false"},
	// variadic string lists: zero-length is not expressible, so one, several, empty and not-set members
	"STRING_LIST": {`"a"`, `"a", "b", "c"`, `""`, "req.http.Never-Set", `"a", ""`, `"x-long-header-name", "a"`},
	"RTIME":       {"0s", "1s", "290y", "1ms", "-1s", "var.rneg"},
	"TIME":        {"now", "std.integer2time(-1)", "std.integer2time(9223372036854775807)", "std.integer2time(0)"},
	"IP":          {"client.ip", "var.ipunset", `"2001:db8::1"`, "server.ip"},
	"ID":          {"tbl", "req.http.H", "nothing_of_that_name", "internal"},
	"TABLE":       {"tbl", "itbl"},
	"ACL":         {"internal"},
	"BACKEND":     {"example", "req.backend"},
	"HEADER":      {"req.http.H", "req.http.Never-Set"},
}

const builtinDecls = `acl internal { "10.0.0.0"/8; }
table tbl STRING { "k": "v", }
table itbl INTEGER { "k": 1, }
ratecounter rc {}
penaltybox pb {}
`

const builtinSetup = `declare local var.long64k STRING;
set var.long64k = "%s";
declare local var.ipunset IP;
declare local var.rneg RTIME;
set var.rneg = 0s;
set var.rneg -= 290y;
set req.http.H = "h";
`

var builtinSetupCache string

func builtinSetupText() string {
	if builtinSetupCache == "" {
		builtinSetupCache = fmt.Sprintf(builtinSetup, strings.Repeat("0123456789abcdef", 4096))
	}
	return builtinSetupCache
}

func builtinText(c *tcase) (stmt string, ok bool) {
	args := make([]string, len(c.Types))
	for i, t := range c.Types {
		cl, known := argClasses[t]
		if !known {
			return "", false
		}
		k := 1
		if i < len(c.Classes) {
			k = c.Classes[i]
		}
		args[i] = cl[(k-1)%len(cl)]
	}
	call := fmt.Sprintf("%s(%s)", c.Fn, strings.Join(args, ", "))
	if c.Ret == "" || c.Ret == "VOID" {
		return call + ";\n", true
	}
	return "log " + call + ";\n", true
}

// ---------------------------------------------------------------- concretise: call graphs, include graphs

func callsVCL(c *tcase) string {
	var sb strings.Builder
	if c.Functional {
		sb.WriteString("sub vcl_recv {\n  set req.http.R = s1();\n  error 600;\n}\nsub vcl_error {\n  return (deliver);\n}\n")
		for n := 1; n <= 3; n++ {
			// no request header is written here: the request workspace accounting would end the recursion first
			fmt.Fprintf(&sb, "sub s%d STRING {\n  declare local var.x STRING;\n  declare local var.d INTEGER;\n  set var.d += %d;\n", n, n)
			for _, e := range c.Edges {
				if e[0] == n {
					fmt.Fprintf(&sb, "  set var.x = s%d();\n", e[1])
				}
			}
			fmt.Fprintf(&sb, "  return \"%d\";\n}\n", n)
		}
		return sb.String()
	}
	sb.WriteString("sub vcl_recv {\n  call s1;\n  error 600;\n}\nsub vcl_error {\n  return (deliver);\n}\n")
	for n := 1; n <= 3; n++ {
		fmt.Fprintf(&sb, "sub s%d {\n  declare local var.d INTEGER;\n  set var.d += %d;\n", n, n)
		for _, e := range c.Edges {
			if e[0] == n {
				fmt.Fprintf(&sb, "  call s%d;\n", e[1])
			}
		}
		sb.WriteString("}\n")
	}
	return sb.String()
}

func serve(ip *interpreter.Interpreter, n int) (string, string) {
	outcome, msg := "value", ""
	for k := 0; k < n; k++ {
		o, ok := serveOne(ip, httptest.NewRequest("GET", "http://localhost/p?q=1", nil))
		if !ok {
			return "hang", fmt.Sprintf("request %d of %d on one simulator instance was not answered within %s", k+1, n, requestBudget)
		}
		if o.errText != "" || o.status >= 500 {
			outcome = "error"
			msg = o.errText
			if len(msg) > 200 {
				msg = msg[:200]
			}
		}
	}
	return outcome, msg
}

type quiet struct{ interpreter.DefaultDebugger }

func (quiet) Message(string) {}

func runCalls(c *tcase) result {
	vcl := c.VCL
	if vcl == "" {
		vcl = callsVCL(c)
	}
	ip := interpreter.New(context.WithResolver(resolver.NewStaticResolver("main", vcl)))
	ip.Debugger = quiet{}
	n := c.NReq
	if n == 0 {
		n = 1
	}
	o, m := serve(ip, n)
	return result{Outcome: o, Msg: m, Text: vcl}
}

func runInclude(c *tcase) result {
	dir, err := os.MkdirTemp("", "vhc08inc")
	if err != nil {
		return result{Outcome: "unbound", Msg: err.Error()}
	}
	defer os.RemoveAll(dir)
	names := []string{"main", "m1", "m2"}
	var text strings.Builder
	for n, name := range names {
		var sb strings.Builder
		// node order in the edge list decides the order of the include statements
		es := [][2]int{}
		for _, e := range c.Edges {
			if e[0] == n {
				es = append(es, e)
			}
		}
		sort.Slice(es, func(i, j int) bool { return es[i][1] < es[j][1] })
		for _, e := range es {
			fmt.Fprintf(&sb, "include %q;\n", names[e[1]])
		}
		if n == 0 {
			sb.WriteString("sub vcl_recv {\n  error 600;\n}\nsub vcl_error {\n  return (deliver);\n}\n")
		} else {
			fmt.Fprintf(&sb, "table t_%s { \"k\": \"v\", }\n", name)
		}
		os.WriteFile(filepath.Join(dir, name+".vcl"), []byte(sb.String()), 0o644) // nolint:errcheck
		fmt.Fprintf(&text, "// %s.vcl\n%s", name, sb.String())
	}
	rs, err := resolver.NewFileResolvers(filepath.Join(dir, "main.vcl"), []string{dir})
	if err != nil || len(rs) == 0 {
		return result{Outcome: "unbound", Msg: fmt.Sprint(err)}
	}
	ip := interpreter.New(context.WithResolver(rs[0]))
	ip.Debugger = quiet{}
	o, m := serve(ip, 1)
	return result{Outcome: o, Msg: m, Text: text.String()}
}

func runStatements(scope, decls, setup, stmt string) result {
	text := setup + stmt
	m, err := evalrt.NewMachine(scope, decls)
	if err != nil {
		return result{Outcome: "unbound", Msg: "init: " + err.Error(), Text: text}
	}
	if setup != "" {
		ss, perr := evalrt.ParseStatements(setup)
		if perr != nil {
			return result{Outcome: "unbound", Msg: "setup does not parse: " + perr.Error(), Text: text}
		}
		if _, _, _, err := m.IP.ProcessBlockStatement(ss, interpreter.DebugPass, false); err != nil {
			return result{Outcome: "unbound", Msg: "setup failed: " + firstLine(err.Error()), Text: text}
		}
	}
	ss, perr := evalrt.ParseStatements(stmt)
	if perr != nil {
		// the statement is not a parseable program: outside the property ("every parseable program")
		return result{Outcome: "unbound", Msg: "statement does not parse: " + firstLine(perr.Error()), Text: text}
	}
	// no recover on purpose
	if _, _, _, err := m.IP.ProcessBlockStatement(ss, interpreter.DebugPass, false); err != nil {
		return result{Outcome: "error", Msg: firstLine(err.Error()), Text: text}
	}
	return result{Outcome: "value", Text: text}
}

func firstLine(s string) string {
	if i := strings.Index(s, "\n"); i > 0 {
		s = s[:i]
	}
	if len(s) > 240 {
		s = s[:240]
	}
	return s
}

func run(args []string) int {
	fs := flag.NewFlagSet("run", flag.ExitOnError)
	fs.Parse(args) // nolint:errcheck
	w := bufio.NewWriter(os.Stdout)
	enc := json.NewEncoder(w)
	sc := bufio.NewScanner(os.Stdin)
	sc.Buffer(make([]byte, 1<<20), 1<<26)
	for sc.Scan() {
		line := sc.Bytes()
		if len(line) == 0 {
			continue
		}
		var b behaviour
		if err := json.Unmarshal(line, &b); err != nil {
			fmt.Fprintln(os.Stderr, "bad case:", err)
			return 2
		}
		// announce the case before running it, so that the supervisor knows which one was in flight
		fmt.Fprintf(w, "{\"start\":%q}\n", b.ID)
		w.Flush()
		var r result
		c := &b.Case
		switch c.K {
		case "assign":
			setup, stmt, ok := assignText(c)
			if !ok {
				r = result{Outcome: "unbound", Msg: "class has no literal"}
			} else {
				r = runStatements("recv", "", setup, stmt)
			}
		case "builtin":
			stmt, ok := builtinText(c)
			scope := strings.ToLower(c.Scope)
			if !ok {
				r = result{Outcome: "unbound", Msg: "argument type without classes"}
			} else {
				r = runStatements(scope, builtinDecls, builtinSetupText(), stmt)
			}
		case "stmt":
			if c.Stmt == "VERIF-CANARY-PANIC" && os.Getenv("VERIF_CANARY") == "1" {
				var m map[string]int
				m["canary"] = 1 // deliberate Go panic: the supervisor must see this child die
			}
			scope := c.Scope
			if scope == "" {
				scope = "recv"
			}
			r = runStatements(scope, builtinDecls, c.Setup, c.Stmt)
		case "calls", "serve":
			r = runCalls(c)
		case "include":
			r = runInclude(c)
		case "lifecycle":
			r = runLifecycle(c)
		case "request":
			r = runRequest(c)
		case "prog":
			r = runProg(b.Prog)
		case "jump":
			r = runJump(c)
		case "bigcalls":
			r = runBigCalls(c)
		case "vars":
			r = runVars(c)
		case "esi":
			r = runEsi(c)
		case "initerr":
			r = runInitErr(c)
		case "director":
			r = runDirector(c)
		default:
			r = result{Outcome: "unbound", Msg: "unknown case kind " + c.K}
		}
		r.ID = b.ID
		enc.Encode(r) // nolint:errcheck
		w.Flush()
		if r.Outcome == "hang" {
			// the abandoned request may spin and allocate for ever: this child is done (the supervisor starts a new one)
			os.Exit(7)
		}
	}
	return 0
}

// ---------------------------------------------------------------- builtin.yml -> TLA+

func builtinsTLA(args []string) int {
	fs := flag.NewFlagSet("builtins-tla", flag.ExitOnError)
	in := fs.String("yml", "", "path of __generator__/builtin.yml")
	fs.Parse(args) // nolint:errcheck
	data, err := os.ReadFile(*in)
	if err != nil {
		fmt.Fprintln(os.Stderr, err)
		return 2
	}
	var y map[string]struct {
		On        []string   `yaml:"on"`
		Arguments [][]string `yaml:"arguments"`
		Return    string     `yaml:"return"`
	}
	if err := yaml.Unmarshal(data, &y); err != nil {
		fmt.Fprintln(os.Stderr, err)
		return 2
	}
	names := make([]string, 0, len(y))
	for n := range y {
		names = append(names, n)
	}
	sort.Strings(names)
	var sb strings.Builder
	sb.WriteString("---------------------------- MODULE BuiltinsTable ----------------------------\n")
	sb.WriteString("(* generated from __generator__/builtin.yml by `vhc08 builtins-tla` - data for Total.tla *)\n")
	sb.WriteString("Builtins == <<\n")
	for i, n := range names {
		f := y[n]
		scope := "RECV"
		if len(f.On) > 0 {
			scope = f.On[0]
		}
		sigs := f.Arguments
		if len(sigs) == 0 {
			sigs = [][]string{{}}
		}
		var ss []string
		for _, sig := range sigs {
			q := make([]string, len(sig))
			for j, t := range sig {
				q[j] = fmt.Sprintf("%q", t)
			}
			ss = append(ss, "<<"+strings.Join(q, ", ")+">>")
		}
		ret := f.Return
		if ret == "" {
			ret = "VOID"
		}
		fmt.Fprintf(&sb, "  [fn |-> %q, scope |-> %q, ret |-> %q, sigs |-> <<%s>>]", n, scope, ret, strings.Join(ss, ", "))
		if i+1 < len(names) {
			sb.WriteString(",")
		}
		sb.WriteString("\n")
	}
	sb.WriteString(">>\n=============================================================================\n")
	fmt.Print(sb.String())
	return 0
}

// ---------------------------------------------------------------- lifecycle histories (restart / error in every scope)

type lcChoice struct {
	Sub string `json:"sub"`
	At  int    `json:"at"`
	Beh string `json:"beh"`
}

type lcReq struct {
	URL     string     `json:"url"`
	Status  int        `json:"status"`
	Prog    []lcChoice `json:"prog"`
	Outcome string     `json:"outcome"`
}

var lcSubs = []string{"recv", "hash", "hit", "miss", "pass", "fetch", "error", "deliver", "log"}

// the concretisation of a behaviour label is the one harness/cmd/vhc06 uses
func lcStmt(b string) string {
	switch b {
	case "none":
		return ""
	case "error_stmt":
		return "error 601;"
	case "error_ret":
		return "return(error);"
	case "restart_stmt":
		return "restart;"
	case "restart_ret":
		return "return(restart);"
	case "expire":
		return "set obj.ttl = 1ms;"
	case "ttl0":
		return "set beresp.ttl = 0s;"
	case "uncacheable":
		return "set beresp.cacheable = false;"
	default:
		return "return(" + b + ");"
	}
}

var stub *httptest.Server
var stubMu sync.Mutex
var stubBodies = map[string]string{}

func stubBackend() string {
	if stub == nil {
		stub = httptest.NewServer(http.HandlerFunc(func(w http.ResponseWriter, r *http.Request) {
			st := 200
			if v := r.Header.Get("X-Status"); v != "" {
				if n, err := strconv.Atoi(v); err == nil {
					st = n
				}
			}
			w.Header().Set("Cache-Control", "max-age=100")
			w.WriteHeader(st)
			if r.URL.Path == "/frag" {
				w.Write([]byte("FRAG")) // nolint:errcheck
				return
			}
			if id := r.Header.Get("X-Body"); id != "" {
				stubMu.Lock()
				b := stubBodies[id]
				stubMu.Unlock()
				w.Write([]byte(b)) // nolint:errcheck
				return
			}
			w.Write([]byte("OK")) // nolint:errcheck
		}))
	}
	u, _ := url.Parse(stub.URL)
	return fmt.Sprintf("backend example { .host = \"%s\"; .port = \"%s\"; .ssl = false; }\n", u.Hostname(), u.Port())
}

func runLifecycle(c *tcase) result {
	var sb strings.Builder
	sb.WriteString(stubBackend())
	for _, s := range lcSubs {
		fmt.Fprintf(&sb, "sub vcl_%s {\n", s)
		for n, r := range c.Reqs {
			for _, ch := range r.Prog {
				if ch.Sub == s && ch.Beh != "none" {
					fmt.Fprintf(&sb, "  if (req.http.X-Req == \"%d\" && req.restarts == %d) { %s }\n", n+1, ch.At, lcStmt(ch.Beh))
				}
			}
		}
		sb.WriteString("}\n")
	}
	vcl := sb.String()
	ip := interpreter.New(context.WithResolver(resolver.NewStaticResolver("main", vcl)))
	ip.Debugger = quiet{}
	res := result{Outcome: "value", Text: vcl}
	var per []string
	for k, r := range c.Reqs {
		rec := httptest.NewRecorder()
		req := httptest.NewRequest("GET", "http://localhost/"+r.URL, nil)
		req.Header.Set("X-Req", strconv.Itoa(k+1))
		req.Header.Set("X-Status", strconv.Itoa(r.Status))
		ip.ServeHTTP(rec, req)
		hr := rec.Result()
		body, _ := io.ReadAll(hr.Body)
		var rep struct {
			Restarts int    `json:"restarts"`
			Error    string `json:"error"`
		}
		json.Unmarshal(body, &rep) // nolint:errcheck
		if rep.Restarts > res.Restarts {
			res.Restarts = rep.Restarts
		}
		if rep.Error != "" || hr.StatusCode != 200 {
			per = append(per, "error")
			res.Outcome = "error"
			res.Msg = firstLine(rep.Error)
		} else {
			per = append(per, "ok")
		}
	}
	res.PerReq = strings.Join(per, ",")
	return res
}

// ---------------------------------------------------------------- request family

var reqProgs = map[string]string{
	"echo": `sub vcl_recv {
  set req.http.X = req.url;
  set req.http.Y = req.http.A req.method req.url.path req.url.qs req.url.basename req.url.ext req.url.dirname;
  set req.http.Z = req.http.host req.proto client.ip;
  log req.http.X req.http.Y req.http.Z;
  if (req.http.A) { set req.http.L = std.strlen(req.http.A); }
  unset req.http.A;
  error 600;
}
`,
	"query": `sub vcl_recv {
  set req.url = querystring.sort(req.url);
  set req.http.Q1 = querystring.get(req.url, "a");
  set req.url = querystring.filter(req.url, "a");
  set req.url = querystring.add(req.url, "z", req.http.A);
  set req.http.Q2 = subfield(req.url.qs, "b", "&");
  set req.url = querystring.clean(req.url);
  set req.url = querystring.remove(req.url);
  set req.http.N = std.atoi(req.http.A);
  set req.http.U = urldecode(req.url) urlencode(req.http.A);
  error 600;
}
`,
	"regex": `sub vcl_recv {
  if (req.http.A ~ "(a+)+$") { set req.http.R1 = "1"; }
  if (req.url ~ "^/(.*)/(.*)$") { set req.http.G = re.group.2 re.group.1; }
  set req.http.R2 = regsuball(req.url, "a*", "x");
  set req.http.R3 = regsub(req.http.A, "(.)(.)", "\\2\\1");
  if (req.url.path ~ "(?i)\\.(JPG|png)$" || req.http.A !~ "^$") { set req.http.R4 = "1"; }
  error 600;
}
`,
	"cookie": `sub vcl_recv {
  set req.http.C1 = req.http.Cookie:a;
  unset req.http.Cookie:a;
  set req.http.Cookie:b = req.http.A;
  set req.http.C2 = req.http.Cookie;
  set req.http.A:k = "v";
  set req.http.C3 = req.http.A:k;
  unset req.http.A:k;
  add req.http.A = "again";
  error 600;
}
`,
}

func runRequest(c *tcase) result {
	prog, ok := reqProgs[c.Prog]
	if !ok {
		return result{Outcome: "unbound", Msg: "unknown program " + c.Prog}
	}
	vcl := prog + "sub vcl_error {\n  return (deliver);\n}\n"
	method := map[string]string{"GET": "GET", "POST": "POST", "PURGE": "FASTLYPURGE", "WEIRD": "M-SEARCH"}[c.Method]
	path := map[string]string{"root": "/", "deep": "/a/b/c.d/e.jpg", "long": "/" + strings.Repeat("a", 8200),
		"nonascii": "/\u65e5\u672c/\u00e9 x", "encoded": "/%2e%2e/%00/a%20b"}[c.Path]
	query := map[string]string{"none": "", "empty": "?", "dup": "?a=1&a=2&b&=c&a", "long": "?a=" + strings.Repeat("b", 9000),
		"odd": "?%zz=%&&&;a=b=c"}[c.Query]
	u, err := url.ParseRequestURI(path + query)
	if err != nil {
		// net/http would reject this request line before the simulator sees it
		u = &url.URL{Path: path, RawQuery: strings.TrimPrefix(query, "?")}
	}
	req := &http.Request{Method: method, URL: u, Proto: "HTTP/1.1", ProtoMajor: 1, ProtoMinor: 1, Header: http.Header{},
		Host: "localhost", RemoteAddr: "192.0.2.1:1234", Body: http.NoBody, RequestURI: u.RequestURI()}
	switch c.Headers {
	case "none":
	case "plain":
		req.Header.Set("A", "abc")
		req.Header.Set("Cookie", "a=1; b=2")
	case "dup":
		req.Header.Add("A", "1")
		req.Header.Add("A", "2")
		req.Header.Add("Cookie", "a=1")
		req.Header.Add("Cookie", "a=2; ; =x; b")
	case "empty":
		req.Header.Set("A", "")
		req.Header.Set("Cookie", "")
	case "long":
		req.Header.Set("A", strings.Repeat("h", 9000))
		req.Header.Set("Cookie", "a="+strings.Repeat("c", 40000))
	case "evil":
		req.Header.Set("A", strings.Repeat("a", 40)+"!")
		req.Header.Set("Cookie", "a=\"q\"; $Version=1")
	case "nonascii":
		req.Header.Set("A", "\u65e5\u672c\x00\xff")
		req.Header.Set("Cookie", "a=\u00e9")
	}
	ip := interpreter.New(context.WithResolver(resolver.NewStaticResolver("main", vcl)))
	ip.Debugger = quiet{}
	rec := httptest.NewRecorder()
	ip.ServeHTTP(rec, req)
	hr := rec.Result()
	body, _ := io.ReadAll(hr.Body)
	var rep struct {
		Error string `json:"error"`
	}
	json.Unmarshal(body, &rep) // nolint:errcheck
	text := fmt.Sprintf("%s %s headers=%s\n%s", method, firstLine(u.String()), c.Headers, vcl)
	if rep.Error != "" || hr.StatusCode >= 500 {
		return result{Outcome: "error", Msg: firstLine(rep.Error), Text: text}
	}
	return result{Outcome: "value", Text: text}
}

// ---------------------------------------------------------------- whole programs of EvalGen.tla

// runProg executes every top-level statement of a random program (also past the point where the reference
// evaluator of C07 stops predicting); only totality is observed.
func runProg(p *evalrt.Program) result {
	if p == nil {
		return result{Outcome: "unbound", Msg: "no program"}
	}
	r := evalrt.Renderer{Scope: p.Scope, Style: evalrt.Style{ElseIf: "else if"}}
	var text strings.Builder
	for _, s := range p.Stmts {
		text.WriteString(r.Stmt(s, ""))
	}
	m, err := evalrt.NewMachine(p.Scope, "")
	if err != nil {
		return result{Outcome: "unbound", Msg: err.Error()}
	}
	for _, s := range p.Stmts {
		ss, perr := evalrt.ParseStatements(r.Stmt(s, ""))
		if perr != nil {
			return result{Outcome: "unbound", Msg: "statement does not parse: " + firstLine(perr.Error()), Text: text.String()}
		}
		if _, _, _, err := m.IP.ProcessBlockStatement(ss, interpreter.DebugPass, false); err != nil {
			return result{Outcome: "error", Msg: firstLine(err.Error()), Text: text.String()}
		}
	}
	return result{Outcome: "value", Text: text.String()}
}

// ---------------------------------------------------------------- histories on one instance with a per-request watchdog

const requestBudget = 20 * time.Second // normal: a few milliseconds

type reqOutcome struct {
	status   int
	errText  string
	restarts int
}

// serveOne sends one request to the instance; a request that is not answered within the budget is a hang
// (the goroutine is abandoned - e.g. blocked on the instance lock).
func serveOne(ip *interpreter.Interpreter, req *http.Request) (reqOutcome, bool) {
	done := make(chan reqOutcome, 1)
	go func() {
		rec := httptest.NewRecorder()
		ip.ServeHTTP(rec, req)
		hr := rec.Result()
		body, _ := io.ReadAll(hr.Body)
		var rep struct {
			Restarts int    `json:"restarts"`
			Error    string `json:"error"`
		}
		json.Unmarshal(body, &rep) // nolint:errcheck
		e := rep.Error
		if e == "" && hr.StatusCode >= 500 {
			e = strings.TrimSpace(string(body))
		}
		done <- reqOutcome{status: hr.StatusCode, errText: firstLine(e), restarts: rep.Restarts}
	}()
	select {
	case o := <-done:
		return o, true
	case <-time.After(requestBudget):
		return reqOutcome{}, false
	}
}

func serveHistory(vcl string, ip *interpreter.Interpreter, n int) result {
	res := result{Outcome: "value", Text: vcl}
	var per []string
	for k := 0; k < n; k++ {
		req := httptest.NewRequest("GET", "http://localhost/h", nil)
		req.Header.Set("X-Req", strconv.Itoa(k+1))
		o, ok := serveOne(ip, req)
		if !ok {
			res.Outcome = "hang"
			res.Msg = fmt.Sprintf("request %d of %d on one simulator instance was not answered within %s", k+1, n, requestBudget)
			res.PerReq = strings.Join(append(per, "hang"), ",")
			return res
		}
		if o.restarts > res.Restarts {
			res.Restarts = o.restarts
		}
		if o.errText != "" || o.status >= 500 {
			per = append(per, "error")
			res.Outcome = "error"
			res.Msg = o.errText
		} else {
			per = append(per, "ok")
		}
	}
	res.PerReq = strings.Join(per, ",")
	return res
}

// ---------------------------------------------------------------- jump family

var forwardAction = map[string]string{"recv": "lookup", "hit": "deliver", "miss": "fetch", "pass": "pass", "fetch": "deliver",
	"error": "deliver", "deliver": "deliver"}

func runJump(c *tcase) result {
	var stmt string
	switch c.StmtC {
	case "restart_stmt":
		stmt = "restart;"
	case "restart_ret":
		stmt = "return(restart);"
	case "error_stmt":
		stmt = "error 601;"
	case "error_ret":
		stmt = "return(error);"
	case "synthetic_stmt":
		stmt = "synthetic \"body\";"
	case "synthetic64_stmt":
		stmt = "synthetic.base64 \"Ym9keQ==\";"
	case "esi_stmt":
		stmt = "esi;"
	default:
		stmt = "return(" + forwardAction[c.Scope] + ");"
	}
	var body string
	switch c.Nest {
	case "top":
		body = "  " + stmt + "\n"
	case "if":
		body = "  if (!req.http.Never-Set) {\n    " + stmt + "\n  }\n"
	case "switch":
		body = "  switch (req.http.Never-Set) {\n  case \"x\":\n    break;\n  default:\n    " + stmt + "\n    break;\n  }\n"
	default:
		body = "  {\n    " + stmt + "\n  }\n"
	}
	var sb strings.Builder
	sb.WriteString(stubBackend())
	var invoke string
	switch c.CallKind {
	case "plain":
		sb.WriteString("sub bounce {\n" + body + "}\n")
		invoke = "  call bounce;\n"
	case "fcall":
		sb.WriteString("sub bounce BOOL {\n" + body + "  return true;\n}\n")
		invoke = "  call bounce;\n"
	default:
		sb.WriteString("sub bounce BOOL {\n" + body + "  return true;\n}\n")
		invoke = "  if (bounce()) {\n    set req.http.Bounced = \"1\";\n  }\n"
	}
	// the route that leads a request into the scope under test (hit: the second and third request find the object)
	switch c.Scope {
	case "recv":
		fmt.Fprintf(&sb, "sub vcl_recv {\n%s  return(lookup);\n}\n", invoke)
	case "hit", "miss", "fetch", "deliver":
		fmt.Fprintf(&sb, "sub vcl_recv {\n  return(lookup);\n}\nsub vcl_%s {\n%s}\n", c.Scope, invoke)
	case "pass":
		fmt.Fprintf(&sb, "sub vcl_recv {\n  return(pass);\n}\nsub vcl_pass {\n%s}\n", invoke)
	case "error":
		fmt.Fprintf(&sb, "sub vcl_recv {\n  error 600;\n}\nsub vcl_error {\n%s}\n", invoke)
	}
	vcl := sb.String()
	ip := interpreter.New(context.WithResolver(resolver.NewStaticResolver("main", vcl)))
	ip.Debugger = quiet{}
	return serveHistory(vcl, ip, c.NReq)
}

// ---------------------------------------------------------------- init-error family

func runInitErr(c *tcase) result {
	base := "sub vcl_recv {\n  error 600;\n}\nsub vcl_error {\n  return (deliver);\n}\n"
	backend := func(n string) string { return fmt.Sprintf("backend %s { .host = \"127.0.0.1\"; .port = \"1\"; }\n", n) }
	var vcl string
	useFiles := false
	switch c.Class {
	case "dup-sub":
		vcl = "sub helper {\n  set req.http.A = \"1\";\n}\nsub helper {\n  set req.http.A = \"2\";\n}\n" + base
	case "dup-table":
		vcl = "table t { \"k\": \"v\", }\ntable t { \"k\": \"w\", }\n" + base
	case "dup-acl":
		vcl = "acl a { \"10.0.0.0\"/8; }\nacl a { \"10.0.0.0\"/8; }\n" + base
	case "dup-backend":
		vcl = backend("b") + backend("b") + base
	case "dup-director":
		vcl = backend("b") + "director d random { { .backend = b; .weight = 1; } }\ndirector d random { { .backend = b; .weight = 1; } }\n" + base
	case "six-backends":
		for k := 1; k <= 6; k++ {
			vcl += backend(fmt.Sprintf("b%d", k))
		}
		vcl += base
	case "include-missing":
		vcl = "include \"nowhere\";\n" + base
		useFiles = true
	case "include-self":
		vcl = "include \"main\";\n" + base
		useFiles = true
	case "call-tree":
		var sb strings.Builder
		sb.WriteString("sub l3 {\n  set req.http.A = \"1\";\n}\nsub l2 {\n")
		for k := 0; k < 180; k++ {
			sb.WriteString("  call l3;\n")
		}
		sb.WriteString("}\nsub l1 {\n")
		for k := 0; k < 180; k++ {
			sb.WriteString("  call l2;\n")
		}
		sb.WriteString("}\nsub vcl_recv {\n  call l1;\n  error 600;\n}\nsub vcl_error {\n  return (deliver);\n}\n")
		vcl = sb.String()
	case "director-empty":
		vcl = "director d random { .quorum = 50%; }\n" + base
	case "parse-error":
		vcl = "sub vcl_recv {\n  set req.http.A = ;\n}\n"
	default: // "runtime-control": initialisation succeeds, the request fails at run time
		vcl = "sub vcl_recv {\n  declare local var.i INTEGER;\n  set var.i /= 0;\n}\n"
	}
	var ip *interpreter.Interpreter
	if useFiles {
		dir, err := os.MkdirTemp("", "vhc08init")
		if err != nil {
			return result{Outcome: "unbound", Msg: err.Error()}
		}
		defer os.RemoveAll(dir)
		os.WriteFile(filepath.Join(dir, "main.vcl"), []byte(vcl), 0o644) // nolint:errcheck
		rs, err := resolver.NewFileResolvers(filepath.Join(dir, "main.vcl"), []string{dir})
		if err != nil || len(rs) == 0 {
			return result{Outcome: "unbound", Msg: fmt.Sprint(err)}
		}
		ip = interpreter.New(context.WithResolver(rs[0]))
	} else {
		ip = interpreter.New(context.WithResolver(resolver.NewStaticResolver("main", vcl)))
	}
	ip.Debugger = quiet{}
	text := vcl
	if len(text) > 600 {
		text = text[:300] + "\n...\n" + text[len(text)-200:]
	}
	r := serveHistory(text, ip, c.NReq)
	return r
}

// ---------------------------------------------------------------- director family

func runDirector(c *tcase) result {
	num := func(s string) string {
		if s == "MAX" {
			return "9223372036854775807"
		}
		return s
	}
	var sb strings.Builder
	sb.WriteString(stubBackend())
	be := stubBackend()
	sb.WriteString(strings.Replace(be, "backend example", "backend second", 1))
	dtype, nested := c.DType, false
	if strings.HasSuffix(dtype, "-of-director") {
		dtype, nested = strings.TrimSuffix(dtype, "-of-director"), true
		sb.WriteString("director inner random {\n  { .backend = example; .weight = 1; }\n}\n")
	}
	target := "d"
	if dtype == "plain" {
		target = "second"
	} else {
		member := "second"
		if nested {
			member = "inner"
		}
		fmt.Fprintf(&sb, "director d %s {\n", dtype)
		if dtype != "fallback" {
			fmt.Fprintf(&sb, "  .quorum = %s%%;\n", c.Quorum)
		}
		if dtype == "random" {
			fmt.Fprintf(&sb, "  .retries = %s;\n", num(c.Retries))
		}
		switch dtype {
		case "fallback":
			fmt.Fprintf(&sb, "  { .backend = example; }\n  { .backend = %s; }\n", member)
		case "chash":
			fmt.Fprintf(&sb, "  { .backend = example; .id = \"a\"; }\n  { .backend = %s; .id = \"b\"; }\n", member)
		default:
			fmt.Fprintf(&sb, "  { .backend = example; .weight = 500; }\n  { .backend = %s; .weight = %s; }\n", member, num(c.Weight))
		}
		sb.WriteString("}\n")
	}
	set := "  set req.backend = " + target + ";\n"
	once := func(body string) string { return "  if (req.restarts == 0) {\n  " + body + "  }\n" }
	switch c.Route {
	case "recv-lookup":
		sb.WriteString("sub vcl_recv {\n" + set + "  return(lookup);\n}\n")
	case "miss":
		sb.WriteString("sub vcl_recv {\n  return(lookup);\n}\nsub vcl_miss {\n" + set + "}\n")
	case "pass":
		sb.WriteString("sub vcl_recv {\n  return(pass);\n}\nsub vcl_pass {\n" + set + "}\n")
	case "hit":
		sb.WriteString("sub vcl_recv {\n  return(lookup);\n}\nsub vcl_hit {\n" + set + "  return(pass);\n}\n")
	case "fetch-restart":
		sb.WriteString("sub vcl_recv {\n  return(pass);\n}\nsub vcl_fetch {\n" + once(set+"    restart;\n") + "}\n")
	case "error-restart":
		sb.WriteString("sub vcl_recv {\n" + once("  error 600;\n") + "  return(pass);\n}\nsub vcl_error {\n" + once(set+"    restart;\n") + "}\n")
	case "deliver-restart":
		sb.WriteString("sub vcl_recv {\n  return(pass);\n}\nsub vcl_deliver {\n" + once(set+"    restart;\n") + "}\n")
	default: // "recv-pass"
		sb.WriteString("sub vcl_recv {\n" + set + "  return(pass);\n}\n")
	}
	vcl := sb.String()
	ip := interpreter.New(context.WithResolver(resolver.NewStaticResolver("main", vcl)))
	ip.Debugger = quiet{}
	return serveHistory(vcl, ip, c.NReq)
}

// ---------------------------------------------------------------- large structured call graphs

func runBigCalls(c *tcase) result {
	n := c.Size
	callees := func(k int) []int {
		var out []int
		switch c.Shape {
		case "ring":
			if k+1 < n {
				out = []int{k + 1}
				if c.Doubled {
					out = append(out, k+1)
				}
			} else if c.Recursive {
				out = []int{0}
			}
		case "ladder":
			for _, d := range []int{1, 2} {
				if k+d < n {
					out = append(out, k+d)
				} else if c.Recursive {
					out = append(out, 0)
				}
			}
			if c.Doubled && k+1 < n {
				out = append(out, k+1)
			}
		default: // layers of 3
			layer := k / 3
			if (layer+1)*3+2 < n {
				for j := 0; j < 3; j++ {
					out = append(out, (layer+1)*3+j)
					if c.Doubled {
						out = append(out, (layer+1)*3+j)
					}
				}
			} else if c.Recursive {
				out = []int{0}
			}
		}
		return out
	}
	var sb strings.Builder
	for k := 0; k < n; k++ {
		if c.Functional {
			fmt.Fprintf(&sb, "sub s%d STRING {\n  declare local var.x STRING;\n", k)
			for _, t := range callees(k) {
				fmt.Fprintf(&sb, "  set var.x = s%d();\n", t)
			}
			sb.WriteString("  return \"x\";\n}\n")
		} else {
			fmt.Fprintf(&sb, "sub s%d {\n", k)
			for _, t := range callees(k) {
				fmt.Fprintf(&sb, "  call s%d;\n", t)
			}
			sb.WriteString("}\n")
		}
	}
	// the entry is guarded by a header no request carries: the graph is declared (and walked at initialisation) but an
	// acyclic graph with exponentially many paths is not *executed* - executing 2^60 calls is not the simulator's fault
	if c.Functional {
		sb.WriteString("sub vcl_recv {\n  if (req.http.Run-It) {\n    set req.http.R = s0();\n  }\n  error 600;\n}\n")
	} else {
		sb.WriteString("sub vcl_recv {\n  if (req.http.Run-It) {\n    call s0;\n  }\n  error 600;\n}\n")
	}
	sb.WriteString("sub vcl_error {\n  return (deliver);\n}\n")
	vcl := sb.String()
	ip := interpreter.New(context.WithResolver(resolver.NewStaticResolver("main", vcl)))
	ip.Debugger = quiet{}
	text := vcl
	if len(text) > 700 {
		text = text[:400] + "\n...\n" + text[len(text)-250:]
	}
	r := serveHistory(text, ip, c.NReq)
	return r
}

// ---------------------------------------------------------------- predefined variables read after unusual paths

func variablesTLA(args []string) int {
	fs := flag.NewFlagSet("variables-tla", flag.ExitOnError)
	in := fs.String("yml", "", "path of __generator__/predefined.yml")
	fs.Parse(args) // nolint:errcheck
	data, err := os.ReadFile(*in)
	if err != nil {
		fmt.Fprintln(os.Stderr, err)
		return 2
	}
	var y map[string]struct {
		On  []string `yaml:"on"`
		Get string   `yaml:"get"`
	}
	if err := yaml.Unmarshal(data, &y); err != nil {
		fmt.Fprintln(os.Stderr, err)
		return 2
	}
	names := []string{}
	for n, v := range y {
		if v.Get == "" {
			continue
		}
		plain := true
		for _, ch := range n {
			if !(ch >= 'a' && ch <= 'z' || ch >= 'A' && ch <= 'Z' || ch >= '0' && ch <= '9' || ch == '.' || ch == '_') {
				plain = false
			}
		}
		if plain {
			names = append(names, n)
		}
	}
	sort.Strings(names)
	var sb strings.Builder
	sb.WriteString("---------------------------- MODULE VariablesTable ----------------------------\n")
	sb.WriteString("(* generated from __generator__/predefined.yml by `vhc08 variables-tla` - data for Total.tla *)\n")
	sb.WriteString("Variables == <<\n")
	first := true
	for _, n := range names {
		var sc []string
		for _, s := range y[n].On {
			if s == "LOG" || s == "ERROR" || s == "DELIVER" {
				sc = append(sc, fmt.Sprintf("%q", strings.ToLower(s)))
			}
		}
		if len(sc) == 0 {
			continue
		}
		if !first {
			sb.WriteString(",\n")
		}
		first = false
		fmt.Fprintf(&sb, "  [name |-> %q, scopes |-> {%s}]", n, strings.Join(sc, ", "))
	}
	// pattern-named variables (headers of every HTTP object, sub-fields) do not have a plain entry: representatives
	for _, n := range []string{"req.http.X-A", "bereq.http.X-A", "beresp.http.X-A", "obj.http.X-A", "resp.http.X-A",
		"bereq.http.Cookie:a", "beresp.http.Set-Cookie:a", "resp.http.Vary:a"} {
		fmt.Fprintf(&sb, ",\n  [name |-> %q, scopes |-> {\"error\", \"deliver\", \"log\"}]", n)
	}
	sb.WriteString("\n>>\n=============================================================================\n")
	fmt.Print(sb.String())
	return 0
}

func runVars(c *tcase) result {
	var sb strings.Builder
	sb.WriteString(stubBackend())
	read := fmt.Sprintf("  log %s;\n", c.Name)
	subs := map[string]string{}
	switch c.Path {
	case "error-recv":
		subs["recv"] = "  error 600;\n"
	case "error-miss":
		subs["recv"] = "  return(lookup);\n"
		subs["miss"] = "  error 601;\n"
	case "restart-after-error":
		subs["recv"] = "  if (req.restarts == 0) {\n    error 600;\n  }\n  return(pass);\n"
		subs["error"] = "  if (req.restarts == 0) {\n    restart;\n  }\n"
	case "pass":
		subs["recv"] = "  return(pass);\n"
	case "deliver-stale":
		subs["recv"] = "  return(lookup);\n"
		subs["miss"] = "  return(deliver_stale);\n"
	case "synthetic":
		subs["recv"] = "  error 600;\n"
		subs["error"] = "  synthetic \"body\";\n  return(deliver);\n"
	case "error-fetch":
		subs["recv"] = "  return(lookup);\n"
		subs["fetch"] = "  error 602;\n"
	default: // "normal"
		subs["recv"] = "  return(lookup);\n"
	}
	// the read comes first in its subroutine
	subs[c.Scope] = read + subs[c.Scope]
	for _, n := range []string{"recv", "miss", "fetch", "error", "deliver", "log"} {
		if b, ok := subs[n]; ok {
			fmt.Fprintf(&sb, "sub vcl_%s {\n%s}\n", n, b)
		}
	}
	vcl := sb.String()
	ip := interpreter.New(context.WithResolver(resolver.NewStaticResolver("main", vcl)))
	ip.Debugger = quiet{}
	return serveHistory(vcl, ip, 1)
}

// ---------------------------------------------------------------- ESI

func esiTokenText(t string) string {
	u, _ := url.Parse(stub.URL)
	switch t {
	case "T5":
		return "aaaaa"
	case "T40":
		return strings.Repeat("b", 40)
	case "INCOK":
		return fmt.Sprintf("<esi:include src=\"http://%s/frag\"/>", u.Host)
	case "INCFAIL":
		return "<esi:include src=\"http://127.0.0.1:1/nothing-listens\"/>"
	case "RS":
		return "<esi:remove>"
	case "FB":
		return "fallback"
	case "RE":
		return "</esi:remove>"
	case "COM":
		return "<esi:comment text=\"c\"/>"
	case "HC":
		return "<!--esi <p>x</p> -->"
	case "UNT":
		return "<esi:include src=\"/a\""
	case "FRAG":
		return "FRAG"
	}
	return t
}

var esiSeq int

func runEsi(c *tcase) result {
	backend := stubBackend()
	var doc, exp strings.Builder
	for _, t := range c.Doc {
		doc.WriteString(esiTokenText(t))
	}
	for _, t := range c.Out {
		exp.WriteString(esiTokenText(t))
	}
	esiSeq++
	id := strconv.Itoa(esiSeq)
	stubMu.Lock()
	stubBodies[id] = doc.String()
	stubMu.Unlock()
	defer func() {
		stubMu.Lock()
		delete(stubBodies, id)
		stubMu.Unlock()
	}()
	vcl := backend + "sub vcl_recv {\n  return(pass);\n}\nsub vcl_fetch {\n  esi;\n}\n"
	ip := interpreter.New(context.WithResolver(resolver.NewStaticResolver("main", vcl)), context.WithActualResponse(true))
	ip.Debugger = quiet{}
	text := "esi; in vcl_fetch, origin document: " + doc.String()
	type answer struct {
		status int
		body   string
	}
	done := make(chan answer, 1)
	go func() {
		req := httptest.NewRequest("GET", "http://localhost/doc", nil)
		req.Header.Set("X-Body", id)
		req.RequestURI = "" // the include request is a clone of this one and goes out through an HTTP client
		rec := httptest.NewRecorder()
		ip.ServeHTTP(rec, req)
		hr := rec.Result()
		b, _ := io.ReadAll(hr.Body)
		done <- answer{hr.StatusCode, string(b)}
	}()
	select {
	case a := <-done:
		if a.status >= 500 {
			return result{Outcome: "error", Msg: firstLine(a.body), Text: text}
		}
		r := result{Outcome: "value", Text: text}
		if !c.ExpErr && a.body != exp.String() {
			r.PerReq = "body differs: expected " + firstLine(exp.String()) + " got " + firstLine(a.body)
		}
		return r
	case <-time.After(requestBudget):
		return result{Outcome: "hang", Msg: fmt.Sprintf("the request was not answered within %s", requestBudget), Text: text}
	}
}
