package main

// C10: replay of Tester.tla behaviours.  A behaviour is one test file (a sequence of
// test subroutines), a main VCL variant and the coverage flag, together with what the
// specification says about every case.  Each behaviour is written to a scratch
// directory and run three ways, every run in a process of its own (falco keeps the
// injected testing functions in process globals):
//
//	api    tester.New(conf, opts).Run(main)      (child = this binary, command c10child)
//	json   falco test -json [--coverage] main.vcl
//	plain  falco test [--coverage] main.vcl
//
// The harness holds no oracle: it renders, runs, projects and tests equality with the
// values TLC printed.

import (
	"bufio"
	"bytes"
	"encoding/json"
	"flag"
	"fmt"
	"os"
	"os/exec"
	"path/filepath"
	"regexp"
	"sort"
	"strconv"
	"strings"
	"sync"

	"verif/harness/internal/hx"

	"github.com/ysugimoto/falco/v2/config"
	icontext "github.com/ysugimoto/falco/v2/interpreter/context"
	ife "github.com/ysugimoto/falco/v2/interpreter/function/errors"
	"github.com/ysugimoto/falco/v2/resolver"
	"github.com/ysugimoto/falco/v2/tester"
)

func main() {
	hx.Commands["c10replay"] = c10Replay
	hx.Commands["c10child"] = c10Child
	hx.Commands["c10render"] = c10Render
	hx.Main()
}

// ---------------------------------------------------------------- abstract syntax (as printed by TLC)

type expr struct {
	K  string `json:"k"`
	V  string `json:"v"`
	H  string `json:"h"`
	F  string `json:"f"`
	ID string `json:"id"`
	L  *expr  `json:"l"`
	R  *expr  `json:"r"`
	C  *expr  `json:"c"`
	A  *expr  `json:"a"`
	B  *expr  `json:"b"`
}

type elif struct {
	C    *expr  `json:"c"`
	Body []stmt `json:"body"`
}

type swCase struct {
	M    string `json:"m"`
	Body []stmt `json:"body"`
	Ft   bool   `json:"ft"`
}

type stmt struct {
	K       string   `json:"k"`
	ID      string   `json:"id"`
	H       string   `json:"h"`
	E       *expr    `json:"e"`
	C       *expr    `json:"c"`
	Th      []stmt   `json:"th"`
	Elifs   []elif   `json:"elifs"`
	HasElse bool     `json:"hasElse"`
	El      []stmt   `json:"el"`
	Cases   []swCase `json:"cases"`
	St      string   `json:"st"`
	S       string   `json:"s"`
	Code    int      `json:"code"`
}

type sub struct {
	Ty   string `json:"ty"`
	Body []stmt `json:"body"`
}

type mainRec struct {
	Kind     string            `json:"kind"`
	Main     int               `json:"main"`
	Prog     map[string]sub    `json:"prog"`
	TestSubs map[string]sub    `json:"testsubs"`
	Fixture  map[string]string `json:"fixture"`
}

type caseExp struct {
	Name  string `json:"name"`
	Scope string `json:"scope"`
	Dbl   bool   `json:"dbl"`
	Req   struct {
		Verdict string   `json:"verdict"`
		Logs    []string `json:"logs"`
	} `json:"req"`
	Mech struct {
		Verdict string   `json:"verdict"`
		Kind    string   `json:"kind"`
		Logs    []string `json:"logs"`
	} `json:"mech"`
}

type testDesc struct {
	Name   string              `json:"name"`
	Scopes []string            `json:"scopes"`
	Skip   bool                `json:"skip"`
	Body   [][]json.RawMessage `json:"body"`
}

type counterRec struct {
	Asserts int `json:"asserts"`
	Passes  int `json:"passes"`
	Fails   int `json:"fails"`
	Skips   int `json:"skips"`
}

type summaryRec struct {
	Passed  int `json:"passed"`
	Failed  int `json:"failed"`
	Skipped int `json:"skipped"`
	Total   int `json:"total"`
}

// markers registered / hit, per kind (tester/shared/coverage.go)
type covRec struct {
	Total map[string]int `json:"total"`
	Hit   map[string]int `json:"hit"`
}

type runRec struct {
	Kind     string     `json:"kind"`
	ID       string     `json:"id,omitempty"`
	Main     int        `json:"main"`
	Cov      bool       `json:"cov"`
	Order    []string   `json:"order"`
	Tests    []testDesc `json:"tests"`
	Cases    []caseExp  `json:"cases"`
	Summary  summaryRec `json:"summary"`
	Counter  counterRec `json:"counter"`
	Coverage *covRec    `json:"coverage,omitempty"`
	ExitReq  int        `json:"exitReq"`
	ExitMech int        `json:"exitMech"`
}

// ---------------------------------------------------------------- concretize: main VCL

type renderer struct {
	sb   strings.Builder
	seed int64
	n    int
}

func (r *renderer) w(ind int, format string, a ...any) {
	r.sb.WriteString(strings.Repeat("  ", ind))
	fmt.Fprintf(&r.sb, format, a...)
	r.sb.WriteByte('\n')
}

func renderExpr(e *expr, bare bool) string {
	switch e.K {
	case "lit":
		if bare {
			return e.V
		}
		return strconv.Quote(e.V)
	case "hdr":
		return "req.http." + e.H
	case "cat":
		return renderExpr(e.L, false) + " " + renderExpr(e.R, false)
	case "ife":
		return "if(" + renderExpr(e.C, false) + ", " + renderExpr(e.A, false) + ", " + renderExpr(e.B, false) + ")"
	case "fn", "fnc":
		return e.F + "()"
	case "eq":
		return "req.http." + e.H + " == " + strconv.Quote(e.V)
	case "isset":
		return "req.http." + e.H
	case "acl":
		return "req.http." + e.H + " ~ internal"
	}
	panic("unknown expression kind " + e.K)
}

// the three spellings of else-if are the same token to the parser; vary them with the seed
var elseIfSpellings = []string{"else if", "elseif", "elsif"}

func (r *renderer) stmts(ss []stmt, ind int, subTy string) {
	for i := range ss {
		s := &ss[i]
		switch s.K {
		case "set":
			r.w(ind, "set req.http.%s = %s;", s.H, renderExpr(s.E, false))
		case "log":
			r.w(ind, "log %s;", renderExpr(s.E, false))
		case "if":
			r.w(ind, "if (%s) {", renderExpr(s.C, false))
			r.stmts(s.Th, ind+1, subTy)
			for j := range s.Elifs {
				r.n++
				sp := elseIfSpellings[int((r.seed+int64(r.n))%int64(len(elseIfSpellings)))]
				r.w(ind, "} %s (%s) {", sp, renderExpr(s.Elifs[j].C, false))
				r.stmts(s.Elifs[j].Body, ind+1, subTy)
			}
			if s.HasElse {
				r.w(ind, "} else {")
				r.stmts(s.El, ind+1, subTy)
			}
			r.w(ind, "}")
		case "switch":
			r.w(ind, "switch (req.http.%s) {", s.H)
			for j := range s.Cases {
				c := &s.Cases[j]
				if c.M == "<default>" {
					r.w(ind, "default:")
				} else {
					r.w(ind, "case %s:", strconv.Quote(c.M))
				}
				r.stmts(c.Body, ind+1, subTy)
				if c.Ft {
					r.w(ind+1, "fallthrough;")
				} else {
					r.w(ind+1, "break;")
				}
			}
			r.w(ind, "}")
		case "ret":
			r.w(ind, "return(%s);", strings.ToLower(s.St))
		case "retv":
			r.w(ind, "return %s;", renderExpr(s.E, subTy == "BOOL"))
		case "call":
			r.w(ind, "call %s;", s.S)
		case "error":
			r.w(ind, "error %d;", s.Code)
		case "restart":
			r.w(ind, "restart;")
		case "retbare":
			r.w(ind, "return;")
		default:
			panic("unknown statement kind " + s.K)
		}
	}
}

func (r *renderer) sub(name string, s sub) {
	if s.Ty == "scoped" {
		r.w(0, "sub %s {", name)
	} else {
		r.w(0, "sub %s %s {", name, s.Ty)
	}
	r.stmts(s.Body, 1, s.Ty)
	r.w(0, "}")
}

func sortedSubs(m map[string]sub) []string {
	var names []string
	for n := range m {
		names = append(names, n)
	}
	// functional and helper subroutines first, lifecycle subroutines last
	sort.Slice(names, func(i, j int) bool {
		a, b := strings.HasPrefix(names[i], "vcl_"), strings.HasPrefix(names[j], "vcl_")
		if a != b {
			return b
		}
		return names[i] < names[j]
	})
	return names
}

func renderMain(m *mainRec, seed int64) string {
	r := &renderer{seed: seed}
	r.w(0, "backend example { .host = \"example.com\"; }")
	r.w(0, "acl internal { \"192.0.2.0\"/24; }")
	r.w(0, "table tbl STRING {")
	r.w(1, "\"k\": \"v0\",")
	r.w(0, "}")
	for _, n := range sortedSubs(m.Prog) {
		r.sub(n, m.Prog[n])
	}
	return r.sb.String()
}

// ---------------------------------------------------------------- concretize: test file

// one holding and one failing instance of every assertion family that takes plain arguments
var constAsserts = map[string][2]string{ // [holds, fails]
	"assert":           {`assert(true);`, `assert(false);`},
	"true":             {`assert.true(true);`, `assert.true(false);`},
	"false":            {`assert.false(false);`, `assert.false(true);`},
	"equal":            {`assert.equal("a", "a");`, `assert.equal("a", "b");`},
	"not_equal":        {`assert.not_equal("a", "b");`, `assert.not_equal("a", "a");`},
	"strict_equal":     {`assert.strict_equal(1, 1);`, `assert.strict_equal(1, 2);`},
	"not_strict_equal": {`assert.not_strict_equal(1, 2);`, `assert.not_strict_equal(1, 1);`},
	"equal_fold":       {`assert.equal_fold("Ab", "aB");`, `assert.equal_fold("ab", "cd");`},
	"match":            {`assert.match("abc", "^a.c$");`, `assert.match("abc", "^x");`},
	"not_match":        {`assert.not_match("abc", "^x");`, `assert.not_match("abc", "^a.c$");`},
	"contains":         {`assert.contains("abc", "b");`, `assert.contains("abc", "x");`},
	"not_contains":     {`assert.not_contains("abc", "x");`, `assert.not_contains("abc", "b");`},
	"starts_with":      {`assert.starts_with("abc", "ab");`, `assert.starts_with("abc", "bc");`},
	"ends_with":        {`assert.ends_with("abc", "bc");`, `assert.ends_with("abc", "ab");`},
	"is_json":          {`assert.is_json({"{"a":1}"});`, `assert.is_json("nope{");`},
	"is_notset":        {`assert.is_notset(req.http.Never-Set);`, `assert.is_notset(req.http.Host);`},
}

func str(m json.RawMessage) string {
	var s string
	if err := json.Unmarshal(m, &s); err != nil {
		panic(fmt.Sprintf("expected string, got %s", m))
	}
	return s
}

func num(m json.RawMessage) int {
	var n int
	if err := json.Unmarshal(m, &n); err != nil {
		panic(fmt.Sprintf("expected int, got %s", m))
	}
	return n
}

func renderOp(o []json.RawMessage) string {
	switch str(o[0]) {
	case "sethdr":
		return fmt.Sprintf(`set req.http.%s = %q;`, str(o[1]), str(o[2]))
	case "tblset":
		return fmt.Sprintf(`testing.table_set(tbl, "k", %q);`, str(o[1]))
	case "tblsetk":
		return fmt.Sprintf(`testing.table_set(tbl, %q, %q);`, str(o[1]), str(o[2]))
	case "tblmerge":
		return `testing.table_merge(tbl, fixture);`
	case "restore_mock":
		return fmt.Sprintf(`testing.restore_mock(%q);`, str(o[1]))
	case "restore_all":
		return `testing.restore_all_mocks();`
	case "a_tblk_eq":
		return fmt.Sprintf(`assert.equal(table.lookup(tbl, %q), %q);`, str(o[1]), str(o[2]))
	case "a_tblk_notset":
		return fmt.Sprintf(`assert.is_notset(table.lookup(tbl, %q));`, str(o[1]))
	case "inject":
		return fmt.Sprintf(`testing.inject_variable("client.geo.country_code", %q);`, str(o[1]))
	case "mock":
		return fmt.Sprintf(`testing.mock(%q, %q);`, str(o[1]), str(o[2]))
	case "host":
		return fmt.Sprintf(`testing.override_host(%q);`, str(o[1]))
	case "log":
		return fmt.Sprintf(`log %q;`, str(o[1]))
	case "rterr":
		return `set req.http.X = undefined.variable;`
	case "readvar":
		return fmt.Sprintf(`set req.http.Tmp = %s;`, str(o[1]))
	case "call":
		return fmt.Sprintf(`testing.call_subroutine(%q);`, str(o[1]))
	case "a_hdr_eq":
		return fmt.Sprintf(`assert.equal(req.http.%s, %q);`, str(o[1]), str(o[2]))
	case "a_hdr_notset":
		return fmt.Sprintf(`assert.is_notset(req.http.%s);`, str(o[1]))
	case "a_tbl_eq":
		return fmt.Sprintf(`assert.equal(table.lookup(tbl, "k"), %q);`, str(o[1]))
	case "a_var_eq":
		return fmt.Sprintf(`assert.equal(client.geo.country_code, %q);`, str(o[1]))
	case "a_var_ne":
		return fmt.Sprintf(`assert.not_equal(client.geo.country_code, %q);`, str(o[1]))
	case "a_host_eq":
		return fmt.Sprintf(`assert.equal(req.http.Host, %q);`, str(o[1]))
	case "a_state":
		return fmt.Sprintf(`assert.state(%s);`, strings.ToLower(str(o[1])))
	case "a_not_state":
		return fmt.Sprintf(`assert.not_state(%s);`, strings.ToLower(str(o[1])))
	case "a_called":
		return fmt.Sprintf(`assert.subroutine_called(%q, %d);`, str(o[1]), num(o[2]))
	case "a_not_called":
		return fmt.Sprintf(`assert.not_subroutine_called(%q);`, str(o[1]))
	case "a_restart":
		return `assert.restart();`
	case "a_not_restart":
		return `assert.not_restart();`
	case "a_error":
		return fmt.Sprintf(`assert.error(%d);`, num(o[1]))
	case "a_not_error":
		return `assert.not_error();`
	case "const":
		var holds bool
		json.Unmarshal(o[2], &holds) // nolint:errcheck
		pair, ok := constAsserts[str(o[1])]
		if !ok {
			panic("no instance of assertion family " + str(o[1]))
		}
		if holds {
			return pair[0]
		}
		return pair[1]
	}
	panic("unknown test operation " + str(o[0]))
}

// decoration of the annotation comment: the spellings docs/testing.md allows
var scopeStyles = []string{"// @scope: %s", "# @scope: %s", "// @%s", "//@scope:%s"}

func renderTests(b *runRec, m *mainRec, seed int64) string {
	var sb strings.Builder
	// the fixture table of the test file (input of testing.table_merge)
	if len(m.Fixture) > 0 {
		var keys []string
		for k := range m.Fixture {
			keys = append(keys, k)
		}
		sort.Strings(keys)
		sb.WriteString("table fixture STRING {\n")
		for _, k := range keys {
			fmt.Fprintf(&sb, "  %q: %q,\n", k, m.Fixture[k])
		}
		sb.WriteString("}\n")
	}
	for k, t := range b.Tests {
		if s, ok := m.TestSubs[t.Name]; ok {
			// a helper subroutine of the test file (mock target); the tester runs it like any other subroutine
			r := &renderer{seed: seed}
			r.sub(t.Name, s)
			sb.WriteString(r.sb.String())
			continue
		}
		style := scopeStyles[int((seed+int64(k))%int64(len(scopeStyles)))]
		fmt.Fprintf(&sb, style+"\n", strings.ToLower(strings.Join(t.Scopes, ", ")))
		if t.Skip {
			sb.WriteString("// @skip\n")
		}
		fmt.Fprintf(&sb, "sub test_%s {\n", t.Name)
		for _, o := range t.Body {
			if str(o[0]) == "ast" {
				continue
			}
			if str(o[0]) == "at" {
				// the operation inside a construct of the test subroutine (the branch shown is the one taken:
				// the mock request always has a Host header)
				var inner []json.RawMessage
				if err := json.Unmarshal(o[2], &inner); err != nil {
					panic("bad positioned operation")
				}
				line := renderOp(inner)
				switch str(o[1]) {
				case "then":
					fmt.Fprintf(&sb, "  if (req.http.Host) {\n    %s\n  }\n", line)
				case "elif":
					fmt.Fprintf(&sb, "  if (!req.http.Host) {\n    set req.http.Never = \"1\";\n  } else if (req.http.Host) {\n    %s\n  }\n", line)
				case "else":
					fmt.Fprintf(&sb, "  if (!req.http.Host) {\n    set req.http.Never = \"1\";\n  } else {\n    %s\n  }\n", line)
				case "nested":
					fmt.Fprintf(&sb, "  if (req.http.Host) {\n    if (req.http.Never) {\n      set req.http.Never = \"2\";\n    } else {\n      %s\n    }\n  }\n", line)
				case "case":
					fmt.Fprintf(&sb, "  switch (req.http.Never) {\n    case \"x\":\n      set req.http.Never = \"3\";\n      break;\n    default:\n      %s\n      break;\n  }\n", line)
				default:
					panic("unknown position " + str(o[1]))
				}
				continue
			}
			sb.WriteString("  " + renderOp(o) + "\n")
		}
		sb.WriteString("}\n")
		if (seed+int64(k))%3 == 0 {
			sb.WriteString("\n")
		}
	}
	return sb.String()
}

// ---------------------------------------------------------------- project: observations

type obsCase struct {
	Name    string   `json:"name"`
	Scope   string   `json:"scope"`
	Verdict string   `json:"verdict"`
	Kind    string   `json:"kind,omitempty"`
	Error   string   `json:"error,omitempty"`
	Logs    []string `json:"logs"`
}

type obsRun struct {
	Mode    string      `json:"mode"`
	RunErr  string      `json:"runerr,omitempty"`
	Cases   []obsCase   `json:"cases"`
	Counter *counterRec `json:"counter,omitempty"`
	Summary *summaryRec `json:"summary,omitempty"`
	Asserts int         `json:"asserts,omitempty"`
	Exit    int         `json:"exit"`
	CovSeen bool        `json:"cov_seen,omitempty"`
	Cov     *covRec     `json:"coverage,omitempty"`
}

var logPos = regexp.MustCompile(` \([^() ]+ \d+:\d+\)$`)

// a log line is "<message> (<file> <line>:<col>)"; the position of a log statement of the test file moves
// with the tests around it, the message is what the property speaks about
func projLogs(in []string) []string {
	out := []string{}
	for _, l := range in {
		out = append(out, logPos.ReplaceAllString(l, ""))
	}
	return out
}

func projName(n string) string { return strings.TrimPrefix(n, "test_") }

// c10child: one tester run inside this process (exits after printing the observation)
func c10Child(args []string) int {
	fs := flag.NewFlagSet("c10child", flag.ExitOnError)
	mainPath := fs.String("main", "", "main VCL")
	cov := fs.Bool("cov", false, "coverage")
	fs.Parse(args) // nolint:errcheck
	o := obsRun{Mode: "api", Cases: []obsCase{}}
	enc := json.NewEncoder(os.Stdout)
	rslv, err := resolver.NewFileResolvers(*mainPath, nil)
	if err != nil {
		o.RunErr = err.Error()
		enc.Encode(o) // nolint:errcheck
		return 0
	}
	conf := &config.TestConfig{Filter: "*.test.vcl", Coverage: *cov}
	opts := []icontext.Option{
		icontext.WithResolver(rslv[0]),
		icontext.WithOverrideVariables(map[string]any{}),
	}
	factory, err := tester.New(conf, opts).Run(*mainPath)
	if err != nil {
		o.RunErr = err.Error()
		enc.Encode(o) // nolint:errcheck
		return 0
	}
	for _, r := range factory.Results {
		for _, c := range r.Cases {
			oc := obsCase{Name: projName(c.Name), Scope: c.Scope, Logs: projLogs(c.Logs)}
			switch {
			case c.Skip:
				oc.Verdict = "skip"
			case c.Error != nil:
				oc.Verdict = "fail"
				oc.Error = c.Error.Error()
				if _, ok := c.Error.(*ife.AssertionError); ok {
					oc.Kind = "assert"
				} else {
					oc.Kind = "error"
				}
			default:
				oc.Verdict = "pass"
			}
			o.Cases = append(o.Cases, oc)
		}
	}
	st := factory.Statistics
	o.Counter = &counterRec{Asserts: st.Asserts, Passes: st.Passes, Fails: st.Fails, Skips: st.Skips}
	o.CovSeen = factory.Coverage != nil
	if factory.Coverage != nil {
		count := func(m map[string]uint64) (total, hit int) {
			for _, n := range m {
				total++
				if n > 0 {
					hit++
				}
			}
			return
		}
		c := &covRec{Total: map[string]int{}, Hit: map[string]int{}}
		c.Total["subroutine"], c.Hit["subroutine"] = count(factory.Coverage.Subroutines)
		c.Total["statement"], c.Hit["statement"] = count(factory.Coverage.Statements)
		c.Total["branch"], c.Hit["branch"] = count(factory.Coverage.Branches)
		o.Cov = c
	}
	// the API has no exit status; what cmd/falco derives it from is reported as a mechanism observable only
	if st.Fails > 0 {
		o.Exit = 1
	}
	enc.Encode(o) // nolint:errcheck
	return 0
}

func runCmd(dir string, name string, args ...string) (string, int, error) {
	cmd := exec.Command(name, args...)
	cmd.Dir = dir
	cmd.Env = append(os.Environ(), "NO_COLOR=1", "HOME="+dir)
	var out bytes.Buffer
	cmd.Stdout = &out
	cmd.Stderr = &out
	err := cmd.Run()
	code := 0
	if err != nil {
		if ee, ok := err.(*exec.ExitError); ok {
			code = ee.ExitCode()
			err = nil
		}
	}
	return out.String(), code, err
}

func runAPI(self, dir string, cov bool) obsRun {
	out, code, err := runCmd(dir, self, "c10child", "-main", filepath.Join(dir, "main.vcl"), "-cov="+strconv.FormatBool(cov))
	var o obsRun
	if err != nil || code != 0 {
		return obsRun{Mode: "api", RunErr: fmt.Sprintf("child died rc=%d err=%v: %s", code, err, tail(out)), Cases: []obsCase{}, Exit: -1}
	}
	if e := json.Unmarshal([]byte(out), &o); e != nil {
		return obsRun{Mode: "api", RunErr: "undecodable child output: " + tail(out), Cases: []obsCase{}, Exit: -1}
	}
	return o
}

func tail(s string) string {
	if len(s) > 400 {
		return s[len(s)-400:]
	}
	return s
}

func runJSON(falco, dir string, cov bool) obsRun {
	args := []string{"test", "-json"}
	if cov {
		args = append(args, "--coverage")
	}
	args = append(args, "main.vcl")
	out, code, err := runCmd(dir, falco, args...)
	o := obsRun{Mode: "json", Cases: []obsCase{}, Exit: code}
	if err != nil {
		o.RunErr = err.Error()
		return o
	}
	var doc struct {
		Tests []struct {
			Suites []struct {
				Name  string   `json:"name"`
				Error string   `json:"error"`
				Scope string   `json:"scope"`
				Skip  bool     `json:"skip"`
				Logs  []string `json:"logs"`
			} `json:"suites"`
		} `json:"tests"`
		Summary *counterRec `json:"summary"`
	}
	i := strings.Index(out, "{")
	if i < 0 {
		o.RunErr = "no JSON document: " + tail(out)
		return o
	}
	dec := json.NewDecoder(strings.NewReader(out[i:]))
	if e := dec.Decode(&doc); e != nil {
		o.RunErr = "undecodable JSON document: " + e.Error() + ": " + tail(out)
		return o
	}
	for _, t := range doc.Tests {
		for _, c := range t.Suites {
			oc := obsCase{Name: projName(c.Name), Scope: c.Scope, Logs: projLogs(c.Logs), Error: c.Error}
			switch {
			case c.Skip:
				oc.Verdict = "skip"
			case c.Error != "":
				oc.Verdict = "fail"
			default:
				oc.Verdict = "pass"
			}
			o.Cases = append(o.Cases, oc)
		}
	}
	o.Counter = doc.Summary
	return o
}

var (
	ansi      = regexp.MustCompile("\x1b\\[[0-9;]*m")
	caseLine  = regexp.MustCompile(`^\s*(✓|●|-) \[VCL_([A-Z]+)\] (\S+)`)
	totalLine = regexp.MustCompile(`(\d+) passed, (\d+) failed, (\d+) skipped, (\d+) total, (\d+) assertions`)
)

func runPlain(falco, dir string, cov bool) obsRun {
	args := []string{"test"}
	if cov {
		args = append(args, "--coverage")
	}
	args = append(args, "main.vcl")
	out, code, err := runCmd(dir, falco, args...)
	o := obsRun{Mode: "plain", Cases: []obsCase{}, Exit: code}
	if err != nil {
		o.RunErr = err.Error()
		return o
	}
	out = ansi.ReplaceAllString(out, "")
	for _, line := range strings.Split(out, "\n") {
		if m := caseLine.FindStringSubmatch(line); m != nil {
			v := map[string]string{"✓": "pass", "●": "fail", "-": "skip"}[m[1]]
			o.Cases = append(o.Cases, obsCase{Name: projName(m[3]), Scope: m[2], Verdict: v})
		}
		if m := totalLine.FindStringSubmatch(line); m != nil {
			a := func(i int) int { n, _ := strconv.Atoi(m[i]); return n }
			o.Summary = &summaryRec{Passed: a(1), Failed: a(2), Skipped: a(3), Total: a(4)}
			o.Asserts = a(5)
		}
		if strings.Contains(line, "Coverage Report") {
			o.CovSeen = true
		}
	}
	if o.Summary == nil {
		o.RunErr = "no summary line: " + tail(out)
	}
	return o
}

// ---------------------------------------------------------------- compare

func eqLogs(a, b []string) bool {
	if len(a) != len(b) {
		return false
	}
	for i := range a {
		if a[i] != b[i] {
			return false
		}
	}
	return true
}

func compare(b *runRec, o *obsRun, res *hx.CaseResult) {
	mm := func(item map[string]any) {
		item["mode"] = o.Mode
		res.Mismatch = append(res.Mismatch, item)
	}
	dr := func(item map[string]any) {
		item["mode"] = o.Mode
		res.Drift = append(res.Drift, item)
	}
	anyDbl := false
	for _, c := range b.Cases {
		anyDbl = anyDbl || c.Dbl
	}
	if o.RunErr != "" {
		mm(map[string]any{"obs": "run", "got": o.RunErr, "dbl": anyDbl})
		return
	}
	// the tests that ran are the tests of the file, once per scope, in file order
	if len(o.Cases) != len(b.Cases) {
		mm(map[string]any{"obs": "cases", "expected": len(b.Cases), "got": len(o.Cases), "dbl": anyDbl})
		return
	}
	nv := map[string]int{}
	for i, e := range b.Cases {
		g := o.Cases[i]
		nv[g.Verdict]++
		if g.Name != e.Name || g.Scope != e.Scope {
			mm(map[string]any{"obs": "cases", "index": i, "expected": e.Name + "/" + e.Scope, "got": g.Name + "/" + g.Scope, "dbl": anyDbl})
			continue
		}
		// requirement: verdict and logs are those of the test run alone, without coverage
		if g.Verdict != e.Req.Verdict {
			mm(map[string]any{"obs": "verdict", "test": e.Name, "scope": e.Scope, "expected": e.Req.Verdict, "got": g.Verdict,
				"error": g.Error, "dbl": e.Dbl, "as_model": g.Verdict == e.Mech.Verdict})
		}
		if o.Mode != "plain" && !eqLogs(g.Logs, e.Req.Logs) {
			mm(map[string]any{"obs": "logs", "test": e.Name, "scope": e.Scope, "expected": e.Req.Logs, "got": g.Logs, "dbl": e.Dbl,
				"as_model": eqLogs(g.Logs, e.Mech.Logs)})
		}
		// mechanism: what the specification's model of the tester predicts, deviation included
		if g.Verdict != e.Mech.Verdict {
			dr(map[string]any{"obs": "mech-verdict", "test": e.Name, "scope": e.Scope, "expected": e.Mech.Verdict, "got": g.Verdict, "error": g.Error})
		}
		if o.Mode == "api" && g.Kind != e.Mech.Kind {
			dr(map[string]any{"obs": "mech-kind", "test": e.Name, "scope": e.Scope, "expected": e.Mech.Kind, "got": g.Kind, "error": g.Error})
		}
		if o.Mode != "plain" && !eqLogs(g.Logs, e.Mech.Logs) {
			dr(map[string]any{"obs": "mech-logs", "test": e.Name, "scope": e.Scope, "expected": e.Mech.Logs, "got": g.Logs})
		}
	}
	// exit status (the two CLI modes): 1 exactly when a test failed
	if o.Mode != "api" {
		if o.Exit != b.ExitReq {
			mm(map[string]any{"obs": "exit", "expected": b.ExitReq, "got": o.Exit, "dbl": anyDbl, "as_model": o.Exit == b.ExitMech})
		}
		if o.Exit != b.ExitMech {
			dr(map[string]any{"obs": "mech-exit", "expected": b.ExitMech, "got": o.Exit})
		}
	} else if o.Exit != b.ExitMech {
		dr(map[string]any{"obs": "mech-exit", "expected": b.ExitMech, "got": o.Exit})
	}
	// the summary line: passed + failed + skipped = total = number of tests run, and each count is the
	// number of cases reported that way
	if o.Summary != nil {
		s := o.Summary
		if s.Passed+s.Failed+s.Skipped != s.Total || s.Total != len(o.Cases) {
			mm(map[string]any{"obs": "sum", "got": s, "cases": len(o.Cases), "dbl": anyDbl})
		}
		if s.Passed != nv["pass"] || s.Failed != nv["fail"] || s.Skipped != nv["skip"] {
			mm(map[string]any{"obs": "summary", "got": s, "reported": nv, "dbl": anyDbl})
		}
		if *s != b.Summary {
			dr(map[string]any{"obs": "mech-summary", "expected": b.Summary, "got": s})
		}
		if o.Asserts != b.Counter.Asserts {
			dr(map[string]any{"obs": "mech-asserts", "expected": b.Counter.Asserts, "got": o.Asserts})
		}
	}
	if o.Counter != nil && *o.Counter != b.Counter {
		dr(map[string]any{"obs": "mech-counter", "expected": b.Counter, "got": o.Counter})
	}
	// the markers interpreter/coverage.go registers and the ones the run hits, per kind, against the
	// specification's transcription of the instrumentation
	if o.Cov != nil && b.Coverage != nil {
		for _, k := range []string{"subroutine", "statement", "branch"} {
			if o.Cov.Total[k] != b.Coverage.Total[k] || o.Cov.Hit[k] != b.Coverage.Hit[k] {
				dr(map[string]any{"obs": "mech-markers", "kind": k, "expected": []int{b.Coverage.Hit[k], b.Coverage.Total[k]},
					"got": []int{o.Cov.Hit[k], o.Cov.Total[k]}})
			}
		}
	}
	if o.Mode != "json" && o.CovSeen != b.Cov {
		dr(map[string]any{"obs": "mech-coverage-report", "expected": b.Cov, "got": o.CovSeen})
	}
}

// ---------------------------------------------------------------- replay

func loadMains(path string) (map[int]*mainRec, error) {
	f, err := os.Open(path)
	if err != nil {
		return nil, err
	}
	defer f.Close()
	mains := map[int]*mainRec{}
	sc := bufio.NewScanner(f)
	sc.Buffer(make([]byte, 1<<20), 1<<26)
	for sc.Scan() {
		var m mainRec
		if err := json.Unmarshal(sc.Bytes(), &m); err != nil {
			return nil, err
		}
		if m.Kind == "main" {
			mm := m
			mains[m.Main] = &mm
		}
	}
	return mains, sc.Err()
}

func writeCase(dir string, b *runRec, m *mainRec, seed int64) error {
	if err := os.WriteFile(filepath.Join(dir, "main.vcl"), []byte(renderMain(m, seed)), 0o644); err != nil {
		return err
	}
	return os.WriteFile(filepath.Join(dir, "main.test.vcl"), []byte(renderTests(b, m, seed)), 0o644)
}

func c10Replay(args []string) int {
	fs := flag.NewFlagSet("c10replay", flag.ExitOnError)
	falco := fs.String("falco", "", "path of the falco binary built from the tree under test")
	mainsPath := fs.String("mains", "", "jsonl with the main VCL records")
	workers := fs.Int("workers", 8, "parallel runs")
	modes := fs.String("modes", "api,json,plain", "which of api,json,plain,cli (cli = json or plain, alternating) to run")
	scratch := fs.String("scratch", "", "scratch directory")
	fs.Parse(args) // nolint:errcheck
	mains, err := loadMains(*mainsPath)
	if err != nil || len(mains) == 0 {
		fmt.Fprintln(os.Stderr, "cannot load main VCL records:", err)
		return 2
	}
	self, _ := os.Executable()
	seed := hx.Seed()
	var behs []*runRec
	if err := hx.Lines(func(line []byte) error {
		var b runRec
		if err := json.Unmarshal(line, &b); err != nil {
			return err
		}
		if b.Kind == "run" {
			behs = append(behs, &b)
		}
		return nil
	}); err != nil {
		fmt.Fprintln(os.Stderr, "bad behaviour:", err)
		return 2
	}
	results := make([]*hx.CaseResult, len(behs))
	var wg sync.WaitGroup
	jobs := make(chan int)
	for w := 0; w < *workers; w++ {
		wg.Add(1)
		go func(w int) {
			defer wg.Done()
			dir := filepath.Join(*scratch, fmt.Sprintf("w%d", w))
			os.MkdirAll(dir, 0o755) // nolint:errcheck
			for k := range jobs {
				b := behs[k]
				id := b.ID
				if id == "" {
					id = fmt.Sprintf("m%d_cov%v_%s", b.Main, b.Cov, strings.Join(b.Order, "+"))
				}
				res := &hx.CaseResult{ID: id, Input: b, Class: map[string]any{"cov": b.Cov, "main": b.Main}}
				m, ok := mains[b.Main]
				if !ok {
					res.Mismatch = append(res.Mismatch, map[string]any{"obs": "harness", "got": "no main record"})
					results[k] = res
					continue
				}
				cs := seed + int64(k)
				if err := writeCase(dir, b, m, cs); err != nil {
					fmt.Fprintln(os.Stderr, err)
					os.Exit(2)
				}
				var observed []obsRun
				runModes := *modes
				if b.ID != "" {
					runModes = "api,json,plain" // canaries and replayed cases are run every way
				}
				for _, mode := range strings.Split(runModes, ",") {
					var o obsRun
					if mode == "cli" { // one of the two CLI modes, alternating
						mode = []string{"json", "plain"}[int(cs%2)]
					}
					if mode == "cli3" { // the same for every third behaviour only
						if cs%3 != 0 {
							continue
						}
						mode = []string{"json", "plain"}[int((cs/3)%2)]
					}
					switch mode {
					case "api":
						o = runAPI(self, dir, b.Cov)
					case "json":
						o = runJSON(*falco, dir, b.Cov)
					case "plain":
						o = runPlain(*falco, dir, b.Cov)
					default:
						continue
					}
					compare(b, &o, res)
					observed = append(observed, o)
				}
				res.Observed = observed
				res.Validated = true
				// distinct non-trivial cases: the multiset of tests does not matter, the sequence does
				res.Key = id
				results[k] = res
			}
		}(w)
	}
	for k := range behs {
		jobs <- k
	}
	close(jobs)
	wg.Wait()
	out := hx.NewOut()
	for _, r := range results {
		out.Write(r)
	}
	out.Close()
	return 0
}

// c10render: print the files of one behaviour (debugging / replay files)
func c10Render(args []string) int {
	fs := flag.NewFlagSet("c10render", flag.ExitOnError)
	mainsPath := fs.String("mains", "", "jsonl with the main VCL records")
	fs.Parse(args) // nolint:errcheck
	mains, err := loadMains(*mainsPath)
	if err != nil {
		fmt.Fprintln(os.Stderr, err)
		return 2
	}
	hx.Lines(func(line []byte) error { // nolint:errcheck
		var b runRec
		if json.Unmarshal(line, &b) == nil && b.Kind == "run" {
			fmt.Printf("# ---- main.vcl (variant %d)\n%s# ---- main.test.vcl (coverage=%v)\n%s", b.Main,
				renderMain(mains[b.Main], hx.Seed()), b.Cov, renderTests(&b, mains[b.Main], hx.Seed()))
		}
		return nil
	})
	return 0
}
