package main

// C11: linting is total and deterministic.
//
// c11replay (parent) feeds cases emitted by Include.tla / LintPasses.tla to a watched child
// process (c11child, same binary) that drives the real linter; a case that kills the child
// or exceeds its budget is a "crash" / "hang" observation.  Nothing here predicts a
// diagnostic: the requirement observables are termination and the *equality* of diagnostic
// multisets across repeated runs and across permutations of the subroutine declarations;
// the mechanism observables are the counts / sets TLC printed with the case.

import (
	"bufio"
	"bytes"
	"encoding/json"
	"flag"
	"fmt"
	"io"
	"math/rand"
	"os"
	"os/exec"
	"path/filepath"
	"regexp"
	"runtime/debug"
	"sort"
	"strings"
	"time"

	"verif/harness/internal/hx"

	"github.com/ysugimoto/falco/v2/config"
	"github.com/ysugimoto/falco/v2/lexer"
	"github.com/ysugimoto/falco/v2/linter"
	lcontext "github.com/ysugimoto/falco/v2/linter/context"
	"github.com/ysugimoto/falco/v2/parser"
	"github.com/ysugimoto/falco/v2/resolver"
)

func main() {
	hx.Commands["c11replay"] = c11Replay
	hx.Commands["c11child"] = c11Child
	hx.Main()
}

type c11Case struct {
	ID   string `json:"id,omitempty"`
	Kind string `json:"kind"`
	Seed int64  `json:"seed,omitempty"`
	// include cases
	Inc     map[string][]string `json:"inc,omitempty"`
	Place   string              `json:"place,omitempty"`
	Missing int                 `json:"missing"`
	Cyclic  int                 `json:"cyclic"`
	Dups    int                 `json:"dups"`
	Loads   map[string]int      `json:"loads,omitempty"`
	// passes cases
	Edges        [][]string `json:"edges,omitempty"`
	Explicit     []string   `json:"explicit,omitempty"`
	Unused       []string   `json:"unused,omitempty"`
	Users        []string   `json:"users,omitempty"`
	Roots        []string   `json:"roots,omitempty"`
	Index        int        `json:"index,omitempty"` // running number of the case (selects the probe statements)
	Unrecognized []string   `json:"unrecognized,omitempty"`
	Recursive    []string   `json:"recursive,omitempty"`
	Uncalled     []string   `json:"uncalled,omitempty"`
	// what the specification demands
	Terminates    bool `json:"terminates"`
	Deterministic bool `json:"deterministic"`
	// harness parameters (set by the parent)
	Runs  int `json:"runs,omitempty"`
	Perms int `json:"perms,omitempty"`
}

// ---- concretiser ---------------------------------------------------------------------

// the same module may be spelled "a" or "a.vcl" (resolver/file.go adds the extension)
func spell(c *c11Case, from, to string, k int) string {
	if (c.Seed+int64(len(from))*7+int64(len(to))*3+int64(k))%3 == 0 {
		return to + ".vcl"
	}
	return to
}

func includeFiles(c *c11Case) map[string]string {
	f := map[string]string{}
	for _, m := range []string{"main", "a", "b"} {
		var b strings.Builder
		incs := c.Inc[m]
		if c.Place == "root" {
			for k, t := range incs {
				fmt.Fprintf(&b, "include \"%s\";\n", spell(c, m, t, k))
			}
			if m == "main" {
				b.WriteString("backend example { .host = \"example.com\"; }\nsub vcl_recv {\n  #FASTLY RECV\n  set req.backend = example;\n  return (lookup);\n}\n")
			} else {
				fmt.Fprintf(&b, "sub mod_%s {\n  set req.http.X-%s = \"1\";\n}\n", m, m)
			}
		} else if c.Place == "block" {
			// every include statement nested in an if / else block, in vcl_recv and inside the modules
			nested := func(indent string) {
				if len(incs) == 0 {
					return
				}
				fmt.Fprintf(&b, "%sif (req.http.C11-%s) {\n", indent, m)
				for k, t := range incs {
					if k == (len(incs)+1)/2 && k > 0 {
						fmt.Fprintf(&b, "%s} else {\n", indent)
					}
					fmt.Fprintf(&b, "%s  include \"%s\";\n", indent, spell(c, m, t, k))
				}
				fmt.Fprintf(&b, "%s}\n", indent)
			}
			if m == "main" {
				b.WriteString("backend example { .host = \"example.com\"; }\nsub vcl_recv {\n  #FASTLY RECV\n  set req.backend = example;\n")
				nested("  ")
				b.WriteString("  return (lookup);\n}\n")
			} else {
				nested("")
				fmt.Fprintf(&b, "set req.http.X-%s = \"1\";\n", m)
			}
		} else {
			if m == "main" {
				b.WriteString("backend example { .host = \"example.com\"; }\nsub vcl_recv {\n  #FASTLY RECV\n  set req.backend = example;\n")
				for k, t := range incs {
					fmt.Fprintf(&b, "  include \"%s\";\n", spell(c, m, t, k))
				}
				b.WriteString("  return (lookup);\n}\n")
			} else {
				for k, t := range incs {
					fmt.Fprintf(&b, "include \"%s\";\n", spell(c, m, t, k))
				}
				fmt.Fprintf(&b, "set req.http.X-%s = \"1\";\n", m)
			}
		}
		f[m+".vcl"] = b.String()
	}
	return f
}

var dupFamilies = [][]string{
	// plain + functional subroutine of the same name
	{"sub c11_pf {\n  set req.http.P = \"1\";\n}\n", "sub c11_pf STRING {\n  return \"p\";\n}\n"},
	// functional + functional
	{"sub c11_ff STRING {\n  return \"a\";\n}\n", "sub c11_ff STRING {\n  return \"b\";\n}\n"},
	// functional + plain + plain
	{"sub c11_fpp INTEGER {\n  return 1;\n}\n", "sub c11_fpp {\n  set req.http.Q = \"1\";\n}\n", "sub c11_fpp {\n  set req.http.Q = \"2\";\n}\n"},
	{"acl c11_dup_acl { \"192.0.2.0\"/24; }\n", "acl c11_dup_acl { \"198.51.100.0\"/24; }\n"},
	{"table c11_dup_table { \"a\": \"b\" }\n", "table c11_dup_table { \"c\": \"d\" }\n"},
	{"backend c11_dup_be { .host = \"one.example.com\"; }\n", "backend c11_dup_be { .host = \"two.example.com\"; }\n"},
	{"director c11_dup_dir random { { .backend = example; .weight = 1; } }\n", "director c11_dup_dir random { { .backend = example; .weight = 2; } }\n"},
	// a subroutine and an acl / table sharing a name (different kinds of declaration)
	{"acl c11_mixed { \"203.0.113.0\"/24; }\n", "table c11_mixed { \"k\": \"v\" }\n"},
}

// statements that are legal in some scopes only: the diagnostics of a helper subroutine show which scopes the
// inference gave it (whatever they are, they must not depend on map order or declaration order)
var scopedStmts = []string{
	"  error 601;\n", "  restart;\n", "  esi;\n", "  synthetic \"c11\";\n",
	"  set beresp.ttl = 10s;\n", "  set resp.http.C11 = \"1\";\n",
	"  return (lookup);\n", "  return (deliver);\n", "  return (pass);\n", "  return (restart);\n", "  return;\n",
}

const scopedReturnsFrom = 6 // index of the first return form in scopedStmts

// declarations and their users as separate permuted blocks: the user comes before or after what it uses
// (every unused-* pass must give the same report either way).  use = statement added to vcl_recv.
var useFamilies = []struct {
	blocks []string
	use    string
}{
	{[]string{"backend c11_m1 { .host = \"m1.example.com\"; }\n", "backend c11_m2 { .host = \"m2.example.com\"; }\n",
		"director c11_dir random { { .backend = c11_m1; .weight = 1; } { .backend = c11_m2; .weight = 1; } }\n"}, ""},
	{[]string{"backend c11_m3 { .host = \"m3.example.com\"; }\n",
		"director c11_dir_used random { { .backend = c11_m3; .weight = 1; } }\n"}, "  set req.backend = c11_dir_used;\n"},
	{[]string{"acl c11_used_acl { \"192.0.2.0\"/24; }\n"}, "  if (client.ip ~ c11_used_acl) {\n    set req.http.U = \"1\";\n  }\n"},
	{[]string{"table c11_used_table { \"a\": \"b\" }\n"}, "  set req.http.T = table.lookup(c11_used_table, \"a\");\n"},
	{[]string{"backend c11_used_be { .host = \"used.example.com\"; }\n"}, "  if (req.http.B) {\n    set req.backend = c11_used_be;\n  }\n"},
}

// probes: variable names that are matched by pattern (ratecounter.NAME.*, backend.NAME.*, director.NAME.*,
// req.http.NAME:sub ...) with known, unknown and misspelled segments.  Whatever they are, linting terminates.
var probeNames = []string{
	"ratecounter.c11_prc.bucket.10s", "ratecounter.c11_prc.rate.1s", "ratecounter.c11_prc.rate.60s", "ratecounter.c11_prc.foo.10s",
	"ratecounter.c11_prc.bucket.foo", "ratecounter.c11_prc.bucket", "ratecounter.c11_prc.rate", "ratecounter.c11_prc",
	"ratecounter.c11_prc.bucket.10s.x", "ratecounter.nosuch.rate.1s", "ratecounter.nosuch", "ratecounter.c11_prc.Bucket.10s",
	"backend.example.healthy", "backend.example.connections_open", "backend.example.connections_used", "backend.example.foo",
	"backend.example.healthy.x", "backend.example", "backend.nosuch.healthy", "backend.c11_pdir.healthy", "backend.example.Healthy",
	"director.c11_pdir.healthy", "director.c11_pdir.foo", "director.c11_pdir", "director.nosuch.healthy", "director.example.healthy",
	"req.http.X:sub", "req.http.X:a:b", "req.http.X-Y:sub-key", "req.http.Cookie:a", "resp.http.X:sub", "bereq.http.X:sub",
	"req.http.x.y", "req.http", "req.foo", "req", "beresp.http.X", "obj.ttl", "var.c11_undeclared", "var", "re.group.0", "re.group.99",
	"re.group.x", "re.group", "tls.client.foo", "client.geo.nosuch", "client.as.number.x", "fastly_info.h2.nosuch", "fastly.ff.visits_this_service.x",
	"c11_ptable", "c11_pacl", "nosuch_ident", "penaltybox.c11_ppb", "table.c11_ptable", "acl.c11_pacl", "geoip.nosuch", "now.sec.x", "time.start.nosuch",
	"std.nosuch(req.http.A)", "table.lookup(nosuch_table, \"a\")", "table.lookup(c11_ptable, \"a\")", "table.contains(c11_pacl, \"a\")",
	"ratelimit.check_rate(\"a\", nosuch_rc, 1, 10, 1, nosuch_pb, 1m)", "ratelimit.check_rate(\"a\", c11_prc, 1, 10, 1, c11_ppb, 1m)",
	"ratelimit.ratecounter_increment(c11_ppb, \"a\", 1)", "ratelimit.penaltybox_has(c11_prc, \"a\")",
}
var probePrelude = "ratecounter c11_prc {}\npenaltybox c11_ppb {}\ntable c11_ptable { \"a\": \"b\" }\nacl c11_pacl { \"192.0.2.0\"/24; }\n" +
	"director c11_pdir random { { .backend = example; .weight = 1; } }\n"
var probeForms = []string{"  set req.http.P = %s;\n", "  if (%s) {\n    set req.http.P = \"1\";\n  }\n", "  set req.http.P = \"a\" %s;\n", "  if (client.ip ~ %s) {\n  }\n", "  set var.c11_i = %s;\n"}
// malformed and well-formed PCRE in regex literals: counting capture groups, compiling ... must terminate
var regexProbes = []string{
	"^/item/(?<id[0-9]+)", "(?<", "(?P<x", "(?'n", "(?#c", "(?:a", "[a", "a\\", "(?<>a)", "(", ")", "(?", "(?P", "(?P=", "(?P>",
	"(?<n>a)(?<n>b)", "a{", "a{1,", "*", "+?", "(?i", "\\", "(?<id>[0-9]+)", "(a)(b)(c)", "((((a))))", "(?:a)(b)", "\\(a\\)", "[(]a", "[^]a]", "(?<=a)b",
	"(?<!a)b", "(?=a", "(?!a", "(?|a", "(?>a", "(?R", "(?1", "(?-i", "(?x) a # c", "\\Q(\\E", "\\Q(", "(?<id>", "(?'id'", "(?P<id>", "", "%%28", "(a|", "|)", "(?<a>(?<b>",
}
var regexForms = []string{
	"  if (req.url ~ \"%s\") {\n    set req.http.R = re.group.1;\n  }\n",
	"  if (req.url !~ \"%s\") {\n    set req.http.R = \"1\";\n  }\n",
	"  set req.http.R = regsub(req.url, \"%s\", \"x\");\n",
	"  set req.http.R = regsuball(req.url, \"%s\", \"\\1\");\n",
	"  if (req.url ~ {\"%s\"}) {\n    set req.http.R = re.group.0;\n  }\n",
	"  if (req.http.A && (req.http.B ~ \"%s\" || req.url !~ \"%s\")) {\n  }\n",
}

func regexStmt(k int) string {
	re := regexProbes[k%len(regexProbes)]
	form := regexForms[(k/len(regexProbes))%len(regexForms)]
	st := strings.ReplaceAll(form, "%s", re)
	return parsesOr(st, "")
}

// parsesOr keeps a statement only if the parser accepts it inside a subroutine
func parsesOr(st, alt string) string {
	ok, seen := probeParses[st]
	if !seen {
		_, err := parser.New(lexer.NewFromString("sub c11_probe {\n" + st + "}\n")).ParseVCL()
		ok = err == nil
		probeParses[st] = ok
	}
	if ok {
		return st
	}
	return alt
}

// blockParses keeps a declaration block only if the parser accepts it on its own
func blockParses(b string) bool {
	ok, seen := probeParses["B:"+b]
	if !seen {
		_, err := parser.New(lexer.NewFromString(b)).ParseVCL()
		ok = err == nil
		probeParses["B:"+b] = ok
	}
	return ok
}

// parameterised subroutines called with every number of arguments from none to one too many,
// as call statements and - the functional one - inside expressions
var paramTypes = []struct{ typ, arg string }{{"STRING", "\"a\""}, {"INTEGER", "1"}, {"BOOL", "true"}, {"FLOAT", "1.5"}, {"RTIME", "10s"}, {"IP", "\"192.0.2.1\""}}

func paramBlocks(index int) []string {
	n := index % 4 // number of parameters
	var params, args []string
	for k := 0; k < n; k++ {
		t := paramTypes[(index/4+k)%len(paramTypes)]
		params = append(params, fmt.Sprintf("%s var.p%d", t.typ, k))
		args = append(args, t.arg)
	}
	args = append(args, "\"extra\"")
	plain := fmt.Sprintf("sub c11_par(%s) {\n  set req.http.Par = \"1\";\n}\n", strings.Join(params, ", "))
	fn := fmt.Sprintf("sub c11_fpar(%s) STRING {\n  return \"f\";\n}\n", strings.Join(params, ", "))
	caller := "sub c11_caller {\n" + parsesOr("  call c11_par;\n", "")
	for k := 0; k <= n+1; k++ {
		caller += parsesOr(fmt.Sprintf("  call c11_par(%s);\n", strings.Join(args[:k], ", ")), "")
		caller += parsesOr(fmt.Sprintf("  set req.http.Fp = c11_fpar(%s);\n", strings.Join(args[:k], ", ")), "")
		caller += parsesOr(fmt.Sprintf("  if (c11_fpar(%s) == \"f\") {\n  }\n", strings.Join(args[:k], ", ")), "")
	}
	caller += "}\n"
	var out []string
	for _, b := range []string{plain, fn} {
		if !blockParses(b) {
			return nil
		}
		out = append(out, b)
	}
	return append(out, caller)
}

// declarations named like builtin functions / reserved words, with and without an ignore comment in front
var builtinNamed = []string{
	"sub regsub {\n  set req.http.Bn = \"1\";\n}\n",
	"# falco-ignore-next-line\nsub regsuball {\n  set req.http.Bn = \"2\";\n}\n",
	"// falco-ignore-next-line unused/declaration\nsub substr {\n  set req.http.Bn = \"3\";\n}\n",
	"sub urlencode STRING {\n  return \"u\";\n}\n",
	"# falco-ignore-next-line\nsub randombool BOOL {\n  return true;\n}\n",
	"# falco-ignore-next-line\nsub std.tolower {\n  set req.http.Bn = \"4\";\n}\n",
	"sub table.lookup {\n  set req.http.Bn = \"5\";\n}\n",
	"# falco-ignore-next-line\nsub if {\n}\n",
	"# falco-ignore-next-line\nacl regsub { \"192.0.2.0\"/24; }\n",
	"# falco-ignore-next-line\ntable substr { \"a\": \"b\" }\n",
	"# falco-ignore-next-line\nbackend urlencode { .host = \"b.example.com\"; }\n",
	"# falco-ignore-next-line\ndirector randombool random { { .backend = example; .weight = 1; } }\n",
	"# falco-ignore-next-line\npenaltybox regsub {}\n",
	"# falco-ignore-next-line\nratecounter substr {}\n",
	"# falco-ignore-next-line\nsub vcl_recv {\n  #FASTLY RECV\n}\n",
	"# falco-ignore-next-line\nsub c11_probe {\n}\n",
}

var probeParses = map[string]bool{}

// probeStmt renders the k-th probe and keeps it only if the parser accepts it (parser totality is another property)
func probeStmt(k int) string {
	name := probeNames[k%len(probeNames)]
	st := fmt.Sprintf(probeForms[(k/len(probeNames))%len(probeForms)], name)
	ok, seen := probeParses[st]
	if !seen {
		_, err := parser.New(lexer.NewFromString("sub c11_probe {\n" + st + "}\n")).ParseVCL()
		ok = err == nil
		probeParses[st] = ok
	}
	if !ok {
		return ""
	}
	return st
}

// passesBlocks returns the prelude (never permuted) and one block per subroutine declaration.
func passesBlocks(c *c11Case, rng *rand.Rand) (string, []string) {
	var pre strings.Builder
	for _, d := range c.Unused {
		switch d {
		case "acl":
			pre.WriteString("acl c11_acl_one { \"192.0.2.0\"/24; }\nacl c11_acl_two { \"198.51.100.0\"/24; }\n")
		case "table":
			pre.WriteString("table c11_table_one { \"a\": \"b\" }\ntable c11_table_two { \"a\": \"b\" }\n")
		case "penaltybox":
			pre.WriteString("penaltybox c11_pb_one {}\npenaltybox c11_pb_two {}\n")
		case "ratecounter":
			pre.WriteString("ratecounter c11_rc_one {}\nratecounter c11_rc_two {}\n")
		case "backend":
			pre.WriteString("backend c11_unused_one { .host = \"one.example.com\"; }\nbackend c11_unused_two { .host = \"two.example.com\"; }\n")
		}
	}
	pre.WriteString("backend example { .host = \"example.com\"; }\n")
	pre.WriteString(probePrelude)
	callees := map[string][]string{}
	for _, e := range c.Edges {
		callees[e[0]] = append(callees[e[0]], e[1])
	}
	explicit := map[string]bool{}
	for _, u := range c.Explicit {
		explicit[u] = true
	}
	functional := rng.Intn(2) == 0
	dup := ""
	if len(c.Users) > 0 && rng.Intn(3) == 0 {
		dup = c.Users[rng.Intn(len(c.Users))]
	}
	// one scope-restricted statement per user subroutine (as its last statement), the same in every permutation
	scoped := map[string]string{}
	for _, u := range c.Users {
		// every scope-restricted statement but one, then one of the return forms
		skip := rng.Intn(scopedReturnsFrom)
		for k := 0; k < scopedReturnsFrom; k++ {
			if k != skip {
				scoped[u] += scopedStmts[k]
			}
		}
		scoped[u] += scopedStmts[scopedReturnsFrom+rng.Intn(len(scopedStmts)-scopedReturnsFrom)]
	}
	// declaration / user families that take part
	uses := ""
	var useBlocks []string
	for _, fam := range useFamilies {
		if rng.Intn(2) == 0 {
			useBlocks = append(useBlocks, fam.blocks...)
			uses += fam.use
		}
	}
	var blocks []string
	// part: 0 = the only declaration; 1 / 2 = first / second declaration of a duplicated subroutine,
	// which share out the call statements (the call graph is the union of both)
	sub := func(name string, part int) string {
		var b strings.Builder
		if explicit[name] {
			b.WriteString("# @scope: fetch\n")
		}
		b.WriteString("sub " + name + " {\n")
		switch name {
		case "vcl_recv":
			b.WriteString("  #FASTLY RECV\n  set req.backend = example;\n")
		case "vcl_deliver":
			b.WriteString("  #FASTLY DELIVER\n")
		case "vcl_fetch":
			b.WriteString("  #FASTLY FETCH\n")
		}
		if name == "vcl_recv" {
			b.WriteString(uses)
		}
		// two locals that are never read: the unused-variable pass ranges over a map
		fmt.Fprintf(&b, "  declare local var.%s_one STRING;\n  declare local var.%s_two STRING;\n", name, name)
		if functional && name != "vcl_deliver" {
			b.WriteString("  set req.http.F = c11_func();\n")
		}
		cs := append([]string{}, callees[name]...)
		sort.Strings(cs)
		for k, t := range cs {
			if part == 0 || len(cs) < 2 || (part == 1) == (k < len(cs)/2) {
				b.WriteString("  call " + t + ";\n")
			}
		}
		if name == "vcl_recv" {
			b.WriteString("  goto c11_skip;\n  set req.http.G = \"1\";\n  c11_skip:\n  return (lookup);\n")
		}
		if part != 2 {
			b.WriteString(scoped[name])
		}
		b.WriteString("}\n")
		return b.String()
	}
	blocks = append(blocks, sub("vcl_recv", 0), sub("vcl_deliver", 0))
	for _, r := range c.Roots {
		if r == "vcl_fetch" {
			blocks = append(blocks, sub("vcl_fetch", 0))
		}
	}
	blocks = append(blocks, useBlocks...)
	// three probe statements in a subroutine of their own
	probe := "sub c11_probe {\n  declare local var.c11_i INTEGER;\n"
	for k := 0; k < 3; k++ {
		probe += probeStmt(c.Index*3 + k)
	}
	for k := 0; k < 2; k++ {
		probe += regexStmt(c.Index*2 + k)
	}
	blocks = append(blocks, probe+"}\n")
	blocks = append(blocks, paramBlocks(c.Index)...)
	for k := 0; k < 2; k++ {
		if b := builtinNamed[(c.Index*2+k)%len(builtinNamed)]; blockParses(b) {
			blocks = append(blocks, b)
		}
	}
	for _, u := range c.Users {
		if u == dup {
			blocks = append(blocks, sub(u, 1), sub(u, 2))
		} else {
			blocks = append(blocks, sub(u, 0))
		}
	}
	if functional {
		blocks = append(blocks, "sub c11_func STRING {\n  return \"x\";\n}\n")
	}
	// readers of per-subroutine linter state (regex captures) that establish none of it themselves: whatever
	// subroutine is linted before them (c11_probe matches regular expressions) must not change what is reported
	// (seeded change C11-10: the functional-subroutine scope setter no longer reset the capture state)
	blocks = append(blocks, fmt.Sprintf("sub c11_fgroup STRING {\n  return re.group.%d;\n}\n", 1+c.Index%3),
		fmt.Sprintf("sub c11_group {\n  set req.http.R = re.group.%d;\n}\n", 1+(c.Index/3)%3))
	// duplicated names across declaration kinds: whichever declaration comes first, the same diagnostics
	// (apart from their locations) must come out.  Each family joins the permuted blocks with probability 1/2.
	for _, fam := range dupFamilies {
		if rng.Intn(2) == 0 {
			blocks = append(blocks, fam...)
		}
	}
	return pre.String(), blocks
}

// ---- execution in the child ------------------------------------------------------------

type runObs struct {
	Diags []string `json:"diags"` // rule|severity|file|line:pos|message
	Fatal string   `json:"fatal,omitempty"`
	Parse string   `json:"parse,omitempty"`
}

func lintFile(mainPath string, include []string) runObs {
	var o runObs
	rs, err := resolver.NewFileResolvers(mainPath, include)
	if err != nil {
		o.Parse = "resolver: " + err.Error()
		return o
	}
	main, err := rs[0].MainVCL()
	if err != nil {
		o.Parse = "main: " + err.Error()
		return o
	}
	vcl, err := parser.New(lexer.NewFromString(main.Data, lexer.WithFile(main.Name))).ParseVCL()
	if err != nil {
		o.Parse = "parse: " + err.Error()
		return o
	}
	l := linter.New(&config.LinterConfig{})
	l.Lint(vcl, lcontext.New(lcontext.WithResolver(rs[0])))
	if l.FatalError != nil {
		o.Fatal = l.FatalError.Error.Error()
	}
	for _, e := range l.Errors {
		o.Diags = append(o.Diags, fmt.Sprintf("%s|%s|%s|%d:%d|%s", e.Rule, e.Severity, filepath.Base(e.Token.File), e.Token.Line, e.Token.Position, e.Message))
	}
	sort.Strings(o.Diags)
	return o
}

type childResult struct {
	ID    string     `json:"id"`
	Runs  []runObs   `json:"runs"`            // repeated runs of the base program
	Perms [][]string `json:"perms,omitempty"` // per permutation: diagnostics with locations erased
	Base  []string   `json:"base,omitempty"`  // base program, locations erased
	Src   string     `json:"src,omitempty"`
	Err   string     `json:"err,omitempty"`
}

var locRe = regexp.MustCompile(`\|\d+:\d+\|`)
var lineRe = regexp.MustCompile(`(line|position) \d+`)

func eraseLoc(ds []string) []string {
	out := make([]string, len(ds))
	for i, d := range ds {
		out[i] = lineRe.ReplaceAllString(locRe.ReplaceAllString(d, "|-|"), "$1 -")
	}
	sort.Strings(out)
	return out
}

func execCase(c *c11Case) childResult {
	res := childResult{ID: c.ID}
	dir, err := os.MkdirTemp("", "vhc11_")
	if err != nil {
		res.Err = err.Error()
		return res
	}
	defer os.RemoveAll(dir)
	mainPath := filepath.Join(dir, "main.vcl")
	runs := c.Runs
	if runs < 1 {
		runs = 1
	}
	switch c.Kind {
	case "include":
		for n, s := range includeFiles(c) {
			os.WriteFile(filepath.Join(dir, n), []byte(s), 0o644) // nolint:errcheck
		}
		for i := 0; i < runs; i++ {
			res.Runs = append(res.Runs, lintFile(mainPath, []string{dir}))
		}
	case "passes":
		rng := rand.New(rand.NewSource(c.Seed))
		pre, blocks := passesBlocks(c, rng)
		src := pre + strings.Join(blocks, "")
		res.Src = src
		os.WriteFile(mainPath, []byte(src), 0o644) // nolint:errcheck
		for i := 0; i < runs; i++ {
			res.Runs = append(res.Runs, lintFile(mainPath, []string{dir}))
		}
		res.Base = eraseLoc(res.Runs[0].Diags)
		for p := 0; p < c.Perms; p++ {
			perm := rng.Perm(len(blocks))
			var b strings.Builder
			b.WriteString(pre)
			for _, k := range perm {
				b.WriteString(blocks[k])
			}
			os.WriteFile(mainPath, []byte(b.String()), 0o644) // nolint:errcheck
			o := lintFile(mainPath, []string{dir})
			ds := eraseLoc(o.Diags)
			if o.Fatal != "" || o.Parse != "" {
				ds = append(ds, "FATAL "+o.Fatal+o.Parse)
			}
			res.Perms = append(res.Perms, ds)
		}
	case "die":
		// watchdog canary: unbounded recursion, the way a self-including module used to kill the linter
		var f func(n int) int
		f = func(n int) int { return f(n+1) + 1 }
		f(0)
	default:
		res.Err = "unknown case kind " + c.Kind
	}
	return res
}

func c11Child(args []string) int {
	// a runaway recursion must die quickly instead of eating a gigabyte of stack
	debug.SetMaxStack(64 << 20)
	out := bufio.NewWriter(os.Stdout)
	enc := json.NewEncoder(out)
	err := hx.Lines(func(line []byte) error {
		var c c11Case
		if err := json.Unmarshal(line, &c); err != nil {
			return err
		}
		r := execCase(&c)
		enc.Encode(r) // nolint:errcheck
		return out.Flush()
	})
	if err != nil {
		fmt.Fprintln(os.Stderr, err)
		return 2
	}
	return 0
}

// ---- parent: watchdog + comparison -------------------------------------------------------

type child struct {
	cmd    *exec.Cmd
	in     io.WriteCloser
	out    *bufio.Reader
	stderr *bytes.Buffer
}

func startChild() (*child, error) {
	self, err := os.Executable()
	if err != nil {
		return nil, err
	}
	cmd := exec.Command(self, "c11child")
	in, _ := cmd.StdinPipe()
	so, _ := cmd.StdoutPipe()
	var se bytes.Buffer
	cmd.Stderr = &se
	if err := cmd.Start(); err != nil {
		return nil, err
	}
	return &child{cmd, in, bufio.NewReaderSize(so, 1<<20), &se}, nil
}

func (c *child) stop() {
	c.in.Close()
	c.cmd.Process.Kill() // nolint:errcheck
	c.cmd.Wait()         // nolint:errcheck
}

// ask sends one case; returns the result line, or how the child failed ("crash" / "hang")
func (c *child) ask(line []byte, budget time.Duration) ([]byte, string, string) {
	if _, err := c.in.Write(append(line, '\n')); err != nil {
		c.stop()
		return nil, "crash", "write: " + err.Error() + "\n" + tail(c.stderr.String())
	}
	type rd struct {
		b   []byte
		err error
	}
	ch := make(chan rd, 1)
	go func() {
		b, err := c.out.ReadBytes('\n')
		ch <- rd{b, err}
	}()
	select {
	case r := <-ch:
		if r.err != nil {
			c.cmd.Wait() // nolint:errcheck
			return nil, "crash", tail(c.stderr.String())
		}
		return r.b, "", ""
	case <-time.After(budget):
		c.stop()
		return nil, "hang", fmt.Sprintf("no answer within %s", budget)
	}
}

func tail(s string) string {
	// keep the head of a Go crash report (the reason), it is what identifies the failure
	if len(s) > 700 {
		return s[:700]
	}
	return s
}

func sameStrings(a, b []string) bool {
	if len(a) != len(b) {
		return false
	}
	for i := range a {
		if a[i] != b[i] {
			return false
		}
	}
	return true
}

func setOf(xs []string) map[string]bool {
	m := map[string]bool{}
	for _, x := range xs {
		m[x] = true
	}
	return m
}

var quoted = regexp.MustCompile(`"([A-Za-z0-9_]+)"`)

// subsWith returns the user subroutine names mentioned by diagnostics of the given rule
func subsWith(ds []string, rule string, users map[string]bool) []string {
	got := map[string]bool{}
	for _, d := range ds {
		if !strings.HasPrefix(d, rule+"|") {
			continue
		}
		for _, m := range quoted.FindAllStringSubmatch(d, -1) {
			if users[m[1]] {
				got[m[1]] = true
			}
		}
	}
	var out []string
	for k := range got {
		out = append(out, k)
	}
	sort.Strings(out)
	return out
}

func count(ds []string, rule, substr string) int {
	n := 0
	for _, d := range ds {
		if strings.HasPrefix(d, rule+"|") && strings.Contains(d, substr) {
			n++
		}
	}
	return n
}

func sorted(xs []string) []string {
	out := append([]string{}, xs...)
	sort.Strings(out)
	return out
}

func runBinary(falco string, c *c11Case) (string, string) {
	dir, err := os.MkdirTemp("", "vhc11b_")
	if err != nil {
		return "", err.Error()
	}
	defer os.RemoveAll(dir)
	for n, s := range includeFiles(c) {
		os.WriteFile(filepath.Join(dir, n), []byte(s), 0o644) // nolint:errcheck
	}
	// 4 GiB of address space: a runaway recursion dies instead of swapping
	cmd := exec.Command("sh", "-c", "ulimit -v 4194304; exec \"$0\" lint -json -I \"$1\" \"$1/main.vcl\"", falco, dir)
	cmd.Dir = dir
	var so, se bytes.Buffer
	cmd.Stdout, cmd.Stderr = &so, &se
	if err := cmd.Start(); err != nil {
		return "", err.Error()
	}
	done := make(chan error, 1)
	go func() { done <- cmd.Wait() }()
	select {
	case err := <-done:
		code := 0
		if err != nil {
			if ee, ok := err.(*exec.ExitError); ok {
				code = ee.ExitCode()
			} else {
				return "", err.Error()
			}
		}
		if code != 0 && code != 1 {
			return "crash", fmt.Sprintf("exit status %d: %s", code, tail(se.String()))
		}
		return "", ""
	case <-time.After(300 * time.Second):
		cmd.Process.Kill() // nolint:errcheck
		return "hang", "falco lint did not finish within 300s"
	}
}

func c11Replay(args []string) int {
	fs := flag.NewFlagSet("c11replay", flag.ExitOnError)
	prefix := fs.String("prefix", "c", "case id prefix")
	runs := fs.Int("runs", 5, "repeated runs per program")
	perms := fs.Int("perms", 4, "permutations of the subroutine declarations per program")
	falco := fs.String("falco", "", "falco binary: include cases are also run through `falco lint`")
	binEvery := fs.Int("bin-every", 0, "run every n-th include case (and every cyclic one if -bin-cyclic) through the binary")
	freshEvery := fs.Int("fresh-every", 0, "every n-th case is also linted by a fresh process: the result must not depend on what the process linted before")
	maxFailures := fs.Int("max-failures", 8, "stop after this many crash / hang observations")
	binCyclic := fs.Bool("bin-cyclic", false, "run every include case with a reachable cycle through the binary")
	fs.Parse(args) // nolint:errcheck
	out := hx.NewOut()
	defer out.Close()
	var ch *child
	defer func() {
		if ch != nil {
			ch.stop()
		}
	}()
	n := 0
	failures := 0 // crash / hang observations so far: a broken tree must not cost hours, a few witnesses are enough
	err := hx.Lines(func(line []byte) error {
		var c c11Case
		if err := json.Unmarshal(line, &c); err != nil {
			return err
		}
		n++
		if failures >= *maxFailures {
			return nil
		}
		if c.ID == "" {
			c.ID = fmt.Sprintf("%s%d", *prefix, n)
		}
		if c.Seed == 0 {
			c.Seed = hx.Seed()*1000003 + int64(n)
		}
		c.Runs, c.Perms = *runs, *perms
		c.Index = int(hx.Seed())*7919 + n
		res := hx.CaseResult{ID: c.ID, Validated: true, Class: map[string]any{"kind": c.Kind, "place": c.Place}}
		keep := n <= 2
		payload, _ := json.Marshal(&c)
		var r childResult
		var failure, detail string
		for attempt := 0; attempt < 2; attempt++ {
			if ch == nil {
				var err error
				if ch, err = startChild(); err != nil {
					return err
				}
			}
			// normal cases take milliseconds (tens of them when the machine is overloaded)
			budget := 20 * time.Second
			if attempt == 1 {
				budget = 60 * time.Second
			}
			b, f, d := ch.ask(payload, budget)
			failure, detail = f, d
			if f == "" {
				if err := json.Unmarshal(b, &r); err != nil {
					return fmt.Errorf("bad child answer: %v", err)
				}
				break
			}
			ch = nil
			if f == "crash" {
				break // a crash is deterministic enough; a hang is re-tried alone with a larger budget
			}
		}
		key, _ := json.Marshal(map[string]any{"inc": c.Inc, "place": c.Place, "edges": c.Edges, "explicit": c.Explicit, "unused": c.Unused})
		res.Key = string(key)
		mm := func(obs string, extra map[string]any) {
			m := map[string]any{"obs": obs}
			for k, v := range extra {
				m[k] = v
			}
			res.Mismatch = append(res.Mismatch, m)
		}
		dr := func(obs string, model, real any) {
			res.Drift = append(res.Drift, map[string]any{"obs": obs, "model": model, "real": real})
		}
		switch {
		case failure != "":
			// requirement: linting terminates without crashing
			mm(failure, map[string]any{"detail": detail, "expected": "terminates"})
			failures++
			if failure == "hang" {
				failures++ // a hang costs over a minute: fewer witnesses are enough
			}
		case r.Err != "":
			return fmt.Errorf("child: %s", r.Err)
		default:
			first := r.Runs[0]
			if first.Parse != "" {
				return fmt.Errorf("concretiser produced an unparseable main file for %s: %s", c.ID, first.Parse)
			}
			// requirement: repeated runs report the same multiset (rule, severity, location, message)
			for i := 1; i < len(r.Runs); i++ {
				if !sameStrings(first.Diags, r.Runs[i].Diags) || first.Fatal != r.Runs[i].Fatal {
					mm("nondeterministic-runs", map[string]any{"run0": first.Diags, "run": r.Runs[i].Diags, "index": i})
					break
				}
			}
			// requirement: permuting the subroutine declarations changes nothing but locations
			for i, p := range r.Perms {
				if !sameStrings(r.Base, p) {
					mm("permutation-changes-diagnostics", map[string]any{"base": r.Base, "permuted": p, "index": i})
					break
				}
			}
			// requirement: the same program in a process with a different history reports the same
			if *freshEvery > 0 && n%*freshEvery == 0 {
				if fc, err := startChild(); err == nil {
					fb, ff, _ := fc.ask(payload, 120*time.Second)
					if ff == "" {
						var fr childResult
						if json.Unmarshal(fb, &fr) == nil && len(fr.Runs) > 0 && !sameStrings(fr.Runs[0].Diags, first.Diags) {
							mm("history-dependent-diagnostics", map[string]any{"fresh_process": fr.Runs[0].Diags, "used_process": first.Diags})
						}
						fc.stop()
					}
					res.Class["fresh"] = true
				}
			}
			// mechanism observables
			if c.Kind == "include" {
				if got := count(first.Diags, "include/module-load-failed", "recursively"); got != c.Cyclic {
					dr("recursive-include-reports", c.Cyclic, got)
				}
				if got := count(first.Diags, "include/module-load-failed", "Failed to resolve"); got != c.Missing {
					dr("missing-module-reports", c.Missing, got)
				}
				if c.Place == "root" {
					if got := count(first.Diags, "subroutine/duplicated", ""); got != c.Dups {
						dr("duplicate-declarations", c.Dups, got)
					}
				}
			} else {
				users := setOf(c.Users)
				if got := subsWith(first.Diags, "subroutine/unrecognize-call-scope", users); !sameStrings(got, sorted(c.Unrecognized)) {
					dr("unrecognized-scope-subs", sorted(c.Unrecognized), got)
				}
				var rec []string
				for _, s := range c.Recursive {
					if users[s] {
						rec = append(rec, s)
					}
				}
				if got := subsWith(first.Diags, "subroutine/recursive-call", users); !sameStrings(got, sorted(rec)) {
					dr("recursive-subs", sorted(rec), got)
				}
				if got := subsWith(first.Diags, "unused/declaration", users); !sameStrings(got, sorted(c.Uncalled)) {
					dr("uncalled-subs", sorted(c.Uncalled), got)
				}
			}
		}
		// the same include graph through the real binary
		if c.Kind == "include" && failure == "" && *falco != "" && ((*binEvery > 0 && n%*binEvery == 0) || (*binCyclic && c.Cyclic > 0)) {
			if f, d := runBinary(*falco, &c); f != "" {
				mm(f, map[string]any{"detail": d, "expected": "terminates", "via": "falco lint"})
				failures++
			} else if d != "" {
				return fmt.Errorf("cannot run falco: %s", d)
			}
			res.Class["binary"] = true
		}
		if keep || len(res.Mismatch) > 0 || len(res.Drift) > 0 {
			in := map[string]any{"case": c}
			if c.Kind == "include" {
				in["files"] = includeFiles(&c)
			} else {
				in["vcl"] = r.Src
			}
			res.Input = in
			if len(r.Runs) > 0 {
				res.Observed = map[string]any{"diagnostics": r.Runs[0].Diags, "fatal": r.Runs[0].Fatal}
			}
		}
		out.Write(res)
		return nil
	})
	if err != nil {
		fmt.Fprintln(os.Stderr, err)
		return 2
	}
	return 0
}
