package main

// C12: replay of Ignore.tla behaviours against the real linter.
//
// A behaviour is a flattened program (events), a sequence of ignore directives placed in
// comment gaps, and two predictions computed by TLC: the (site, rule) pairs the requirement
// says must survive and the pairs the mechanism model says the linter will report.
// This file only concretises (events -> VCL text), runs linter.Lint, projects the
// diagnostics back to (site, rule) by line number, and compares sets.

import (
	"bytes"
	"crypto/sha1"
	"encoding/hex"
	"encoding/json"
	"flag"
	"fmt"
	"math/rand"
	"os"
	"os/exec"
	"path/filepath"
	"sort"
	"strings"

	"verif/harness/internal/hx"

	"github.com/ysugimoto/falco/v2/config"
	"github.com/ysugimoto/falco/v2/lexer"
	"github.com/ysugimoto/falco/v2/linter"
	"github.com/ysugimoto/falco/v2/parser"
)

func main() {
	hx.Commands["c12replay"] = c12Replay
	hx.Commands["c12show"] = c12Show
	hx.Main()
}

type igDir struct {
	At    int      `json:"at"`
	Type  string   `json:"type"`
	Rules []string `json:"rules"`
}
type igPair struct {
	Site int    `json:"site"`
	Rule string `json:"rule"`
}
type igBeh struct {
	ID      string              `json:"id,omitempty"`
	Seed    int64               `json:"seed,omitempty"` // set by --replay: the decoration seed of the recorded case
	Ev      [][]json.RawMessage `json:"ev"`
	Dirs    []igDir             `json:"dirs"`
	All     []igPair            `json:"all"`
	Req     []igPair            `json:"req"`
	Mech    []igPair            `json:"mech"`
	Silent  bool                `json:"silent"`
	EofReq  bool                `json:"eofreq"`
	EofMech bool                `json:"eofmech"`
}

// ---- concretiser tables (R4) ------------------------------------------------

// abstract rule -> real rule.  r3 stands for every diagnostic of a site whose rule is never named in a
// rule list (here: the undefined variable, which has no rule name at all): only a directive without a
// rule list can suppress it.
var ruleName = map[string]string{"r1": "function/arguments", "r2": "function/argument-type"}

// the diagnostic of the lint plugin (no rule name): abstract rule r4
const pluginMessage = "c12-plugin-diagnostic"
const pluginAnnotation = "@plugin: c12plug"

func ruleAbsMsg(r, msg string) string {
	if msg == pluginMessage {
		return "r4"
	}
	return ruleAbs(r)
}

// installPlugin writes the plugin (a shell script answering one rule-less ERROR) and puts it on PATH
func installPlugin() (string, error) {
	dir, err := os.MkdirTemp("", "vhc12plug_")
	if err != nil {
		return "", err
	}
	script := "#!/bin/sh\ncat > /dev/null\nprintf '{\"errors\":[{\"Severity\":1,\"Message\":\"" + pluginMessage + "\"}]}\\n'\n"
	if err := os.WriteFile(filepath.Join(dir, "falco-c12plug"), []byte(script), 0o755); err != nil {
		return dir, err
	}
	return dir, os.Setenv("PATH", dir+string(os.PathListSeparator)+os.Getenv("PATH"))
}

func ruleAbs(r string) string {
	switch r {
	case "function/arguments":
		return "r1"
	case "function/argument-type":
		return "r2"
	}
	return "r3"
}

var dirWord = map[string]string{"next": "falco-ignore-next-line", "this": "falco-ignore", "start": "falco-ignore-start", "end": "falco-ignore-end"}
var subNames = []string{"", "vcl_recv", "vcl_deliver", "vcl_fetch", "vcl_error"}
var subMacro = []string{"", "RECV", "DELIVER", "FETCH", "ERROR"}

// every site carries at least one diagnostic of each abstract rule
const siteExpr = `std.itoa(req.http.bar) + std.itoa(0, 1, 2) + std.itoa(c12.undefined)`

var stmtTexts = []string{
	"set req.http.foo = " + siteExpr + ";",
	"add req.http.foo = " + siteExpr + ";",
	"log " + siteExpr + ";",
	"h2.push(" + siteExpr + ");",
}

const condText = siteExpr

var elifWords = []string{"else if", "elseif", "elsif"}

// styles: how a directive comment is written
//
//	0 "//"   1 "#"   2 "/* */"   3 per-directive random
func comment(d igDir, style int, rng *rand.Rand, neutral bool) string {
	w := dirWord[d.Type]
	if neutral {
		w = "falco-note" + strings.TrimPrefix(w, "falco-ignore")
	}
	var rs []string
	for _, r := range d.Rules {
		rs = append(rs, ruleName[r])
	}
	sort.Strings(rs)
	body := w
	if len(rs) > 0 {
		// spellings of a rule list: the named rules are the same in all of them (docs/linter.md: comma separated
		// names); an unknown name matches nothing
		switch rng.Intn(7) {
		case 0:
			body += " " + strings.Join(rs, ",")
		case 1:
			body += " " + strings.Join(rs, ", ") + ","
		case 2:
			body += " " + strings.Join(rs, ",, ") + ",,"
		case 3:
			body += "  " + strings.Join(rs, " ,  ") + " "
		case 4:
			body += " " + strings.Join(append([]string{"c12/no-such-rule"}, rs...), ", ")
		case 5:
			body += " " + strings.Join(rs, ", ") + ", , c12/no-such-rule"
		default:
			body += " " + strings.Join(rs, ", ")
		}
	}
	if style == 3 {
		style = rng.Intn(3)
	}
	switch style {
	case 0:
		return "// " + body
	case 1:
		return "# " + body
	default:
		return "/* " + body + " */"
	}
}

type rendered struct {
	src      string
	siteLine map[int]int // line -> site (event index)
	skipName string      // name of the subroutine the configuration excludes ("" = none)
}

// subroutines excluded from linting: the CLI always excludes vcl_pipe (config.New), .falco.yml may add more
var skipNames = []string{"vcl_pipe", "c12_skipped"}

func lintConfig() *config.LinterConfig {
	return &config.LinterConfig{IgnoreSubroutines: []string{"c12_skipped", "vcl_pipe"}}
}

// render writes the program; decorations (blank lines, neutral comments next to directives)
// are drawn from rng, so baseline and directive version must be rendered with equal seeds.
func render(b *igBeh, style int, seed int64, neutral bool, decorate bool) rendered {
	rng := rand.New(rand.NewSource(seed))
	dirAt := map[int][]igDir{}
	for _, d := range b.Dirs {
		dirAt[d.At] = append(dirAt[d.At], d)
	}
	lines := []string{
		`acl c12_unused { "192.0.2.0"/24; }`,
		`backend example { .host = "example.com"; }`,
	}
	siteLine := map[int]int{}
	braceClosed := false
	skipName := ""
	depth := 0
	ind := func() string { return strings.Repeat("  ", depth) }
	// sites that carry the plugin diagnostic (pairs (site, r4) of the model) get the annotation as the last
	// leading comment of their statement
	plugged := map[int]bool{}
	for _, p := range b.All {
		if p.Rule == "r4" {
			plugged[p.Site] = true
		}
	}
	plug := func(n int) {
		if plugged[n] {
			lines = append(lines, ind()+[]string{"# ", "// "}[int((seed+int64(n))%2)]+pluginAnnotation)
		}
	}
	gap := func(n int) {
		ds := dirAt[n]
		if decorate && len(ds) > 0 && rng.Intn(3) == 0 {
			lines = append(lines, ind()+"// a note in front of the directive")
		}
		for _, d := range ds {
			lines = append(lines, ind()+comment(d, style, rng, neutral))
		}
		if decorate && len(ds) > 0 && rng.Intn(3) == 0 {
			lines = append(lines, ind()+"# a note after the directive")
		}
		if decorate && rng.Intn(6) == 0 {
			lines = append(lines, "")
		}
	}
	for i, e := range b.Ev {
		n := i + 1
		var kind string
		var path []int
		json.Unmarshal(e[0], &kind) // nolint:errcheck
		json.Unmarshal(e[1], &path) // nolint:errcheck
		switch kind {
		case "sublead", "lead", "block_end", "eof", "sw_end":
			gap(n)
		case "rootdecl":
			// never referenced: unused/declaration is raised after the whole file has been linted
			lines = append(lines, `acl c12_acl_site { "198.51.100.0"/24; }`)
			siteLine[len(lines)] = n
		case "decl":
			// never read: unused/variable is raised when the subroutine has been linted
			lines = append(lines, ind()+fmt.Sprintf("declare local var.c12_%d STRING;", n))
			siteLine[len(lines)] = n
		case "prelse":
			// the gap between `}` and `else`: with a comment in it (or by the seed) the brace gets its own line
			if len(dirAt[n]) > 0 || (seed+int64(n))%2 == 0 {
				depth--
				lines = append(lines, ind()+"}")
				gap(n)
				depth++
				braceClosed = true
			}
		case "sub_skip":
			// excluded from linting by the configuration (see lintConfig): its diagnostics are never reported
			name := skipNames[int(seed%int64(len(skipNames)))]
			skipName = name
			lines = append(lines, "sub "+name+" {", "  "+stmtTexts[0], "}")
		case "sub_open":
			lines = append(lines, "sub "+subNames[path[0]]+" {")
			depth++
			lines = append(lines, ind()+"#FASTLY "+subMacro[path[0]])
		case "stmt":
			plug(n)
			lines = append(lines, ind()+stmtTexts[int((seed+int64(n))%int64(len(stmtTexts)))])
			siteLine[len(lines)] = n
		case "trail":
			for _, d := range dirAt[n] {
				if decorate && rng.Intn(3) == 0 {
					lines[len(lines)-1] += " /* a note */"
				}
				lines[len(lines)-1] += " " + comment(d, style, rng, neutral)
			}
		case "if_open":
			plug(n)
			lines = append(lines, ind()+"if ("+condText+") {")
			siteLine[len(lines)] = n
			depth++
		case "else":
			depth--
			if braceClosed {
				lines = append(lines, ind()+"else {")
			} else {
				lines = append(lines, ind()+"} else {")
			}
			braceClosed = false
			depth++
		case "elif":
			depth--
			open := "} "
			if braceClosed {
				open = ""
			}
			braceClosed = false
			lines = append(lines, ind()+open+elifWords[int((seed+int64(n))%int64(len(elifWords)))]+" ("+condText+") {")
			siteLine[len(lines)] = n
			depth++
		case "sw_open":
			lines = append(lines, ind()+"switch (req.http.C12) {", ind()+"case \"a\":")
			depth++
		case "sw_close":
			lines = append(lines, ind()+"break;")
			depth--
			lines = append(lines, ind()+"}")
		case "if_close", "sub_close":
			depth--
			lines = append(lines, ind()+"}")
		}
	}
	return rendered{strings.Join(lines, "\n") + "\n", siteLine, skipName}
}

// ---- execution + projection -------------------------------------------------

type lintObs struct {
	pairs  map[string]bool // "site:rule"
	others []string        // every other diagnostic, rendered with location
	err    string
}

func lintSrc(r rendered) lintObs {
	o := lintObs{pairs: map[string]bool{}}
	v, err := parser.New(lexer.NewFromString(r.src)).ParseVCL()
	if err != nil {
		o.err = "parse: " + err.Error()
		return o
	}
	l := linter.New(lintConfig())
	l.Lint(v, nil)
	if l.FatalError != nil {
		o.err = "fatal: " + l.FatalError.Error.Error()
		return o
	}
	for _, e := range l.Errors {
		if site, ok := r.siteLine[e.Token.Line]; ok {
			o.pairs[fmt.Sprintf("%d:%s", site, ruleAbsMsg(string(e.Rule), e.Message))] = true
			continue
		}
		o.others = append(o.others, fmt.Sprintf("%s|%s|%d:%d|%s", e.Rule, e.Severity, e.Token.Line, e.Token.Position, e.Message))
	}
	sort.Strings(o.others)
	return o
}

func pairSet(ps []igPair) map[string]bool {
	m := map[string]bool{}
	for _, p := range ps {
		m[fmt.Sprintf("%d:%s", p.Site, p.Rule)] = true
	}
	return m
}

func diff(a, b map[string]bool) (onlyA, onlyB []string) {
	for k := range a {
		if !b[k] {
			onlyA = append(onlyA, k)
		}
	}
	for k := range b {
		if !a[k] {
			onlyB = append(onlyB, k)
		}
	}
	sort.Strings(onlyA)
	sort.Strings(onlyB)
	return
}

func hasUnusedACL(others []string) bool {
	for _, s := range others {
		if strings.HasPrefix(s, "unused/declaration|") && strings.Contains(s, "c12_unused") {
			return true
		}
	}
	return false
}

func dirTypes(b *igBeh) string {
	var t []string
	for _, d := range b.Dirs {
		s := d.Type
		if len(d.Rules) > 0 {
			s += "+rules"
		}
		t = append(t, s)
	}
	return strings.Join(t, ",")
}

var styleName = []string{"slash", "hash", "block", "mixed"}

// runCase renders one behaviour in every requested style and emits ONE result; the mismatch / drift
// items carry the style.  The (large) input is attached only when something differs or keep is set.
// lintBinary lints the rendered program with the real binary (default configuration plus, for a user
// subroutine excluded from linting, the .falco.yml entry) and projects the JSON document like lintSrc does.
func lintBinary(falco string, r rendered) lintObs {
	o := lintObs{pairs: map[string]bool{}}
	dir, err := os.MkdirTemp("", "vhc12_")
	if err != nil {
		o.err = err.Error()
		return o
	}
	defer os.RemoveAll(dir)
	os.WriteFile(filepath.Join(dir, "main.vcl"), []byte(r.src), 0o644) // nolint:errcheck
	if r.skipName != "" && r.skipName != "vcl_pipe" {
		os.WriteFile(filepath.Join(dir, ".falco.yml"), []byte("linter:\n  ignore_subroutines:\n    - "+r.skipName+"\n"), 0o644) // nolint:errcheck
	}
	cmd := exec.Command(falco, "lint", "-vv", "-json", filepath.Join(dir, "main.vcl"))
	cmd.Dir = dir
	var so, se bytes.Buffer
	cmd.Stdout, cmd.Stderr = &so, &se
	cmd.Run() // nolint:errcheck
	var d struct {
		LintErrors map[string][]struct {
			Severity, Rule, Message string
			Token                   struct{ Line, Position int }
		}
		ParseErrors map[string]json.RawMessage
	}
	if err := json.NewDecoder(bytes.NewReader(so.Bytes())).Decode(&d); err != nil {
		o.err = "no JSON document: " + err.Error() + " " + se.String()
		return o
	}
	if len(d.ParseErrors) > 0 {
		o.err = "parse error reported by the binary"
		return o
	}
	for _, v := range d.LintErrors {
		for _, e := range v {
			if site, ok := r.siteLine[e.Token.Line]; ok {
				o.pairs[fmt.Sprintf("%d:%s", site, ruleAbsMsg(e.Rule, e.Message))] = true
				continue
			}
			o.others = append(o.others, fmt.Sprintf("%s|%s|%d:%d|%s", e.Rule, e.Severity, e.Token.Line, e.Token.Position, e.Message))
		}
	}
	sort.Strings(o.others)
	return o
}

func runCase(b *igBeh, id string, styles []int, seed int64, keep bool, falco string, viaBinary bool, out *hx.Out) {
	all, req, mech := pairSet(b.All), pairSet(b.Req), pairSet(b.Mech)
	res := hx.CaseResult{ID: id, Validated: true,
		Class: map[string]any{"directives": dirTypes(b), "silent": b.Silent}}
	vcl := map[string]string{}
	observed := map[string]any{}
	for _, st := range styles {
		decorate := st == 3
		sn := styleName[st]
		base := lintSrc(render(b, st, seed, true, decorate))
		rd := render(b, st, seed, false, decorate)
		got := lintSrc(rd)
		vcl[sn] = rd.src
		if st == 0 && len(b.Dirs) > 0 {
			h := sha1.Sum([]byte(rd.src))
			res.Key = hex.EncodeToString(h[:8])
		}
		if base.err != "" || got.err != "" {
			res.Mismatch = append(res.Mismatch, map[string]any{"obs": "lint-failed", "style": sn, "baseline": base.err, "got": got.err})
			continue
		}
		// the concretiser's contract: without directives every site reports every rule
		if a, bb := diff(base.pairs, all); len(a)+len(bb) > 0 {
			res.Mismatch = append(res.Mismatch, map[string]any{"obs": "concretiser-baseline", "style": sn, "only_real": a, "only_model": bb})
			continue
		}
		var gotList []string
		for k := range got.pairs {
			gotList = append(gotList, k)
		}
		sort.Strings(gotList)
		observed[sn] = map[string]any{"reported": gotList, "others": got.others}
		if !b.Silent {
			// requirement observables: surviving set, and every other diagnostic of the file unchanged
			if extra, missing := diff(got.pairs, req); len(extra)+len(missing) > 0 {
				res.Mismatch = append(res.Mismatch, map[string]any{"obs": "surviving-set", "style": sn,
					"reported_but_covered": extra, "suppressed_but_not_covered": missing,
					"leak": len(missing) > 0, "ineffective": len(extra) > 0})
			}
			if strings.Join(base.others, "\n") != strings.Join(got.others, "\n") {
				res.Mismatch = append(res.Mismatch, map[string]any{"obs": "other-diagnostics", "style": sn, "baseline": base.others, "got": got.others})
			}
		}
		// mechanism observables
		if a, bb := diff(got.pairs, mech); len(a)+len(bb) > 0 {
			res.Drift = append(res.Drift, map[string]any{"obs": "mechanism-surviving-set", "style": sn, "only_real": a, "only_model": bb})
		}
		if hasUnusedACL(base.others) && hasUnusedACL(got.others) != b.EofMech {
			res.Drift = append(res.Drift, map[string]any{"obs": "mechanism-end-of-file", "style": sn, "real": hasUnusedACL(got.others), "model": b.EofMech})
		}
		// the same two programs through the real binary with its default configuration
		if viaBinary && falco != "" && st == styles[0] {
			bb, bg := lintBinary(falco, render(b, st, seed, true, decorate)), lintBinary(falco, rd)
			res.Class["binary"] = true
			if bb.err != "" || bg.err != "" {
				res.Mismatch = append(res.Mismatch, map[string]any{"obs": "lint-failed", "style": sn, "via": "falco lint", "baseline": bb.err, "got": bg.err})
			} else if !b.Silent {
				if extra, missing := diff(bg.pairs, req); len(extra)+len(missing) > 0 {
					res.Mismatch = append(res.Mismatch, map[string]any{"obs": "surviving-set", "style": sn, "via": "falco lint",
						"reported_but_covered": extra, "suppressed_but_not_covered": missing,
						"leak": len(missing) > 0, "ineffective": len(extra) > 0})
				}
				if strings.Join(bb.others, "\n") != strings.Join(bg.others, "\n") {
					res.Mismatch = append(res.Mismatch, map[string]any{"obs": "other-diagnostics", "style": sn, "via": "falco lint", "baseline": bb.others, "got": bg.others})
				}
			}
		}
	}
	if keep || len(res.Mismatch) > 0 || len(res.Drift) > 0 {
		res.Input = map[string]any{"behaviour": b, "seed": seed, "vcl": vcl}
		res.Observed = observed
	}
	out.Write(res)
}

func c12Replay(args []string) int {
	fs := flag.NewFlagSet("c12replay", flag.ExitOnError)
	prefix := fs.String("prefix", "b", "case id prefix")
	stylesArg := fs.String("styles", "0,1,2,3", "comment styles to render")
	falco := fs.String("falco", "", "falco binary: every -bin-every-th case is also linted by `falco lint -json` with its default configuration")
	binEvery := fs.Int("bin-every", 0, "see -falco")
	fs.Parse(args) // nolint:errcheck
	plugDir, err := installPlugin()
	if plugDir != "" {
		defer os.RemoveAll(plugDir)
	}
	if err != nil {
		fmt.Fprintln(os.Stderr, "cannot install the lint plugin:", err)
		return 2
	}
	var styles []int
	alt := *stylesArg == "alt" // alternate between {//, mixed} and {#, /* */} from case to case
	if alt {
		*stylesArg = "0,3"
	}
	for _, s := range strings.Split(*stylesArg, ",") {
		var n int
		fmt.Sscanf(s, "%d", &n) // nolint:errcheck
		styles = append(styles, n)
	}
	out := hx.NewOut()
	defer out.Close()
	n := 0
	err = hx.Lines(func(line []byte) error {
		var b igBeh
		if err := json.Unmarshal(line, &b); err != nil {
			return err
		}
		n++
		id := b.ID
		if id == "" {
			id = fmt.Sprintf("%s%d", *prefix, n)
		}
		seed := hx.Seed()*1000003 + int64(n)
		if b.Seed != 0 {
			seed = b.Seed
		}
		st := styles
		if alt && n%2 == 1 {
			st = []int{1, 2}
		}
		runCase(&b, id, st, seed, n <= 2 || b.ID != "", *falco, *binEvery > 0 && n%*binEvery == 0, out)
		return nil
	})
	if err != nil {
		fmt.Fprintln(os.Stderr, err)
		return 2
	}
	return 0
}

// c12show: print the VCL of the behaviours on stdin (debugging aid)
func c12Show(args []string) int {
	hx.Lines(func(line []byte) error { // nolint:errcheck
		var b igBeh
		if err := json.Unmarshal(line, &b); err != nil {
			return err
		}
		for st := 0; st < 4; st++ {
			r := render(&b, st, hx.Seed(), false, st == 3)
			fmt.Println("---- style", styleName[st])
			fmt.Print(r.src)
			o := lintSrc(r)
			fmt.Println("  reported:", o.pairs, "others:", o.others, o.err)
		}
		return nil
	})
	return 0
}
