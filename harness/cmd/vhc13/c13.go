package main

// C13: recording of real executions for trace validation against spec/FrameTrace.tla.
//
// Input (stdin, one per line): an abstract program emitted by TLC from spec/FrameGen.tla - a flat list of
// statements {id, sub, parent, br, k, t, op, e{f,x,y}, fn, args[]} over the pool of names both specifications share.
// The program is concretised to VCL by table look-up (expression form -> text template), executed by the
// real interpreter in one piece (ProcessSubroutine on the main subroutine, nested calls included), and
// observed through the exported Interpreter.Debugger interface: Run(node) is called before every statement
// at every call depth; there the whole pool is read back (value + flags) through ProcessExpression.
// Two consecutive call-backs on sibling statements of one block give one event
//     {sid, b: pool before the statement, a: pool after it}
// whatever the statement is (assignment, if, call, log ...), in the frame (caller or callee) it belongs to.
// Output: one trace per program {id, scope, stmts, pool, events, err}.  This file decides nothing.

import (
	"encoding/json"
	"flag"
	"fmt"
	ghttp "net/http"
	"os"
	"sort"
	"strings"

	"verif/harness/internal/hx"

	"github.com/ysugimoto/falco/v2/ast"
	"github.com/ysugimoto/falco/v2/interpreter"
	"github.com/ysugimoto/falco/v2/interpreter/context"
	fhttp "github.com/ysugimoto/falco/v2/interpreter/http"
	"github.com/ysugimoto/falco/v2/interpreter/value"
	"github.com/ysugimoto/falco/v2/lexer"
	"github.com/ysugimoto/falco/v2/parser"
	"github.com/ysugimoto/falco/v2/resolver"
	"github.com/ysugimoto/falco/v2/token"
)

func main() {
	hx.Commands["c13record"] = c13Record
	hx.Main()
}

type fExpr struct {
	F string `json:"f"`
	X string `json:"x"`
	Y string `json:"y"`
}

type fStmt struct {
	ID     int     `json:"id"`
	Sub    string  `json:"sub"`
	Parent int     `json:"parent"`
	Br     string  `json:"br"`
	K      string  `json:"k"`
	T      string  `json:"t"`
	Op     string  `json:"op"`
	E      fExpr   `json:"e"`
	Fn     string  `json:"fn"`
	Args   []fExpr `json:"args"`
}

type fProg struct {
	Scope string  `json:"scope"`
	Stmts []fStmt `json:"stmts"`
}

type fEvent struct {
	Sid int      `json:"sid"`
	B   []string `json:"b"`
	A   []string `json:"a"`
}

type fTrace struct {
	ID     string   `json:"id"`
	Scope  string   `json:"scope"`
	Stmts  []fStmt  `json:"stmts"`
	Pool   []string `json:"pool"`
	Events []fEvent `json:"events"`
	Err    string   `json:"err"`
	VCL    string   `json:"vcl,omitempty"`
}

// ---- concretisation tables --------------------------------------------------

// expression form -> VCL text ($x, $y = operand names)
var forms = map[string]string{
	"ilit": "3", "ivar": "$x", "ineg": "-$x", "istrlen": "std.strlen($x)",
	"ibits": "5",
	"flit": "1.5", "fvar": "$x", "fneg": "-$x", "fint": "$x", "fnegint": "-$x",
	"rlit": "2s", "rvar": "$x", "rneg": "-$x",
	"slit": `"x"`, "svar": "$x", "scat": "$x $y", "scatlit": `$x "z"`, "sif": `if($x, $y, "no")`,
	"supper": "std.toupper($x)", "sregsub": `regsub($x, "(.)", "\1\1")`, "sgroup": "re.group.1",
	"scatint": `"n" $x`, "sfcall": "f2($x)",
	"sempty": `""`, "scatplus": `"x" + $x`, "stplus": `$x + 5m + "z"`, "stminus": `$x - 90s + "z"`, "stmid": `"at " $x + 90s ";"`, "stvar": `"t" $x`,
	"tlit": "std.integer2time(1000000000)", "tvar": "$x",
	"band": "($x && $y)", "bor": "($x || $y)", "bne": "($x != $y)", "bnmatch": `($x !~ "^q")`, "brge": "($x >= $y)",
	"bfle": "($x <= $y)", "btgt": "($x > $y)", "bteq": `($x + 1h + "" == "x")`,
	"klit1": "b1", "klit2": "b2", "kdir": "d1", "kvar": "$x", "kreq": "req.backend", "bkeq": "($x == b1)", "bmatchx": "($x ~ $y)",
	"xlitA": `"^foo"`, "xlitB": `"^zzz"`, "xvar": "$x", "alitA": `"192.0.2.9"`, "alitB": `"10.1.1.1"`, "avar": "$x",
	"llit1": "acl1", "llit2": "acl2", "lvar": "$x", "slitB": `"y"`, "blitB": "false", "flitB": "2.5",
	"tlitB": "std.integer2time(5)", "rlitB": "5s", "ilitB": "9",
	"blit": "true", "bvar": "$x", "bnot": "(!$x)", "blt": "($x < $y)", "bneglt": "(-$x < 0)", "bmatch": `($x ~ "^(.)(.*)")`,
	"beq": "($x == $y)", "bfgt": "($x > 1.0)", "bfneg": "(-$x < 0.0)", "brneg": "(-$x < 0s)",
}

func exprText(e fExpr) string {
	t, ok := forms[e.F]
	if !ok {
		panic("unknown expression form " + e.F)
	}
	t = strings.ReplaceAll(t, "$x", e.X)
	return strings.ReplaceAll(t, "$y", e.Y)
}

var scopes = map[string]context.Scope{
	"recv": context.RecvScope, "hash": context.HashScope, "hit": context.HitScope, "miss": context.MissScope,
	"pass": context.PassScope, "fetch": context.FetchScope, "error": context.ErrorScope,
	"deliver": context.DeliverScope, "log": context.LogScope,
}

// the pool: every name read back around every statement, and the scope it is read in ("" = the program's scope)
type poolName struct {
	Name  string
	Scope string
}

func buildPool() []poolName {
	var p []poolName
	for _, n := range []string{"var.i", "var.j", "var.f", "var.r", "var.s", "var.t", "var.b", "var.tm", "var.n", "var.be", "var.re", "var.ip",
		"var.x", "var.k", "var.o", "var.g", "var.h", "var.d", "var.a", "var.l", "var.p", "var.q", "req.backend", "b1", "b2", "d1",
		"re.group.0", "re.group.1", "re.group.2"} {
		p = append(p, poolName{n, ""})
	}
	rs := map[string]string{"req": "", "bereq": "fetch", "beresp": "fetch", "obj": "error", "resp": "deliver"}
	for _, o := range []string{"req", "bereq", "beresp", "obj", "resp"} {
		for _, h := range []string{"H1", "h1", "H1:a", "H2", "H3", "H4"} {
			p = append(p, poolName{o + ".http." + h, rs[o]})
		}
	}
	p = append(p, poolName{"req.url", ""}, poolName{"bereq.url", "fetch"}, poolName{"beresp.status", "fetch"},
		poolName{"obj.status", "error"}, poolName{"resp.status", "deliver"})
	return p
}

var pool = buildPool()

// ---- program text -----------------------------------------------------------

type lineInfo struct {
	block string // sub/parent/branch
	idx   int    // position in the block (program statements, then the sentinel)
	sid   int    // statement id, 0 = sentinel
}

type builder struct {
	sb    strings.Builder
	line  int
	lines map[int]lineInfo
	kids  map[string][]fStmt // block -> statements in id order
}

func (b *builder) emit(s string) {
	b.sb.WriteString(s)
	b.sb.WriteByte('\n')
	b.line++
}

func blockKey(sub string, parent int, br string) string { return fmt.Sprintf("%s/%d/%s", sub, parent, br) }

func (b *builder) stmtText(s fStmt) string {
	switch s.K {
	case "set":
		return fmt.Sprintf("set %s %s %s;", s.T, s.Op, exprText(s.E))
	case "unset":
		return fmt.Sprintf("unset %s;", s.T)
	case "add":
		return fmt.Sprintf("add %s = %s;", s.T, exprText(s.E))
	case "log":
		return fmt.Sprintf("log %s;", exprText(s.E))
	case "call":
		var as []string
		for _, a := range s.Args {
			as = append(as, exprText(a))
		}
		return fmt.Sprintf("call %s(%s);", s.Fn, strings.Join(as, ", "))
	}
	panic("unknown statement kind " + s.K)
}

func (b *builder) block(sub string, parent int, br string, indent string) {
	key := blockKey(sub, parent, br)
	for i, s := range b.kids[key] {
		b.lines[b.line+1] = lineInfo{key, i, s.ID}
		if s.K == "if" {
			b.emit(indent + "if (" + exprText(s.E) + ") {")
			b.block(sub, s.ID, "a", indent+"  ")
			b.emit(indent + "} else {")
			b.block(sub, s.ID, "b", indent+"  ")
			b.emit(indent + "}")
			continue
		}
		b.emit(indent + b.stmtText(s))
	}
	// sentinel: gives the call-back that closes the last statement of the block
	b.lines[b.line+1] = lineInfo{key, len(b.kids[key]), 0}
	b.emit(indent + `log "end";`)
}

const mainPrelude = `declare local var.i INTEGER; declare local var.j INTEGER; declare local var.f FLOAT; declare local var.r RTIME;
declare local var.s STRING; declare local var.t STRING; declare local var.b BOOL; declare local var.tm TIME; declare local var.n STRING;
declare local var.be BACKEND; declare local var.re REGEX; declare local var.ip IP; set var.be = b1; set var.ip = "192.0.2.7";
set var.tm = std.integer2time(1000000000);
set var.i = 3; set var.j = 4; set var.f = 1.5; set var.r = 2s; set var.s = "sv"; set var.t = "tv"; set var.b = true;`

func buildVCL(p *fProg) (string, map[int]lineInfo) {
	b := &builder{lines: map[int]lineInfo{}, kids: map[string][]fStmt{}}
	st := append([]fStmt(nil), p.Stmts...)
	sort.Slice(st, func(i, j int) bool { return st[i].ID < st[j].ID })
	for _, s := range st {
		k := blockKey(s.Sub, s.Parent, s.Br)
		b.kids[k] = append(b.kids[k], s)
	}
	b.emit(`backend b1 { .host = "example.com"; }`)
	b.emit(`backend b2 { .host = "example.org"; }`)
	b.emit(`director d1 random { .quorum = 50%; { .backend = b1; .weight = 1; } { .backend = b2; .weight = 1; } }`)
	b.emit(`acl acl1 { "192.0.2.0"/24; }`)
	b.emit(`acl acl2 { "10.0.0.0"/8; }`)
	b.emit(`sub vcl_recv { return (lookup); }`)
	b.emit(`sub f2(STRING var.p) STRING {`)
	b.emit(`  declare local var.i INTEGER; declare local var.s STRING; set var.i = 7; set var.s = "c2";`)
	b.block("f2", 0, "", "  ")
	b.emit(`  return var.p;`)
	b.emit(`}`)
	b.emit(`sub f1(STRING var.p, INTEGER var.q) {`)
	b.emit(`  declare local var.i INTEGER; declare local var.s STRING; set var.i = 8; set var.s = "c1";`)
	b.block("f1", 0, "", "  ")
	b.emit(`}`)
	// p1 / p2: one parameter of every parameter type; no declaration of their own
	const psig = `(STRING var.p, REGEX var.x, BACKEND var.k, BOOL var.o, FLOAT var.g, TIME var.h, RTIME var.d, INTEGER var.q, IP var.a, ACL var.l)`
	b.emit(`sub p2` + psig + ` {`)
	b.block("p2", 0, "", "  ")
	b.emit(`}`)
	b.emit(`sub p1` + psig + ` {`)
	b.block("p1", 0, "", "  ")
	b.emit(`}`)
	// g0 / g1: no parameter, every declaration nested in a block, the same names (var.f with another type)
	b.emit(`sub g1 {`)
	b.emit(`  if (!req.http.Zz-Never-Set) {`)
	b.emit(`    declare local var.i INTEGER; declare local var.s STRING; declare local var.f STRING; set var.i = 9; set var.s = "g1"; set var.f = "gf";`)
	b.block("g1", 0, "", "    ")
	b.emit(`  }`)
	b.emit(`}`)
	b.emit(`sub g0 {`)
	b.emit(`  if (!req.http.Zz-Never-Set) {`)
	b.emit(`    declare local var.i INTEGER; declare local var.s STRING; declare local var.f FLOAT; declare local var.n STRING; set var.i = 5; set var.s = "g0"; set var.f = 2.5;`)
	b.block("g0", 0, "", "    ")
	b.emit(`  }`)
	b.emit(`}`)
	b.emit(`sub vmain {`)
	for _, l := range strings.Split(mainPrelude, "\n") {
		b.emit("  " + l)
	}
	b.block("main", 0, "", "  ")
	b.emit(`}`)
	return b.sb.String(), b.lines
}

// ---- observation ------------------------------------------------------------

func encode(v value.Value, err error) string {
	if err != nil {
		return "<undef>"
	}
	switch t := v.(type) {
	case *value.String:
		if t.IsNotSet {
			return "S!"
		}
		return "S=" + t.Value
	case *value.Integer:
		return fmt.Sprintf("I=%d/%v%v%v", t.Value, t.IsNAN, t.IsNegativeInf, t.IsPositiveInf)
	case *value.Float:
		return fmt.Sprintf("F=%v/%v%v%v", t.Value, t.IsNAN, t.IsNegativeInf, t.IsPositiveInf)
	case *value.RTime:
		return fmt.Sprintf("R=%d", int64(t.Value))
	case *value.Boolean:
		return fmt.Sprintf("B=%v", t.Value)
	case *value.Time:
		return fmt.Sprintf("T=%d/%v%v", t.Value.UnixNano(), t.OutOfBounds, t.IsNotSet)
	}
	return string(v.Type()) + "=" + v.String()
}

type recorder struct {
	ip      *interpreter.Interpreter
	scope   context.Scope
	lines   map[int]lineInfo
	pending map[string]struct {
		idx  int
		snap []string
	}
	events []fEvent
	inSnap bool
}

func (r *recorder) snapshot() []string {
	out := make([]string, len(pool))
	cur := ""
	for i, pn := range pool {
		if pn.Scope != cur {
			if pn.Scope == "" {
				r.ip.SetScope(r.scope)
			} else {
				r.ip.SetScope(scopes[pn.Scope])
			}
			cur = pn.Scope
		}
		out[i] = r.read(pn.Name)
	}
	if cur != "" {
		r.ip.SetScope(r.scope)
	}
	return out
}

func (r *recorder) read(name string) (s string) {
	defer func() {
		if p := recover(); p != nil {
			s = "<panic>"
		}
	}()
	return encode(r.ip.ProcessExpression(&ast.Ident{Meta: ast.New(token.Token{Type: token.IDENT, Literal: name}, 0), Value: name}))
}

func (r *recorder) Run(node ast.Node) interpreter.DebugState {
	// DebugStepIn: keep being called inside called subroutines as well
	li, ok := r.lines[node.GetMeta().Token.Line]
	if !ok {
		return interpreter.DebugStepIn
	}
	snap := r.snapshot()
	if li.idx > 0 {
		if p, ok := r.pending[li.block]; ok && p.idx == li.idx-1 {
			r.events = append(r.events, fEvent{Sid: r.sidAt(li.block, li.idx-1), B: p.snap, A: snap})
		}
	}
	r.pending[li.block] = struct {
		idx  int
		snap []string
	}{li.idx, snap}
	return interpreter.DebugStepIn
}
func (r *recorder) Message(string)                {}
func (r *recorder) Log(*ast.LogStatement, string) {}

func (r *recorder) sidAt(block string, idx int) int {
	for _, li := range r.lines {
		if li.block == block && li.idx == idx {
			return li.sid
		}
	}
	return -1
}

// headers every object starts with (written in a scope where the object is writable, before the program runs)
func initStmts(obj string) string {
	return fmt.Sprintf(`set %s.http.H1 = "a=%s1,b=2"; set %s.http.H2 = "%s2"; set %s.http.H4 = "";`, obj, obj, obj, obj, obj)
}

func runProgram(id string, p *fProg, keepVCL bool) (tr fTrace) {
	src, lines := buildVCL(p)
	tr = fTrace{ID: id, Scope: p.Scope, Stmts: p.Stmts, Events: []fEvent{}}
	for _, pn := range pool {
		tr.Pool = append(tr.Pool, pn.Name)
	}
	if keepVCL {
		tr.VCL = src
	}
	defer func() {
		if r := recover(); r != nil {
			tr.Err = fmt.Sprintf("panic: %v", r)
		}
	}()
	ip := interpreter.New(context.WithResolver(resolver.NewStaticResolver("main", src)))
	req, err := fhttp.NewRequest(ghttp.MethodGet, "http://localhost/path?q=1", ghttp.NoBody)
	if err != nil {
		tr.Err = "setup: " + err.Error()
		return
	}
	req.RemoteAddr = "192.0.2.1:1111"
	if err := ip.TestProcessInit(req); err != nil {
		tr.Err = "setup: " + firstLine(err.Error())
		return
	}
	// initial headers on every object
	for _, in := range []struct{ scope, obj string }{{"fetch", "req"}, {"fetch", "bereq"}, {"fetch", "beresp"}, {"error", "obj"}, {"deliver", "resp"}} {
		v, err := parser.New(lexer.NewFromString("sub x { " + initStmts(in.obj) + " }")).ParseVCL()
		if err != nil {
			tr.Err = "setup: " + err.Error()
			return
		}
		ip.SetScope(scopes[in.scope])
		if _, _, _, err := ip.ProcessBlockStatement(v.Statements[0].(*ast.SubroutineDeclaration).Block.Statements, interpreter.DebugPass, false); err != nil {
			tr.Err = "setup: " + firstLine(err.Error())
			return
		}
	}
	// the main subroutine as parsed from the same source (line numbers are the statement identities)
	v, err := parser.New(lexer.NewFromString(src)).ParseVCL()
	if err != nil {
		tr.Err = "parse: " + firstLine(err.Error())
		return
	}
	var vmain *ast.SubroutineDeclaration
	for _, d := range v.Statements {
		if s, ok := d.(*ast.SubroutineDeclaration); ok && s.Name.Value == "vmain" {
			vmain = s
		}
	}
	rec := &recorder{ip: ip, scope: scopes[p.Scope], lines: lines, pending: map[string]struct {
		idx  int
		snap []string
	}{}}
	ip.Debugger = rec
	ip.SetScope(scopes[p.Scope])
	_, err = ip.ProcessSubroutine(vmain, interpreter.DebugStepIn, nil)
	if rec.events != nil {
		tr.Events = rec.events
	}
	if err != nil {
		tr.Err = "run: " + firstLine(err.Error())
	}
	return
}

func firstLine(s string) string {
	if i := strings.IndexByte(s, '\n'); i >= 0 {
		s = s[:i]
	}
	if len(s) > 240 {
		s = s[:240]
	}
	return s
}

// c13record [-prefix P] [-vcl]: programs on stdin -> traces on stdout
func c13Record(args []string) int {
	fs := flag.NewFlagSet("c13record", flag.ExitOnError)
	prefix := fs.String("prefix", "t", "trace id prefix")
	keep := fs.Bool("vcl", false, "keep the VCL text in the trace")
	fs.Parse(args) // nolint:errcheck
	out := hx.NewOut()
	defer out.Close()
	n := 0
	err := hx.Lines(func(line []byte) error {
		var p fProg
		if err := json.Unmarshal(line, &p); err != nil {
			return err
		}
		n++
		out.Write(runProgram(fmt.Sprintf("%s%d", *prefix, n), &p, *keep))
		return nil
	})
	if err != nil {
		fmt.Fprintln(os.Stderr, err)
		return 2
	}
	return 0
}
