package main

// C16 - `falco fmt -w FILE` never damages the file it rewrites.
//
//	vhc16 extract -falco BIN -dir DIR   writes one input file per input class, runs `falco fmt FILE`
//	                                    (what the formatter prints) and `falco fmt -w FILE` under strace,
//	                                    and prints the extracted system-call protocol of every input
//	                                    (the constant Inputs of spec/FmtWrite.tla)
//	vhc16 confirm -falco BIN -dir DIR -extract FILE < schedules.jsonl
//	                                    executes every (input, fault schedule) TLC explored on the real binary
//	                                    (strace injection, RLIMIT_FSIZE, unprivileged runs on read-only
//	                                    files / directories) and prints one observation per run: the recorded
//	                                    system calls, how the process ended, the bytes of FILE classified
//
// The harness holds no oracle: it concretises, executes, records and classifies bytes by comparison.
import (
	"bytes"
	"encoding/json"
	"flag"
	"fmt"
	"math/rand"
	"os"
	"os/exec"
	"path/filepath"
	"sort"
	"strings"
	"sync"
	"syscall"
	"time"

	"verif/harness/internal/hx"
)

func main() {
	hx.Commands["run1"] = cmdRun1
	hx.Commands["multi"] = cmdMulti
	hx.Commands["extract"] = cmdExtract
	hx.Commands["confirm"] = cmdConfirm
	hx.Main()
}

// Event is one system call on the target or on one of its temporary files (a step of the protocol).
type Event struct {
	Op  string `json:"op"`
	Obj string `json:"obj"`
	To  string `json:"to"`
	N   int    `json:"n"`   // bytes transferred (write that returned), 0 otherwise
	Res string `json:"res"` // ok / err / killed
	Sys string `json:"sys"`
	Ord int    `json:"ord"`
	Req int    `json:"req"` // bytes requested (write)
	Err string `json:"err,omitempty"`
	Inj bool   `json:"inj,omitempty"`
}

// ---------------------------------------------------------------------------------------------- inputs

type Input struct {
	Name    string  `json:"name"`
	Env     string  `json:"env"` // normal / ro_dir / longname / ro_file : the environment the command runs in
	Fmt     string  `json:"fmt"` // text / fail / panic : what `falco fmt FILE` does
	L       int     `json:"L"`
	Olen    int     `json:"olen"`
	Opfx    int     `json:"opfx"`
	Steps   []Event `json:"steps"`
	End     string  `json:"end"`
	Left    int     `json:"left"`     // bytes of the temporary file an earlier, killed run left behind (-1: no history)
	LeftSrc string  `json:"left_src"` // history: the file that earlier run was formatting
	LeftAt  int     `json:"left_at"`  // history: the call at whose entry that run was killed
	File    string  `json:"file"`     // path of the original bytes
	NewF    string  `json:"newfile"`  // path of the text `falco fmt FILE` prints
}

func genDecl(r *rand.Rand, n int) string {
	var b strings.Builder
	sp := func() string { return strings.Repeat(" ", 1+r.Intn(3)) }
	for i := 0; i < n; i++ {
		switch r.Intn(4) {
		case 0:
			fmt.Fprintf(&b, "sub%sf%d_%d%s{\n%sset%sreq.http.X-%d%s=%s\"v%d\";\nif(req.http.A){esi;}\n}\n", sp(), i, r.Intn(1000), sp(), sp(), sp(), r.Intn(100), sp(), sp(), r.Intn(1000))
		case 1:
			fmt.Fprintf(&b, "acl%sa%d_%d%s{\n%s\"10.%d.0.0\"/16;\n  !\"192.168.%d.1\";\n}\n", sp(), i, r.Intn(1000), sp(), sp(), r.Intn(250), r.Intn(250))
		case 2:
			fmt.Fprintf(&b, "table%st%d_%d%s{\n\"k%d\":%s\"v%d\",\n}\n", sp(), i, r.Intn(1000), sp(), r.Intn(100), sp(), r.Intn(100))
		default:
			fmt.Fprintf(&b, "backend%sb%d_%d%s{\n.host%s=%s\"h%d.example.com\";\n   .port = \"%d\";\n}\n", sp(), i, r.Intn(1000), sp(), sp(), sp(), r.Intn(100), 80+r.Intn(9000))
		}
	}
	return b.String()
}

func runFalco(falco string, args []string, cwd string) (int, []byte, []byte) {
	cmd := exec.Command(falco, args...)
	cmd.Dir = cwd
	var so, se bytes.Buffer
	cmd.Stdout, cmd.Stderr = &so, &se
	cmd.Env = cleanEnv()
	err := cmd.Run()
	rc := 0
	if err != nil {
		rc = -1
		if ee, ok := err.(*exec.ExitError); ok {
			rc = ee.ExitCode()
		}
	}
	return rc, so.Bytes(), se.Bytes()
}

func cleanEnv() []string {
	var env []string
	for _, e := range os.Environ() {
		if strings.HasPrefix(e, "FASTLY_") || strings.HasPrefix(e, "GOTRACEBACK") {
			continue
		}
		if strings.HasPrefix(e, "GOMAXPROCS=") || strings.HasPrefix(e, "GOGC=") {
			continue
		}
		env = append(env, e)
	}
	// keep the Go runtime of the traced binary on one thread as far as possible: strace counts the calls
	// of a fault specification (when=N) per thread
	env = append(env, "GOMAXPROCS=1", "GOGC=off")
	return env
}

func isPanic(rc int, stderr []byte) bool {
	return rc == 2 && (bytes.Contains(stderr, []byte("panic:")) || bytes.Contains(stderr, []byte("goroutine ")))
}

func cmdExtract(args []string) int {
	fs := flag.NewFlagSet("extract", flag.ExitOnError)
	falco := fs.String("falco", "", "falco binary")
	dir := fs.String("dir", "", "work dir")
	big := fs.Int("big", 300, "size of the big input in KiB")
	extra := fs.Int("extra", 0, "additional random declaration files")
	envs := fs.String("envs", "ro_dir,longname,ro_file,wx_dir,perr:rename,perr:close,perr:chmod,perr:write,perr:creat,perr:unlink,perr:fsync", "environments besides normal")
	fs.Parse(args) // nolint:errcheck
	r := rand.New(rand.NewSource(hx.Seed()))
	inDir := filepath.Join(*dir, "inputs")
	os.MkdirAll(inDir, 0o755) // nolint:errcheck
	type src struct{ name, text string }
	decl := genDecl(r, 3+r.Intn(4))
	shortDecl := fmt.Sprintf("acl  s%d {\n}\n", r.Intn(100)) // shorter than decl, also after formatting
	var bigb strings.Builder
	for bigb.Len() < *big*1024 {
		bigb.WriteString(genDecl(r, 50))
	}
	srcs := []src{
		{"decl", decl},
		{"short", shortDecl},
		{"snippet", fmt.Sprintf("set req.http.A%d = \"1\";\nunset req.http.B;\n", r.Intn(100))},
		{"syntaxerr", fmt.Sprintf("sub vcl_recv {\n set req.http.a%d = ;\n}\n", r.Intn(100))},
		{"errorstmt", "sub vcl_recv {\n  error;\n}\n"},
		{"empty", ""},
		{"big", bigb.String()},
	}
	for i := 0; i < *extra; i++ {
		srcs = append(srcs, src{fmt.Sprintf("decl%d", i+2), genDecl(r, 1+r.Intn(12))})
	}
	var inputs []Input
	add := func(s src) (Input, error) {
		in := Input{Name: s.name, Env: "normal", Olen: len(s.text), Left: -1}
		in.File = filepath.Join(inDir, s.name+".vcl")
		in.NewF = filepath.Join(inDir, s.name+".new")
		if err := os.WriteFile(in.File, []byte(s.text), 0o644); err != nil {
			return in, err
		}
		rc, so, se := runFalco(*falco, []string{"fmt", in.File}, inDir)
		switch {
		case rc == 0:
			in.Fmt = "text"
			in.L = len(so)
		case isPanic(rc, se):
			in.Fmt = "panic"
		default:
			in.Fmt = "fail"
		}
		// a second run must print the same text (the statement compares with "the text that falco fmt prints")
		rc2, so2, _ := runFalco(*falco, []string{"fmt", in.File}, inDir)
		if rc2 != rc || !bytes.Equal(so, so2) {
			return in, fmt.Errorf("falco fmt %s is not deterministic", s.name)
		}
		if err := os.WriteFile(in.NewF, so, 0o644); err != nil {
			return in, err
		}
		in.Opfx = in.L + 1
		if in.Fmt == "text" && len(s.text) <= len(so) && bytes.Equal(so[:len(s.text)], []byte(s.text)) {
			in.Opfx = len(s.text)
		}
		// the protocol: one undisturbed run of fmt -w under strace
		o := runOne(*falco, *dir, &in, runSpec{ID: "extract_" + s.name})
		if o.Err != "" {
			return in, fmt.Errorf("extract %s: %s", s.name, o.Err)
		}
		in.Steps = o.Events
		for _, e := range in.Steps {
			if e.Res != "ok" {
				// a call that fails in the undisturbed run is not a step with an effect: keep it, mark as probe
				_ = e
			}
		}
		in.End = o.Exit
		if in.End == "killed" {
			return in, fmt.Errorf("extract %s: undisturbed run was killed", s.name)
		}
		return in, nil
	}
	for _, s := range srcs {
		in, err := add(s)
		if err != nil {
			fmt.Fprintln(os.Stderr, err)
			return 2
		}
		inputs = append(inputs, in)
		// the same file in hostile environments: each gets its own extracted protocol
		if s.name == "decl" || s.name == "snippet" {
			_ = shortDecl
			for _, env := range strings.Split(*envs, ",") {
				if env == "" || env == "normal" || (strings.HasPrefix(env, "perr:") && s.name != "decl") {
					continue
				}
				ie := in
				ie.Name, ie.Env, ie.Steps = in.Name+"@"+env, env, nil
				o := runOne(*falco, *dir, &ie, runSpec{ID: "extract_" + ie.Name})
				if o.Err != "" || o.Exit == "killed" || o.Why != "" {
					fmt.Fprintf(os.Stderr, "environment %s not available: %s %s\n", env, o.Err, o.Why)
					continue
				}
				ie.Steps, ie.End = o.Events, o.Exit
				if strings.HasPrefix(env, "perr:") {
					hit := false
					for _, e := range o.Events {
						hit = hit || e.Res == "err"
					}
					if !hit {
						continue // the command never issues such a call: same protocol as in the normal environment
					}
				}
				inputs = append(inputs, ie)
			}
		}
		if s.name == "decl" && in.Fmt == "text" {
			nb, _ := os.ReadFile(in.NewF)
			in2, err := add(src{"idem", string(nb)})
			if err != nil {
				fmt.Fprintln(os.Stderr, err)
				return 2
			}
			inputs = append(inputs, in2)
		}
	}
	// two-run histories: run 1 (on the longer file "decl") is killed at every call after which a temporary file exists,
	// then the file is replaced by a shorter one and the command runs again
	var declIn, shortIn *Input
	for i := range inputs {
		if inputs[i].Name == "decl" {
			declIn = &inputs[i]
		}
		if inputs[i].Name == "short" {
			shortIn = &inputs[i]
		}
	}
	if declIn != nil && shortIn != nil && declIn.Fmt == "text" && shortIn.Fmt == "text" {
		first := 0
		for j, st := range declIn.Steps {
			if st.Obj == "tmp" && st.Res == "ok" && (st.Op == "creat" || st.Op == "open_trunc" || st.Op == "open_wr") {
				first = j + 1
				break
			}
		}
		for j := first + 1; first > 0 && j <= len(declIn.Steps); j++ {
			ie := *shortIn
			ie.Name, ie.Env, ie.Steps = fmt.Sprintf("short@left%d", j), fmt.Sprintf("left:%d", j), nil
			ie.LeftSrc, ie.LeftAt = declIn.File, j
			o := runOne(*falco, *dir, &ie, runSpec{ID: "extract_" + ie.Name})
			if o.Err != "" || o.Exit == "killed" || o.Why != "" {
				fmt.Fprintf(os.Stderr, "environment %s not available: %s %s\n", ie.Env, o.Err, o.Why)
				continue
			}
			ie.Steps, ie.End, ie.Left = o.Events, o.Exit, o.LeftBytes
			inputs = append(inputs, ie)
		}
	}
	out := hx.NewOut()
	out.Write(map[string]any{"inputs": inputs})
	out.Close()
	return 0
}

// ---------------------------------------------------------------------------------------------- one run

type Fault struct {
	At int    `json:"at"`
	F  string `json:"f"`
	K  int    `json:"k"`
}

type runSpec struct {
	ID    string  `json:"id"`
	Inp   string  `json:"inp"`
	Sched []Fault `json:"sched"`
	How   string  `json:"how"` // "", "strace:<ERRNO>", "kill", "fsize", "ro_file", "ro_dir"
}

type Content struct {
	B string `json:"b"`
	N int    `json:"n"`
}

type Obs struct {
	ID        string   `json:"id"`
	Inp       string   `json:"inp"`
	Sched     []Fault  `json:"sched"`
	How       string   `json:"how"`
	Realised  bool     `json:"realised"`
	Why       string   `json:"why,omitempty"`
	Events    []Event  `json:"events"`
	Exit      string   `json:"exit"`
	Rc        int      `json:"rc"`
	File      Content  `json:"file"`
	Tmp       bool     `json:"tmp"`
	Left      []string `json:"left,omitempty"`
	Stderr    string   `json:"stderr,omitempty"`
	Attempts  int      `json:"attempts"`
	LeftBytes int      `json:"left_bytes"`
	Err       string   `json:"err,omitempty"` // machinery problem
}

func classify(after []byte, exists bool, orig, newb []byte, hasNew bool) Content {
	switch {
	case !exists:
		return Content{"none", 0}
	case bytes.Equal(after, orig):
		return Content{"orig", 0}
	case len(after) == 0:
		return Content{"new", 0} // the first 0 bytes of any text
	case hasNew && len(after) <= len(newb) && bytes.Equal(after, newb[:len(after)]):
		return Content{"new", len(after)}
	}
	if hasNew && len(after) == len(orig) {
		for k := len(after) - 1; k > 0; k-- {
			if k <= len(newb) && bytes.Equal(after[:k], newb[:k]) && bytes.Equal(after[k:], orig[k:]) {
				return Content{"mixed", k}
			}
		}
	}
	return Content{"other", len(after)}
}

var runSeq struct {
	sync.Mutex
	n int
}

// runOne executes `falco fmt -w` once on a fresh copy of the input under the tracer, with the fault of rs.
// Only one runOne may be active per process (the tracer waits for any child).
func runOne(falco, base string, in *Input, rs runSpec) Obs {
	o := Obs{ID: rs.ID, Inp: in.Name, Sched: rs.Sched, How: rs.How, Events: []Event{}}
	if o.Sched == nil {
		o.Sched = []Fault{}
	}
	rundir, err := os.MkdirTemp(filepath.Join(base, "runs"), "r")
	if err != nil {
		o.Err = err.Error()
		return o
	}
	os.Chmod(rundir, 0o755) // nolint:errcheck
	defer func() {
		os.Chmod(rundir, 0o755) // nolint:errcheck
		os.RemoveAll(rundir)
	}()
	orig, err := os.ReadFile(in.File)
	if err != nil {
		o.Err = err.Error()
		return o
	}
	newb, _ := os.ReadFile(in.NewF)
	base0 := "t.vcl"
	if in.Env == "longname" {
		base0 = strings.Repeat("n", 246) + ".vcl" // ".<name>.<random>.tmp" exceeds NAME_MAX
	}
	target := filepath.Join(rundir, base0)
	if err := os.WriteFile(target, orig, 0o644); err != nil {
		o.Err = err.Error()
		return o
	}
	var wrap, envWrap []string
	nobody := []string{"setpriv", "--reuid=65534", "--regid=65534", "--clear-groups", "--"}
	switch in.Env {
	case "ro_dir": // the file is ours and writable, its directory is not
		os.Chown(target, 65534, 65534) // nolint:errcheck
		os.Chmod(rundir, 0o555)        // nolint:errcheck
		envWrap = nobody
	case "ro_file":
		os.Chmod(target, 0o444) // nolint:errcheck
		os.Chmod(rundir, 0o777) // nolint:errcheck
		envWrap = nobody
	case "wx_dir": // files can be created and renamed in the directory, the directory itself cannot be opened
		os.Chown(target, 65534, 65534) // nolint:errcheck
		os.Chown(rundir, 65534, 65534) // nolint:errcheck
		os.Chmod(rundir, 0o300)        // nolint:errcheck
		envWrap = nobody
	}
	leftPaths := map[string]bool{}
	if strings.HasPrefix(in.Env, "left:") {
		// history: an earlier run on the longer file, killed on entry to call LeftAt
		longer, err := os.ReadFile(in.LeftSrc)
		if err != nil {
			o.Err = err.Error()
			return o
		}
		os.WriteFile(target, longer, 0o644) // nolint:errcheck
		tr1 := trace([]string{falco, "fmt", "-w", target}, rundir, append(cleanEnv(), "HOME="+rundir), target, tamper{at: in.LeftAt, kind: "kill"})
		if tr1.err != nil || tr1.killedBy != syscall.SIGKILL {
			o.Why = "the earlier run was not killed"
			return o
		}
		ents, _ := os.ReadDir(rundir)
		for _, e := range ents {
			if e.Name() != base0 {
				leftPaths[filepath.Join(rundir, e.Name())] = true
				if fi, err := e.Info(); err == nil && int(fi.Size()) >= o.LeftBytes {
					o.LeftBytes = int(fi.Size())
				}
			}
		}
		if len(leftPaths) == 0 {
			o.Why = "the killed run left nothing behind"
			return o
		}
		if err := os.WriteFile(target, orig, 0o644); err != nil { // the file is changed (shortened) in between
			o.Err = err.Error()
			return o
		}
	}
	var tp tamper
	var f *Fault
	if len(rs.Sched) > 0 {
		f = &rs.Sched[0]
	}
	if f != nil {
		var st *Event
		if f.At >= 1 && f.At <= len(in.Steps) {
			st = &in.Steps[f.At-1]
		}
		switch {
		case strings.HasPrefix(rs.How, "inject:"), strings.HasPrefix(rs.How, "pinject:"):
			en, ok := errnos[rs.How[strings.Index(rs.How, ":")+1:]]
			if !ok {
				o.Err = "unknown errno in " + rs.How
				return o
			}
			tp = tamper{at: f.At, kind: "err", errno: en}
			if strings.HasPrefix(rs.How, "pinject:") {
				tp.kind = "perr"
			}
		case rs.How == "kill":
			tp = tamper{at: f.At, kind: "kill"}
		case rs.How == "short":
			tp = tamper{at: f.At, kind: "short", k: f.K}
		case rs.How == "fsize":
			if st == nil {
				o.Err = "no step"
				return o
			}
			off := 0
			for _, e := range in.Steps[:f.At-1] {
				if e.Op == "write" && e.Obj == st.Obj {
					off += e.N
				}
				if (e.Op == "open_trunc" || e.Op == "creat" || e.Op == "truncate") && e.Obj == st.Obj {
					off = 0
				}
			}
			wrap = []string{"prlimit", fmt.Sprintf("--fsize=%d", off+f.K), "--"}
		case rs.How == "ro_file":
			os.Chmod(target, 0o444) // nolint:errcheck
			os.Chmod(rundir, 0o777) // nolint:errcheck
			wrap = []string{"setpriv", "--reuid=65534", "--regid=65534", "--clear-groups", "--"}
		case rs.How == "ro_dir":
			os.Chown(target, 65534, 65534) // nolint:errcheck
			os.Chmod(rundir, 0o555)        // nolint:errcheck
			wrap = []string{"setpriv", "--reuid=65534", "--regid=65534", "--clear-groups", "--"}
		default:
			o.Err = "unknown realisation " + rs.How
			return o
		}
	}
	wrap = append(wrap, envWrap...)
	argv := append(append([]string{}, wrap...), falco, "fmt", "-w", target)
	for i, w := range argv[:len(wrap)] {
		if w == "prlimit" || w == "setpriv" {
			p, err := exec.LookPath(w)
			if err != nil {
				o.Why = w + " not available"
				return o
			}
			argv[i] = p
		}
	}
	tp.left = leftPaths
	if strings.HasPrefix(in.Env, "perr:") { // environment: every call of one kind fails
		tp.pOp = strings.TrimPrefix(in.Env, "perr:")
		tp.pErrno = map[string]syscall.Errno{"write": syscall.ENOSPC, "close": syscall.EIO, "chmod": syscall.EPERM, "fsync": syscall.EIO}[tp.pOp]
		if tp.pErrno == 0 {
			tp.pErrno = syscall.EACCES
		}
	}
	tr := trace(argv, rundir, append(cleanEnv(), "HOME="+rundir), target, tp)
	if tr.err != nil {
		o.Err = "tracer: " + tr.err.Error()
		return o
	}
	o.Events = tr.events
	o.Rc = tr.exitCode
	switch {
	case tr.killedBy == syscall.SIGKILL:
		o.Exit = "killed"
	case tr.killedBy != 0:
		o.Exit = "fail" // died of another signal (e.g. SIGXFSZ): a failure of the command
	case tr.exitCode == 0:
		o.Exit = "ok"
	case tr.exitCode < 0:
		o.Err = "exit status of the command unknown"
		return o
	case isPanic(tr.exitCode, tr.stderr):
		o.Exit = "panic"
	default:
		o.Exit = "fail"
	}
	o.Stderr = tail(string(tr.stderr), 200)
	os.Chmod(rundir, 0o755) // nolint:errcheck
	after, rerr := os.ReadFile(target)
	o.File = classify(after, rerr == nil, orig, newb, in.Fmt == "text")
	ents, _ := os.ReadDir(rundir)
	for _, e := range ents {
		if e.Name() != base0 {
			o.Left = append(o.Left, e.Name())
		}
	}
	sort.Strings(o.Left)
	o.Tmp = len(o.Left) > 0
	o.Realised, o.Why = realised(in, f, rs.How, o.Events, o.Exit)
	return o
}

func tail(s string, n int) string {
	if len(s) > n {
		return s[len(s)-n:]
	}
	return s
}

// realised: did the run suffer exactly the intended fault at the intended step (and nothing before it)?
func realised(in *Input, f *Fault, how string, evs []Event, exit string) (bool, string) {
	if f == nil {
		return true, ""
	}
	for i := 0; i < f.At-1; i++ {
		if i >= len(evs) {
			return false, fmt.Sprintf("run ended after %d calls, before step %d", len(evs), f.At)
		}
		if evs[i].Op != in.Steps[i].Op || evs[i].Obj != in.Steps[i].Obj || evs[i].Res != in.Steps[i].Res {
			return false, fmt.Sprintf("call %d is %s(%s)=%s, protocol has %s(%s)", i+1, evs[i].Op, evs[i].Obj, evs[i].Res, in.Steps[i].Op, in.Steps[i].Obj)
		}
	}
	if f.At == len(in.Steps)+1 {
		if f.F == "kill" && exit == "killed" && len(evs) == len(in.Steps) {
			return true, ""
		}
		return false, "kill at exit not delivered"
	}
	if f.At-1 >= len(evs) {
		return false, "faulted call not reached"
	}
	e, st := evs[f.At-1], in.Steps[f.At-1]
	if e.Op != st.Op || e.Obj != st.Obj {
		return false, fmt.Sprintf("call %d is %s(%s), protocol has %s(%s)", f.At, e.Op, e.Obj, st.Op, st.Obj)
	}
	switch f.F {
	case "err", "tmp", "perr":
		if e.Res == "err" && (e.Inj || !(strings.HasPrefix(how, "inject:") || strings.HasPrefix(how, "pinject:"))) {
			return true, ""
		}
		return false, "call did not fail: " + e.Res
	case "kill":
		if e.Res == "killed" && exit == "killed" {
			return true, ""
		}
		return false, "not killed in the call"
	case "short":
		if e.Res == "ok" && e.N == f.K {
			return true, ""
		}
		return false, fmt.Sprintf("write transferred %d bytes, wanted %d", e.N, f.K)
	}
	return false, "unknown fault"
}

func cmdConfirm(args []string) int {
	fs := flag.NewFlagSet("confirm", flag.ExitOnError)
	falco := fs.String("falco", "", "falco binary")
	dir := fs.String("dir", "", "work dir")
	ext := fs.String("extract", "", "output of extract")
	par := fs.Int("j", 12, "parallel runs")
	fs.Parse(args) // nolint:errcheck
	var ex struct {
		Inputs []Input `json:"inputs"`
	}
	b, err := os.ReadFile(*ext)
	if err != nil || json.Unmarshal(b, &ex) != nil {
		fmt.Fprintln(os.Stderr, "cannot read extract file", err)
		return 2
	}
	byName := map[string]*Input{}
	for i := range ex.Inputs {
		byName[ex.Inputs[i].Name] = &ex.Inputs[i]
	}
	var specs []runSpec
	if err := hx.Lines(func(line []byte) error {
		var rs runSpec
		if err := json.Unmarshal(line, &rs); err != nil {
			return err
		}
		specs = append(specs, rs)
		return nil
	}); err != nil {
		fmt.Fprintln(os.Stderr, err)
		return 2
	}
	res := make([]Obs, len(specs))
	var wg sync.WaitGroup
	sem := make(chan struct{}, *par)
	for i := range specs {
		wg.Add(1)
		sem <- struct{}{}
		go func(i int) {
			defer wg.Done()
			defer func() { <-sem }()
			rs := specs[i]
			in := byName[rs.Inp]
			if in == nil {
				res[i] = Obs{ID: rs.ID, Inp: rs.Inp, Err: "unknown input"}
				return
			}
			var o Obs
			js, _ := json.Marshal(rs)
			for a := 1; a <= 2; a++ {
				cmd := exec.Command(os.Args[0], "run1", "-falco", *falco, "-dir", *dir, "-extract", *ext, "-spec", string(js))
				var so, se bytes.Buffer
				cmd.Stdout, cmd.Stderr = &so, &se
				err := cmd.Run()
				o = Obs{}
				if err != nil || json.Unmarshal(so.Bytes(), &o) != nil {
					o = Obs{ID: rs.ID, Inp: rs.Inp, Sched: rs.Sched, How: rs.How, Err: fmt.Sprintf("run1 failed: %v %s", err, tail(se.String(), 300))}
				}
				o.Attempts = a
				if o.Err == "" {
					break
				}
			}
			res[i] = o
		}(i)
	}
	wg.Wait()
	out := hx.NewOut()
	for _, o := range res {
		out.Write(o)
	}
	out.Close()
	return 0
}

// run1 executes one run (the tracer waits for any child, so every run gets its own process).
func cmdRun1(args []string) int {
	fs := flag.NewFlagSet("run1", flag.ExitOnError)
	falco := fs.String("falco", "", "falco binary")
	dir := fs.String("dir", "", "work dir")
	ext := fs.String("extract", "", "output of extract")
	spec := fs.String("spec", "", "run specification (json)")
	fs.Parse(args) // nolint:errcheck
	var ex struct {
		Inputs []Input `json:"inputs"`
	}
	b, err := os.ReadFile(*ext)
	if err != nil || json.Unmarshal(b, &ex) != nil {
		fmt.Fprintln(os.Stderr, "cannot read extract file", err)
		return 2
	}
	var rs runSpec
	if err := json.Unmarshal([]byte(*spec), &rs); err != nil {
		fmt.Fprintln(os.Stderr, err)
		return 2
	}
	for i := range ex.Inputs {
		if ex.Inputs[i].Name == rs.Inp {
			o := runOne(*falco, *dir, &ex.Inputs[i], rs)
			out := hx.NewOut()
			out.Write(o)
			out.Close()
			return 0
		}
	}
	fmt.Fprintln(os.Stderr, "unknown input", rs.Inp)
	return 2
}

// multi: `falco fmt -w f1 ... fn` - several files rewritten by one command.  Every file is judged on its own.
func cmdMulti(args []string) int {
	fs := flag.NewFlagSet("multi", flag.ExitOnError)
	falco := fs.String("falco", "", "falco binary")
	dir := fs.String("dir", "", "work dir")
	n := fs.Int("n", 150, "files per command")
	rounds := fs.Int("rounds", 4, "commands (round 0 runs under the tracer with delayed openat)")
	fs.Parse(args) // nolint:errcheck
	r := rand.New(rand.NewSource(hx.Seed() + 7))
	type mf struct {
		Input
		rel        string
		orig, newb []byte
	}
	// the files of one command live in SEVERAL directories with different (and absent) configuration files; the
	// reference text of every file is what a separate `falco fmt FILE` prints in the same working directory
	subdirs := []struct{ name, cfgName, cfg string }{
		{".", "", ""},
		{"svcA", ".falco.yml", "format:\n  indent_width: 4\n  comment_style: slash\n"},
		{"svcB", "", ""},
		{"svcC/vcl", ".falco.yaml", "format:\n  indent_width: 8\n  sort_declaration: true\n"},
	}
	texts := make([]string, *n)
	for i := range texts {
		texts[i] = fmt.Sprintf("# file %d\n", i) + genDecl(r, 1+r.Intn(3))
	}
	out := hx.NewOut()
	defer out.Close()
	for round := 0; round < *rounds; round++ {
		rd, err := os.MkdirTemp(filepath.Join(*dir, "runs"), "m")
		if err != nil {
			fmt.Fprintln(os.Stderr, err)
			return 2
		}
		rootCfg := ""
		if round%2 == 1 { // every second command runs where the working directory has a configuration file of its own
			rootCfg = "format:\n  indent_width: 3\n  trailing_comment_width: 2\n"
			os.WriteFile(filepath.Join(rd, ".falco.yml"), []byte(rootCfg), 0o644) // nolint:errcheck
		}
		for _, sd := range subdirs {
			os.MkdirAll(filepath.Join(rd, sd.name), 0o755) // nolint:errcheck
			if sd.cfgName != "" {
				os.WriteFile(filepath.Join(rd, sd.name, sd.cfgName), []byte(sd.cfg), 0o644) // nolint:errcheck
			}
		}
		files := make([]*mf, *n)
		argv := []string{*falco, "fmt", "-w"}
		for i := range files {
			f := &mf{Input: Input{Name: fmt.Sprintf("mf%d_%03d", round, i), Env: "multi", Olen: len(texts[i]), Left: -1}, orig: []byte(texts[i])}
			f.rel = filepath.Join(subdirs[i%len(subdirs)].name, fmt.Sprintf("f%03d.vcl", i))
			f.File = filepath.Join(rd, f.rel)
			os.WriteFile(f.File, f.orig, 0o644) // nolint:errcheck
			files[i] = f
			argv = append(argv, f.File)
		}
		// references: one `falco fmt FILE` per file, same working directory, same path
		var wg sync.WaitGroup
		sem := make(chan struct{}, 16)
		bad := make(chan string, *n)
		for _, f := range files {
			wg.Add(1)
			sem <- struct{}{}
			go func(f *mf) {
				defer wg.Done()
				defer func() { <-sem }()
				cmd := exec.Command(*falco, "fmt", f.File)
				cmd.Dir = rd
				cmd.Env = cleanEnvMulti()
				so, err := cmd.Output()
				if err != nil {
					bad <- f.rel
					return
				}
				f.Fmt, f.L, f.newb = "text", len(so), so
				f.Opfx = f.L + 1
				if len(f.orig) <= len(so) && bytes.Equal(so[:len(f.orig)], f.orig) {
					f.Opfx = len(f.orig)
				}
			}(f)
		}
		wg.Wait()
		select {
		case b := <-bad:
			fmt.Fprintln(os.Stderr, "falco fmt failed on generated file", b)
			return 2
		default:
		}
		var ins []Input
		for _, f := range files {
			ins = append(ins, f.Input)
		}
		out.Write(map[string]any{"files": ins})
		exit := "ok"
		how := "plain"
		if rootCfg != "" {
			how = "plain, configuration file in the working directory"
		}
		if round == 0 {
			how = "traced, openat delayed 300us"
			tr := trace(argv, rd, cleanEnvMulti(), filepath.Join(rd, "-none-"), tamper{delayOpen: 300 * time.Microsecond})
			if tr.err != nil {
				fmt.Fprintln(os.Stderr, "tracer:", tr.err)
				return 2
			}
			if tr.exitCode != 0 {
				exit = "fail"
				if isPanic(tr.exitCode, tr.stderr) {
					exit = "panic"
				}
			}
		} else {
			cmd := exec.Command(argv[0], argv[1:]...)
			cmd.Dir = rd
			cmd.Env = cleanEnvMulti()
			var se bytes.Buffer
			cmd.Stderr = &se
			if err := cmd.Run(); err != nil {
				exit = "fail"
				if ee, ok := err.(*exec.ExitError); ok && isPanic(ee.ExitCode(), se.Bytes()) {
					exit = "panic"
				}
			}
		}
		for _, f := range files {
			after, rerr := os.ReadFile(f.File)
			o := Obs{ID: "multi-" + f.Name, Inp: f.Name, Sched: []Fault{}, How: how + " (" + filepath.Dir(f.rel) + ")", Realised: true, Events: []Event{},
				Exit: exit, File: classify(after, rerr == nil, f.orig, f.newb, true)}
			out.Write(o)
		}
		os.RemoveAll(rd)
	}
	return 0
}

// the multi-file runs keep the Go runtime's own thread settings: the property there is about concurrency
func cleanEnvMulti() []string {
	var env []string
	for _, e := range cleanEnv() {
		if strings.HasPrefix(e, "GOMAXPROCS=") || strings.HasPrefix(e, "GOGC=") {
			continue
		}
		env = append(env, e)
	}
	return env
}
