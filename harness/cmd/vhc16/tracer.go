package main

// A small ptrace(2) tracer (linux/amd64): runs a command, records every system call that touches the target
// file or a temporary file next to it - in one global order over all threads of the traced process - and can
// make exactly the k-th such call fail (errno injected on entry, the call is not executed), transfer fewer bytes
// than asked (a real short write: the count register is lowered) or never happen (SIGKILL on entry).
// It does what `strace -f -y -e inject=...` does, but counts calls over the whole process: strace counts
// `when=` per thread, and the Go runtime moves the goroutine that formats between threads while it is traced.

import (
	"bytes"
	"fmt"
	"os"
	"os/exec"
	"path/filepath"
	"runtime"
	"strings"
	"syscall"
	"time"
	"unsafe"
)

type sysInfo struct {
	Op   uint8
	_    [3]uint8
	Arch uint32
	IP   uint64
	SP   uint64
	U    [7]uint64 // entry: nr, args[6]; exit: rval, is_error
}

const (
	ptraceGetSyscallInfo = 0x420e
	infoEntry            = 1
	infoExit             = 2
)

func getSyscallInfo(tid int) (sysInfo, error) {
	var si sysInfo
	_, _, e := syscall.Syscall6(syscall.SYS_PTRACE, ptraceGetSyscallInfo, uintptr(tid), unsafe.Sizeof(si), uintptr(unsafe.Pointer(&si)), 0, 0)
	if e != 0 {
		return si, e
	}
	return si, nil
}

var sysNames = map[uint64]string{
	0: "read", 1: "write", 2: "open", 3: "close", 17: "pread64", 18: "pwrite64", 19: "readv", 20: "writev", 40: "sendfile",
	74: "fsync", 75: "fdatasync", 76: "truncate", 77: "ftruncate", 82: "rename", 85: "creat", 86: "link", 87: "unlink",
	88: "symlink", 90: "chmod", 91: "fchmod", 93: "fchown", 231: "exit_group", 257: "openat", 263: "unlinkat", 264: "renameat",
	265: "linkat", 266: "symlinkat", 268: "fchmodat", 316: "renameat2", 326: "copy_file_range", 437: "openat2",
	// every other call that can fail on the file, its temporary files or its directory
	92: "chown", 94: "lchown", 260: "fchownat", 280: "utimensat", 261: "futimesat", 132: "utime", 235: "utimes", 285: "fallocate",
	277: "sync_file_range", 306: "syncfs", 84: "rmdir", 83: "mkdir", 258: "mkdirat", 188: "setxattr", 190: "fsetxattr",
}

var errnos = map[string]syscall.Errno{
	"EACCES": syscall.EACCES, "EPERM": syscall.EPERM, "ENOSPC": syscall.ENOSPC, "EIO": syscall.EIO, "EFBIG": syscall.EFBIG,
	"EROFS": syscall.EROFS, "EMFILE": syscall.EMFILE, "EDQUOT": syscall.EDQUOT, "EXDEV": syscall.EXDEV, "ENOMEM": syscall.ENOMEM,
	"EBUSY": syscall.EBUSY, "EINTR": syscall.EINTR, "ENOENT": syscall.ENOENT, "EAGAIN": syscall.EAGAIN, "ESTALE": syscall.ESTALE,
}

type tamper struct {
	pOp       string // environment: EVERY call of this kind fails (persistent fault), with pErrno
	pErrno    syscall.Errno
	left      map[string]bool // files that were in the directory before the run (left behind by an earlier run): object "left"
	delayOpen time.Duration   // hold every thread this long when it returns from openat (widens races between threads)
	at        int             // index (1-based) of the call on target/tmp to disturb; 0 = none
	kind      string          // "err", "kill", "short"
	errno     syscall.Errno
	k         int // bytes a short write transfers
}

type traceResult struct {
	events   []Event
	exitCode int // -1 unknown
	killedBy syscall.Signal
	stdout   []byte
	stderr   []byte
	err      error
}

func readCString(tid int, addr uint64) string {
	var out []byte
	buf := make([]byte, 64)
	for len(out) < 4096 {
		n, err := syscall.PtracePeekData(tid, uintptr(addr)+uintptr(len(out)), buf)
		if err != nil || n == 0 {
			break
		}
		if i := bytes.IndexByte(buf[:n], 0); i >= 0 {
			out = append(out, buf[:i]...)
			return string(out)
		}
		out = append(out, buf[:n]...)
	}
	return string(out)
}

func fdPathOf(tid int, fd uint64) string {
	if int32(fd) < 0 {
		return ""
	}
	p, err := os.Readlink(fmt.Sprintf("/proc/%d/fd/%d", tid, int32(fd)))
	if err != nil {
		return ""
	}
	return strings.TrimSuffix(p, " (deleted)")
}

func atPath(tid int, dirfd uint64, addr uint64) string {
	p := readCString(tid, addr)
	if p == "" {
		return ""
	}
	if !filepath.IsAbs(p) {
		base := ""
		if int32(dirfd) == -100 { // AT_FDCWD
			base, _ = os.Readlink(fmt.Sprintf("/proc/%d/cwd", tid))
		} else {
			base = fdPathOf(tid, dirfd)
		}
		p = filepath.Join(base, p)
	}
	return filepath.Clean(p)
}

// trace runs argv under ptrace; target is the absolute path of the file being rewritten.
func trace(argv []string, dir string, env []string, target string, tp tamper) traceResult {
	res := traceResult{exitCode: -1}
	runtime.LockOSThread()
	defer runtime.UnlockOSThread()
	cmd := exec.Command(argv[0], argv[1:]...)
	cmd.Dir = dir
	cmd.Env = env
	// pipes, not files: RLIMIT_FSIZE realisations must not cut the messages of the command
	outR, outW, _ := os.Pipe()
	errR, errW, _ := os.Pipe()
	cmd.Stdout, cmd.Stderr = outW, errW
	cmd.SysProcAttr = &syscall.SysProcAttr{Ptrace: true}
	if err := cmd.Start(); err != nil {
		res.err = err
		return res
	}
	outW.Close()
	errW.Close()
	outCh, errCh := make(chan []byte, 1), make(chan []byte, 1)
	drain := func(f *os.File, ch chan []byte) {
		var b bytes.Buffer
		b.ReadFrom(f) // nolint:errcheck
		f.Close()
		ch <- b.Bytes()
	}
	go drain(outR, outCh)
	go drain(errR, errCh)
	mainPid := cmd.Process.Pid
	var ws syscall.WaitStatus
	if _, err := syscall.Wait4(mainPid, &ws, syscall.WALL, nil); err != nil || !ws.Stopped() {
		res.err = fmt.Errorf("no initial stop: %v", err)
		return res
	}
	opts := syscall.PTRACE_O_TRACESYSGOOD | syscall.PTRACE_O_TRACECLONE | syscall.PTRACE_O_TRACEFORK | syscall.PTRACE_O_TRACEVFORK |
		syscall.PTRACE_O_TRACEEXEC | 0x100000 /* PTRACE_O_EXITKILL */
	if err := syscall.PtraceSetOptions(mainPid, opts); err != nil {
		res.err = fmt.Errorf("setoptions: %v", err)
		syscall.Kill(mainPid, syscall.SIGKILL) // nolint:errcheck
		return res
	}
	if err := syscall.PtraceSyscall(mainPid, 0); err != nil {
		res.err = err
		return res
	}
	watchdog := time.AfterFunc(240*time.Second, func() { syscall.Kill(mainPid, syscall.SIGKILL) }) // nolint:errcheck
	defer watchdog.Stop()
	tdir := filepath.Dir(target)
	created := map[string]bool{}
	obj := func(p string) string {
		switch {
		case p == "":
			return "-"
		case p == target:
			return "target"
		case p == tdir:
			return "dir"
		case tp.left[p]:
			return "left"
		case filepath.Dir(p) == tdir || created[p]:
			return "tmp"
		}
		return "-"
	}
	type pend struct {
		ev      int // index into res.events, -1 = not recorded
		errno   syscall.Errno
		creates string
	}
	pending := map[int]*pend{}
	slowTid := map[int]bool{}
	persistOp := ""
	known := map[int]bool{mainPid: true}
	shortObj := "" // object whose next write fails after an injected short write
	nev := 0
	killed := false
	for {
		tid, err := syscall.Wait4(-1, &ws, syscall.WALL, nil)
		if err != nil {
			if err == syscall.EINTR {
				continue
			}
			break // ECHILD: everything is gone
		}
		if ws.Exited() || ws.Signaled() {
			if tid == mainPid {
				if ws.Exited() {
					res.exitCode = ws.ExitStatus()
				} else {
					res.killedBy = ws.Signal()
				}
			}
			delete(known, tid)
			continue
		}
		if !ws.Stopped() {
			continue
		}
		sig := ws.StopSignal()
		if sig == syscall.SIGTRAP|0x80 { // syscall stop
			si, e := getSyscallInfo(tid)
			if e != nil {
				syscall.PtraceSyscall(tid, 0) // nolint:errcheck
				continue
			}
			if si.Op == infoEntry {
				nr, a := si.U[0], si.U[1:]
				name, ok := sysNames[nr]
				if ok && tp.delayOpen > 0 && name == "openat" {
					slowTid[tid] = true
				}
				if !ok {
					syscall.PtraceSyscall(tid, 0) // nolint:errcheck
					continue
				}
				if name == "exit_group" {
					if tp.kind == "kill" && tp.at == nev+1 && !killed {
						killed = true
						syscall.Kill(mainPid, syscall.SIGKILL) // nolint:errcheck
					}
					syscall.PtraceSyscall(tid, 0) // nolint:errcheck
					continue
				}
				var p, q string
				ev := Event{To: "-", Sys: name, Res: "ok"}
				pd := &pend{ev: -1}
				switch name {
				case "openat", "openat2", "open", "creat":
					var flags uint64
					switch name {
					case "openat":
						p, flags = atPath(tid, a[0], a[1]), a[2]
					case "openat2":
						p = atPath(tid, a[0], a[1])
						var b [8]byte
						syscall.PtracePeekData(tid, uintptr(a[2]), b[:]) // nolint:errcheck
						flags = uint64(b[0]) | uint64(b[1])<<8 | uint64(b[2])<<16 | uint64(b[3])<<24
					case "open":
						p, flags = atPath(tid, ^uint64(99), a[0]), a[1]
					default:
						p, flags = atPath(tid, ^uint64(99), a[0]), 0x241
					}
					wr := flags&3 != 0
					switch {
					case wr && flags&0x200 != 0:
						ev.Op = "open_trunc"
					case flags&0x40 != 0:
						ev.Op = "creat"
					case wr:
						ev.Op = "open_wr"
					default:
						ev.Op = "open_rd"
					}
					if flags&0x40 != 0 {
						if _, e := os.Lstat(p); e != nil {
							pd.creates = p
							if filepath.Dir(p) != tdir && p != target {
								// a file created elsewhere is followed only if it is this process's own creation
								created[p] = true
							}
						}
					}
				case "read", "pread64", "readv":
					p, ev.Op = fdPathOf(tid, a[0]), "read"
				case "write", "pwrite64", "writev":
					p, ev.Op = fdPathOf(tid, a[0]), "write"
					if name != "writev" {
						ev.Req = int(a[2])
					}
				case "copy_file_range":
					p, ev.Op, ev.Req = fdPathOf(tid, a[2]), "write", int(a[4])
				case "sendfile":
					p, ev.Op, ev.Req = fdPathOf(tid, a[0]), "write", int(a[3])
				case "close":
					p, ev.Op = fdPathOf(tid, a[0]), "close"
				case "fchmod", "fchown", "fallocate", "fsetxattr":
					p, ev.Op = fdPathOf(tid, a[0]), "chmod"
				case "chmod", "chown", "lchown", "utime", "utimes", "setxattr", "rmdir", "mkdir":
					p, ev.Op = atPath(tid, ^uint64(99), a[0]), "chmod"
				case "fchmodat", "fchownat", "futimesat", "mkdirat":
					p, ev.Op = atPath(tid, a[0], a[1]), "chmod"
				case "utimensat":
					if a[1] == 0 {
						p = fdPathOf(tid, a[0])
					} else {
						p = atPath(tid, a[0], a[1])
					}
					ev.Op = "chmod"
				case "fsync", "fdatasync", "sync_file_range", "syncfs":
					p, ev.Op = fdPathOf(tid, a[0]), "fsync"
				case "ftruncate":
					p, ev.Op = fdPathOf(tid, a[0]), "truncate"
				case "truncate":
					p, ev.Op = atPath(tid, ^uint64(99), a[0]), "truncate"
				case "rename", "link", "symlink":
					p, q = atPath(tid, ^uint64(99), a[0]), atPath(tid, ^uint64(99), a[1])
				case "renameat", "renameat2", "linkat":
					p, q = atPath(tid, a[0], a[1]), atPath(tid, a[2], a[3])
				case "symlinkat":
					p, q = atPath(tid, ^uint64(99), a[0]), atPath(tid, a[1], a[2])
				case "unlink":
					p, ev.Op = atPath(tid, ^uint64(99), a[0]), "unlink"
				case "unlinkat":
					p, ev.Op = atPath(tid, a[0], a[1]), "unlink"
				}
				if strings.HasPrefix(name, "rename") {
					ev.Op = "rename"
				} else if strings.HasPrefix(name, "link") || strings.HasPrefix(name, "symlink") {
					ev.Op = "link"
				}
				if q == target && p != "" && filepath.Dir(p) != tdir {
					created[p] = true // renamed / linked onto the target from elsewhere
				}
				ev.Obj = obj(p)
				if q != "" {
					ev.To = obj(q)
				}
				if (ev.Op == "truncate") && ((name == "ftruncate" && a[1] != 0) || (name == "truncate" && a[1] != 0)) {
					ev.Op = "chmod" // truncation to a non-zero length: not modelled as emptying
				}
				if ev.Obj == "-" && ev.To == "-" {
					pending[tid] = pd
					syscall.PtraceSyscall(tid, 0) // nolint:errcheck
					continue
				}
				nev++
				res.events = append(res.events, ev)
				pd.ev = len(res.events) - 1
				pending[tid] = pd
				inject := func(en syscall.Errno) {
					var regs syscall.PtraceRegs
					if syscall.PtraceGetRegs(tid, &regs) == nil {
						regs.Orig_rax = ^uint64(0)
						syscall.PtraceSetRegs(tid, &regs) // nolint:errcheck
						pd.errno = en
						res.events[pd.ev].Inj = true
					}
				}
				if tp.pOp != "" && ev.Op == tp.pOp && !(tp.at == nev && tp.kind == "kill") {
					inject(tp.pErrno)
				} else if persistOp != "" && ev.Op == persistOp && tp.at < nev {
					inject(tp.errno) // persistent fault: every later call of the same kind fails too
				} else if tp.at == nev {
					switch tp.kind {
					case "perr":
						persistOp = ev.Op
						inject(tp.errno)
					case "err":
						inject(tp.errno)
					case "kill":
						killed = true
						res.events[pd.ev].Res = "killed"
						syscall.Kill(mainPid, syscall.SIGKILL) // nolint:errcheck
					case "short":
						var regs syscall.PtraceRegs
						if (name == "write" || name == "pwrite64") && syscall.PtraceGetRegs(tid, &regs) == nil && uint64(tp.k) < regs.Rdx {
							regs.Rdx = uint64(tp.k)
							syscall.PtraceSetRegs(tid, &regs) // nolint:errcheck
							shortObj = ev.Obj
							res.events[pd.ev].Inj = true
						}
					}
				} else if shortObj != "" && ev.Op == "write" && ev.Obj == shortObj && tp.at < nev {
					inject(syscall.ENOSPC) // the rest of a short write does not fit either
				}
				syscall.PtraceSyscall(tid, 0) // nolint:errcheck
				continue
			}
			if si.Op == infoExit {
				if tp.delayOpen > 0 && slowTid[tid] {
					delete(slowTid, tid)
					time.Sleep(tp.delayOpen)
				}
				if pd := pending[tid]; pd != nil {
					delete(pending, tid)
					rval := int64(si.U[0])
					if pd.errno != 0 {
						var regs syscall.PtraceRegs
						if syscall.PtraceGetRegs(tid, &regs) == nil {
							regs.Rax = uint64(-int64(pd.errno))
							syscall.PtraceSetRegs(tid, &regs) // nolint:errcheck
						}
						rval = -int64(pd.errno)
					}
					if pd.ev >= 0 {
						e := &res.events[pd.ev]
						if rval < 0 && rval >= -4095 {
							e.Res = "err"
							e.Err = syscall.Errno(-rval).Error()
						} else if e.Op == "write" {
							e.N = int(rval)
						}
					}
				}
			}
			syscall.PtraceSyscall(tid, 0) // nolint:errcheck
			continue
		}
		if sig == syscall.SIGTRAP && ws.TrapCause() > 0 { // clone / fork / exec event
			syscall.PtraceSyscall(tid, 0) // nolint:errcheck
			continue
		}
		if !known[tid] && (sig == syscall.SIGSTOP || sig == syscall.SIGTRAP) { // a new thread's first stop
			known[tid] = true
			syscall.PtraceSyscall(tid, 0) // nolint:errcheck
			continue
		}
		known[tid] = true
		syscall.PtraceSyscall(tid, int(sig)) // nolint:errcheck  (deliver the signal)
	}
	res.stdout, res.stderr = <-outCh, <-errCh
	if res.events == nil {
		res.events = []Event{}
	}
	cmd.Process.Release() // nolint:errcheck
	return res
}
