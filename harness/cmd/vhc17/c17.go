package main

// C17: replay of Headers.tla transitions through the real header variables.
//
// Every behaviour is a witness sequence of header operations with, after each
// operation, the read-back the specification predicts for every cell
// (spelling x {whole header, sub-field key}):
//   m  mechanism layer  "=text" | "!"            (a difference is drift)
//   r  requirement layer "=text" | "!" | "~" (as before the operation) | "?"
//      (a difference is a mismatch), plus the spelling law: spellings of one
//      header read alike.
// The sequence is executed on every (object, scope) pair in which the object
// is writable, through two bindings: VCL statements run by the interpreter
// (ProcessBlockStatement / ProcessExpression) and the exported variable API
// (variable.New<Scope>ScopeVariables(ctx).Get/Set/Add/Unset).
// This file concretises, executes, projects and tests equality - it holds no
// expected value of its own.

import (
	"encoding/json"
	"flag"
	"fmt"
	ghttp "net/http"
	"net/http/httptest"
	"os"
	"strconv"
	"strings"

	"verif/harness/internal/hx"

	"github.com/ysugimoto/falco/v2/ast"
	"github.com/ysugimoto/falco/v2/interpreter"
	"github.com/ysugimoto/falco/v2/interpreter/context"
	fhttp "github.com/ysugimoto/falco/v2/interpreter/http"
	"github.com/ysugimoto/falco/v2/interpreter/value"
	"github.com/ysugimoto/falco/v2/interpreter/variable"
	"github.com/ysugimoto/falco/v2/lexer"
	"github.com/ysugimoto/falco/v2/parser"
	"github.com/ysugimoto/falco/v2/resolver"
	"github.com/ysugimoto/falco/v2/token"
)

func main() {
	hx.Commands["c17replay"] = c17Replay
	hx.Main()
}

type hOp struct {
	Op string `json:"op"`
	O  string `json:"o"` // object, "_" = the object of the (object, scope) pair being replayed
	N  string `json:"n"`
	K  string `json:"k"`
	VK string `json:"vk"` // str | ns | null
	V  string `json:"v"`
}

type hStep struct {
	Op hOp          `json:"op"`
	M  [][][]string `json:"m"` // [object][spelling][cell]
	R  [][][]string `json:"r"`
}

type hBeh struct {
	Alpha string   `json:"alpha"`
	Steps []hStep  `json:"steps"`
	Objs  []string `json:"objs"`
	Sp    []string `json:"sp"`
	Canon []string `json:"canon"`
	Keys  []string `json:"keys"`
}

type pair struct {
	Obj   string
	Scope string
}

var scopes = map[string]context.Scope{
	"recv": context.RecvScope, "hash": context.HashScope, "hit": context.HitScope, "miss": context.MissScope,
	"pass": context.PassScope, "fetch": context.FetchScope, "error": context.ErrorScope,
	"deliver": context.DeliverScope, "log": context.LogScope,
}

// every (object, scope) in which <object>.http.* is writable according to __generator__/predefined.yml
// (vcl_pipe is not simulated by the interpreter: SetScope has no arm for it)
var allPairs = []pair{
	{"req", "recv"}, {"beresp", "fetch"},
	{"req", "hash"}, {"req", "hit"}, {"req", "miss"}, {"req", "pass"}, {"req", "fetch"}, {"req", "error"},
	{"req", "deliver"}, {"req", "log"},
	{"bereq", "miss"}, {"bereq", "pass"}, {"bereq", "fetch"},
	{"obj", "hit"}, {"obj", "error"},
	{"resp", "deliver"}, {"resp", "log"},
}

// ---- concretisation tables --------------------------------------------------

// abstract header spelling -> concrete spelling; VERIF_SEED picks the family
var nameFamilies = []map[string]string{
	{"Foo": "Foo", "fOO": "fOO", "FOO": "FOO", "X-Bar": "X-Bar", "x-bar": "x-bar"},
	{"Foo": "X-Abc-Def", "fOO": "x-aBC-dEF", "FOO": "X-ABC-DEF", "X-Bar": "Baz", "x-bar": "bAZ"},
	{"Foo": "Q", "fOO": "q", "FOO": "Q", "X-Bar": "Vary-On9", "x-bar": "vARY-oN9"},
}
var names = nameFamilies[0]

func varName(obj, n, k string) string {
	if c, ok := names[n]; ok {
		n = c
	}
	s := obj + ".http." + n
	if k != "" {
		s += ":" + k
	}
	return s
}

func vclString(s string) string {
	// VCL string literal: %XX escapes inside "..."
	var b strings.Builder
	b.WriteByte('"')
	for i := 0; i < len(s); i++ {
		c := s[i]
		switch {
		case c == '"' || c == '%' || c == '\\' || c < 0x20 || c >= 0x7f:
			fmt.Fprintf(&b, "%%%02X", c)
		default:
			b.WriteByte(c)
		}
	}
	b.WriteByte('"')
	return b.String()
}

const nullExpr = "req.http.V-Never-Set"

func vclValue(o hOp) string {
	if o.VK == "null" {
		return nullExpr
	}
	return vclString(o.V)
}

func vclStmt(obj string, o hOp) string {
	name := varName(obj, o.N, o.K)
	switch o.Op {
	case "set", "setf":
		return fmt.Sprintf("set %s = %s;", name, vclValue(o))
	case "app":
		return fmt.Sprintf("set %s += %s;", name, vclValue(o))
	case "unset", "unsetf":
		return fmt.Sprintf("unset %s;", name)
	case "add":
		return fmt.Sprintf("add %s = %s;", name, vclValue(o))
	}
	panic("unknown op " + o.Op)
}

// ---- the two bindings -------------------------------------------------------

type store interface {
	do(obj string, o hOp) error
	read(name string) (string, error) // "=text" | "!"
	useScope(scope string)            // switch the scope of the same context (the way the tester does)
}

// the scope an object is written / read in when several objects of one context are exercised
var objScope = map[string]string{"req": "recv", "bereq": "miss", "beresp": "fetch", "obj": "error", "resp": "deliver"}

func enc(v value.Value) string {
	if s, ok := v.(*value.String); ok && s.IsNotSet {
		return "!"
	}
	return "=" + v.String()
}

// binding 1: VCL statements through the interpreter
type vclStore struct {
	ip *interpreter.Interpreter
}

var stmtCache = map[string][]ast.Statement{}

func parseStmt(text string) ([]ast.Statement, error) {
	if st, ok := stmtCache[text]; ok {
		return st, nil
	}
	v, err := parser.New(lexer.NewFromString("sub x {\n" + text + "\n}")).ParseVCL()
	if err != nil {
		return nil, err
	}
	st := v.Statements[0].(*ast.SubroutineDeclaration).Block.Statements
	stmtCache[text] = st
	return st, nil
}

const mainVCL = `backend example { .host = "example.com"; } sub vcl_recv { return (lookup); }`

func newVclStore(scope string) (*vclStore, error) {
	ip := interpreter.New(context.WithResolver(resolver.NewStaticResolver("main", mainVCL)))
	req, err := fhttp.NewRequest(ghttp.MethodGet, "http://localhost/", ghttp.NoBody)
	if err != nil {
		return nil, err
	}
	req.RemoteAddr = "192.0.2.1:1111"
	if err := ip.TestProcessInit(req); err != nil {
		return nil, err
	}
	ip.SetScope(scopes[scope])
	return &vclStore{ip: ip}, nil
}

func (s *vclStore) do(obj string, o hOp) (err error) {
	defer func() {
		if r := recover(); r != nil {
			err = fmt.Errorf("panic: %v", r)
		}
	}()
	st, err := parseStmt(vclStmt(obj, o))
	if err != nil {
		return fmt.Errorf("parse: %v", err)
	}
	_, _, _, err = s.ip.ProcessBlockStatement(st, interpreter.DebugPass, false)
	return err
}

func (s *vclStore) useScope(scope string) { s.ip.SetScope(scopes[scope]) }

func (s *vclStore) read(name string) (r string, err error) {
	defer func() {
		if p := recover(); p != nil {
			err = fmt.Errorf("panic: %v", p)
		}
	}()
	v, err := s.ip.ProcessExpression(&ast.Ident{Meta: ast.New(token.Token{Type: token.IDENT, Literal: name}, 0), Value: name})
	if err != nil {
		return "", err
	}
	return enc(v), nil
}

// binding 2: the exported variable API on a context built here
type apiStore struct {
	vars  variable.Variable
	scope context.Scope
}

func newAPIStore(scope string) (*apiStore, error) {
	ctx := context.New()
	req, err := fhttp.NewRequest(ghttp.MethodGet, "http://localhost/", ghttp.NoBody)
	if err != nil {
		return nil, err
	}
	req.RemoteAddr = "192.0.2.1:1111"
	ctx.Request = req
	breq, err := fhttp.NewRequest(ghttp.MethodGet, "http://localhost/", ghttp.NoBody)
	if err != nil {
		return nil, err
	}
	ctx.BackendRequest = breq
	mk := func() *fhttp.Response {
		return fhttp.WrapResponse(&ghttp.Response{StatusCode: 200, Status: "OK", Proto: "HTTP/1.1", ProtoMajor: 1, ProtoMinor: 1,
			Header: ghttp.Header{}, Body: ghttp.NoBody, Trailer: ghttp.Header{}, Request: breq.Request})
	}
	ctx.BackendResponse, ctx.Object, ctx.Response = mk(), mk(), mk()
	ctx.Scope = scopes[scope]
	var vars variable.Variable
	switch scope {
	case "recv":
		vars = variable.NewRecvScopeVariables(ctx)
	case "hash":
		vars = variable.NewHashScopeVariables(ctx)
	case "hit":
		vars = variable.NewHitScopeVariables(ctx)
	case "miss":
		vars = variable.NewMissScopeVariables(ctx)
	case "pass":
		vars = variable.NewPassScopeVariables(ctx)
	case "fetch":
		vars = variable.NewFetchScopeVariables(ctx)
	case "error":
		vars = variable.NewErrorScopeVariables(ctx)
	case "deliver":
		vars = variable.NewDeliverScopeVariables(ctx)
	case "log":
		vars = variable.NewLogScopeVariables(ctx)
	default:
		return nil, fmt.Errorf("unknown scope %s", scope)
	}
	return &apiStore{vars: vars, scope: scopes[scope]}, nil
}

func (s *apiStore) do(obj string, o hOp) (err error) {
	defer func() {
		if r := recover(); r != nil {
			err = fmt.Errorf("panic: %v", r)
		}
	}()
	name := varName(obj, o.N, o.K)
	val := &value.String{Value: o.V, IsNotSet: o.VK == "ns"}
	switch o.Op {
	case "set", "setf":
		return s.vars.Set(s.scope, name, "=", val)
	case "app":
		return s.vars.Set(s.scope, name, "+=", val)
	case "unset", "unsetf":
		return s.vars.Unset(s.scope, name)
	case "add":
		return s.vars.Add(s.scope, name, val)
	}
	return fmt.Errorf("unknown op %s", o.Op)
}

func (s *apiStore) useScope(scope string) { panic("the API binding is built per scope") }

func (s *apiStore) read(name string) (r string, err error) {
	defer func() {
		if p := recover(); p != nil {
			err = fmt.Errorf("panic: %v", p)
		}
	}()
	v, err := s.vars.Get(s.scope, name)
	if err != nil {
		return "", err
	}
	return enc(v), nil
}

// ---- replay -----------------------------------------------------------------

func expressible(b *hBeh, api string) bool {
	for _, st := range b.Steps {
		if st.Op.Op == "unset" || st.Op.Op == "unsetf" {
			continue // carries no value
		}
		if api == "vcl" && st.Op.VK == "ns" {
			return false
		}
		if api == "api" && st.Op.VK == "null" {
			return false
		}
	}
	return true
}

// readAll reads every cell of every object of the behaviour; "_" stands for obj
func readAll(s store, obj string, b *hBeh) ([][][]string, error) {
	all := make([][][]string, len(b.Objs))
	for oi, ob := range b.Objs {
		if ob == "_" {
			ob = obj
		} else {
			s.useScope(objScope[ob])
		}
		out := make([][]string, len(b.Sp))
		for i, sp := range b.Sp {
			row := make([]string, 1+len(b.Keys))
			for j := 0; j <= len(b.Keys); j++ {
				k := ""
				if j > 0 {
					k = b.Keys[j-1]
				}
				v, err := s.read(varName(ob, sp, k))
				if err != nil {
					return nil, fmt.Errorf("read %s: %v", varName(ob, sp, k), err)
				}
				row[j] = v
			}
			out[i] = row
		}
		all[oi] = out
	}
	return all, nil
}

func cellName(b *hBeh, oi, i, j int) string {
	p := ""
	if b.Objs[oi] != "_" {
		p = b.Objs[oi] + "."
	}
	if j == 0 {
		return p + b.Sp[i]
	}
	return p + b.Sp[i] + ":" + b.Keys[j-1]
}

// runOne executes one behaviour on one (object, scope, binding); appends mismatch / drift items
func runOne(b *hBeh, p pair, api string, mism, drift *[]map[string]any) {
	tag := func(m map[string]any, stepIdx int) map[string]any {
		m["object"], m["scope"], m["api"], m["step"] = p.Obj, p.Scope, api, stepIdx
		o := b.Steps[stepIdx].Op
		if o.O != "_" {
			m["object"], m["scope"] = o.O, "multi"
		}
		m["op"], m["op_name"], m["op_key"], m["op_vk"], m["op_value"] = o.Op, o.N, o.K, o.VK, o.V
		return m
	}
	var s store
	var err error
	if api == "vcl" {
		s, err = newVclStore(p.Scope)
	} else {
		s, err = newAPIStore(p.Scope)
	}
	if err != nil {
		fmt.Fprintln(os.Stderr, "cannot build store:", err)
		os.Exit(3)
	}
	before, err := readAll(s, p.Obj, b)
	if err != nil {
		*mism = append(*mism, tag(map[string]any{"obs": "read-error", "got": err.Error()}, 0))
		return
	}
	for si, st := range b.Steps {
		obj := p.Obj
		if st.Op.O != "_" {
			obj = st.Op.O
			s.useScope(objScope[obj])
		}
		if err := s.do(obj, st.Op); err != nil {
			// the statement is in the domain of the property (a writable header in this scope): it must execute
			*mism = append(*mism, tag(map[string]any{"obs": "op-error", "got": firstLine(err.Error())}, si))
			return
		}
		after, err := readAll(s, p.Obj, b)
		if err != nil {
			*mism = append(*mism, tag(map[string]any{"obs": "read-error", "got": firstLine(err.Error())}, si))
			return
		}
		compareStep(b, &st, si, before, after, tag, mism, drift)
		before = after
	}
}

// compareStep compares the read-back after step si with what both layers of the specification say
func compareStep(b *hBeh, st *hStep, si int, before, after [][][]string, tag func(map[string]any, int) map[string]any, mism, drift *[]map[string]any) {
	for oi := range b.Objs {
		for i := range b.Sp {
			for j := 0; j <= len(b.Keys); j++ {
				got := after[oi][i][j]
				// requirement layer
				switch r := st.R[oi][i][j]; {
				case r == "?":
				case strings.HasPrefix(r, "+"):
					if want := appended(before[oi][i][j], r[1:]); got != want {
						*mism = append(*mism, tag(map[string]any{"obs": "readback", "cell": cellName(b, oi, i, j),
							"cell_kind": cellKind(j), "expected": want, "got": got}, si))
					}
				case r == "~":
					if got != before[oi][i][j] {
						kind := "frame"
						if b.Objs[oi] != "_" && b.Objs[oi] != st.Op.O {
							kind = "frame-object"
						}
						*mism = append(*mism, tag(map[string]any{"obs": kind, "cell": cellName(b, oi, i, j),
							"cell_kind": cellKind(j), "expected": before[oi][i][j], "got": got}, si))
					}
				default:
					if got != r {
						*mism = append(*mism, tag(map[string]any{"obs": "readback", "cell": cellName(b, oi, i, j),
							"cell_kind": cellKind(j), "expected": r, "got": got}, si))
					}
				}
				// spelling law: every spelling of one header reads alike
				for i2 := 0; i2 < i; i2++ {
					if b.Canon[i2] == b.Canon[i] {
						if after[oi][i2][j] != got {
							*mism = append(*mism, tag(map[string]any{"obs": "spelling", "cell": cellName(b, oi, i, j),
								"cell_kind": cellKind(j), "other": cellName(b, oi, i2, j), "expected": after[oi][i2][j], "got": got}, si))
						}
						break
					}
				}
				// mechanism layer
				if got != st.M[oi][i][j] {
					*drift = append(*drift, tag(map[string]any{"obs": "mechanism-readback", "cell": cellName(b, oi, i, j),
						"expected": st.M[oi][i][j], "got": got}, si))
				}
			}
		}
	}
}

// appended is the relation the specification states for `+=`: what the cell read before (nothing if not set),
// followed by the text, up to the first newline
func appended(before, text string) string {
	cur := ""
	if strings.HasPrefix(before, "=") {
		cur = before[1:]
	}
	v, _, _ := strings.Cut(cur+text, "\n")
	return "=" + v
}

// ---- alphabet "flow": the history of req inside a real request that restarts ---------------------------------

type flowDbg struct{ logs []string }

func (d *flowDbg) Run(ast.Node) interpreter.DebugState { return interpreter.DebugPass }
func (d *flowDbg) Message(string)                      {}
func (d *flowDbg) Log(_ *ast.LogStatement, v string)   { d.logs = append(d.logs, v) }

// flowVCL renders the operations into vcl_recv: one branch per pass (req.restarts == n), a `restart;` operation ends
// the branch, the last branch ends in `error 700;` (no backend is needed). After every operation - for a restart:
// at the start of the next pass - every cell is read back through a condition (set / not set) and a log line.
func flowVCL(b *hBeh) string {
	var sb strings.Builder
	read := func(si int) {
		for i, sp := range b.Sp {
			for j := 0; j <= len(b.Keys); j++ {
				k := ""
				if j > 0 {
					k = b.Keys[j-1]
				}
				n := varName("req", sp, k)
				fmt.Fprintf(&sb, "    if (%s) { log \"R|%d|%d|%d|S|\" %s; } else { log \"R|%d|%d|%d|N\"; }\n", n, si, i, j, n, si, i, j)
			}
		}
	}
	sb.WriteString("backend example { .host = \"127.0.0.1\"; .port = \"9\"; }\nsub vcl_recv {\n  if (req.restarts == 0) {\n")
	read(-1)
	pass := 0
	for si, st := range b.Steps {
		if st.Op.Op == "restart" {
			pass++
			fmt.Fprintf(&sb, "    restart;\n  }\n  if (req.restarts == %d) {\n", pass)
		} else {
			sb.WriteString("    " + vclStmt("req", st.Op) + "\n")
		}
		read(si)
	}
	sb.WriteString("    error 700;\n  }\n}\n")
	return sb.String()
}

func runFlow(b *hBeh, mism, drift *[]map[string]any) {
	tag := func(m map[string]any, stepIdx int) map[string]any {
		m["object"], m["scope"], m["api"], m["step"] = "req", "recv-flow", "vcl", stepIdx
		o := b.Steps[stepIdx].Op
		m["op"], m["op_name"], m["op_key"], m["op_vk"], m["op_value"] = o.Op, o.N, o.K, o.VK, o.V
		return m
	}
	dbg := &flowDbg{}
	func() {
		defer func() {
			if r := recover(); r != nil {
				dbg.logs = append(dbg.logs, fmt.Sprintf("PANIC|%v", r))
			}
		}()
		ip := interpreter.New(context.WithResolver(resolver.NewStaticResolver("main", flowVCL(b))))
		ip.Debugger = dbg
		ip.ServeHTTP(httptest.NewRecorder(), httptest.NewRequest("GET", "http://localhost/", nil))
	}()
	snaps := map[int][][]string{}
	for _, l := range dbg.logs {
		f := strings.SplitN(l, "|", 6)
		if len(f) < 5 || f[0] != "R" {
			continue
		}
		si, _ := strconv.Atoi(f[1])
		i, _ := strconv.Atoi(f[2])
		j, _ := strconv.Atoi(f[3])
		if snaps[si] == nil {
			snaps[si] = make([][]string, len(b.Sp))
			for x := range snaps[si] {
				snaps[si][x] = make([]string, 1+len(b.Keys))
			}
		}
		if f[4] == "N" {
			snaps[si][i][j] = "!"
		} else if len(f) == 6 {
			snaps[si][i][j] = "=" + f[5]
		}
	}
	before, ok := snaps[-1]
	if !ok {
		*mism = append(*mism, tag(map[string]any{"obs": "op-error", "got": "no read-back at all: " + firstLine(strings.Join(dbg.logs, " / "))}, 0))
		return
	}
	for si := range b.Steps {
		after, ok := snaps[si]
		if !ok {
			*mism = append(*mism, tag(map[string]any{"obs": "op-error", "got": "the request did not get past this operation"}, si))
			return
		}
		compareStep(b, &b.Steps[si], si, [][][]string{before}, [][][]string{after}, tag, mism, drift)
		before = after
	}
}

func cellKind(j int) string {
	if j == 0 {
		return "whole"
	}
	return "field"
}

func firstLine(s string) string {
	if i := strings.IndexByte(s, '\n'); i >= 0 {
		s = s[:i]
	}
	if len(s) > 200 {
		s = s[:200]
	}
	return s
}

func opsKey(b *hBeh) string {
	var sb strings.Builder
	for _, st := range b.Steps {
		o := st.Op
		fmt.Fprintf(&sb, "%s %s.%s:%s %s %q;", o.Op, o.O, o.N, o.K, o.VK, o.V)
	}
	return sb.String()
}

// c17replay [-pairs req:recv,...|all] [-apis vcl,api] [-every N -offset K] [-canary]
//
//	-every N: pairs other than the first two are replayed on every N-th behaviour only (rotating by pair)
func c17Replay(args []string) int {
	fs := flag.NewFlagSet("c17replay", flag.ExitOnError)
	pairsArg := fs.String("pairs", "all", "object:scope list or all")
	apisArg := fs.String("apis", "vcl,api", "bindings")
	every := fs.Int("every", 1, "sample the secondary pairs on every N-th behaviour")
	prefix := fs.String("prefix", "", "case id prefix")
	fs.Parse(args) // nolint:errcheck
	var pairs []pair
	if *pairsArg == "all" {
		pairs = allPairs
	} else {
		for _, s := range strings.Split(*pairsArg, ",") {
			a, b, _ := strings.Cut(s, ":")
			pairs = append(pairs, pair{a, b})
		}
	}
	apis := strings.Split(*apisArg, ",")
	names = nameFamilies[int((hx.Seed()%int64(len(nameFamilies))+int64(len(nameFamilies)))%int64(len(nameFamilies)))]
	out := hx.NewOut()
	defer out.Close()
	n := 0
	err := hx.Lines(func(line []byte) error {
		var b hBeh
		if err := json.Unmarshal(line, &b); err != nil {
			return err
		}
		n++
		var mism, drift []map[string]any
		runs := 0
		multi := len(b.Objs) > 0 && b.Objs[0] != "_"
		if b.Alpha == "flow" {
			// one real request through ServeHTTP, the operations in vcl_recv across restarts
			runFlow(&b, &mism, &drift)
			runs++
			multi = true // nothing else to replay
		} else if multi {
			// several objects of ONE context: VCL statements, the scope switched per object
			if expressible(&b, "vcl") {
				runOne(&b, pair{"req", "recv"}, "vcl", &mism, &drift)
				runs++
			}
		}
		for pi, p := range pairs {
			if multi {
				break
			}
			if pi >= 2 && *every > 1 && (n+pi)%*every != 0 {
				continue
			}
			for _, api := range apis {
				if !expressible(&b, api) {
					continue
				}
				runOne(&b, p, api, &mism, &drift)
				runs++
			}
		}
		if len(mism) > 40 {
			mism = mism[:40]
		}
		if len(drift) > 10 {
			drift = drift[:10]
		}
		last := b.Steps[len(b.Steps)-1].Op
		res := hx.CaseResult{
			ID:        fmt.Sprintf("%s%d", *prefix, n),
			Input:     b,
			Observed:  map[string]any{"runs": runs},
			Mismatch:  mism,
			Drift:     drift,
			Class:     map[string]any{"last_op": last.Op, "len": len(b.Steps)},
			Key:       opsKey(&b),
			Validated: runs > 0,
		}
		if len(mism) == 0 && len(drift) == 0 && n%50 != 1 {
			res.Input = nil // keep the result stream small; samples keep their input
		}
		out.Write(res)
		return nil
	})
	if err != nil {
		fmt.Fprintln(os.Stderr, err)
		return 2
	}
	return 0
}
