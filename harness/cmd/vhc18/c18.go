package main

// C18: concurrent requests against one Interpreter (gate-driven replay of the
// schedules Serial.tla enumerates + free-running runs with jitter), and
// concurrent lint plugins.  Built with -race by checks/c18.py.

import (
	gocontext "context"
	"encoding/json"
	"flag"
	"fmt"
	"io"
	"math/rand"
	"net/http"
	"net/http/httptest"
	"net/url"
	"os"
	"runtime"
	"sort"
	"strconv"
	"strings"
	"sync"
	"sync/atomic"
	"time"

	"verif/harness/internal/hx"

	"github.com/ysugimoto/falco/v2/ast"
	"github.com/ysugimoto/falco/v2/config"
	"github.com/ysugimoto/falco/v2/interpreter"
	"github.com/ysugimoto/falco/v2/interpreter/context"
	"github.com/ysugimoto/falco/v2/lexer"
	"github.com/ysugimoto/falco/v2/linter"
	"github.com/ysugimoto/falco/v2/parser"
	"github.com/ysugimoto/falco/v2/resolver"
)

func main() {
	hx.Commands["sched"] = cmdSched
	hx.Commands["free"] = cmdFree
	hx.Commands["plugins"] = cmdPlugins
	hx.Main()
}

// ---------------------------------------------------------------- program

// One VCL program serves every request kind; the kind and the marker travel in request headers.
// Besides the lifecycle it exercises, per request, as much of the interpreter's shared machinery as is cheap:
// regular expressions, a table, an ACL, string / random / time built-ins, locals, a rate counter - so that the race
// detector sees it under concurrency.  None of it changes the path of a request.
func serialProgram(backend string, badInit bool) string {
	var sb strings.Builder
	sb.WriteString(backend)
	sb.WriteString("ratecounter rc {}\ntable t { \"k\": \"v\", \"m1\": \"one\" }\nacl internal { \"127.0.0.0\"/8; \"192.0.2.0\"/24; }\n")
	sb.WriteString("sub helper { set req.http.X-Help = std.toupper(req.http.X-Marker); }\n")
	if badInit {
		// ProcessInit rejects a duplicated custom subroutine: every request is answered 500 before the lifecycle
		sb.WriteString("sub helper { set req.http.X-Help = \"again\"; }\n")
	}
	for _, s := range []string{"recv", "hash", "hit", "miss", "pass", "fetch", "error", "deliver", "log"} {
		fmt.Fprintf(&sb, "sub vcl_%s {\n  log req.http.X-Marker \":%s\";\n", s, s)
		switch s {
		case "recv":
			sb.WriteString("  if (req.restarts == 0) { set req.http.X-Count = ratelimit.ratecounter_increment(rc, \"k\", 1); log req.http.X-Marker \":count:\" req.http.X-Count; }\n")
			sb.WriteString("  log req.http.X-Marker \":body:\" req.body;\n")
			sb.WriteString("  declare local var.s STRING; declare local var.i INTEGER;\n")
			sb.WriteString("  if (req.http.X-Marker ~ \"^m([0-9]+)$\") { set var.s = re.group.1; }\n")
			sb.WriteString("  set var.i = randomint(1, 10); set req.http.X-T = table.lookup(t, req.http.X-Marker, \"d\") var.s;\n")
			sb.WriteString("  if (client.ip ~ internal) { set req.http.X-In = \"1\"; }\n")
			sb.WriteString("  set req.http.X-Now = strftime({\"%Y\"}, now); call helper;\n")
			sb.WriteString("  if (req.http.X-Help != std.toupper(req.http.X-Marker)) { log req.http.X-Marker \":CORRUPT-HELPER\"; }\n")
			sb.WriteString("  if (req.http.X-Kind == \"P\") { return(pass); }\n")
			sb.WriteString("  if (req.http.X-Kind == \"E\") { error 601; }\n")
			sb.WriteString("  if (req.http.X-Kind == \"R\" && req.restarts == 0) { restart; }\n")
		case "error":
			sb.WriteString("  synthetic req.http.X-Marker;\n")
		case "deliver":
			sb.WriteString("  set resp.http.X-Echo = req.http.X-Marker;\n  set resp.http.X-Seen = req.http.X-Count;\n")
		}
		sb.WriteString("}\n")
	}
	return sb.String()
}

func recvAct(kind string, restarts int) string {
	switch {
	case kind == "P":
		return "pass"
	case kind == "E":
		return "error_stmt"
	case kind == "R" && restarts == 0:
		return "restart_stmt"
	}
	return "none"
}

// ------------------------------------------------------------------ gates

func goid() int64 {
	var buf [64]byte
	n := runtime.Stack(buf[:], false)
	// "goroutine 123 [running]:"
	f := strings.Fields(string(buf[:n]))
	if len(f) < 2 {
		return -1
	}
	id, _ := strconv.ParseInt(f[1], 10, 64)
	return id
}

type event struct {
	Seq int    `json:"seq"`
	Req int    `json:"r"`
	Ev  string `json:"ev"`
	Val string `json:"val,omitempty"`
}

type run struct {
	mu      sync.Mutex
	seq     int
	events  []event
	byGo    map[int64]int // goroutine id -> request
	entered map[int]bool
	gated   bool
	g1, g2  map[int]chan struct{} // release channels
	at1     map[int]chan struct{} // arrival signals
	at2     map[int]chan struct{}
	jitter  *rand.Rand
	jmu     sync.Mutex
}

func newRun(n int, gated bool, seed int64) *run {
	r := &run{byGo: map[int64]int{}, entered: map[int]bool{}, gated: gated,
		g1: map[int]chan struct{}{}, g2: map[int]chan struct{}{}, at1: map[int]chan struct{}{}, at2: map[int]chan struct{}{},
		jitter: rand.New(rand.NewSource(seed))}
	for i := 1; i <= n; i++ {
		r.g1[i], r.g2[i] = make(chan struct{}), make(chan struct{})
		r.at1[i], r.at2[i] = make(chan struct{}), make(chan struct{})
	}
	return r
}

func (r *run) record(req int, ev, val string) int {
	r.mu.Lock()
	defer r.mu.Unlock()
	r.seq++
	r.events = append(r.events, event{Seq: r.seq, Req: req, Ev: ev, Val: val})
	return r.seq
}

func (r *run) who() int {
	id := goid()
	r.mu.Lock()
	defer r.mu.Unlock()
	return r.byGo[id]
}

func (r *run) sleepJitter() {
	if r.gated {
		return
	}
	r.jmu.Lock()
	d := time.Duration(r.jitter.Intn(150)) * time.Microsecond
	r.jmu.Unlock()
	if d > 100*time.Microsecond {
		time.Sleep(d)
	} else {
		runtime.Gosched()
	}
}

// debugger installed on the interpreter: called inside the handler's critical section
type gateDebugger struct{ r *run }

func (d gateDebugger) Run(node ast.Node) interpreter.DebugState {
	req := d.r.who()
	if req == 0 {
		return interpreter.DebugPass
	}
	d.r.mu.Lock()
	first := !d.r.entered[req]
	d.r.entered[req] = true
	d.r.mu.Unlock()
	if first {
		d.r.record(req, "enter", "")
		if d.r.gated {
			close(d.r.at1[req])
			<-d.r.g1[req]
		}
	}
	d.r.sleepJitter()
	return interpreter.DebugPass
}
func (d gateDebugger) Message(string) {}
func (d gateDebugger) Log(stmt *ast.LogStatement, v string) {
	d.r.record(d.r.who(), "log", v)
}

type gateWriter struct {
	*httptest.ResponseRecorder
	r    *run
	req  int
	once sync.Once
}

func (w *gateWriter) WriteHeader(code int) {
	w.once.Do(func() {
		w.r.record(w.req, "wh", "")
		if w.r.gated {
			close(w.r.at2[w.req])
			<-w.r.g2[w.req]
		}
	})
	w.ResponseRecorder.WriteHeader(code)
}

// ---------------------------------------------------------------- records

type report struct {
	Flows []struct {
		Subroutine string `json:"subroutine"`
	} `json:"flows"`
	Logs []struct {
		Message string `json:"message"`
	} `json:"logs"`
	Restarts int    `json:"restarts"`
	Cached   bool   `json:"cached"`
	Error    string `json:"error"`
	Client   struct {
		Headers map[string]string `json:"headers"`
	} `json:"client_response"`
}

// same record shape as cmd/vhc06 (LifecycleTrace.tla events)
type obsReq struct {
	URL          string   `json:"url"`
	Status       int      `json:"status"`
	Exact        bool     `json:"exact"`
	KnowBefore   bool     `json:"knowBefore"`
	StoredBefore bool     `json:"storedBefore"`
	Flows        []string `json:"flows"`
	Acts         []string `json:"acts"`
	Defined      []string `json:"defined"`
	Restarts     int      `json:"restarts"`
	Outcome      string   `json:"outcome"`
	XCache       string   `json:"xcache"`
	Cached       bool     `json:"cached"`
	KnowAfter    bool     `json:"knowAfter"`
	StoredAfter  bool     `json:"storedAfter"`
	Seen         int      `json:"seen"`
	Jail         string   `json:"jail"`
	Look         bool     `json:"look"`
	Wait         int      `json:"wait"`
	JailSeen     int      `json:"jailSeen"`
	StartSeq     int      `json:"startSeq"`
	EndSeq       int      `json:"endSeq"`
}
type obsTrace struct {
	ID         string   `json:"id"`
	Concurrent bool     `json:"concurrent"`
	Reqs       []obsReq `json:"reqs"`
}

var allSubs = []string{"deliver", "error", "fetch", "hash", "hit", "log", "miss", "pass", "recv"}

type reqResult struct {
	rep      report
	hdr      http.Header
	body     string
	code     int
	panicked string
	done     bool
	start    int
	end      int
}

func backendServer() (*httptest.Server, string) {
	server := httptest.NewServer(http.HandlerFunc(func(w http.ResponseWriter, r *http.Request) {
		w.Header().Set("Cache-Control", "max-age=100")
		w.WriteHeader(200)
		w.Write([]byte("OK")) // nolint:errcheck
	}))
	u, _ := url.Parse(server.URL)
	return server, fmt.Sprintf("backend example { .host = \"%s\"; .port = \"%s\"; .ssl = false; }\n", u.Hostname(), u.Port())
}

// every other request is a POST whose body names its marker; vcl_recv logs req.body
func reqBody(req int) string {
	if req%2 == 0 {
		return ""
	}
	m := fmt.Sprintf("m%d", req)
	return "B-" + m + "-" + strings.Repeat(m+".", 40)
}

func newRequest(req int, kind string) *http.Request {
	var hr *http.Request
	if b := reqBody(req); b != "" {
		hr = httptest.NewRequest("POST", "http://localhost/a", strings.NewReader(b))
	} else {
		hr = httptest.NewRequest("GET", "http://localhost/a", nil)
	}
	hr.Header.Set("X-Marker", fmt.Sprintf("m%d", req))
	hr.Header.Set("X-Kind", kind)
	if kind == "F" {
		// the handler refuses a request that already passed through this simulator (loop detection)
		hr.Header.Set("Fastly-FF", "cache-localsimulator")
	}
	return hr
}

// quiet rounds: nothing in the harness synchronises the request goroutines with each other while they are inside
// the handler (no shared debugger state, no event log, only an atomic stamp before and after ServeHTTP), so the
// race detector sees falco's own synchronisation and nothing else.
type quietDebugger struct{}

func (quietDebugger) Run(ast.Node) interpreter.DebugState { return interpreter.DebugPass }
func (quietDebugger) Message(string)                      {}
func (quietDebugger) Log(*ast.LogStatement, string)       {}

func launchQuiet(ip *interpreter.Interpreter, stamp *int64, req int, kind string, res *reqResult, wg *sync.WaitGroup) {
	wg.Add(1)
	go func() {
		defer wg.Done()
		res.start = int(atomic.AddInt64(stamp, 1))
		defer func() {
			if p := recover(); p != nil {
				res.panicked = fmt.Sprint(p)
			}
			res.end = int(atomic.AddInt64(stamp, 1))
			res.done = true
		}()
		w := httptest.NewRecorder()
		ip.ServeHTTP(w, newRequest(req, kind))
		res.code = w.Code
		res.hdr = w.Header().Clone()
		res.body = w.Body.String()
		json.Unmarshal(w.Body.Bytes(), &res.rep) // nolint:errcheck
	}()
}

// kind "X": a client that gives up (its request context is cancelled) a moment after it sent the request -
// typically while the request waits for the handler.  Whatever happens to that request, every other one must
// still be answered and the history must stay serialisable.
func launch(ip *interpreter.Interpreter, r *run, req int, kind string, res *reqResult, wg *sync.WaitGroup) {
	wg.Add(1)
	started := make(chan struct{})
	go func() {
		defer wg.Done()
		r.mu.Lock()
		r.byGo[goid()] = req
		r.mu.Unlock()
		st := r.record(req, "start", "")
		r.mu.Lock()
		res.start = st
		r.mu.Unlock()
		close(started)
		var code int
		var rep report
		var hdr http.Header
		var body string
		defer func() {
			p := recover()
			e := r.record(req, "end", "")
			r.mu.Lock()
			if p != nil {
				res.panicked = fmt.Sprint(p)
			}
			res.code, res.rep, res.hdr, res.body = code, rep, hdr, body
			res.end = e
			res.done = true
			r.mu.Unlock()
		}()
		w := &gateWriter{ResponseRecorder: httptest.NewRecorder(), r: r, req: req}
		hr := newRequest(req, kind)
		if kind == "X" {
			ctx, cancel := gocontext.WithCancel(hr.Context())
			hr = hr.WithContext(ctx)
			go func() {
				time.Sleep(time.Duration(50+req*37%400) * time.Microsecond)
				cancel()
			}()
		}
		ip.ServeHTTP(w, hr)
		code = w.Code
		hdr = w.Header().Clone()
		body = w.Body.String()
		json.Unmarshal(w.Body.Bytes(), &rep) // nolint:errcheck
	}()
	<-started
}

func waitCh(c chan struct{}, d time.Duration) bool {
	select {
	case <-c:
		return true
	case <-time.After(d):
		return false
	}
}

// project a finished request to the LifecycleTrace record and check that everything in it is the request's own.
// actual = the simulator answers with the real response (no JSON report): the path is then taken from the log
// events the debugger saw for the request's goroutine.
func project(req int, kind string, rr *reqResult, evs []event, actual bool) (obsReq, []map[string]any) {
	var mm []map[string]any
	marker := fmt.Sprintf("m%d", req)
	o := obsReq{URL: "a", Status: 200, Exact: true, Defined: allSubs, Seen: -1, JailSeen: -1, Jail: "no", Flows: []string{}, Acts: []string{}}
	if !rr.done {
		o.Outcome = "hang"
		mm = append(mm, map[string]any{"obs": "no-response", "req": req})
		return o, mm
	}
	if kind == "X" {
		// an abandoned request may have run completely, partly (its origin fetch is cancelled) or not at all
		o.Exact = false
	}
	if kind == "F" {
		o.Outcome = "refused"
		if rr.code != 503 || rr.panicked != "" {
			mm = append(mm, map[string]any{"obs": "refused-request", "req": req, "expected": 503, "got": rr.code})
		}
		return o, mm
	}
	var subs []string
	if actual {
		for _, e := range evs {
			if e.Req == req && e.Ev == "log" {
				if !strings.HasPrefix(e.Val, marker+":") {
					mm = append(mm, map[string]any{"obs": "foreign-log-in-request", "req": req, "got": e.Val})
					break
				}
				v := strings.TrimPrefix(e.Val, marker+":")
				if strings.HasPrefix(v, "body:") && strings.TrimPrefix(v, "body:") != reqBody(req) {
					mm = append(mm, map[string]any{"obs": "foreign-body-in-request", "req": req, "got": strings.TrimPrefix(v, "body:")[:min(40, len(v)-5)]})
				}
				if !strings.Contains(v, ":") && v != "CORRUPT-HELPER" {
					subs = append(subs, v)
				}
				if v == "CORRUPT-HELPER" {
					mm = append(mm, map[string]any{"obs": "value-of-other-request", "req": req})
				}
			}
		}
		if n, err := strconv.Atoi(rr.hdr.Get("X-Seen")); err == nil {
			o.Seen = n
		}
		o.XCache = rr.hdr.Get("X-Cache")
		o.Cached = o.XCache == "HIT"
	} else {
		for _, f := range rr.rep.Flows {
			if strings.HasPrefix(f.Subroutine, "vcl_") {
				subs = append(subs, strings.TrimPrefix(f.Subroutine, "vcl_"))
			}
		}
		for _, lg := range rr.rep.Logs {
			if !strings.HasPrefix(lg.Message, marker+":") {
				mm = append(mm, map[string]any{"obs": "foreign-log-in-response", "req": req, "got": lg.Message})
				break
			}
			if lg.Message == marker+":CORRUPT-HELPER" {
				mm = append(mm, map[string]any{"obs": "value-of-other-request", "req": req})
			}
			if strings.HasPrefix(lg.Message, marker+":body:") {
				if got := strings.TrimPrefix(lg.Message, marker+":body:"); got != reqBody(req) {
					mm = append(mm, map[string]any{"obs": "foreign-body-in-request", "req": req, "got": got[:min(40, len(got))]})
				}
			}
			if strings.HasPrefix(lg.Message, marker+":count:") {
				if n, err := strconv.Atoi(strings.TrimPrefix(lg.Message, marker+":count:")); err == nil {
					o.Seen = n
				}
			}
		}
		o.Cached = rr.rep.Cached
		o.XCache = rr.rep.Client.Headers["x-cache"]
	}
	rc := 0
	for i, s := range subs {
		if s == "recv" && i > 0 {
			rc++
		}
		o.Flows = append(o.Flows, s)
		if s == "recv" {
			o.Acts = append(o.Acts, recvAct(kind, rc))
		} else {
			o.Acts = append(o.Acts, "none")
		}
	}
	o.Restarts = rc
	if !actual {
		o.Restarts = rr.rep.Restarts
	}
	echo := rr.rep.Client.Headers["x-echo"]
	okCode := rr.code == 200
	if actual {
		echo = rr.hdr.Get("X-Echo")
		okCode = rr.code == 200 || (kind == "E" && rr.code == 601)
	}
	switch {
	case rr.panicked != "":
		o.Outcome = "crash"
	case (!actual && rr.rep.Error != "") || !okCode:
		o.Outcome = "error"
	default:
		o.Outcome = "ok"
		if echo != marker {
			mm = append(mm, map[string]any{"obs": "foreign-header-in-response", "req": req, "got": echo})
		}
		if actual && kind == "E" && rr.body != marker {
			mm = append(mm, map[string]any{"obs": "foreign-body-in-response", "req": req, "got": rr.body})
		}
	}
	// linearisation window: first statement executed .. response header written
	o.StartSeq, o.EndSeq = rr.start, rr.end
	for _, e := range evs {
		if e.Req == req && e.Ev == "enter" {
			o.StartSeq = e.Seq
		}
		if e.Req == req && e.Ev == "wh" {
			o.EndSeq = e.Seq
		}
	}
	return o, mm
}

// ------------------------------------------------------------- gated mode

type serialBehaviour struct {
	N       int               `json:"n"`
	Kind    []string          `json:"kind"`
	Sched   [][]any           `json:"sched"`
	Out     []json.RawMessage `json:"out"`
	Cached  bool              `json:"cached"`
	Counter int               `json:"counter"`
}
type serialOut struct {
	Who    int    `json:"who"`
	Branch string `json:"branch"`
	Seen   int    `json:"seen"`
}

func cmdSched(args []string) int {
	fs := flag.NewFlagSet("sched", flag.ExitOnError)
	tracePath := fs.String("traces", "", "LifecycleTrace records out")
	evPath := fs.String("events", "", "event sequences out (SerialTrace)")
	prefix := fs.String("prefix", "s", "id prefix")
	fs.Parse(args) // nolint:errcheck
	server, backend := backendServer()
	defer server.Close()
	vcl := serialProgram(backend, false)
	tf, _ := os.Create(*tracePath)
	defer tf.Close()
	ef, _ := os.Create(*evPath)
	defer ef.Close()
	out := hx.NewOut()
	defer out.Close()
	n := 0
	const wait = 5 * time.Second
	err := hx.Lines(func(line []byte) error {
		var b serialBehaviour
		if err := json.Unmarshal(line, &b); err != nil {
			return err
		}
		n++
		id := fmt.Sprintf("%s%d", *prefix, n)
		ip := interpreter.New(context.WithResolver(resolver.NewStaticResolver("main", vcl)))
		r := newRun(b.N, true, 0)
		ip.Debugger = gateDebugger{r}
		results := make([]*reqResult, b.N+1)
		for i := range results {
			results[i] = &reqResult{}
		}
		var wg sync.WaitGroup
		res := hx.CaseResult{ID: id, Input: b, Class: map[string]any{"mode": "gated"}}
		stuck := ""
		released1, released2 := map[int]bool{}, map[int]bool{}
	steps:
		for _, st := range b.Sched {
			act, _ := st[0].(string)
			rq := int(st[1].(float64))
			arrive := 0
			if len(st) > 2 {
				arrive = int(st[2].(float64))
			}
			switch act {
			case "Start":
				if b.Kind[rq-1] == "F" {
					// refused before the lock: no gate is ever reached, the request finishes at once
					close(r.g2[rq])
					released2[rq] = true
					launch(ip, r, rq, "F", results[rq], &wg)
					deadline := time.Now().Add(wait)
					for !func() bool { r.mu.Lock(); defer r.mu.Unlock(); return results[rq].done }() {
						if time.Now().After(deadline) {
							stuck = fmt.Sprintf("refused request %d never returned", rq)
							break steps
						}
						time.Sleep(50 * time.Microsecond)
					}
					continue
				}
				launch(ip, r, rq, b.Kind[rq-1], results[rq], &wg)
				if arrive == rq {
					// the lock is free: the request enters at once
					if !waitCh(r.at1[rq], wait) {
						stuck = fmt.Sprintf("request %d never entered (started while the lock was free)", rq)
						break steps
					}
				} else {
					time.Sleep(300 * time.Microsecond) // let it block on the lock (or, if there is none, reach its gate)
				}
			case "Body":
				close(r.g1[rq])
				released1[rq] = true
				if !waitCh(r.at2[rq], wait) {
					stuck = fmt.Sprintf("request %d never reached its response (schedule step Body)", rq)
					break steps
				}
			case "Respond":
				close(r.g2[rq])
				released2[rq] = true
				deadline := time.Now().Add(wait)
				for !func() bool { r.mu.Lock(); defer r.mu.Unlock(); return results[rq].done }() {
					if time.Now().After(deadline) {
						stuck = fmt.Sprintf("request %d never returned (schedule step Respond)", rq)
						break steps
					}
					time.Sleep(50 * time.Microsecond)
				}
				if arrive != 0 && !waitCh(r.at1[arrive], wait) {
					stuck = fmt.Sprintf("request %d never entered after request %d released the handler", arrive, rq)
					break steps
				}
			}
		}
		// open every gate that is still closed so that no goroutine is left behind
		for i := 1; i <= b.N; i++ {
			if !released1[i] {
				close(r.g1[i])
			}
			if !released2[i] {
				close(r.g2[i])
			}
		}
		doneCh := make(chan struct{})
		go func() { wg.Wait(); close(doneCh) }()
		waitCh(doneCh, wait)
		r.mu.Lock()
		evs := append([]event(nil), r.events...)
		r.mu.Unlock()
		if stuck != "" {
			res.Mismatch = append(res.Mismatch, map[string]any{"obs": "hang", "detail": stuck})
		}
		tr := obsTrace{ID: id, Concurrent: true}
		refused := map[int]bool{}
		for i := 1; i <= b.N; i++ {
			r.mu.Lock()
			rr := *results[i]
			r.mu.Unlock()
			o, mm := project(i, b.Kind[i-1], &rr, evs, false)
			res.Mismatch = append(res.Mismatch, mm...)
			if b.Kind[i-1] == "F" {
				refused[i] = true
				continue
			}
			tr.Reqs = append(tr.Reqs, o)
			var exp serialOut
			json.Unmarshal(b.Out[i-1], &exp) // nolint:errcheck
			if exp.Seen != o.Seen {
				res.Drift = append(res.Drift, map[string]any{"obs": "seen", "req": i, "expected": exp.Seen, "got": o.Seen})
			}
			if exp.Branch != "none" && exp.Branch != o.XCache {
				res.Drift = append(res.Drift, map[string]any{"obs": "branch", "req": i, "expected": exp.Branch, "got": o.XCache})
			}
		}
		res.Observed = tr
		res.Key = fmt.Sprint(b.Kind, b.Sched)
		if len(tr.Reqs) > 0 {
			res.Validated = true // marker for the check: a trace was written for this case
			bt, _ := json.Marshal(tr)
			tf.Write(append(bt, '\n')) // nolint:errcheck
			be, _ := json.Marshal(map[string]any{"id": id, "n": b.N, "events": lockEvents(evs, refused)})
			ef.Write(append(be, '\n')) // nolint:errcheck
		}
		out.Write(res)
		return nil
	})
	if err != nil {
		fmt.Fprintln(os.Stderr, err)
		return 2
	}
	return 0
}

// the events that happen inside the handler's critical section, in global order
func lockEvents(evs []event, skip map[int]bool) []event {
	o := []event{}
	for _, e := range evs {
		if skip[e.Req] {
			continue
		}
		if e.Ev == "enter" || e.Ev == "log" || e.Ev == "wh" {
			o = append(o, event{Seq: e.Seq, Req: e.Req, Ev: e.Ev})
		}
	}
	return o
}

// ------------------------------------------------------------- free mode

func cmdFree(args []string) int {
	fs := flag.NewFlagSet("free", flag.ExitOnError)
	tracePath := fs.String("traces", "", "LifecycleTrace records out")
	evPath := fs.String("events", "", "event sequences out")
	rounds := fs.Int("rounds", 20, "rounds")
	maxN := fs.Int("maxn", 16, "max concurrent requests")
	prefix := fs.String("prefix", "f", "id prefix")
	fs.Parse(args) // nolint:errcheck
	server, backend := backendServer()
	defer server.Close()
	vcl := serialProgram(backend, false)
	vclBad := serialProgram(backend, true)
	tf, _ := os.Create(*tracePath)
	defer tf.Close()
	ef, _ := os.Create(*evPath)
	defer ef.Close()
	out := hx.NewOut()
	defer out.Close()
	rng := rand.New(rand.NewSource(hx.Seed()*7919 + int64(runtime.GOMAXPROCS(0))))
	kinds := []string{"L", "L", "P", "E", "R", "F", "X"}
	for round := 1; round <= *rounds; round++ {
		n := 2 + rng.Intn(*maxN-1)
		id := fmt.Sprintf("%s%d", *prefix, round)
		// three kinds of rounds: process report (JSON), the real response, and a program that ProcessInit rejects
		mode := []string{"report", "actual", "quiet", "badinit", "quiet", "server"}[round%6]
		opts := []context.Option{context.WithResolver(resolver.NewStaticResolver("main", vcl))}
		if mode == "actual" {
			opts = append(opts, context.WithActualResponse(true))
		}
		if mode == "badinit" {
			opts = []context.Option{context.WithResolver(resolver.NewStaticResolver("main", vclBad))}
			if n > 6 {
				n = 6
			}
		}
		ip := interpreter.New(opts...)
		if mode == "server" {
			// a real net/http server in front of the interpreter and real clients: request contexts are the server's
			// (cancelled when the handler returns or the client goes away), connections are reused
			if n > 8 {
				n = 8
			}
			ip.Debugger = quietDebugger{}
			srv := httptest.NewServer(ip)
			var stamp int64
			var wgs sync.WaitGroup
			ress := make([]*reqResult, n+1)
			kss := make([]string, n)
			for i := 1; i <= n; i++ {
				ress[i] = &reqResult{}
				kss[i-1] = kinds[rng.Intn(len(kinds)-1)]
				wgs.Add(1)
				go func(req int, kind string, res *reqResult) {
					defer wgs.Done()
					hr := newRequest(req, kind)
					out, _ := http.NewRequest(hr.Method, srv.URL+"/a", hr.Body)
					out.Header = hr.Header
					res.start = int(atomic.AddInt64(&stamp, 1))
					resp, err := srv.Client().Do(out)
					if err == nil {
						b, _ := io.ReadAll(resp.Body)
						resp.Body.Close()
						res.code = resp.StatusCode
						res.hdr = resp.Header
						res.body = string(b)
						json.Unmarshal(b, &res.rep) // nolint:errcheck
						res.done = true
					} else {
						res.panicked = "client error: " + err.Error()
						res.done = true
					}
					res.end = int(atomic.AddInt64(&stamp, 1))
				}(i, kss[i-1], ress[i])
			}
			ds := make(chan struct{})
			go func() { wgs.Wait(); close(ds) }()
			res := hx.CaseResult{ID: id, Input: map[string]any{"n": n, "kinds": kss, "gomaxprocs": runtime.GOMAXPROCS(0), "mode": mode},
				Class: map[string]any{"mode": "free-server"}}
			if !waitCh(ds, 30*time.Second) {
				res.Mismatch = append(res.Mismatch, map[string]any{"obs": "hang", "detail": "requests did not finish"})
				out.Write(res)
				srv.CloseClientConnections()
				continue
			}
			srv.Close()
			tr := obsTrace{ID: id, Concurrent: true}
			for i := 1; i <= n; i++ {
				o, mm := project(i, kss[i-1], ress[i], nil, false)
				res.Mismatch = append(res.Mismatch, mm...)
				if kss[i-1] != "F" {
					tr.Reqs = append(tr.Reqs, o)
				}
			}
			res.Observed = tr
			res.Key = fmt.Sprint(mode, kss, runtime.GOMAXPROCS(0), round)
			if len(tr.Reqs) > 0 {
				res.Validated = true
				bt, _ := json.Marshal(tr)
				tf.Write(append(bt, '\n')) // nolint:errcheck
				be, _ := json.Marshal(map[string]any{"id": id, "n": n, "events": []event{}})
				ef.Write(append(be, '\n')) // nolint:errcheck
			}
			out.Write(res)
			continue
		}
		if mode == "quiet" {
			if n > 8 {
				n = 8 // wide linearisation windows: keep the search small
			}
			ip.Debugger = quietDebugger{}
			var stamp int64
			var wgq sync.WaitGroup
			resq := make([]*reqResult, n+1)
			ksq := make([]string, n)
			for i := 1; i <= n; i++ {
				resq[i] = &reqResult{}
				ksq[i-1] = kinds[rng.Intn(len(kinds)-1)] // no cancelled clients here (their helper goroutine synchronises)
				launchQuiet(ip, &stamp, i, ksq[i-1], resq[i], &wgq)
			}
			dq := make(chan struct{})
			go func() { wgq.Wait(); close(dq) }()
			res := hx.CaseResult{ID: id, Input: map[string]any{"n": n, "kinds": ksq, "gomaxprocs": runtime.GOMAXPROCS(0), "mode": mode},
				Class: map[string]any{"mode": "free-quiet"}}
			if !waitCh(dq, 30*time.Second) {
				res.Mismatch = append(res.Mismatch, map[string]any{"obs": "hang", "detail": "requests did not finish"})
				out.Write(res)
				continue
			}
			tr := obsTrace{ID: id, Concurrent: true}
			for i := 1; i <= n; i++ {
				o, mm := project(i, ksq[i-1], resq[i], nil, false)
				res.Mismatch = append(res.Mismatch, mm...)
				if ksq[i-1] != "F" {
					tr.Reqs = append(tr.Reqs, o)
				}
			}
			res.Observed = tr
			res.Key = fmt.Sprint(mode, ksq, runtime.GOMAXPROCS(0), round)
			if len(tr.Reqs) > 0 {
				res.Validated = true
				bt, _ := json.Marshal(tr)
				tf.Write(append(bt, '\n')) // nolint:errcheck
				// no lock events in a quiet round: an empty event list is trivially a behaviour of the locked handler
				be, _ := json.Marshal(map[string]any{"id": id, "n": n, "events": []event{}})
				ef.Write(append(be, '\n')) // nolint:errcheck
			}
			out.Write(res)
			continue
		}
		r := newRun(n+1, false, rng.Int63())
		ip.Debugger = gateDebugger{r}
		ks := make([]string, n)
		results := make([]*reqResult, n+2)
		for i := range results {
			results[i] = &reqResult{}
		}
		var wg sync.WaitGroup
		for i := 1; i <= n; i++ {
			ks[i-1] = kinds[rng.Intn(len(kinds))]
			launch(ip, r, i, ks[i-1], results[i], &wg)
		}
		doneCh := make(chan struct{})
		go func() { wg.Wait(); close(doneCh) }()
		res := hx.CaseResult{ID: id, Input: map[string]any{"n": n, "kinds": ks, "gomaxprocs": runtime.GOMAXPROCS(0), "mode": mode},
			Class: map[string]any{"mode": "free-" + mode}}
		if !waitCh(doneCh, 30*time.Second) {
			res.Mismatch = append(res.Mismatch, map[string]any{"obs": "hang", "detail": "requests did not finish"})
		}
		if mode == "badinit" {
			// one more request after the others: an instance whose requests fail at init must keep answering
			var wg2 sync.WaitGroup
			launch(ip, r, n+1, "L", results[n+1], &wg2)
			d2 := make(chan struct{})
			go func() { wg2.Wait(); close(d2) }()
			if !waitCh(d2, 10*time.Second) {
				res.Mismatch = append(res.Mismatch, map[string]any{"obs": "hang", "detail": "request after init errors never answered"})
			}
			for i := 1; i <= n+1; i++ {
				r.mu.Lock()
				rr := *results[i]
				r.mu.Unlock()
				want := 500
				if i <= n && ks[i-1] == "F" {
					want = 503
				}
				if !rr.done || rr.code != want || rr.panicked != "" {
					res.Mismatch = append(res.Mismatch, map[string]any{"obs": "init-error-response", "req": i, "expected": want, "got": rr.code, "done": rr.done})
				}
			}
			res.Key = fmt.Sprint("badinit", ks)
			out.Write(res)
			continue
		}
		r.mu.Lock()
		evs := append([]event(nil), r.events...)
		r.mu.Unlock()
		tr := obsTrace{ID: id, Concurrent: true}
		refused := map[int]bool{}
		for i := 1; i <= n; i++ {
			r.mu.Lock()
			rr := *results[i]
			r.mu.Unlock()
			o, mm := project(i, ks[i-1], &rr, evs, mode == "actual")
			res.Mismatch = append(res.Mismatch, mm...)
			if ks[i-1] == "F" || (ks[i-1] == "X" && len(o.Flows) == 0) {
				refused[i] = true
				continue
			}
			tr.Reqs = append(tr.Reqs, o)
		}
		res.Observed = tr
		order := []int{}
		for _, e := range evs {
			if e.Ev == "enter" {
				order = append(order, e.Req)
			}
		}
		res.Key = fmt.Sprint(mode, ks, order)
		if len(tr.Reqs) > 0 {
			res.Validated = true // marker for the check: a trace was written for this case
			bt, _ := json.Marshal(tr)
			tf.Write(append(bt, '\n')) // nolint:errcheck
			be, _ := json.Marshal(map[string]any{"id": id, "n": n, "events": lockEvents(evs, refused)})
			ef.Write(append(be, '\n')) // nolint:errcheck
		}
		out.Write(res)
	}
	return 0
}

// ---------------------------------------------------------------- plugins

type pluginWorkload struct {
	P        int     `json:"p"`
	K        int     `json:"k"`
	Nested   bool    `json:"nested"`
	Fails    []int   `json:"fails"`
	Expected [][]int `json:"expected"`
	Count    int     `json:"count"`
}

// each model diagnostic <<p, i>> stands for a batch of `batch` real ones "p<p>-<i>-<j>"
func cmdPlugins(args []string) int {
	fs := flag.NewFlagSet("plugins", flag.ExitOnError)
	plugDir := fs.String("plugdir", "", "directory holding the falco-vplug executable")
	batch := fs.Int("batch", 100, "real diagnostics per model diagnostic")
	repeat := fs.Int("repeat", 3, "runs per workload")
	fs.Parse(args) // nolint:errcheck
	os.Setenv("PATH", *plugDir+":"+os.Getenv("PATH"))
	out := hx.NewOut()
	defer out.Close()
	n := 0
	err := hx.Lines(func(line []byte) error {
		var w pluginWorkload
		if err := json.Unmarshal(line, &w); err != nil {
			return err
		}
		for rep := 1; rep <= *repeat; rep++ {
			n++
			var sb strings.Builder
			sb.WriteString("backend example { .host = \"example.com\"; }\nsub vcl_recv {\n  #FASTLY RECV\n")
			failing := map[int]bool{}
			for _, f := range w.Fails {
				failing[f] = true
			}
			for p := 1; p <= w.P; p++ {
				switch {
				case failing[p] && p%2 == 1: // no such executable on PATH
					fmt.Fprintf(&sb, "  // @plugin: vplug-missing p%d %d %d\n", p, w.K, *batch)
				case failing[p]: // the process exits with a failure status
					fmt.Fprintf(&sb, "  // @plugin: vplug fail %d %d\n", w.K, *batch)
				default:
					fmt.Fprintf(&sb, "  // @plugin: vplug p%d %d %d\n", p, w.K, *batch)
				}
			}
			if w.Nested {
				// the annotated statement has a body in which an ignore range is opened and still open at its end:
				// the plugins' reports must not be filtered by it (they belong to the statement's entry)
				sb.WriteString("  if (req.http.A) {\n    // falco-ignore-start\n    set req.http.B = \"1\";\n  }\n  // falco-ignore-end\n")
			}
			sb.WriteString("  set req.backend = example;\n  return (lookup);\n}\n")
			v, err := parser.New(lexer.NewFromString(sb.String())).ParseVCL()
			if err != nil {
				return err
			}
			l := linter.New(&config.LinterConfig{})
			l.Lint(v, nil)
			got := map[string]int{}
			other := []string{}
			for _, e := range l.Errors {
				m := e.Message
				if len(m) > 1 && m[0] == 'p' && strings.Count(m, "-") == 2 {
					got[m]++
				} else if e.Severity == linter.ERROR {
					other = append(other, m)
				}
			}
			res := hx.CaseResult{ID: fmt.Sprintf("pl%d", n), Input: map[string]any{"p": w.P, "k": w.K, "nested": w.Nested, "fails": w.Fails, "batch": *batch, "run": rep, "gomaxprocs": runtime.GOMAXPROCS(0)},
				Class: map[string]any{"mode": "plugins"}, Key: fmt.Sprintf("P=%d K=%d nested=%v fails=%v gmp=%d run=%d", w.P, w.K, w.Nested, w.Fails, runtime.GOMAXPROCS(0), rep)}
			missing, dup := 0, 0
			for _, e := range w.Expected {
				for j := 0; j < *batch; j++ {
					name := fmt.Sprintf("p%d-%d-%d", e[0], e[1], j)
					c := got[name]
					if c == 0 {
						missing++
					} else if c > 1 {
						dup++
					}
					delete(got, name)
				}
			}
			if missing > 0 || dup > 0 || len(got) > 0 {
				res.Mismatch = append(res.Mismatch, map[string]any{"obs": "plugin-diagnostics", "expected": w.Count * *batch,
					"missing": missing, "duplicated": dup, "unexpected": len(got)})
			}
			if len(other) > 0 && len(w.Fails) == 0 {
				sort.Strings(other)
				res.Drift = append(res.Drift, map[string]any{"obs": "other-lint-errors", "got": other[:1]})
			}
			res.Observed = map[string]any{"reported": w.Count**batch - missing}
			out.Write(res)
		}
		return nil
	})
	if err != nil {
		fmt.Fprintln(os.Stderr, err)
		return 2
	}
	return 0
}
