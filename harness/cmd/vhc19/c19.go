package main

// C19 - the AST codec round-trips every statement and decoding is total.
//
//	vhc19 replay < behaviours.jsonl   every behaviour TLC emitted from spec/Codec.tla:
//	    kind "rt":  node -> VCL text -> real parser -> codec.Encode -> (token stream compared with the model's)
//	                -> codec.Decode -> projection compared with the semantic node TLC expects
//	    kind "mut": the same encoding with the frame-level mutation TLC chose applied to the real bytes
//	                -> codec.Decode under a progress budget: must end with statements or an error
//	vhc19 bytes < behaviours.jsonl    byte-level mutations the model does not enumerate (every truncation,
//	                seeded bit flips / byte substitutions / splices): totality only
//
// No oracle here: concretise (tables), execute, project (structural recursion), compare.
import (
	"bytes"
	"encoding/hex"
	"encoding/json"
	"fmt"
	"io"
	"math/rand"
	"os"
	"sort"
	"strconv"
	"strings"
	"time"

	"verif/harness/internal/hx"

	"github.com/ysugimoto/falco/v2/ast"
	"github.com/ysugimoto/falco/v2/ast/codec"
	"github.com/ysugimoto/falco/v2/lexer"
	"github.com/ysugimoto/falco/v2/parser"
	"github.com/ysugimoto/falco/v2/plugin"
)

func main() {
	hx.Commands["replay"] = cmdReplay
	hx.Commands["bytes"] = cmdBytes
	hx.Main()
}

type N = map[string]any

func kOf(n N) string { s, _ := n["k"].(string); return s }
func sub(n N, f string) N {
	if m, ok := n[f].(map[string]any); ok {
		return m
	}
	return N{"k": "nil"}
}
func list(n N, f string) []N {
	var out []N
	if l, ok := n[f].([]any); ok {
		for _, x := range l {
			if m, ok := x.(map[string]any); ok {
				out = append(out, m)
			}
		}
	}
	return out
}
func vOf(n N) string { s, _ := n["v"].(string); return s }

// ------------------------------------------------------------------------------------------ concretise

// symbols of the string alphabet in spec/Codec.tla whose text is not the symbol itself
var symText = map[string]string{
	"e9":     string(rune(0xE9)),
	"uFFFD":  "a" + string(rune(0xFFFD)) + "b",
	"u1F600": string(rune(0x1F600)),
	"uFEFF":  string(rune(0xFEFF)) + "x",
	"u2028":  "a" + string(rune(0x2028)) + "b",
	"sp":     " x ",
}
var textSym = func() map[string]string {
	m := map[string]string{}
	for k, v := range symText {
		m[v] = k
	}
	return m
}()

func strText(sym string) string {
	if t, ok := symText[sym]; ok {
		return t
	}
	if len(sym) > 1 && sym[0] == 'S' && strings.Trim(sym[1:], "0123456789") == "" {
		n, _ := strconv.Atoi(sym[1:])
		return strings.Repeat("x", n)
	}
	return sym
}
func strSym(text string) string {
	if s, ok := textSym[text]; ok {
		return s
	}
	if len(text) >= 1000 && strings.Trim(text, "x") == "" {
		return "S" + strconv.Itoa(len(text))
	}
	return text
}

func rExpr(n N) string {
	switch kOf(n) {
	case "ident", "int", "float", "rtime", "bool":
		return vOf(n)
	case "string", "ip":
		return `"` + strText(vOf(n)) + `"`
	case "prefix":
		return vOf(sub(n, "op")) + rExpr(sub(n, "right"))
	case "group":
		return "(" + rExpr(sub(n, "e")) + ")"
	case "infix":
		return rExpr(sub(n, "left")) + " " + vOf(sub(n, "op")) + " " + rExpr(sub(n, "right"))
	case "postfix":
		return rExpr(sub(n, "left")) + vOf(sub(n, "op"))
	case "ifx":
		return "if(" + rExpr(sub(n, "c")) + ", " + rExpr(sub(n, "a")) + ", " + rExpr(sub(n, "b")) + ")"
	case "fcallx":
		return vOf(sub(n, "fn")) + "(" + rArgs(list(n, "args")) + ")"
	}
	return "<?" + kOf(n) + ">"
}
func rArgs(l []N) string {
	var s []string
	for _, a := range l {
		s = append(s, rExpr(a))
	}
	return strings.Join(s, ", ")
}
func rStmts(l []N) string {
	var b strings.Builder
	for _, s := range l {
		b.WriteString(rStmt(s))
		b.WriteString("\n")
	}
	return b.String()
}
func rBlock(n N) string { return "{\n" + rStmts(list(n, "stmts")) + "}" }
func rProps(l []N) string {
	var b strings.Builder
	for _, p := range l {
		switch kOf(p) {
		case "bprop", "dprop":
			fmt.Fprintf(&b, ".%s = %s;\n", vOf(sub(p, "key")), rExpr(sub(p, "value")))
		case "bprobe":
			fmt.Fprintf(&b, ".%s = {\n%s}\n", vOf(sub(p, "key")), rProps(list(p, "props")))
		case "dbackend":
			b.WriteString("{ ")
			for _, q := range list(p, "props") {
				fmt.Fprintf(&b, ".%s = %s; ", vOf(sub(q, "key")), rExpr(sub(q, "value")))
			}
			b.WriteString("}\n")
		}
	}
	return b.String()
}

func rStmt(n N) string {
	switch kOf(n) {
	case "set", "add":
		return fmt.Sprintf("%s %s %s %s;", kOf(n), vOf(sub(n, "ident")), vOf(sub(n, "op")), rExpr(sub(n, "value")))
	case "unset", "remove":
		return kOf(n) + " " + vOf(sub(n, "ident")) + ";"
	case "declare":
		s := "declare local " + vOf(sub(n, "name")) + " " + vOf(sub(n, "vtype"))
		if kOf(sub(n, "value")) != "nil" {
			s += " = " + rExpr(sub(n, "value"))
		}
		return s + ";"
	case "call":
		if a := list(n, "args"); len(a) > 0 {
			return "call " + vOf(sub(n, "sub")) + "(" + rArgs(a) + ");"
		}
		return "call " + vOf(sub(n, "sub")) + ";"
	case "fcall":
		return vOf(sub(n, "fn")) + "(" + rArgs(list(n, "args")) + ");"
	case "error":
		s := "error"
		if kOf(sub(n, "code")) != "nil" {
			s += " " + rExpr(sub(n, "code"))
		}
		if kOf(sub(n, "arg")) != "nil" {
			s += " " + rExpr(sub(n, "arg"))
		}
		return s + ";"
	case "esi", "restart", "break", "fallthrough":
		return kOf(n) + ";"
	case "log", "synthetic":
		return kOf(n) + " " + rExpr(sub(n, "value")) + ";"
	case "synthetic64":
		return "synthetic.base64 " + rExpr(sub(n, "value")) + ";"
	case "goto":
		return "goto " + vOf(sub(n, "dest")) + ";"
	case "label":
		return vOf(sub(n, "name")) // the parser keeps the colon in the name
	case "return":
		e := sub(n, "expr")
		switch {
		case kOf(e) == "nil":
			return "return;"
		case vOf(sub(n, "hp")) == "true":
			return "return (" + rExpr(e) + ");"
		}
		return "return " + rExpr(e) + ";"
	case "if":
		s := "if (" + rExpr(sub(n, "cond")) + ") " + rBlock(sub(n, "then"))
		for _, e := range list(n, "elifs") {
			s += " " + vOf(sub(e, "keyword")) + " (" + rExpr(sub(e, "cond")) + ") " + rBlock(sub(e, "then"))
		}
		if el := sub(n, "else"); kOf(el) != "nil" {
			s += " else " + rBlock(sub(el, "block"))
		}
		return s
	case "switch":
		s := "switch (" + rExpr(sub(n, "control")) + ") {\n"
		for _, c := range list(n, "cases") {
			if t := sub(c, "test"); kOf(t) == "nil" {
				s += "default:\n"
			} else if vOf(sub(t, "op")) == "~" {
				s += "case ~ " + rExpr(sub(t, "right")) + ":\n"
			} else {
				s += "case " + rExpr(sub(t, "right")) + ":\n"
			}
			s += rStmts(list(c, "stmts")) // a fallthrough case carries its `fallthrough;` statement
		}
		return s + "}"
	case "block":
		return rBlock(n)
	case "import":
		return "import " + vOf(sub(n, "name")) + ";"
	case "include":
		return "include " + rExpr(sub(n, "module")) + ";"
	case "acl":
		s := "acl " + vOf(sub(n, "name")) + " {\n"
		for _, c := range list(n, "cidrs") {
			if kOf(sub(c, "inverse")) != "nil" {
				s += "!"
			}
			s += rExpr(sub(c, "ip"))
			if m := sub(c, "mask"); kOf(m) != "nil" {
				s += "/" + vOf(m)
			}
			s += ";\n"
		}
		return s + "}"
	case "backend":
		return "backend " + vOf(sub(n, "name")) + " {\n" + rProps(list(n, "props")) + "}"
	case "director":
		return "director " + vOf(sub(n, "name")) + " " + vOf(sub(n, "dtype")) + " {\n" + rProps(list(n, "props")) + "}"
	case "table":
		s := "table " + vOf(sub(n, "name"))
		if vt := sub(n, "vtype"); kOf(vt) != "nil" {
			s += " " + vOf(vt)
		}
		s += " {\n"
		for _, p := range list(n, "props") {
			s += rExpr(sub(p, "key")) + ": " + rExpr(sub(p, "value")) + ",\n"
		}
		return s + "}"
	case "sub":
		s := "sub " + vOf(sub(n, "name"))
		if ps := list(n, "params"); len(ps) > 0 {
			var a []string
			for _, p := range ps {
				a = append(a, vOf(sub(p, "type"))+" "+vOf(sub(p, "name")))
			}
			s += "(" + strings.Join(a, ", ") + ")"
		}
		if rt := sub(n, "rtype"); kOf(rt) != "nil" {
			s += " " + vOf(rt)
		}
		return s + " " + rBlock(sub(n, "block"))
	case "penaltybox", "ratecounter":
		return kOf(n) + " " + vOf(sub(n, "name")) + " {}"
	}
	return "<?" + kOf(n) + ">"
}

var topLevel = map[string]bool{"acl": true, "backend": true, "director": true, "table": true, "sub": true, "penaltybox": true,
	"ratecounter": true, "import": true, "include": true}

// concretise renders the node, parses it with the real parser and returns the statement the parser produced.
func concretise(n N) (ast.Statement, string, error) {
	src := rStmt(n)
	if !topLevel[kOf(n)] {
		src = "sub vcl_recv {\n" + src + "\n}"
	}
	vcl, err := parser.New(lexer.NewFromString(src)).ParseVCL()
	if err != nil {
		return nil, src, err
	}
	if len(vcl.Statements) != 1 {
		return nil, src, fmt.Errorf("%d top-level statements", len(vcl.Statements))
	}
	if topLevel[kOf(n)] {
		return vcl.Statements[0], src, nil
	}
	sd, ok := vcl.Statements[0].(*ast.SubroutineDeclaration)
	if !ok || len(sd.Block.Statements) != 1 {
		return nil, src, fmt.Errorf("wrapper did not yield exactly one statement")
	}
	return sd.Block.Statements[0], src, nil
}

// ------------------------------------------------------------------------------------------ project

var nilN = N{"k": "nil"}

func leaf(k, v string) N { return N{"k": k, "v": v} }
func pIdent(i *ast.Ident) N {
	if i == nil {
		return nilN
	}
	return leaf("ident", i.Value)
}
func pExprs(l []ast.Expression) []any {
	out := []any{}
	for _, e := range l {
		out = append(out, pExpr(e))
	}
	return out
}
func pStmts(l []ast.Statement) []any {
	out := []any{}
	for _, s := range l {
		out = append(out, pStmt(s))
	}
	return out
}
func pBlock(b *ast.BlockStatement) N {
	if b == nil {
		return nilN
	}
	return N{"k": "block", "stmts": pStmts(b.Statements)}
}

func pExpr(e ast.Expression) N {
	switch t := e.(type) {
	case nil:
		return nilN
	case *ast.Ident:
		return pIdent(t)
	case *ast.String:
		if t == nil {
			return nilN
		}
		return leaf("string", strSym(t.Value))
	case *ast.IP:
		if t == nil {
			return nilN
		}
		return leaf("ip", t.Value)
	case *ast.Integer:
		if t == nil {
			return nilN
		}
		return leaf("int", strconv.FormatInt(t.Value, 10))
	case *ast.Float:
		if t == nil {
			return nilN
		}
		return leaf("float", strconv.FormatFloat(t.Value, 'g', -1, 64))
	case *ast.RTime:
		if t == nil {
			return nilN
		}
		return leaf("rtime", t.Value)
	case *ast.Boolean:
		if t == nil {
			return nilN
		}
		return leaf("bool", strconv.FormatBool(t.Value))
	case *ast.PrefixExpression:
		return N{"k": "prefix", "op": leaf("op", t.Operator), "right": pExpr(t.Right)}
	case *ast.GroupedExpression:
		return N{"k": "group", "e": pExpr(t.Right)}
	case *ast.InfixExpression:
		if t == nil {
			return nilN
		}
		return N{"k": "infix", "left": pExpr(t.Left), "op": leaf("op", t.Operator), "right": pExpr(t.Right)}
	case *ast.PostfixExpression:
		return N{"k": "postfix", "left": pExpr(t.Left), "op": leaf("op", t.Operator)}
	case *ast.IfExpression:
		return N{"k": "ifx", "c": pExpr(t.Condition), "a": pExpr(t.Consequence), "b": pExpr(t.Alternative)}
	case *ast.FunctionCallExpression:
		return N{"k": "fcallx", "fn": pIdent(t.Function), "args": pExprs(t.Arguments)}
	case *ast.BackendProbeObject:
		return N{"k": "?probe"}
	}
	return N{"k": fmt.Sprintf("?%T", e)}
}
func pOp(o *ast.Operator) N {
	if o == nil {
		return nilN
	}
	return leaf("op", o.Operator)
}

func pStmt(s ast.Statement) N {
	switch t := s.(type) {
	case *ast.SetStatement:
		return N{"k": "set", "ident": pIdent(t.Ident), "op": pOp(t.Operator), "value": pExpr(t.Value)}
	case *ast.AddStatement:
		return N{"k": "add", "ident": pIdent(t.Ident), "op": pOp(t.Operator), "value": pExpr(t.Value)}
	case *ast.UnsetStatement:
		return N{"k": "unset", "ident": pIdent(t.Ident)}
	case *ast.RemoveStatement:
		return N{"k": "remove", "ident": pIdent(t.Ident)}
	case *ast.DeclareStatement:
		return N{"k": "declare", "name": pIdent(t.Name), "vtype": pIdent(t.ValueType), "value": pExpr(t.Value)}
	case *ast.CallStatement:
		return N{"k": "call", "sub": pIdent(t.Subroutine), "args": pExprs(t.Arguments)}
	case *ast.FunctionCallStatement:
		return N{"k": "fcall", "fn": pIdent(t.Function), "args": pExprs(t.Arguments)}
	case *ast.ErrorStatement:
		return N{"k": "error", "code": pExpr(t.Code), "arg": pExpr(t.Argument)}
	case *ast.EsiStatement:
		return N{"k": "esi"}
	case *ast.RestartStatement:
		return N{"k": "restart"}
	case *ast.BreakStatement:
		return N{"k": "break"}
	case *ast.FallthroughStatement:
		return N{"k": "fallthrough"}
	case *ast.LogStatement:
		return N{"k": "log", "value": pExpr(t.Value)}
	case *ast.SyntheticStatement:
		return N{"k": "synthetic", "value": pExpr(t.Value)}
	case *ast.SyntheticBase64Statement:
		return N{"k": "synthetic64", "value": pExpr(t.Value)}
	case *ast.GotoStatement:
		return N{"k": "goto", "dest": pIdent(t.Destination)}
	case *ast.GotoDestinationStatement:
		return N{"k": "label", "name": pIdent(t.Name)}
	case *ast.ReturnStatement:
		return N{"k": "return", "expr": pExpr(t.ReturnExpression)}
	case *ast.IfStatement:
		el := nilN
		if t.Alternative != nil {
			el = N{"k": "else", "block": pBlock(t.Alternative.Consequence)}
		}
		elifs := []any{}
		for _, a := range t.Another {
			elifs = append(elifs, pStmt(a))
		}
		return N{"k": "if", "cond": pExpr(t.Condition), "then": pBlock(t.Consequence), "elifs": elifs, "else": el}
	case *ast.SwitchStatement:
		cs := []any{}
		for _, c := range t.Cases {
			test := nilN
			if c.Test != nil {
				test = pExpr(c.Test)
			}
			cs = append(cs, N{"k": "case", "test": test, "stmts": pStmts(c.Statements), "ft": c.Fallthrough})
		}
		var ctl ast.Expression
		if t.Control != nil {
			ctl = t.Control.Expression
		}
		return N{"k": "switch", "control": pExpr(ctl), "cases": cs}
	case *ast.BlockStatement:
		return pBlock(t)
	case *ast.ImportStatement:
		return N{"k": "import", "name": pIdent(t.Name)}
	case *ast.IncludeStatement:
		return N{"k": "include", "module": pExpr(t.Module)}
	case *ast.AclDeclaration:
		cs := []any{}
		for _, c := range t.CIDRs {
			cs = append(cs, N{"k": "cidr", "inverse": pExpr(c.Inverse), "ip": pExpr(c.IP), "mask": pExpr(c.Mask)})
		}
		return N{"k": "acl", "name": pIdent(t.Name), "cidrs": cs}
	case *ast.BackendDeclaration:
		return N{"k": "backend", "name": pIdent(t.Name), "props": pBProps(t.Properties)}
	case *ast.DirectorDeclaration:
		ps := []any{}
		for _, p := range t.Properties {
			switch q := p.(type) {
			case *ast.DirectorProperty:
				ps = append(ps, N{"k": "dprop", "key": pIdent(q.Key), "value": pExpr(q.Value)})
			case *ast.DirectorBackendObject:
				vs := []any{}
				for _, v := range q.Values {
					vs = append(vs, N{"k": "dprop", "key": pIdent(v.Key), "value": pExpr(v.Value)})
				}
				ps = append(ps, N{"k": "dbackend", "props": vs})
			}
		}
		return N{"k": "director", "name": pIdent(t.Name), "dtype": pIdent(t.DirectorType), "props": ps}
	case *ast.TableDeclaration:
		ps := []any{}
		for _, p := range t.Properties {
			ps = append(ps, N{"k": "tprop", "key": pExpr(p.Key), "value": pExpr(p.Value)})
		}
		return N{"k": "table", "name": pIdent(t.Name), "vtype": pIdent(t.ValueType), "props": ps}
	case *ast.SubroutineDeclaration:
		ps := []any{}
		for _, p := range t.Parameters {
			ps = append(ps, N{"k": "param", "type": pIdent(p.Type), "name": pIdent(p.Name)})
		}
		return N{"k": "sub", "name": pIdent(t.Name), "params": ps, "rtype": pIdent(t.ReturnType), "block": pBlock(t.Block)}
	case *ast.PenaltyboxDeclaration:
		return N{"k": "penaltybox", "name": pIdent(t.Name)}
	case *ast.RatecounterDeclaration:
		return N{"k": "ratecounter", "name": pIdent(t.Name)}
	}
	return N{"k": fmt.Sprintf("?%T", s)}
}
func pBProps(l []*ast.BackendProperty) []any {
	ps := []any{}
	for _, p := range l {
		if probe, ok := p.Value.(*ast.BackendProbeObject); ok {
			ps = append(ps, N{"k": "bprobe", "key": pIdent(p.Key), "props": pBProps(probe.Values)})
		} else {
			ps = append(ps, N{"k": "bprop", "key": pIdent(p.Key), "value": pExpr(p.Value)})
		}
	}
	return ps
}

func canon(x any) string {
	b, _ := json.Marshal(x)
	var y any
	json.Unmarshal(b, &y) // nolint:errcheck
	b, _ = json.Marshal(y)
	return string(b)
}

// first path at which two JSON values differ
func diffPath(a, b any, path string) string {
	switch x := a.(type) {
	case map[string]any:
		y, ok := b.(map[string]any)
		if !ok {
			return path
		}
		keys := map[string]bool{}
		for k := range x {
			keys[k] = true
		}
		for k := range y {
			keys[k] = true
		}
		var ks []string
		for k := range keys {
			ks = append(ks, k)
		}
		sort.Strings(ks)
		for _, k := range ks {
			if d := diffPath(x[k], y[k], path+"."+k); d != "" {
				return d
			}
		}
		return ""
	case []any:
		y, ok := b.([]any)
		if !ok {
			return path
		}
		if len(x) != len(y) {
			return path + ".#"
		}
		for i := range x {
			if d := diffPath(x[i], y[i], fmt.Sprintf("%s[%d]", path, i)); d != "" {
				return d
			}
		}
		return ""
	}
	if canon(a) != canon(b) {
		return path
	}
	return ""
}
func norm(x any) any {
	var y any
	json.Unmarshal([]byte(canon(x)), &y) // nolint:errcheck
	return y
}

// ------------------------------------------------------------------------------------------ frames

var ftNames = map[codec.FrameType]string{
	codec.UNKNOWN: "UNKNOWN", codec.END: "END", codec.FIN: "FIN", codec.ACL_DECLARATION: "ACL_DECLARATION", codec.ACL_CIDR: "ACL_CIDR",
	codec.BACKEND_DECLARATION: "BACKEND_DECLARATION", codec.BACKEND_PROPERTY: "BACKEND_PROPERTY", codec.BACKEND_PROBE: "BACKEND_PROBE",
	codec.DIRECTOR_DECLARATION: "DIRECTOR_DECLARATION", codec.DIRECTOR_PROPERTY: "DIRECTOR_PROPERTY", codec.DIRECTOR_BACKEND: "DIRECTOR_BACKEND",
	codec.PENALTYBOX_DECLARATION: "PENALTYBOX_DECLARATION", codec.RATECOUNTER_DECLARATION: "RATECOUNTER_DECLARATION",
	codec.SUBROUTINE_DECLARATION: "SUBROUTINE_DECLARATION", codec.TABLE_DECLARATION: "TABLE_DECLARATION", codec.TABLE_PROPERTY: "TABLE_PROPERTY",
	codec.ADD_STATEMENT: "ADD_STATEMENT", codec.BLOCK_STATEMENT: "BLOCK_STATEMENT", codec.BREAK_STATEMENT: "BREAK_STATEMENT",
	codec.CALL_STATEMENT: "CALL_STATEMENT", codec.CASE_STATEMENT: "CASE_STATEMENT", codec.DECLARE_STATEMENT: "DECLARE_STATEMENT",
	codec.ELSEIF_STATEMENT: "ELSEIF_STATEMENT", codec.ELSE_STATEMENT: "ELSE_STATEMENT", codec.ERROR_STATEMENT: "ERROR_STATEMENT",
	codec.ESI_STATEMENT: "ESI_STATEMENT", codec.FALLTHROUGH_STATEMENT: "FALLTHROUGH_STATEMENT", codec.FUNCTIONCALL_STATEMENT: "FUNCTIONCALL_STATEMENT",
	codec.GOTO_STATEMENT: "GOTO_STATEMENT", codec.GOTO_DESTINATION_STATEMENT: "GOTO_DESTINATION_STATEMENT", codec.IF_STATEMENT: "IF_STATEMENT",
	codec.IMPORT_STATEMENT: "IMPORT_STATEMENT", codec.INCLUDE_STATEMENT: "INCLUDE_STATEMENT", codec.LOG_STATEMENT: "LOG_STATEMENT",
	codec.REMOVE_STATEMENT: "REMOVE_STATEMENT", codec.RESTART_STATEMENT: "RESTART_STATEMENT", codec.RETURN_STATEMENT: "RETURN_STATEMENT",
	codec.SET_STATEMENT: "SET_STATEMENT", codec.SWITCH_STATEMENT: "SWITCH_STATEMENT", codec.SYNTHETIC_STATEMENT: "SYNTHETIC_STATEMENT",
	codec.SYNTHETIC_BASE64_STATEMENT: "SYNTHETIC_BASE64_STATEMENT", codec.UNSET_STATEMENT: "UNSET_STATEMENT",
	codec.GROUPED_EXPRESSION: "GROUPED_EXPRESSION", codec.INFIX_EXPRESSION: "INFIX_EXPRESSION", codec.POSTFIX_EXPRESSION: "POSTFIX_EXPRESSION",
	codec.PREFIX_EXPRESSION: "PREFIX_EXPRESSION", codec.IF_EXPRESSION: "IF_EXPRESSION", codec.FUNCTIONCALL_EXPRESSION: "FUNCTIONCALL_EXPRESSION",
	codec.FLOAT_VALUE: "FLOAT_VALUE", codec.IP_VALUE: "IP_VALUE", codec.IDENT_VALUE: "IDENT_VALUE", codec.BOOL_VALUE: "BOOL_VALUE",
	codec.INTEGER_VALUE: "INTEGER_VALUE", codec.RTIME_VALUE: "RTIME_VALUE", codec.STRING_VALUE: "STRING_VALUE", codec.OPERATOR: "OPERATOR",
	codec.VCL: "VCL",
}

func init() {
	// frame types added after the snapshot are registered by value so that the harness also builds against older trees
	ftNames[codec.VCL+1] = "SUBROUTINE_PARAMETER"
	for k, v := range ftNames {
		ftByName[v] = byte(k)
	}
}
var ftByName = map[string]byte{}

var leafFT = map[string]bool{"FLOAT_VALUE": true, "IP_VALUE": true, "IDENT_VALUE": true, "BOOL_VALUE": true, "INTEGER_VALUE": true,
	"RTIME_VALUE": true, "STRING_VALUE": true, "OPERATOR": true}

type tok struct {
	T    string `json:"t"`
	Sz   int    `json:"sz"`
	Len  int    `json:"len"`
	Part string `json:"part"`
	off  int
	hdr  int // header bytes (3, or 7 with the extended length)
	end  int // offset after header and payload
}

// extended: the tree under test writes values of 65535 bytes or more with a 32-bit length (measured once at start)
var extended = func() bool {
	b, err := codec.NewEncoder().Encode(&ast.LogStatement{Value: &ast.String{Value: strings.Repeat("x", 65535)}})
	return err == nil && len(b) == 3+7+65535+1
}()

// tokenise walks the real encoding as the decoder does: headers, leaf payloads, one-byte markers.
// total = the real payload length of every leaf as the ENCODER wrote it cannot be known from the bytes when the
// 16-bit length wrapped; leafLens (from the model's prediction) resolves that case.
func tokenise(b []byte, leafLens []int) ([]tok, bool) {
	var out []tok
	i, li := 0, 0
	for i < len(b) {
		name, ok := ftNames[codec.FrameType(b[i])]
		if !ok {
			return out, false
		}
		if name == "END" || name == "FIN" {
			out = append(out, tok{T: name, off: i, end: i + 1})
			i++
			continue
		}
		if i+3 > len(b) {
			return out, false
		}
		t := tok{T: name, Sz: int(b[i+1])<<8 | int(b[i+2]), off: i, hdr: 3}
		i += 3
		if leafFT[name] {
			if t.Sz == 0xFFFF && extended {
				if i+4 > len(b) {
					return out, false
				}
				t.Sz = int(b[i])<<24 | int(b[i+1])<<16 | int(b[i+2])<<8 | int(b[i+3])
				t.hdr = 7
				i += 4
			}
			t.Len = t.Sz
			if li < len(leafLens) && !extended && leafLens[li]%65536 == t.Sz {
				t.Len = leafLens[li] // a wrapped 16-bit length (trees without the extended length)
			}
			li++
			if i+t.Len > len(b) {
				return out, false
			}
			i += t.Len
		}
		t.end = i
		out = append(out, t)
	}
	return out, true
}

// ------------------------------------------------------------------------------------------ guarded decode

type budgetReader struct {
	r      io.Reader
	eofs   int
	budget int
}
type budgetExceeded struct{}

func (b *budgetReader) Read(p []byte) (int, error) {
	n, err := b.r.Read(p)
	if err == io.EOF {
		b.eofs++
		if b.eofs > b.budget {
			panic(budgetExceeded{}) // the decoder keeps reading at the end of input: it will never return
		}
	}
	return n, err
}

type decOut struct {
	res   string // ok / err / panic / hang
	stmts []ast.Statement
	msg   string
}

func guardedDecode(b []byte) decOut {
	ch := make(chan decOut, 1)
	go func() {
		var o decOut
		defer func() {
			if r := recover(); r != nil {
				if _, ok := r.(budgetExceeded); ok {
					o = decOut{res: "hang", msg: "decoder read past the end of input more than 10000 times"}
				} else {
					o = decOut{res: "panic", msg: fmt.Sprint(r)}
				}
			}
			ch <- o
		}()
		st, err := codec.NewDecoder(&budgetReader{r: bytes.NewReader(b), budget: 10000}).Decode()
		if err != nil {
			o = decOut{res: "err", msg: firstLine(err.Error())}
		} else {
			o = decOut{res: "ok", stmts: st}
		}
	}()
	select {
	case o := <-ch:
		return o
	case <-time.After(60 * time.Second):
		return decOut{res: "hang", msg: "no result within 60 s (wall clock)"}
	}
}
func firstLine(s string) string {
	if i := strings.IndexByte(s, '\n'); i >= 0 {
		s = s[:i]
	}
	if len(s) > 160 {
		s = s[:160]
	}
	return s
}

// plugin.ReadLinterRequest on the same bytes (the other observation point named by the property)
func guardedPlugin(b []byte) string {
	res := "ok"
	func() {
		defer func() {
			if r := recover(); r != nil {
				if _, ok := r.(budgetExceeded); ok {
					res = "hang"
				} else {
					res = "panic"
				}
			}
		}()
		if _, err := plugin.ReadLinterRequest[*ast.SetStatement](&budgetReader{r: bytes.NewReader(b), budget: 10000}); err != nil {
			res = "err"
		}
	}()
	return res
}

// ------------------------------------------------------------------------------------------ replay

type behaviour struct {
	Kind    string `json:"kind"`
	Node    N      `json:"node"`
	Sem     any    `json:"sem"`
	Toks    []tok  `json:"toks"`
	NToks   int    `json:"ntoks"`
	Bytes   int    `json:"bytes"`
	Dec     string `json:"dec"`
	Got     []any  `json:"got"`
	Rt      bool   `json:"rt"`
	Long    bool   `json:"long"`
	Framed  bool   `json:"framed"`
	Mutable bool   `json:"mutable"`
	Mut     struct {
		M    string `json:"m"`
		I    int    `json:"i"`
		Part string `json:"part"`
		T    string `json:"t"`
		KK   int    `json:"kk"`
	} `json:"mut"`
}

func features(n any, out map[string]bool) {
	switch x := n.(type) {
	case map[string]any:
		k, _ := x["k"].(string)
		v, _ := x["v"].(string)
		switch {
		case (k == "string" || k == "ip") && v == "":
			out["empty-string"] = true
		case k == "string" && len(v) > 1 && v[0] == 'S':
			if m, err := strconv.Atoi(v[1:]); err == nil && m > 65535 {
				out["long-literal"] = true
			}
		case k == "sub":
			if l, _ := x["params"].([]any); len(l) > 0 {
				out["sub-params"] = true
			}
		case k == "call":
			if l, _ := x["args"].([]any); len(l) > 0 {
				out["call-args"] = true
			}
		case k == "error":
			if c, _ := x["code"].(map[string]any); c != nil && c["k"] == "nil" {
				out["error-no-code"] = true
			}
		}
		for _, c := range x {
			features(c, out)
		}
	case []any:
		for _, c := range x {
			features(c, out)
		}
	}
}
func featureString(n any) string {
	m := map[string]bool{}
	features(n, m)
	var l []string
	for k := range m {
		l = append(l, k)
	}
	sort.Strings(l)
	if len(l) == 0 {
		return "none"
	}
	return strings.Join(l, "+")
}

func short(x any) any {
	s := canon(x)
	if len(s) > 1500 {
		return s[:1500] + "..."
	}
	return norm(x)
}

type encoded struct {
	bin  []byte
	toks []tok
	ok   bool
	err  string
	src  string
	stmt ast.Statement
}

func encodeNode(n N, predicted []tok) encoded {
	stmt, src, err := concretise(n)
	if err != nil {
		return encoded{err: "concretise: " + err.Error(), src: src}
	}
	var e encoded
	e.src, e.stmt = src, stmt
	func() {
		defer func() {
			if r := recover(); r != nil {
				e.err = "encoder panic: " + fmt.Sprint(r)
			}
		}()
		bin, err := codec.NewEncoder().Encode(stmt)
		if err != nil {
			e.err = "encoder error: " + err.Error()
			return
		}
		e.bin = bin
	}()
	if e.err != "" {
		return e
	}
	var lens []int
	for _, t := range predicted {
		if leafFT[t.T] {
			lens = append(lens, t.Len)
		}
	}
	e.toks, e.ok = tokenise(e.bin, lens)
	return e
}

func cmdReplay(args []string) int {
	out := hx.NewOut()
	defer out.Close()
	cache := map[string]encoded{}
	idx := 0
	err := hx.Lines(func(line []byte) error {
		var b behaviour
		if err := json.Unmarshal(line, &b); err != nil {
			return err
		}
		idx++
		semKey := canon(b.Node)
		feat := featureString(b.Node)
		if b.Kind == "rt" {
			r := hx.CaseResult{ID: fmt.Sprintf("rt%05d", idx), Validated: true,
				Class: map[string]any{"case": "rt", "kind": kOf(b.Node), "features": feat}}
			r.Key = "rt:" + semKey
			if b.Long {
				r.Key = fmt.Sprintf("rt-long:%d", b.Bytes)
			}
			e := encodeNode(b.Node, b.Toks)
			cache[semKey] = e
			r.Input = map[string]any{"node": short(b.Sem), "src": firstN(e.src, 300), "kind": "rt"}
			if e.stmt == nil {
				r.Drift = append(r.Drift, map[string]any{"obs": "concretise", "detail": e.err, "src": firstN(e.src, 200)})
				r.Mismatch = append(r.Mismatch, map[string]any{"obs": "machinery", "detail": "the generated node could not be concretised: " + e.err})
				out.Write(r)
			out.Close() // flush: a fatal crash is attributed to the first unanswered case
				return nil
			}
			// the concretiser did what the model thinks: the parsed statement projects to the node TLC generated
			if d := diffPath(norm(b.Sem), norm(pStmt(e.stmt)), ""); d != "" {
				r.Mismatch = append(r.Mismatch, map[string]any{"obs": "machinery", "detail": "parsed statement differs from the generated node at " + d})
				out.Write(r)
			out.Close() // flush: a fatal crash is attributed to the first unanswered case
				return nil
			}
			if e.err != "" {
				r.Mismatch = append(r.Mismatch, map[string]any{"obs": "roundtrip", "why": "encode-failed", "detail": e.err})
				out.Write(r)
			out.Close() // flush: a fatal crash is attributed to the first unanswered case
				return nil
			}
			// mechanism: the frame sequence the model predicts
			if !b.Long {
				if !e.ok || len(e.toks) != len(b.Toks) {
					r.Drift = append(r.Drift, map[string]any{"obs": "frames", "expected": len(b.Toks), "got": len(e.toks), "framing": e.ok})
				} else {
					for i := range e.toks {
						if e.toks[i].T != b.Toks[i].T || e.toks[i].Sz != b.Toks[i].Sz || e.toks[i].Len != b.Toks[i].Len {
							r.Drift = append(r.Drift, map[string]any{"obs": "frames", "at": i + 1, "expected": b.Toks[i], "got": e.toks[i]})
							break
						}
					}
				}
			} else if len(e.bin) != b.Bytes {
				r.Drift = append(r.Drift, map[string]any{"obs": "frames", "expected_bytes": b.Bytes, "got_bytes": len(e.bin)})
			}
			d := guardedDecode(e.bin)
			obs := map[string]any{"decode": d.res, "bytes": len(e.bin)}
			if d.msg != "" {
				obs["msg"] = d.msg
			}
			r.Observed = obs
			switch {
			case d.res == "panic" || d.res == "hang":
				r.Mismatch = append(r.Mismatch, map[string]any{"obs": "roundtrip", "why": d.res, "detail": d.msg},
					map[string]any{"obs": "totality", "why": d.res, "detail": d.msg, "mut": "none"})
			case d.res == "err":
				r.Mismatch = append(r.Mismatch, map[string]any{"obs": "roundtrip", "why": "decode-error", "detail": d.msg})
			case len(d.stmts) != 1:
				r.Mismatch = append(r.Mismatch, map[string]any{"obs": "roundtrip", "why": "count", "detail": fmt.Sprintf("%d statements decoded", len(d.stmts))})
			default:
				got := norm(pStmt(d.stmts[0]))
				if dp := diffPath(norm(b.Sem), got, ""); dp != "" {
					r.Mismatch = append(r.Mismatch, map[string]any{"obs": "roundtrip", "why": "differs", "at": dp})
					obs["decoded"] = short(got)
				}
			}
			// mechanism: the outcome the model predicts for the decoder
			predicted := b.Dec
			if predicted == "desync" {
				predicted = ""
			}
			if predicted != "" && predicted != d.res {
				r.Drift = append(r.Drift, map[string]any{"obs": "decode-outcome", "expected": b.Dec, "got": d.res})
			} else if predicted == "ok" && !b.Long && len(b.Got) == 1 && len(d.stmts) == 1 {
				if dp := diffPath(norm(b.Got[0]), norm(pStmt(d.stmts[0])), ""); dp != "" {
					r.Drift = append(r.Drift, map[string]any{"obs": "decoded-node", "at": dp})
				}
			}
			if (len(r.Mismatch) == 0) != b.Rt {
				r.Drift = append(r.Drift, map[string]any{"obs": "roundtrip-prediction", "expected": b.Rt, "got": len(r.Mismatch) == 0})
			}
			out.Write(r)
			out.Close() // flush: a fatal crash is attributed to the first unanswered case
			return nil
		}
		// ---- mutation
		e, ok := cache[semKey]
		if !ok {
			e = encodeNode(b.Node, nil)
			cache[semKey] = e
		}
		r := hx.CaseResult{ID: fmt.Sprintf("mu%05d", idx), Validated: true}
		mutDesc := map[string]any{"m": b.Mut.M, "i": b.Mut.I, "part": b.Mut.Part, "t": b.Mut.T, "kk": b.Mut.KK}
		r.Input = map[string]any{"kind": "mut", "node": short(b.Node), "mut": mutDesc}
		if e.bin == nil || !e.ok {
			r.Drift = append(r.Drift, map[string]any{"obs": "mutation-base", "detail": "base encoding not available / not framed: " + e.err})
			out.Write(r)
			out.Close() // flush: a fatal crash is attributed to the first unanswered case
			return nil
		}
		mb, atType, okm := applyMut(e, b)
		if !okm {
			r.Drift = append(r.Drift, map[string]any{"obs": "mutation-not-applicable"})
			out.Write(r)
			out.Close() // flush: a fatal crash is attributed to the first unanswered case
			return nil
		}
		r.Class = map[string]any{"case": "mut", "kind": kOf(b.Node), "mut": b.Mut.M, "at_type": atType, "sub_type": b.Mut.T, "part": b.Mut.Part}
		r.Key = fmt.Sprintf("mut:%s", hex.EncodeToString(mb))
		d := guardedDecode(mb)
		pl := guardedPlugin(mb)
		r.Observed = map[string]any{"decode": d.res, "plugin": pl, "msg": d.msg, "bytes": hex.EncodeToString(firstB(mb, 200))}
		if d.res == "panic" || d.res == "hang" {
			r.Mismatch = append(r.Mismatch, map[string]any{"obs": "totality", "why": d.res, "detail": d.msg})
		} else if pl == "panic" || pl == "hang" {
			r.Mismatch = append(r.Mismatch, map[string]any{"obs": "totality", "why": pl, "detail": "plugin.ReadLinterRequest"})
		}
		if b.Framed && b.Dec != "desync" && b.Dec != d.res {
			r.Drift = append(r.Drift, map[string]any{"obs": "decode-outcome", "expected": b.Dec, "got": d.res})
		}
		out.Write(r)
			out.Close() // flush: a fatal crash is attributed to the first unanswered case
		return nil
	})
	if err != nil {
		fmt.Fprintln(os.Stderr, err)
		return 2
	}
	return 0
}

func firstN(s string, n int) string {
	if len(s) > n {
		return s[:n] + "..."
	}
	return s
}
func firstB(b []byte, n int) []byte {
	if len(b) > n {
		return b[:n]
	}
	return b
}

// applyMut applies the frame-level mutation TLC chose to the real bytes (offsets from the real token walk).
func applyMut(e encoded, b behaviour) ([]byte, string, bool) {
	t := e.toks
	m := b.Mut
	switch m.M {
	case "cut":
		if m.I > len(t) {
			return nil, "", false
		}
		cut := len(e.bin)
		atType := "FIN"
		if m.I < len(t) {
			nx := t[m.I]
			cut = nx.off
			atType = nx.T
			if nx.T != "END" && nx.T != "FIN" {
				switch m.Part {
				case "hdr1":
					cut = nx.off + 1
				case "hdr2":
					cut = nx.off + 2
				case "hdr3", "hdr4", "hdr5", "hdr6": // inside the 32-bit length of a long value
					if nx.hdr != 7 {
						return nil, "", false
					}
					cut = nx.off + int(m.Part[3]-'0')
				case "pay":
					cut = nx.off + nx.hdr + nx.Len/2
				}
			}
		}
		return append([]byte{}, e.bin[:cut]...), atType, true
	case "sub":
		if m.I < 1 || m.I > len(t) {
			return nil, "", false
		}
		v, ok := ftByName[m.T]
		if !ok {
			return nil, "", false
		}
		mb := append([]byte{}, e.bin...)
		mb[t[m.I-1].off] = v
		return mb, t[m.I-1].T, true
	case "ext":
		if m.I < 1 || m.I > len(t) || !leafFT[t[m.I-1].T] || t[m.I-1].hdr != 3 {
			return nil, "", false
		}
		mb := append([]byte{}, e.bin...)
		mb[t[m.I-1].off+1], mb[t[m.I-1].off+2] = 0xFF, 0xFF
		return mb, t[m.I-1].T, true
	case "shrink":
		if m.I < 1 || m.I > len(t) || !leafFT[t[m.I-1].T] || m.KK > t[m.I-1].Len {
			if m.I >= 1 && m.I <= len(t) && leafFT[t[m.I-1].T] && m.KK > t[m.I-1].Len {
				// growing is not what the model asked for; pad with zero bytes to stay well-formed
				x := t[m.I-1]
				mb := append([]byte{}, e.bin[:x.off]...)
				mb = append(mb, e.bin[x.off], byte(m.KK>>8), byte(m.KK))
				mb = append(mb, e.bin[x.off+3:x.end]...)
				mb = append(mb, make([]byte, m.KK-x.Len)...)
				mb = append(mb, e.bin[x.end:]...)
				return mb, x.T, true
			}
			return nil, "", false
		}
		x := t[m.I-1]
		mb := append([]byte{}, e.bin[:x.off]...)
		mb = append(mb, e.bin[x.off], byte(m.KK>>8), byte(m.KK))
		mb = append(mb, e.bin[x.off+x.hdr:x.off+x.hdr+m.KK]...)
		mb = append(mb, e.bin[x.end:]...)
		return mb, x.T, true
	}
	return nil, "", false
}

// ------------------------------------------------------------------------------------------ byte level

func cmdBytes(args []string) int {
	out := hx.NewOut()
	defer out.Close()
	rng := rand.New(rand.NewSource(hx.Seed()))
	flips := 40
	if os.Getenv("VERIF_TIER") == "thorough" {
		flips = 300
	}
	var prev []byte
	idx := 0
	err := hx.Lines(func(line []byte) error {
		var b behaviour
		if err := json.Unmarshal(line, &b); err != nil {
			return err
		}
		if b.Kind != "rt" {
			return nil
		}
		idx++
		e := encodeNode(b.Node, b.Toks)
		if e.bin == nil {
			return nil
		}
		bin := e.bin
		var inputs [][]byte
		var how []string
		step := 1
		if len(bin) > 400 {
			step = len(bin) / 400
		}
		for i := 0; i < len(bin); i += step {
			inputs = append(inputs, bin[:i])
			how = append(how, fmt.Sprintf("truncate:%d", i))
		}
		for i := 0; i < flips; i++ {
			mb := append([]byte{}, bin...)
			p := rng.Intn(len(mb))
			if len(mb) > 4000 && i%2 == 0 {
				p = rng.Intn(200)
			}
			if i%2 == 0 {
				mb[p] ^= 1 << uint(rng.Intn(8))
				how = append(how, fmt.Sprintf("bitflip:%d", p))
			} else {
				mb[p] = byte(rng.Intn(70))
				how = append(how, fmt.Sprintf("byte:%d=%d", p, mb[p]))
			}
			inputs = append(inputs, mb)
		}
		if prev != nil {
			for i := 0; i < flips/4; i++ {
				a, c := rng.Intn(len(bin)+1), rng.Intn(len(prev)+1)
				mb := append(append([]byte{}, bin[:a]...), prev[c:]...)
				inputs = append(inputs, mb)
				how = append(how, fmt.Sprintf("splice:%d+%d", a, c))
			}
		}
		if len(bin) < 4000 {
			prev = bin
		}
		r := hx.CaseResult{ID: fmt.Sprintf("by%05d", idx), Validated: true, Class: map[string]any{"case": "bytes", "kind": kOf(b.Node)},
			Key: "bytes:" + canon(b.Sem)}
		if b.Long {
			r.Key = fmt.Sprintf("bytes-long:%d", b.Bytes)
		}
		cnt := map[string]int{}
		for i, in := range inputs {
			d := guardedDecode(in)
			cnt[d.res]++
			if d.res == "panic" || d.res == "hang" {
				if len(r.Mismatch) < 5 {
					r.Mismatch = append(r.Mismatch, map[string]any{"obs": "totality", "why": d.res, "detail": d.msg, "mut": strings.SplitN(how[i], ":", 2)[0],
						"how": how[i], "bytes": hex.EncodeToString(firstB(in, 300))})
				}
			}
		}
		r.Input = map[string]any{"kind": "bytes", "node": short(b.Sem), "inputs": len(inputs)}
		r.Observed = map[string]any{"inputs": len(inputs), "outcomes": cnt}
		out.Write(r)
			out.Close() // flush: a fatal crash is attributed to the first unanswered case
		return nil
	})
	if err != nil {
		fmt.Fprintln(os.Stderr, err)
		return 2
	}
	return 0
}
