package main

// C20 - VCL generated from remote and Terraform resources is valid and faithful.
//
//	vhc20 replay < behaviours.jsonl   every resource case TLC generated from spec/Snippets.tla is turned into
//	    snippet resources, rendered by the real code on two routes - a fake snippet.Fetcher (the data structures the
//	    Fastly API client fills) and a Terraform plan JSON through terraform.ParseStdin / TerraformFetcher - then
//	    snippet.Fetch -> EmbedSnippets -> parser.ParseVCL, and the declarations read back are compared with the
//	    resource (requirement) and with the text / read-back the model predicts (mechanism, drift only).
import (
	"bytes"
	"encoding/json"
	"fmt"
	"io"
	"net/http"
	"os"
	"sort"
	"strconv"
	"strings"
	"sync"
	"time"

	"verif/harness/internal/hx"

	"github.com/ysugimoto/falco/v2/ast"
	"github.com/ysugimoto/falco/v2/lexer"
	"github.com/ysugimoto/falco/v2/parser"
	"github.com/ysugimoto/falco/v2/snippet"
	"github.com/ysugimoto/falco/v2/snippet/remote"
	"github.com/ysugimoto/falco/v2/snippet/terraform"
)

func main() {
	hx.Commands["replay"] = cmdReplay
	hx.Main()
}

type cps []int

func (c cps) String() string {
	var b strings.Builder
	for _, r := range c {
		b.WriteRune(rune(r))
	}
	return b.String()
}

type item struct {
	Key   cps `json:"key"`
	Value cps `json:"value"`
}
type entry struct {
	IP      cps  `json:"ip"`
	Negated bool `json:"negated"`
	Subnet  int  `json:"subnet"`
	Comment cps  `json:"comment"`
}
type service struct {
	ID    string     `json:"id"`
	Dicts []resource `json:"dicts"`
	Acls  []resource `json:"acls"`
}
type resource struct {
	Services []service `json:"services"`
	Late     int       `json:"late"`
	Place    string    `json:"place"` // where the resources sit in the Terraform plan: root / child / nested / split
	WO       bool      `json:"wo"`    // write-only (private) dictionary
	Kind     string    `json:"kind"`
	Name     cps       `json:"name"`
	Items    []item    `json:"items"`
	Entries  []entry   `json:"entries"`
	Address  cps       `json:"address"`
	Type     int       `json:"type"`
	Retries  int       `json:"retries"`
	Quorum   int       `json:"quorum"`
	Members  []cps     `json:"members"`
}
type piece struct {
	Lit *string `json:"lit"`
	Cs  cps     `json:"cs"`
}
type readBack struct {
	OK    bool `json:"ok"`
	Items []struct {
		Key   cps `json:"key"`
		Value cps `json:"value"`
	} `json:"items"`
	Entries []struct {
		IP      cps  `json:"ip"`
		Negated bool `json:"negated"`
		Subnet  int  `json:"subnet"`
	} `json:"entries"`
	Declared cps    `json:"declared"`
	Host     cps    `json:"host"`
	Name     cps    `json:"name"`
	Type     string `json:"type"`
	Retries  int    `json:"retries"`
	Quorum   int    `json:"quorum"`
	Refs     []cps  `json:"refs"`
}
type behaviour struct {
	Res      resource        `json:"-"`
	ResRaw   json.RawMessage `json:"res"`
	Expect   json.RawMessage `json:"expect"` // canary: compare the declarations with this resource instead of res
	Pieces   []piece         `json:"pieces"`
	Read     readBack        `json:"read"`
	Faithful bool            `json:"faithful"`
}

// ---------------------------------------------------------------------------------------- routes

type fake struct {
	dicts []*snippet.Dictionary
	acls  []*snippet.Acl
	backs []*snippet.Backend
	dirs  []*snippet.Director
}

func (f *fake) LookupCache(bool) *snippet.Snippets                  { return nil }
func (f *fake) WriteCache(*snippet.Snippets)                        {}
func (f *fake) Backends() ([]*snippet.Backend, error)               { return f.backs, nil }
func (f *fake) Directors() ([]*snippet.Director, error)             { return f.dirs, nil }
func (f *fake) Dictionaries() ([]*snippet.Dictionary, error)        { return f.dicts, nil }
func (f *fake) Acls() ([]*snippet.Acl, error)                       { return f.acls, nil }
func (f *fake) Conditions() ([]*snippet.Condition, error)           { return nil, nil }
func (f *fake) Snippets() ([]*snippet.VCLSnippet, error)            { return nil, nil }
func (f *fake) Headers() ([]*snippet.Header, error)                 { return nil, nil }
func (f *fake) ResponseObjects() ([]*snippet.ResponseObject, error) { return nil, nil }
func (f *fake) RequestSetting() (*snippet.RequestSetting, error)    { return nil, nil }
func (f *fake) LoggingEndpoints() ([]string, error)                 { return nil, nil }

func sp(s string) *string { return &s }

func cpsOf(s string) cps {
	var c cps
	for _, r := range s {
		c = append(c, int(r))
	}
	return c
}

// world: what one case stands for - services with dictionaries and ACLs (a single generated dictionary / ACL gets a
// fixed decoy sibling), or one service with backends and directors
type world struct {
	services []service
	backends []resource
	director *resource
}

func worldOf(r resource) world {
	switch r.Kind {
	case "multi":
		return world{services: r.Services}
	case "dict":
		d := resource{Kind: "dict", Name: cpsOf("zz_decoy"), Items: []item{{Key: cpsOf("dk"), Value: cpsOf("dv")}}}
		return world{services: []service{{ID: "s1", Dicts: []resource{r, d}}}}
	case "acl":
		a := resource{Kind: "acl", Name: cpsOf("zz_decoy"), Entries: []entry{{IP: cpsOf("192.0.2.1"), Subnet: 32}}}
		return world{services: []service{{ID: "s1", Acls: []resource{r, a}}}}
	case "backend":
		return world{services: []service{{ID: "s1"}}, backends: []resource{r}}
	case "director":
		w := world{services: []service{{ID: "s1"}}, director: &r}
		for _, m := range r.Members {
			w.backends = append(w.backends, resource{Kind: "backend", Name: m, Address: cpsOf("h")})
		}
		return w
	}
	return world{}
}

// --- route 1: the data structures the API client fills
func apiFetcher(w world, si int) snippet.Fetcher {
	f := &fake{}
	for _, r := range w.services[si].Dicts {
		d := &snippet.Dictionary{Name: r.Name.String()}
		for _, it := range r.Items {
			d.Items = append(d.Items, &snippet.DictionaryItem{Key: it.Key.String(), Value: it.Value.String()})
		}
		f.dicts = append(f.dicts, d)
	}
	for _, r := range w.services[si].Acls {
		a := &snippet.Acl{Name: r.Name.String()}
		for _, e := range r.Entries {
			ae := &snippet.AclEntry{Ip: e.IP.String(), Negated: e.Negated, Comment: e.Comment.String()}
			if e.Subnet >= 0 {
				v := int64(e.Subnet)
				ae.Subnet = &v
			}
			a.Entries = append(a.Entries, ae)
		}
		f.acls = append(f.acls, a)
	}
	for _, r := range w.backends {
		b := &snippet.Backend{Name: r.Name.String()}
		if len(r.Address) > 0 {
			b.Address = sp(r.Address.String())
		}
		f.backs = append(f.backs, b)
	}
	if r := w.director; r != nil {
		d := &snippet.Director{Name: r.Name.String(), Type: r.Type, Retries: r.Retries, Quorum: r.Quorum}
		for _, m := range r.Members {
			d.Backends = append(d.Backends, m.String())
		}
		f.dirs = append(f.dirs, d)
	}
	return f
}

// --- route 2: a Terraform plan (all services in ONE plan) read by the real plan parser
func svcName(sv service) string { return "svc-" + sv.ID }

func terraformServices(w world, place string) ([]*terraform.FastlyService, bool, error) {
	const prov = "registry.terraform.io/fastly/fastly"
	var res []map[string]any
	var extra []map[string]any
	for si, sv := range w.services {
		svc := map[string]any{"id": sv.ID, "name": svcName(sv)}
		var dl, al []map[string]any
		for _, r := range sv.Dicts {
			items := map[string]string{}
			for _, it := range r.Items {
				if _, dup := items[it.Key.String()]; dup {
					return nil, false, nil // a plan holds dictionary items as a map: duplicate keys cannot be expressed
				}
				items[it.Key.String()] = it.Value.String()
			}
			dl = append(dl, map[string]any{"name": r.Name.String(), "write_only": r.WO})
			if r.WO {
				continue // the items of a private dictionary are not managed in the plan
			}
			extra = append(extra, map[string]any{"provider_name": prov, "type": "fastly_service_dictionary_items", "index": r.Name.String(),
				"address": fmt.Sprintf("fastly_service_dictionary_items.items[%q]", r.Name.String()), "mode": "managed", "name": "items",
				"values": map[string]any{"service_id": sv.ID, "items": items}})
		}
		for _, r := range sv.Acls {
			es := []map[string]any{}
			for _, e := range r.Entries {
				sn := ""
				if e.Subnet >= 0 {
					sn = strconv.Itoa(e.Subnet)
				}
				es = append(es, map[string]any{"comment": e.Comment.String(), "ip": e.IP.String(), "negated": e.Negated, "subnet": sn})
			}
			al = append(al, map[string]any{"name": r.Name.String()})
			extra = append(extra, map[string]any{"provider_name": prov, "type": "fastly_service_acl_entries", "index": r.Name.String(),
				"address": fmt.Sprintf("fastly_service_acl_entries.entries[%q]", r.Name.String()), "mode": "managed", "name": "entries",
				"values": map[string]any{"service_id": sv.ID, "entry": es}})
		}
		svc["dictionary"], svc["acl"] = dl, al
		if si == 0 {
			var bs []map[string]any
			for _, r := range w.backends {
				b := map[string]any{"name": r.Name.String()}
				if len(r.Address) > 0 {
					b["address"] = r.Address.String()
				}
				bs = append(bs, b)
			}
			svc["backend"] = bs
			if r := w.director; r != nil {
				var names []string
				for _, m := range r.Members {
					names = append(names, m.String())
				}
				svc["director"] = []map[string]any{{"name": r.Name.String(), "type": r.Type, "retries": r.Retries, "quorum": r.Quorum, "backends": names}}
			}
		}
		res = append(res, map[string]any{"provider_name": prov, "type": "fastly_service_vcl", "address": "fastly_service_vcl." + sv.ID,
			"mode": "managed", "name": sv.ID, "values": svc})
	}
	// the items / entries resources of the LAST service come first: the join must not depend on their order
	var items, entries []map[string]any
	for i := len(extra) - 1; i >= 0; i-- {
		if extra[i]["type"] == "fastly_service_acl_entries" {
			entries = append(entries, extra[i])
		} else {
			items = append(items, extra[i])
		}
	}
	// a resource of another provider next to ours (for_each key as index)
	other := map[string]any{"provider_name": "registry.terraform.io/hashicorp/null", "type": "null_resource", "address": "null_resource.x[\"k\"]",
		"mode": "managed", "name": "x", "index": 0, "values": map[string]any{}}
	mod := func(addr string, resources []map[string]any, children ...map[string]any) map[string]any {
		m := map[string]any{"resources": resources}
		if addr != "" {
			m["address"] = addr
		}
		if len(children) > 0 {
			m["child_modules"] = children
		}
		return m
	}
	all := append(append(append([]map[string]any{}, res...), items...), entries...)
	var root map[string]any
	switch place {
	case "child":
		root = mod("", []map[string]any{other}, mod("module.cdn", all))
	case "nested":
		root = mod("", []map[string]any{other}, mod("module.cdn", []map[string]any{}, mod("module.cdn.module.svc[\"a\"]", all)))
	case "split": // service in the root, dictionary items in a child, ACL entries in a nested child of another child
		root = mod("", append([]map[string]any{other}, res...), mod("module.items", items),
			mod("module.acl", []map[string]any{}, mod("module.acl.module.entries[0]", entries)))
	default:
		root = mod("", append(all, other))
	}
	plan := map[string]any{"planned_values": map[string]any{"root_module": root}}
	buf, _ := json.Marshal(plan)
	services, err := terraform.ParseStdin(bytes.NewReader(buf))
	return services, true, err
}

// --- route 3: the real API client and fetcher (snippet/remote) against a fake transport, no network.
// The answer to the items / entries sub-request of resource number `late` is held back until every other sub-request
// of that kind has been answered (or 300 ms have passed - a client that asks one after the other must not hang).
type fakeAPI struct {
	w    world
	late int
	mu   sync.Mutex
	done map[string]int // kind -> answered sub-requests
	cond *sync.Cond
}

func (f *fakeAPI) RoundTrip(req *http.Request) (*http.Response, error) {
	p := req.URL.Path
	sv := f.w.services[0]
	body := "[]"
	j := func(v any) string { b, _ := json.Marshal(v); return string(b) }
	// listings are answered by page when the client asks for pages (page / per_page), completely otherwise
	paged := func(l []map[string]any) []map[string]any {
		q := req.URL.Query()
		pp, err1 := strconv.Atoi(q.Get("per_page"))
		if err1 != nil || pp <= 0 {
			if q.Get("page") == "" || q.Get("page") == "1" {
				return l
			}
			return []map[string]any{}
		}
		pg, err2 := strconv.Atoi(q.Get("page"))
		if err2 != nil || pg < 1 {
			pg = 1
		}
		lo, hi := (pg-1)*pp, pg*pp
		if lo > len(l) {
			lo = len(l)
		}
		if hi > len(l) {
			hi = len(l)
		}
		return l[lo:hi]
	}
	hold := func(kind string, idx, n int) {
		f.mu.Lock()
		defer f.mu.Unlock()
		if idx+1 == f.late && n > 1 {
			deadline := time.Now().Add(300 * time.Millisecond)
			for f.done[kind] < n-1 && time.Now().Before(deadline) {
				f.mu.Unlock()
				time.Sleep(2 * time.Millisecond)
				f.mu.Lock()
			}
		}
		f.done[kind]++
	}
	switch {
	case strings.HasSuffix(p, "/version/active"):
		body = `{"number": 3}`
	case strings.HasSuffix(p, "/version/3/dictionary"):
		l := []map[string]any{}
		for i, r := range sv.Dicts {
			l = append(l, map[string]any{"id": fmt.Sprintf("D%d", i), "name": r.Name.String(), "write_only": r.WO})
		}
		body = j(l)
	case strings.Contains(p, "/dictionary/D") && strings.HasSuffix(p, "/items"):
		i, _ := strconv.Atoi(strings.TrimSuffix(p[strings.Index(p, "/dictionary/D")+13:], "/items"))
		l := []map[string]any{}
		if i < len(sv.Dicts) && sv.Dicts[i].WO { // the API refuses to list the items of a private dictionary
			return &http.Response{StatusCode: 403, Header: http.Header{}, Body: io.NopCloser(strings.NewReader(`{"msg":"write-only dictionary"}`)), Request: req}, nil
		}
		if i < len(sv.Dicts) {
			for _, it := range sv.Dicts[i].Items {
				l = append(l, map[string]any{"item_key": it.Key.String(), "item_value": it.Value.String()})
			}
		}
		hold("dict", i, len(sv.Dicts))
		body = j(paged(l))
	case strings.HasSuffix(p, "/version/3/acl"):
		l := []map[string]any{}
		for i, r := range sv.Acls {
			l = append(l, map[string]any{"id": fmt.Sprintf("A%d", i), "name": r.Name.String()})
		}
		body = j(l)
	case strings.Contains(p, "/acl/A") && strings.HasSuffix(p, "/entries"):
		i, _ := strconv.Atoi(strings.TrimSuffix(p[strings.Index(p, "/acl/A")+6:], "/entries"))
		l := []map[string]any{}
		if i < len(sv.Acls) {
			for _, e := range sv.Acls[i].Entries {
				m := map[string]any{"ip": e.IP.String(), "negated": "0", "subnet": nil, "comment": e.Comment.String()}
				if e.Negated {
					m["negated"] = "1"
				}
				if e.Subnet >= 0 {
					m["subnet"] = e.Subnet
				}
				l = append(l, m)
			}
		}
		hold("acl", i, len(sv.Acls))
		body = j(paged(l))
	case strings.HasSuffix(p, "/version/3/backend"):
		l := []map[string]any{}
		for _, r := range f.w.backends {
			b := map[string]any{"name": r.Name.String()}
			if len(r.Address) > 0 {
				b["address"] = r.Address.String()
			}
			l = append(l, b)
		}
		body = j(l)
	case strings.HasSuffix(p, "/version/3/director"):
		l := []map[string]any{}
		if r := f.w.director; r != nil {
			names := []string{}
			for _, m := range r.Members {
				names = append(names, m.String())
			}
			l = append(l, map[string]any{"name": r.Name.String(), "type": r.Type, "retries": r.Retries, "quorum": r.Quorum, "backends": names})
		}
		body = j(l)
	}
	return &http.Response{StatusCode: 200, Header: http.Header{"Content-Type": {"application/json"}},
		Body: io.NopCloser(strings.NewReader(body)), Request: req}, nil
}

func remoteFetcher(w world, late int) snippet.Fetcher {
	http.DefaultClient.Transport = &fakeAPI{w: w, late: late, done: map[string]int{}}
	return remote.NewFastlyApiFetcher(w.services[0].ID, "key", 20*time.Second)
}

// ---------------------------------------------------------------------------------------- read back

type obsT struct {
	Text     string   `json:"text"`
	ParseErr string   `json:"parse_error,omitempty"`
	Tables   []obsTab `json:"tables,omitempty"`
	Acls     []obsAcl `json:"acls,omitempty"`
	Backends []obsBe  `json:"backends,omitempty"`
	Dirs     []obsDir `json:"directors,omitempty"`
}
type obsTab struct {
	Name  string      `json:"name"`
	Items [][2]string `json:"items"`
}
type obsAcl struct {
	Name    string     `json:"name"`
	Entries []obsEntry `json:"entries"`
}
type obsEntry struct {
	IP      string `json:"ip"`
	Negated bool   `json:"negated"`
	Subnet  int    `json:"subnet"`
}
type obsBe struct {
	Name string `json:"name"`
	Host string `json:"host"`
	Has  bool   `json:"has_host"`
}
type obsDir struct {
	Name    string   `json:"name"`
	Type    string   `json:"type"`
	Retries int      `json:"retries"`
	Quorum  int      `json:"quorum"`
	Refs    []string `json:"refs"`
}

func strVal(e ast.Expression) (string, bool) {
	if s, ok := e.(*ast.String); ok && s != nil {
		return s.Value, true
	}
	return "", false
}
func intVal(e ast.Expression) int {
	switch t := e.(type) {
	case *ast.Integer:
		return int(t.Value)
	case *ast.PostfixExpression:
		return intVal(t.Left)
	}
	return -999
}

func generate(f snippet.Fetcher) (o obsT, items []snippet.Item, err error) {
	defer func() {
		if r := recover(); r != nil {
			err = fmt.Errorf("panic: %v", r)
		}
	}()
	s, err := snippet.Fetch(f)
	if err != nil {
		return o, nil, err
	}
	items, err = s.EmbedSnippets(false)
	if err != nil {
		return o, nil, err
	}
	var texts []string
	for _, it := range items {
		texts = append(texts, it.Data)
		vcl, perr := parser.New(lexer.NewFromString(it.Data)).ParseVCL()
		if perr != nil {
			if o.ParseErr == "" {
				o.ParseErr = firstLine(perr.Error())
			}
			continue
		}
		for _, st := range vcl.Statements {
			switch t := st.(type) {
			case *ast.TableDeclaration:
				tb := obsTab{Name: t.Name.Value, Items: [][2]string{}}
				for _, p := range t.Properties {
					v, _ := strVal(p.Value)
					tb.Items = append(tb.Items, [2]string{p.Key.Value, v})
				}
				o.Tables = append(o.Tables, tb)
			case *ast.AclDeclaration:
				a := obsAcl{Name: t.Name.Value, Entries: []obsEntry{}}
				for _, c := range t.CIDRs {
					e := obsEntry{IP: c.IP.Value, Negated: c.Inverse != nil && c.Inverse.Value, Subnet: -1}
					if c.Mask != nil {
						e.Subnet = int(c.Mask.Value)
					}
					a.Entries = append(a.Entries, e)
				}
				o.Acls = append(o.Acls, a)
			case *ast.BackendDeclaration:
				b := obsBe{Name: t.Name.Value}
				for _, p := range t.Properties {
					if p.Key.Value == "host" {
						b.Host, b.Has = strVal(p.Value)
					}
				}
				o.Backends = append(o.Backends, b)
			case *ast.DirectorDeclaration:
				d := obsDir{Name: t.Name.Value, Type: t.DirectorType.Value, Refs: []string{}}
				for _, p := range t.Properties {
					switch q := p.(type) {
					case *ast.DirectorProperty:
						switch q.Key.Value {
						case "retries":
							d.Retries = intVal(q.Value)
						case "quorum":
							d.Quorum = intVal(q.Value)
						}
					case *ast.DirectorBackendObject:
						for _, v := range q.Values {
							if v.Key.Value == "backend" {
								if id, ok := v.Value.(*ast.Ident); ok {
									d.Refs = append(d.Refs, id.Value)
								} else {
									d.Refs = append(d.Refs, fmt.Sprintf("<%T>", v.Value))
								}
							}
						}
					}
				}
				o.Dirs = append(o.Dirs, d)
			}
		}
	}
	o.Text = strings.Join(texts, "")
	return o, items, nil
}

func firstLine(s string) string {
	if i := strings.IndexByte(s, '\n'); i >= 0 {
		s = s[:i]
	}
	if len(s) > 200 {
		s = s[:200]
	}
	return s
}

// character classes present in the resource's free-text fields (for narrow known-finding matching)
func classes(r resource) string {
	set := map[string]bool{}
	add := func(c cps) {
		for _, x := range c {
			switch x {
			case 34:
				set["dq"] = true
			case 37:
				set["pct"] = true
			case 10:
				set["nl"] = true
			}
		}
	}
	for _, it := range r.Items {
		add(it.Key)
		add(it.Value)
	}
	for _, e := range r.Entries {
		add(e.Comment)
	}
	add(r.Address)
	for _, m := range append([]cps{r.Name}, r.Members...) {
		for _, x := range m {
			switch {
			case x == 32:
				set["name-space"] = true
			case x == 45 || x == 46:
				set["name-punct"] = true
			}
		}
	}
	var l []string
	for k := range set {
		l = append(l, k)
	}
	sort.Strings(l)
	if len(l) == 0 {
		return "plain"
	}
	return strings.Join(l, "+")
}

func cmdReplay(args []string) int {
	out := hx.NewOut()
	defer out.Close()
	devnull, _ := os.OpenFile(os.DevNull, os.O_WRONLY, 0)
	os.Stdout = devnull // snippet.Fetch prints progress messages
	idx := 0
	err := hx.Lines(func(line []byte) error {
		var b behaviour
		if err := json.Unmarshal(line, &b); err != nil {
			return err
		}
		if err := json.Unmarshal(b.ResRaw, &b.Res); err != nil {
			return err
		}
		idx++
		var want strings.Builder
		for _, p := range b.Pieces {
			if p.Lit != nil {
				want.WriteString(*p.Lit)
			} else {
				want.WriteString(p.Cs.String())
			}
		}
		w := worldOf(b.Res)
		exp := w // what the declarations are compared with (a canary replaces it)
		if len(b.Expect) > 0 {
			var er resource
			if err := json.Unmarshal(b.Expect, &er); err != nil {
				return err
			}
			exp = worldOf(er)
		}
		for _, route := range []string{"api", "terraform", "remote"} {
			r := hx.CaseResult{ID: fmt.Sprintf("c%05d-%s", idx, route), Validated: true,
				Input: map[string]any{"res": b.ResRaw, "route": route},
				Class: map[string]any{"kind": b.Res.Kind, "route": route, "chars": classes(b.Res)}}
			r.Key = route + ":" + string(b.ResRaw)
			mm := func(obs, field string, exp, got any) {
				r.Mismatch = append(r.Mismatch, map[string]any{"obs": obs, "field": field, "expected": exp, "got": got})
			}
			var tfs []*terraform.FastlyService
			if route == "terraform" {
				s, applicable, err := terraformServices(w, b.Res.Place)
				if !applicable {
					continue
				}
				if err != nil {
					// a plan the real parser rejects: no VCL is generated for these resources at all
					mm("generate", "plan", "the plan is read", firstLine(err.Error()))
					out.Write(r)
					continue
				}
				tfs = s
			}
			nsv := len(w.services)
			if route == "remote" {
				nsv = 1 // one client talks to one service
			}
			var observed []obsT
			parseOK, genOK := true, true
			for si := 0; si < nsv; si++ {
				var f snippet.Fetcher
				switch route {
				case "api":
					f = apiFetcher(w, si)
				case "terraform":
					tf := terraform.NewTerraformFetcher(tfs)
					tf.SetName(svcName(w.services[si]))
					f = tf
				default:
					f = remoteFetcher(w, b.Res.Late)
				}
				o, _, err := generate(f)
				observed = append(observed, o)
				switch {
				case err != nil:
					genOK = false
					mm("generate", "", "VCL", firstLine(err.Error()))
				case o.ParseErr != "":
					parseOK = false
					mm("parse", "", "parses", o.ParseErr)
				default:
					compareService(exp, si, o, route, mm)
				}
			}
			r.Observed = observed
			// mechanism: the text the templates are predicted to produce, and what the parser is predicted to read
			if genOK {
				got := observed[0].Text
				if b.Res.Kind == "director" { // the model renders the director; its backends come first in the output
					if i := strings.Index(got, "\ndirector "); i >= 0 {
						got = got[i:]
					}
				}
				for _, dk := range []string{"\ntable zz_decoy", "\nacl zz_decoy"} { // the decoy resource follows the generated one
					if i := strings.Index(got, dk); i >= 0 {
						got = got[:i]
					}
				}
				if route == "api" && got != want.String() {
					r.Drift = append(r.Drift, map[string]any{"obs": "rendered-text", "expected": want.String(), "got": got})
				}
				if parseOK != b.Read.OK {
					r.Drift = append(r.Drift, map[string]any{"obs": "parse-prediction", "expected": b.Read.OK, "got": parseOK})
				}
				if (len(r.Mismatch) == 0) != b.Faithful && len(b.Expect) == 0 {
					r.Drift = append(r.Drift, map[string]any{"obs": "faithful-prediction", "expected": b.Faithful, "got": len(r.Mismatch) == 0})
				}
			}
			out.Write(r)
		}
		return nil
	})
	if err != nil {
		fmt.Fprintln(os.Stderr, err)
		return 2
	}
	return 0
}

// compareService: the declarations generated for service si against the resources of that service
// (requirement observables only).
func compareService(w world, si int, o obsT, route string, mm func(obs, field string, exp, got any)) {
	sv := w.services[si]
	if len(o.Tables) != len(sv.Dicts) {
		mm("faithful", "dictionaries", len(sv.Dicts), len(o.Tables))
	} else {
		for i, res := range sv.Dicts {
			t := o.Tables[i]
			tag := ""
			if len(sv.Dicts) > 1 || len(w.services) > 1 {
				tag = fmt.Sprintf("@%s/%s", sv.ID, res.Name.String())
			}
			if t.Name != res.Name.String() {
				mm("faithful", "name"+tag, res.Name.String(), t.Name)
			}
			exp := [][2]string{}
			for _, it := range res.Items {
				exp = append(exp, [2]string{it.Key.String(), it.Value.String()})
			}
			got := append([][2]string{}, t.Items...)
			if route == "terraform" { // a plan holds the items as a map: order is not part of the resource
				less := func(l [][2]string) func(i, j int) bool { return func(i, j int) bool { return l[i][0] < l[j][0] } }
				sort.Slice(exp, less(exp))
				sort.Slice(got, less(got))
			}
			if len(exp) != len(got) {
				mm("faithful", "items"+tag, len(exp), len(got))
				continue
			}
			for k := range exp {
				if exp[k][0] != got[k][0] {
					mm("faithful", "key"+tag, exp[k][0], got[k][0])
				}
				if exp[k][1] != got[k][1] {
					mm("faithful", "value"+tag, exp[k][1], got[k][1])
				}
			}
		}
	}
	if len(o.Acls) != len(sv.Acls) {
		mm("faithful", "acls", len(sv.Acls), len(o.Acls))
	} else {
		for i, res := range sv.Acls {
			a := o.Acls[i]
			tag := ""
			if len(sv.Acls) > 1 || len(w.services) > 1 {
				tag = fmt.Sprintf("@%s/%s", sv.ID, res.Name.String())
			}
			if a.Name != res.Name.String() {
				mm("faithful", "name"+tag, res.Name.String(), a.Name)
			}
			if len(a.Entries) != len(res.Entries) {
				mm("faithful", "entries"+tag, len(res.Entries), len(a.Entries))
				continue
			}
			for k, e := range res.Entries {
				g := a.Entries[k]
				if g.IP != e.IP.String() {
					mm("faithful", "ip"+tag, e.IP.String(), g.IP)
				}
				if g.Negated != e.Negated {
					mm("faithful", "negated"+tag, e.Negated, g.Negated)
				}
				if g.Subnet != e.Subnet {
					mm("faithful", "mask"+tag, e.Subnet, g.Subnet)
				}
			}
		}
	}
	if si != 0 {
		return
	}
	if len(o.Backends) != len(w.backends) {
		mm("faithful", "backends", len(w.backends), len(o.Backends))
		return
	}
	if w.director == nil {
		for i, res := range w.backends {
			if b := o.Backends[i]; len(res.Address) > 0 && (!b.Has || b.Host != res.Address.String()) {
				mm("faithful", "address", res.Address.String(), b.Host)
			}
		}
		return
	}
	res := w.director
	if len(o.Dirs) != 1 {
		mm("faithful", "directors", 1, len(o.Dirs))
		return
	}
	d := o.Dirs[0]
	want := map[int]string{1: "random", 2: "hash", 3: "client"}[res.Type]
	if d.Type != want {
		mm("faithful", "type", want, d.Type)
	}
	if d.Quorum != res.Quorum {
		mm("faithful", "quorum", res.Quorum, d.Quorum)
	}
	if len(d.Refs) != len(res.Members) {
		mm("faithful", "membership", len(res.Members), len(d.Refs))
		return
	}
	for i := range res.Members {
		// the i-th member must name the declaration generated for the i-th backend resource
		if d.Refs[i] != o.Backends[i].Name {
			mm("faithful", "membership", o.Backends[i].Name, d.Refs[i])
		}
	}
}
