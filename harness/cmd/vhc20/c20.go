package main

// C20 - VCL generated from remote and Terraform resources is valid and faithful.
//
//	vhc20 replay < behaviours.jsonl   every resource case TLC generated from spec/Snippets.tla is turned into
//	    snippet resources, rendered by the real code on two routes - a fake snippet.Fetcher (the data structures the
//	    Fastly API client fills) and a Terraform plan JSON through terraform.ParseStdin / TerraformFetcher - then
//	    snippet.Fetch -> EmbedSnippets -> parser.ParseVCL, and the declarations read back are compared with the
//	    resource (requirement) and with the text / read-back the model predicts (mechanism, drift only).
import (
	"bytes"
	"encoding/json"
	"fmt"
	"os"
	"sort"
	"strconv"
	"strings"

	"verif/harness/internal/hx"

	"github.com/ysugimoto/falco/v2/ast"
	"github.com/ysugimoto/falco/v2/lexer"
	"github.com/ysugimoto/falco/v2/parser"
	"github.com/ysugimoto/falco/v2/snippet"
	"github.com/ysugimoto/falco/v2/snippet/terraform"
)

func main() {
	hx.Commands["replay"] = cmdReplay
	hx.Main()
}

type cps []int

func (c cps) String() string {
	var b strings.Builder
	for _, r := range c {
		b.WriteRune(rune(r))
	}
	return b.String()
}

type item struct {
	Key   cps `json:"key"`
	Value cps `json:"value"`
}
type entry struct {
	IP      cps  `json:"ip"`
	Negated bool `json:"negated"`
	Subnet  int  `json:"subnet"`
	Comment cps  `json:"comment"`
}
type resource struct {
	Kind    string  `json:"kind"`
	Name    cps     `json:"name"`
	Items   []item  `json:"items"`
	Entries []entry `json:"entries"`
	Address cps     `json:"address"`
	Type    int     `json:"type"`
	Retries int     `json:"retries"`
	Quorum  int     `json:"quorum"`
	Members []cps   `json:"members"`
}
type piece struct {
	Lit *string `json:"lit"`
	Cs  cps     `json:"cs"`
}
type readBack struct {
	OK    bool `json:"ok"`
	Items []struct {
		Key   cps `json:"key"`
		Value cps `json:"value"`
	} `json:"items"`
	Entries []struct {
		IP      cps  `json:"ip"`
		Negated bool `json:"negated"`
		Subnet  int  `json:"subnet"`
	} `json:"entries"`
	Declared cps    `json:"declared"`
	Host     cps    `json:"host"`
	Name     cps    `json:"name"`
	Type     string `json:"type"`
	Retries  int    `json:"retries"`
	Quorum   int    `json:"quorum"`
	Refs     []cps  `json:"refs"`
}
type behaviour struct {
	Res      resource        `json:"-"`
	ResRaw   json.RawMessage `json:"res"`
	Pieces   []piece  `json:"pieces"`
	Read     readBack `json:"read"`
	Faithful bool     `json:"faithful"`
}

// ---------------------------------------------------------------------------------------- routes

type fake struct {
	dicts []*snippet.Dictionary
	acls  []*snippet.Acl
	backs []*snippet.Backend
	dirs  []*snippet.Director
}

func (f *fake) LookupCache(bool) *snippet.Snippets                  { return nil }
func (f *fake) WriteCache(*snippet.Snippets)                        {}
func (f *fake) Backends() ([]*snippet.Backend, error)               { return f.backs, nil }
func (f *fake) Directors() ([]*snippet.Director, error)             { return f.dirs, nil }
func (f *fake) Dictionaries() ([]*snippet.Dictionary, error)        { return f.dicts, nil }
func (f *fake) Acls() ([]*snippet.Acl, error)                       { return f.acls, nil }
func (f *fake) Conditions() ([]*snippet.Condition, error)           { return nil, nil }
func (f *fake) Snippets() ([]*snippet.VCLSnippet, error)            { return nil, nil }
func (f *fake) Headers() ([]*snippet.Header, error)                 { return nil, nil }
func (f *fake) ResponseObjects() ([]*snippet.ResponseObject, error) { return nil, nil }
func (f *fake) RequestSetting() (*snippet.RequestSetting, error)    { return nil, nil }
func (f *fake) LoggingEndpoints() ([]string, error)                 { return nil, nil }

func sp(s string) *string { return &s }

func apiFetcher(r resource) snippet.Fetcher {
	f := &fake{}
	switch r.Kind {
	case "dict":
		d := &snippet.Dictionary{Name: r.Name.String()}
		for _, it := range r.Items {
			d.Items = append(d.Items, &snippet.DictionaryItem{Key: it.Key.String(), Value: it.Value.String()})
		}
		f.dicts = append(f.dicts, d, &snippet.Dictionary{Name: "zz_decoy", Items: []*snippet.DictionaryItem{{Key: "dk", Value: "dv"}}})
	case "acl":
		a := &snippet.Acl{Name: r.Name.String()}
		for _, e := range r.Entries {
			ae := &snippet.AclEntry{Ip: e.IP.String(), Negated: e.Negated, Comment: e.Comment.String()}
			if e.Subnet >= 0 {
				v := int64(e.Subnet)
				ae.Subnet = &v
			}
			a.Entries = append(a.Entries, ae)
		}
		m := int64(32)
		f.acls = append(f.acls, a, &snippet.Acl{Name: "zz_decoy", Entries: []*snippet.AclEntry{{Ip: "192.0.2.1", Subnet: &m}}})
	case "backend":
		b := &snippet.Backend{Name: r.Name.String()}
		if len(r.Address) > 0 {
			b.Address = sp(r.Address.String())
		}
		f.backs = append(f.backs, b)
	case "director":
		d := &snippet.Director{Name: r.Name.String(), Type: r.Type, Retries: r.Retries, Quorum: r.Quorum}
		for _, m := range r.Members {
			d.Backends = append(d.Backends, m.String())
			f.backs = append(f.backs, &snippet.Backend{Name: m.String(), Address: sp("h")})
		}
		f.dirs = append(f.dirs, d)
	}
	return f
}

// terraformFetcher writes the resource as `terraform show -json` would and reads it with the real plan parser.
func terraformFetcher(r resource) (snippet.Fetcher, bool, error) {
	svc := map[string]any{"id": "svc1", "name": "svc"}
	var extra []map[string]any
	const prov = "registry.terraform.io/fastly/fastly"
	switch r.Kind {
	case "dict":
		keys := map[string]bool{}
		items := map[string]string{}
		for _, it := range r.Items {
			if keys[it.Key.String()] {
				return nil, false, nil // a plan holds dictionary items as a map: duplicate keys cannot be expressed
			}
			keys[it.Key.String()] = true
			items[it.Key.String()] = it.Value.String()
		}
		svc["dictionary"] = []map[string]any{{"name": r.Name.String()}, {"name": "zz_decoy"}}
		extra = append(extra, map[string]any{"provider_name": prov, "type": "fastly_service_dictionary_items", "index": "zz_decoy",
			"values": map[string]any{"service_id": "svc1", "items": map[string]string{"dk": "dv"}}})
		extra = append(extra, map[string]any{"provider_name": prov, "type": "fastly_service_dictionary_items", "index": r.Name.String(),
			"values": map[string]any{"service_id": "svc1", "items": items}})
	case "acl":
		var es []map[string]any
		for _, e := range r.Entries {
			sn := ""
			if e.Subnet >= 0 {
				sn = strconv.Itoa(e.Subnet)
			}
			es = append(es, map[string]any{"comment": e.Comment.String(), "ip": e.IP.String(), "negated": e.Negated, "subnet": sn})
		}
		svc["acl"] = []map[string]any{{"name": r.Name.String()}, {"name": "zz_decoy"}}
		extra = append(extra, map[string]any{"provider_name": prov, "type": "fastly_service_acl_entries", "index": r.Name.String(),
			"values": map[string]any{"service_id": "svc1", "entry": es}})
		extra = append(extra, map[string]any{"provider_name": prov, "type": "fastly_service_acl_entries", "index": "zz_decoy",
			"values": map[string]any{"service_id": "svc1", "entry": []map[string]any{{"ip": "192.0.2.1", "subnet": "32", "negated": false, "comment": ""}}}})
	case "backend":
		b := map[string]any{"name": r.Name.String()}
		if len(r.Address) > 0 {
			b["address"] = r.Address.String()
		}
		svc["backend"] = []map[string]any{b}
	case "director":
		var bs []map[string]any
		var names []string
		for _, m := range r.Members {
			bs = append(bs, map[string]any{"name": m.String(), "address": "h"})
			names = append(names, m.String())
		}
		svc["backend"] = bs
		svc["director"] = []map[string]any{{"name": r.Name.String(), "type": r.Type, "retries": r.Retries, "quorum": r.Quorum, "backends": names}}
	}
	res := []map[string]any{{"provider_name": prov, "type": "fastly_service_vcl", "values": svc}}
	res = append(res, extra...)
	plan := map[string]any{"planned_values": map[string]any{"root_module": map[string]any{"resources": res}}}
	buf, _ := json.Marshal(plan)
	services, err := terraform.ParseStdin(bytes.NewReader(buf))
	if err != nil {
		return nil, true, err
	}
	return terraform.NewTerraformFetcher(services), true, nil
}

// ---------------------------------------------------------------------------------------- read back

type obsT struct {
	Text     string   `json:"text"`
	ParseErr string   `json:"parse_error,omitempty"`
	Tables   []obsTab `json:"tables,omitempty"`
	Acls     []obsAcl `json:"acls,omitempty"`
	Backends []obsBe  `json:"backends,omitempty"`
	Dirs     []obsDir `json:"directors,omitempty"`
}
type obsTab struct {
	Name  string      `json:"name"`
	Items [][2]string `json:"items"`
}
type obsAcl struct {
	Name    string     `json:"name"`
	Entries []obsEntry `json:"entries"`
}
type obsEntry struct {
	IP      string `json:"ip"`
	Negated bool   `json:"negated"`
	Subnet  int    `json:"subnet"`
}
type obsBe struct {
	Name string `json:"name"`
	Host string `json:"host"`
	Has  bool   `json:"has_host"`
}
type obsDir struct {
	Name    string   `json:"name"`
	Type    string   `json:"type"`
	Retries int      `json:"retries"`
	Quorum  int      `json:"quorum"`
	Refs    []string `json:"refs"`
}

func strVal(e ast.Expression) (string, bool) {
	if s, ok := e.(*ast.String); ok && s != nil {
		return s.Value, true
	}
	return "", false
}
func intVal(e ast.Expression) int {
	switch t := e.(type) {
	case *ast.Integer:
		return int(t.Value)
	case *ast.PostfixExpression:
		return intVal(t.Left)
	}
	return -999
}

func generate(f snippet.Fetcher) (o obsT, items []snippet.Item, err error) {
	defer func() {
		if r := recover(); r != nil {
			err = fmt.Errorf("panic: %v", r)
		}
	}()
	s, err := snippet.Fetch(f)
	if err != nil {
		return o, nil, err
	}
	items, err = s.EmbedSnippets(false)
	if err != nil {
		return o, nil, err
	}
	var texts []string
	for _, it := range items {
		texts = append(texts, it.Data)
		vcl, perr := parser.New(lexer.NewFromString(it.Data)).ParseVCL()
		if perr != nil {
			if o.ParseErr == "" {
				o.ParseErr = firstLine(perr.Error())
			}
			continue
		}
		for _, st := range vcl.Statements {
			switch t := st.(type) {
			case *ast.TableDeclaration:
				tb := obsTab{Name: t.Name.Value, Items: [][2]string{}}
				for _, p := range t.Properties {
					v, _ := strVal(p.Value)
					tb.Items = append(tb.Items, [2]string{p.Key.Value, v})
				}
				o.Tables = append(o.Tables, tb)
			case *ast.AclDeclaration:
				a := obsAcl{Name: t.Name.Value, Entries: []obsEntry{}}
				for _, c := range t.CIDRs {
					e := obsEntry{IP: c.IP.Value, Negated: c.Inverse != nil && c.Inverse.Value, Subnet: -1}
					if c.Mask != nil {
						e.Subnet = int(c.Mask.Value)
					}
					a.Entries = append(a.Entries, e)
				}
				o.Acls = append(o.Acls, a)
			case *ast.BackendDeclaration:
				b := obsBe{Name: t.Name.Value}
				for _, p := range t.Properties {
					if p.Key.Value == "host" {
						b.Host, b.Has = strVal(p.Value)
					}
				}
				o.Backends = append(o.Backends, b)
			case *ast.DirectorDeclaration:
				d := obsDir{Name: t.Name.Value, Type: t.DirectorType.Value, Refs: []string{}}
				for _, p := range t.Properties {
					switch q := p.(type) {
					case *ast.DirectorProperty:
						switch q.Key.Value {
						case "retries":
							d.Retries = intVal(q.Value)
						case "quorum":
							d.Quorum = intVal(q.Value)
						}
					case *ast.DirectorBackendObject:
						for _, v := range q.Values {
							if v.Key.Value == "backend" {
								if id, ok := v.Value.(*ast.Ident); ok {
									d.Refs = append(d.Refs, id.Value)
								} else {
									d.Refs = append(d.Refs, fmt.Sprintf("<%T>", v.Value))
								}
							}
						}
					}
				}
				o.Dirs = append(o.Dirs, d)
			}
		}
	}
	o.Text = strings.Join(texts, "")
	return o, items, nil
}

func firstLine(s string) string {
	if i := strings.IndexByte(s, '\n'); i >= 0 {
		s = s[:i]
	}
	if len(s) > 200 {
		s = s[:200]
	}
	return s
}

// character classes present in the resource's free-text fields (for narrow known-finding matching)
func classes(r resource) string {
	set := map[string]bool{}
	add := func(c cps) {
		for _, x := range c {
			switch x {
			case 34:
				set["dq"] = true
			case 37:
				set["pct"] = true
			case 10:
				set["nl"] = true
			}
		}
	}
	for _, it := range r.Items {
		add(it.Key)
		add(it.Value)
	}
	for _, e := range r.Entries {
		add(e.Comment)
	}
	add(r.Address)
	for _, m := range append([]cps{r.Name}, r.Members...) {
		for _, x := range m {
			switch {
			case x == 32:
				set["name-space"] = true
			case x == 45 || x == 46:
				set["name-punct"] = true
			}
		}
	}
	var l []string
	for k := range set {
		l = append(l, k)
	}
	sort.Strings(l)
	if len(l) == 0 {
		return "plain"
	}
	return strings.Join(l, "+")
}

func cmdReplay(args []string) int {
	out := hx.NewOut()
	defer out.Close()
	devnull, _ := os.OpenFile(os.DevNull, os.O_WRONLY, 0)
	os.Stdout = devnull // snippet.Fetch prints progress messages
	idx := 0
	err := hx.Lines(func(line []byte) error {
		var b behaviour
		if err := json.Unmarshal(line, &b); err != nil {
			return err
		}
		if err := json.Unmarshal(b.ResRaw, &b.Res); err != nil {
			return err
		}
		idx++
		var want strings.Builder
		for _, p := range b.Pieces {
			if p.Lit != nil {
				want.WriteString(*p.Lit)
			} else {
				want.WriteString(p.Cs.String())
			}
		}
		for _, route := range []string{"api", "terraform"} {
			var f snippet.Fetcher
			if route == "api" {
				f = apiFetcher(b.Res)
			} else {
				tf, applicable, err := terraformFetcher(b.Res)
				if !applicable {
					continue
				}
				if err != nil {
					r := hx.CaseResult{ID: fmt.Sprintf("c%05d-%s", idx, route), Input: map[string]any{"res": b.ResRaw, "route": route}}
					r.Drift = append(r.Drift, map[string]any{"obs": "plan-not-read", "detail": firstLine(err.Error())})
					out.Write(r)
					continue
				}
				f = tf
			}
			r := hx.CaseResult{ID: fmt.Sprintf("c%05d-%s", idx, route), Validated: true,
				Input: map[string]any{"res": b.ResRaw, "route": route},
				Class: map[string]any{"kind": b.Res.Kind, "route": route, "chars": classes(b.Res)}}
			r.Key = route + ":" + string(b.ResRaw)
			o, _, err := generate(f)
			r.Observed = o
			mm := func(obs, field string, exp, got any) {
				r.Mismatch = append(r.Mismatch, map[string]any{"obs": obs, "field": field, "expected": exp, "got": got})
			}
			switch {
			case err != nil:
				mm("generate", "", "VCL", firstLine(err.Error()))
			case o.ParseErr != "":
				mm("parse", "", "parses", o.ParseErr)
			default:
				compare(b.Res, o, route, mm)
			}
			// mechanism: the text the templates are predicted to produce, and what the parser is predicted to read
			if err == nil {
				got := o.Text
				if b.Res.Kind == "director" { // the model renders the director; its backends come first in the output
					if i := strings.Index(got, "\ndirector "); i >= 0 {
						got = got[i:]
					}
				}
				for _, dk := range []string{"\ntable zz_decoy", "\nacl zz_decoy"} { // the decoy resource follows the generated one
					if i := strings.Index(got, dk); i >= 0 {
						got = got[:i]
					}
				}
				if route == "api" && got != want.String() {
					r.Drift = append(r.Drift, map[string]any{"obs": "rendered-text", "expected": want.String(), "got": got})
				}
				if (o.ParseErr == "") != b.Read.OK {
					r.Drift = append(r.Drift, map[string]any{"obs": "parse-prediction", "expected": b.Read.OK, "got": o.ParseErr})
				}
				if (len(r.Mismatch) == 0) != b.Faithful {
					r.Drift = append(r.Drift, map[string]any{"obs": "faithful-prediction", "expected": b.Faithful, "got": len(r.Mismatch) == 0})
				}
			}
			out.Write(r)
		}
		return nil
	})
	if err != nil {
		fmt.Fprintln(os.Stderr, err)
		return 2
	}
	return 0
}

// compare: the declarations read back against the resource they came from (requirement observables only).
func compare(res resource, o obsT, route string, mm func(obs, field string, exp, got any)) {
	switch res.Kind {
	case "dict":
		if len(o.Tables) != 2 {
			mm("faithful", "declaration", 2, len(o.Tables))
			return
		}
		if d := o.Tables[1]; d.Name != "zz_decoy" || len(d.Items) != 1 || d.Items[0] != [2]string{"dk", "dv"} {
			mm("faithful", "other-dictionary", "zz_decoy {dk: dv}", fmt.Sprint(d))
		}
		t := o.Tables[0]
		if t.Name != res.Name.String() {
			mm("faithful", "name", res.Name.String(), t.Name)
		}
		exp := [][2]string{}
		for _, it := range res.Items {
			exp = append(exp, [2]string{it.Key.String(), it.Value.String()})
		}
		got := append([][2]string{}, t.Items...)
		if route == "terraform" { // a plan holds the items as a map: order is not part of the resource
			less := func(l [][2]string) func(i, j int) bool { return func(i, j int) bool { return l[i][0] < l[j][0] } }
			sort.Slice(exp, less(exp))
			sort.Slice(got, less(got))
		}
		if len(exp) != len(got) {
			mm("faithful", "items", len(exp), len(got))
			return
		}
		for i := range exp {
			if exp[i][0] != got[i][0] {
				mm("faithful", "key", exp[i][0], got[i][0])
			}
			if exp[i][1] != got[i][1] {
				mm("faithful", "value", exp[i][1], got[i][1])
			}
		}
	case "acl":
		if len(o.Acls) != 2 {
			mm("faithful", "declaration", 2, len(o.Acls))
			return
		}
		if d := o.Acls[1]; d.Name != "zz_decoy" || len(d.Entries) != 1 || d.Entries[0] != (obsEntry{IP: "192.0.2.1", Subnet: 32}) {
			mm("faithful", "other-acl", "zz_decoy {192.0.2.1/32}", fmt.Sprint(d))
		}
		a := o.Acls[0]
		if a.Name != res.Name.String() {
			mm("faithful", "name", res.Name.String(), a.Name)
		}
		if len(a.Entries) != len(res.Entries) {
			mm("faithful", "entries", len(res.Entries), len(a.Entries))
			return
		}
		for i, e := range res.Entries {
			g := a.Entries[i]
			if g.IP != e.IP.String() {
				mm("faithful", "ip", e.IP.String(), g.IP)
			}
			if g.Negated != e.Negated {
				mm("faithful", "negated", e.Negated, g.Negated)
			}
			if g.Subnet != e.Subnet {
				mm("faithful", "mask", e.Subnet, g.Subnet)
			}
		}
	case "backend":
		if len(o.Backends) != 1 {
			mm("faithful", "declaration", 1, len(o.Backends))
			return
		}
		b := o.Backends[0]
		if len(res.Address) > 0 && (!b.Has || b.Host != res.Address.String()) {
			mm("faithful", "address", res.Address.String(), b.Host)
		}
	case "director":
		if len(o.Dirs) != 1 || len(o.Backends) != len(res.Members) {
			mm("faithful", "declaration", fmt.Sprintf("1 director, %d backends", len(res.Members)), fmt.Sprintf("%d directors, %d backends", len(o.Dirs), len(o.Backends)))
			return
		}
		d := o.Dirs[0]
		want := map[int]string{1: "random", 2: "hash", 3: "client"}[res.Type]
		if d.Type != want {
			mm("faithful", "type", want, d.Type)
		}
		if d.Quorum != res.Quorum {
			mm("faithful", "quorum", res.Quorum, d.Quorum)
		}
		if len(d.Refs) != len(res.Members) {
			mm("faithful", "membership", len(res.Members), len(d.Refs))
			return
		}
		for i := range res.Members {
			// the i-th member must name the declaration generated for the i-th backend resource
			if d.Refs[i] != o.Backends[i].Name {
				mm("faithful", "membership", o.Backends[i].Name, d.Refs[i])
			}
		}
	}
}
