package main

func c09Replay(args []string) int { return 2 }
