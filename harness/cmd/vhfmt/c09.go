package main

// C09: decorated / undecorated pairs of the programs of spec/Decor.tla through the real linter and simulator.

import (
	"crypto/sha1"
	"encoding/hex"
	"encoding/json"
	"fmt"
	"io"
	"math/rand"
	"net/http"
	"net/http/httptest"
	"net/url"
	"os"
	"runtime/debug"
	"sort"
	"strings"

	"verif/harness/internal/hx"

	"github.com/ysugimoto/falco/v2/ast"
	"github.com/ysugimoto/falco/v2/config"
	"github.com/ysugimoto/falco/v2/interpreter"
	"github.com/ysugimoto/falco/v2/interpreter/context"
	"github.com/ysugimoto/falco/v2/linter"
	"github.com/ysugimoto/falco/v2/resolver"
	"github.com/ysugimoto/falco/v2/snippet"
)

type decorProgram struct {
	Name   string      `json:"name"`
	Exec   bool        `json:"exec"`
	Toks   []string    `json:"toks"`
	Decors [][]comment `json:"decors"`
	Lays   []int       `json:"lays"`
	Logs   []string    `json:"logs"`
	Path   []string    `json:"path"`
}

// what the property compares
type c09Obs struct {
	Parse string   `json:"parse,omitempty"`
	Lint  []string `json:"lint"`
	Sim   *simObs  `json:"sim,omitempty"`
}

type simObs struct {
	Flows    []string `json:"flows"`
	Logs     []string `json:"logs"`
	Restarts int      `json:"restarts"`
	Error    string   `json:"error"`
	Code     int      `json:"code"`
	Crash    string   `json:"crash,omitempty"`
}

func lintObs(src string) (obs []string, perr string) {
	v, err := parseVCL(src)
	if err != nil {
		return nil, err.Error()
	}
	l := linter.New(&config.LinterConfig{})
	func() {
		defer func() {
			if r := recover(); r != nil {
				obs = append(obs, fmt.Sprintf("PANIC|%v", r))
			}
		}()
		l.Lint(v, nil)
	}()
	if l.FatalError != nil {
		obs = append(obs, "FATAL|"+l.FatalError.Error.Error())
	}
	for _, e := range l.Errors {
		obs = append(obs, fmt.Sprintf("%s|%s|%s", e.Severity, e.Rule, e.Message))
	}
	sort.Strings(obs)
	if obs == nil {
		obs = []string{}
	}
	return obs, ""
}

type quietDebugger struct{ interpreter.DefaultDebugger }

func (quietDebugger) Message(string)                {}
func (quietDebugger) Log(*ast.LogStatement, string) {}

type simReport struct {
	Flows []struct {
		Subroutine string `json:"subroutine"`
	} `json:"flows"`
	Logs []struct {
		Message string `json:"message"`
	} `json:"logs"`
	Restarts int    `json:"restarts"`
	Error    string `json:"error"`
}

func simulate(src string) (o *simObs) {
	o = &simObs{Flows: []string{}, Logs: []string{}}
	defer func() {
		if r := recover(); r != nil {
			o.Crash = fmt.Sprint(r)
			if os.Getenv("VH_STACK") != "" {
				fmt.Fprintln(os.Stderr, string(debug.Stack()))
			}
		}
	}()
	// scoped snippets are configured, so that the expansion of #FASTLY macros is observable
	snips := &snippet.Snippets{ScopedSnippets: snippet.ScopedSnippets{
		"recv":    {{Name: "s-recv", Priority: 100, Data: `log "snip-recv";`}},
		"deliver": {{Name: "s-deliver", Priority: 100, Data: `log "snip-deliver";`}},
	}}
	ip := interpreter.New(context.WithResolver(resolver.NewStaticResolver("main", src)), context.WithSnippets(snips))
	ip.Debugger = quietDebugger{}
	rec := httptest.NewRecorder()
	req := httptest.NewRequest("GET", "http://localhost/x", nil)
	req.Header.Set("A", "a")
	ip.ServeHTTP(rec, req)
	res := rec.Result()
	o.Code = res.StatusCode
	body, _ := io.ReadAll(res.Body)
	var rep simReport
	json.Unmarshal(body, &rep) // nolint:errcheck
	for _, f := range rep.Flows {
		o.Flows = append(o.Flows, f.Subroutine)
	}
	for _, l := range rep.Logs {
		o.Logs = append(o.Logs, l.Message)
	}
	o.Restarts = rep.Restarts
	o.Error = rep.Error
	return o
}

func eqS(a, b []string) bool {
	if len(a) != len(b) {
		return false
	}
	for i := range a {
		if a[i] != b[i] {
			return false
		}
	}
	return true
}

func c09Replay(args []string) int {
	// three stub backends, created once: the text of a backend declaration (its port included) is the same for
	// the decorated and the undecorated spelling of a program
	mk := func(n string) *httptest.Server {
		return httptest.NewServer(http.HandlerFunc(func(w http.ResponseWriter, r *http.Request) {
			w.Header().Set("Cache-Control", "max-age=100")
			w.Header().Set("X-Backend", n)
			w.WriteHeader(200)
			w.Write([]byte("OK")) // nolint:errcheck
		}))
	}
	server, server2, server3 := mk("1"), mk("2"), mk("3")
	defer server.Close()
	defer server2.Close()
	defer server3.Close()
	u, _ := url.Parse(server.URL)
	u2, _ := url.Parse(server2.URL)
	u3, _ := url.Parse(server3.URL)
	concretize := func(s string) string {
		return strings.NewReplacer("__HOST__", u.Hostname(), "__PORT2__", u2.Port(), "__PORT3__", u3.Port(), "__PORT__", u.Port()).Replace(s)
	}
	seed := hx.Seed()
	out := hx.NewOut()
	defer out.Close()
	nprog := 0
	err := hx.Lines(func(line []byte) error {
		var p decorProgram
		if err := json.Unmarshal(line, &p); err != nil {
			return err
		}
		nprog++
		toks := decodeToks(p.Toks)
		base, gaps := render(toks, nil, &layout{})
		base = concretize(base)
		var b c09Obs
		b.Lint, b.Parse = lintObs(base)
		res := hx.CaseResult{ID: "base:" + p.Name, Class: map[string]any{"program": p.Name, "exec": p.Exec}, Key: "base:" + p.Name}
		if b.Parse != "" {
			res.Drift = append(res.Drift, map[string]any{"obs": "render-unparseable", "src": base, "err": b.Parse})
			out.Write(res)
			return nil
		}
		if p.Exec {
			b.Sim = simulate(base)
			// the specification's prediction for the undecorated program (mechanism observable)
			var got []string
			for _, f := range b.Sim.Flows {
				if strings.HasPrefix(f, "vcl_") {
					got = append(got, strings.TrimPrefix(f, "vcl_"))
				}
			}
			if len(p.Path) > 0 && (!eqS(got, p.Path) || !eqS(b.Sim.Logs, p.Logs) || b.Sim.Crash != "") {
				res.Drift = append(res.Drift, map[string]any{"obs": "prediction", "path": got, "want_path": p.Path, "logs": b.Sim.Logs,
					"want_logs": p.Logs, "error": b.Sim.Error, "crash": b.Sim.Crash})
			}
			// the simulator is deterministic on the fields compared (else nothing below means anything)
			again := simulate(base)
			if canon(again) != canon(b.Sim) {
				res.Drift = append(res.Drift, map[string]any{"obs": "simulator-not-repeatable", "a": b.Sim, "b": again})
				out.Write(res)
				return nil
			}
		}
		res.Input = map[string]any{"program": p.Name, "src": base}
		res.Observed = b
		out.Write(res)
		for di, d := range p.Decors {
			for _, lay := range p.Lays {
				// layouts: 0 canonical, 1 seeded blank lines / tabs / line breaks, 2 CRLF line ends, 3 tabs between tokens
				l := &layout{}
				if lay == 1 {
					l.rng = rand.New(rand.NewSource(seed*1000003 + int64(nprog)*7919 + int64(di)))
				}
				l.tabs = lay == 3
				src, _ := render(toks, d, l)
				src = concretize(src)
				if lay == 2 {
					src = strings.ReplaceAll(src, "\n", "\r\n")
				}
				h := sha1.Sum([]byte(p.Name + "\x00" + src))
				id := hex.EncodeToString(h[:6])
				var gl, gm, gn []string
				for _, c := range d {
					g := gaps[c.At-1]
					gl = append(gl, g.N+"."+g.L)
					gm = append(gm, c.M)
					gn = append(gn, nextWord(p.Toks, c.At))
				}
				r := hx.CaseResult{ID: id, Key: id, Class: map[string]any{"program": p.Name, "exec": p.Exec, "gap": strings.Join(gl, "+"),
					"marker": strings.Join(gm, "+"), "gap_next": strings.Join(gn, "+"), "lay": lay}}
				var o c09Obs
				o.Lint, o.Parse = lintObs(src)
				fail := func() {
					r.Input = map[string]any{"program": p.Name, "src": src, "base": base, "decor": d, "lay": lay}
					r.Observed = map[string]any{"decorated": o, "undecorated": b}
				}
				if o.Parse != "" {
					// White space is allowed between any two tokens and docs/parser.md documents its comment
					// placeholders: a decoration made of empty lines only, or of comments at documented placeholders,
					// that stops the program from parsing changes its meaning.  A comment at another position may
					// simply not be allowed there by the grammar (no verdict).
					allowed := true
					for _, c := range d {
						if c.Sp != "blankonly" && gaps[c.At-1].S != "1" {
							allowed = false
						}
					}
					if allowed {
						r.Mismatch = append(r.Mismatch, map[string]any{"obs": "decorated-unparseable", "err": o.Parse})
					} else {
						r.Drift = append(r.Drift, map[string]any{"obs": "decorated-unparseable", "err": o.Parse})
					}
					fail()
					out.Write(r)
					continue
				}
				if !eqS(o.Lint, b.Lint) && eqS(withoutCommentText(o.Lint, d), b.Lint) {
					// the message quotes the source text of an expression, comment included: wording, not a verdict
					r.Drift = append(r.Drift, map[string]any{"obs": "message-quotes-comment"})
				} else if !eqS(o.Lint, b.Lint) {
					r.Mismatch = append(r.Mismatch, map[string]any{"obs": "lint-differs", "decorated": diffS(o.Lint, b.Lint), "undecorated": diffS(b.Lint, o.Lint)})
				}
				if p.Exec {
					o.Sim = simulate(src)
					if canon(o.Sim) != canon(b.Sim) {
						r.Mismatch = append(r.Mismatch, map[string]any{"obs": "simulation-differs", "decorated": o.Sim, "undecorated": b.Sim})
					}
				}
				if len(r.Mismatch) > 0 {
					fail()
				}
				out.Write(r)
			}
		}
		return nil
	})
	if err != nil {
		fmt.Fprintln(os.Stderr, err)
		return 2
	}
	return 0
}

// diffS: elements of a that are not in b
func diffS(a, b []string) []string {
	in := map[string]int{}
	for _, x := range b {
		in[x]++
	}
	out := []string{}
	for _, x := range a {
		if in[x] > 0 {
			in[x]--
			continue
		}
		out = append(out, x)
	}
	return out
}

// withoutCommentText removes the text of the inserted comments from diagnostics that quote source text
func withoutCommentText(lint []string, d []comment) []string {
	out := make([]string, len(lint))
	for i, l := range lint {
		l = strings.ReplaceAll(l, "\r", "") // a CRLF line end stays inside a quoted line comment
		for _, c := range d {
			t := commentText(c)
			l = strings.ReplaceAll(l, t+" ", "")
			l = strings.ReplaceAll(l, " "+t, "")
			l = strings.ReplaceAll(l, t, "")
		}
		out[i] = l
	}
	sort.Strings(out)
	return out
}
