package main

import (
	"bufio"
	"encoding/json"
	"flag"
	"fmt"
	"os"
	"path/filepath"
	"sort"
	"strings"

	"verif/harness/internal/hx"
)

// corpus: every .vcl under <root>/examples x the configurations of -cfgs (one JSON record per line,
// as enumerated by TLC), recorded as FormatTrace events.  stdout: one case result per event
// (verdicts are filled in by the trace validation).
func corpus(args []string) int {
	fs := flag.NewFlagSet("corpus", flag.ExitOnError)
	root := fs.String("root", "/repo", "repository under test")
	cfgsPath := fs.String("cfgs", "", "jsonl of configuration records")
	events := fs.String("events", "", "write FormatTrace events here")
	shard := fs.Int("shard", 0, "this shard")
	shards := fs.Int("shards", 1, "number of shards")
	maxBytes := fs.Int("maxbytes", 0, "skip files larger than this (0 = no limit)")
	fs.Parse(args) // nolint:errcheck
	var cfgs []fmtCfg
	f, err := os.Open(*cfgsPath)
	if err != nil {
		fmt.Fprintln(os.Stderr, err)
		return 2
	}
	sc := bufio.NewScanner(f)
	for sc.Scan() {
		var c fmtCfg
		if json.Unmarshal(sc.Bytes(), &c) == nil {
			cfgs = append(cfgs, c)
		}
	}
	f.Close()
	var files []string
	filepath.Walk(filepath.Join(*root, "examples"), func(p string, info os.FileInfo, err error) error { // nolint:errcheck
		if err == nil && !info.IsDir() && strings.HasSuffix(p, ".vcl") {
			files = append(files, p)
		}
		return nil
	})
	sort.Strings(files)
	ef, err := os.Create(*events)
	if err != nil {
		fmt.Fprintln(os.Stderr, err)
		return 2
	}
	defer ef.Close()
	ew := bufio.NewWriterSize(ef, 1<<20)
	defer ew.Flush()
	evw := json.NewEncoder(ew)
	out := hx.NewOut()
	defer out.Close()
	k := 0
	for _, file := range files {
		b, err := os.ReadFile(file)
		if err != nil {
			continue
		}
		rel := strings.TrimPrefix(file, *root+"/")
		src := string(b)
		if *maxBytes > 0 && len(src) > *maxBytes {
			continue
		}
		if _, err := parseVCL(src); err != nil {
			continue // not a full VCL file (snippets, test files with syntax extensions)
		}
		for _, c := range cfgs {
			k++
			if k%*shards != *shard {
				continue
			}
			id := "corpus:" + rel + ":" + c.opts()
			v, _ := parseVCL(src) // the formatter mutates the tree: parse again for every run
			in := projectVCL(v)
			ev := fmtEvent{ID: id, Cfg: c, In: in, Out: none, Cin: lexComments(src), Cout: []lexComment{}, Idem: "na"}
			res := hx.CaseResult{ID: id, Class: map[string]any{"fam": "corpus", "file": rel, "opts": c.opts()}, Key: id}
			obs := map[string]any{}
			out1, outcome := formatVCL(v, c)
			obs["outcome"] = outcome
			if outcome == "text" {
				ev.Cout = lexComments(out1)
				if v1, err := parseVCL(out1); err == nil {
					ev.Parsed = true
					ev.Out = projectVCL(v1)
					out2, oc2 := formatVCL(v1, c)
					switch {
					case oc2 != "text":
						ev.Idem = "differs"
						obs["second_pass"] = oc2
					case out2 != out1:
						ev.Idem = "differs"
						obs["first_diff_line"] = firstDiffLine(out1, out2)
					default:
						ev.Idem = "same"
					}
				} else {
					obs["reparse"] = err.Error()
				}
			}
			res.Input = map[string]any{"file": rel, "cfg": c}
			res.Observed = obs
			evw.Encode(ev) // nolint:errcheck
			out.Write(res)
		}
	}
	return 0
}

func firstDiffLine(a, b string) map[string]any {
	la, lb := strings.Split(a, "\n"), strings.Split(b, "\n")
	for i := range la {
		if i >= len(lb) || la[i] != lb[i] {
			r := map[string]any{"line": i + 1, "pass1": la[i]}
			if i < len(lb) {
				r["pass2"] = lb[i]
			}
			return r
		}
	}
	return map[string]any{"line": len(la) + 1}
}
