package main

import (
	"crypto/sha1"
	"encoding/hex"
	"encoding/json"
	"flag"
	"fmt"
	"io"
	"os"
	"strings"
	"sync"

	"verif/harness/internal/hx"

	"github.com/ysugimoto/falco/v2/ast"
	"github.com/ysugimoto/falco/v2/formatter"
	"github.com/ysugimoto/falco/v2/lexer"
	"github.com/ysugimoto/falco/v2/parser"
)

// behaviour printed by Emit in spec/Format.tla
type fmtBehaviour struct {
	Fam    string    `json:"fam"`
	Focus  string    `json:"focus"`
	Toks   []string  `json:"toks"`
	Cm     []comment `json:"cm"`
	Cfg    fmtCfg    `json:"cfg"`
	Ast    any       `json:"ast"`
	ExpAst any       `json:"expAst"`
	ExpCm  []comment `json:"expCm"`
	Order  string    `json:"order"`
}

func decodeToks(ts []string) []piece {
	out := make([]piece, 0, len(ts))
	for _, s := range ts {
		switch {
		case s == "\n":
			out = append(out, piece{T: "nl"})
		case s == "\n\n":
			out = append(out, piece{T: "bl"})
		case strings.HasPrefix(s, "@"):
			f := strings.Split(s[1:], ":")
			out = append(out, piece{T: "g", N: f[0], L: f[1], C: f[2], S: f[3]})
		default:
			out = append(out, piece{T: "w", S: s})
		}
	}
	return out
}

func parseVCL(src string) (v *ast.VCL, err error) {
	defer func() {
		if r := recover(); r != nil {
			err = fmt.Errorf("parser panic: %v", r)
		}
	}()
	return parser.New(lexer.NewFromString(src)).ParseVCL()
}

// format outcome: text | nil | panic
func formatVCL(v *ast.VCL, c fmtCfg) (out string, outcome string) {
	defer func() {
		if r := recover(); r != nil {
			outcome = "panic"
			out = fmt.Sprint(r)
		}
	}()
	r := formatter.New(c.conf()).Format(v)
	if r == nil {
		return "", "nil"
	}
	b, _ := io.ReadAll(r)
	return string(b), "text"
}

func canon(x any) string {
	b, _ := json.Marshal(x)
	var y any
	json.Unmarshal(b, &y) // nolint:errcheck
	b, _ = json.Marshal(y)
	return string(b)
}

// stripP removes the presentational fields (p_...) of an abstract syntax value
func stripP(x any) any {
	switch t := x.(type) {
	case map[string]any:
		m := map[string]any{}
		for k, v := range t {
			if strings.HasPrefix(k, "p_") {
				continue
			}
			m[k] = stripP(v)
		}
		return m
	case []any:
		out := make([]any, len(t))
		for i := range t {
			out[i] = stripP(t[i])
		}
		return out
	}
	return x
}

func generic(x any) any {
	b, _ := json.Marshal(x)
	var y any
	json.Unmarshal(b, &y) // nolint:errcheck
	return y
}

// event for spec/FormatTrace.tla
type fmtEvent struct {
	ID     string       `json:"id"`
	Cfg    fmtCfg       `json:"cfg"`
	In     any          `json:"in"`
	Parsed bool         `json:"parsed"` // the formatted text parses
	Out    any          `json:"out"`
	Cin    []lexComment `json:"cin"`
	Cout   []lexComment `json:"cout"`
	Idem   string       `json:"idem"` // "same" | "differs" | "na"
}

type fmtObs struct {
	Src       string       `json:"src,omitempty"`
	Outcome   string       `json:"outcome"`
	Out1      string       `json:"out1,omitempty"`
	Out2      string       `json:"out2,omitempty"`
	Reparse   string       `json:"reparse,omitempty"`
	AstEq     bool         `json:"ast_eq"`
	SemEq     bool         `json:"sem_eq"`
	CommentEq bool         `json:"comments_eq"`
	Cout      []lexComment `json:"cout,omitempty"`
	Idem      string       `json:"idem"`
}

// result line: hx.CaseResult plus per-property candidate mismatches
type fmtResult struct {
	hx.CaseResult
	MM      map[string][]map[string]any `json:"mm,omitempty"`      // property -> mismatch items decided here (equality tests)
	Pending map[string][]map[string]any `json:"pending,omitempty"` // property -> items that FormatTrace.tla has to confirm
	Skip    string                      `json:"skip,omitempty"`
}

func wantComments(cs []comment) []lexComment {
	out := []lexComment{}
	for _, c := range cs {
		_, body := canonComment(commentText(c))
		out = append(out, lexComment{M: c.M, Body: body, Sp: commentClass(commentText(c))})
	}
	return out
}

func sameComments(a, b []lexComment) bool {
	if len(a) != len(b) {
		return false
	}
	for i := range a {
		if a[i] != b[i] {
			return false
		}
	}
	return true
}

// runCase executes one behaviour against the real lexer, parser and formatter.
func runCase(line []byte, keepInput bool) (fmtResult, *fmtEvent) {
	var b fmtBehaviour
	h := sha1.Sum(line)
	id := hex.EncodeToString(h[:6])
	res := fmtResult{MM: map[string][]map[string]any{}, Pending: map[string][]map[string]any{}}
	res.ID = id
	if err := json.Unmarshal(line, &b); err != nil {
		res.Skip = "undecodable behaviour: " + err.Error()
		return res, nil
	}
	toks := decodeToks(b.Toks)
	lay := &layout{}
	src0, gaps := render(toks, nil, lay)
	src, _ := render(toks, b.Cm, lay)
	cls := map[string]any{"fam": b.Fam, "focus": b.Focus, "opts": b.Cfg.opts(), "ncm": len(b.Cm)}
	var gl, gm, gs []string
	for _, c := range b.Cm {
		g := gaps[c.At-1]
		gl = append(gl, g.N+"."+g.L)
		gm = append(gm, c.M)
		gs = append(gs, c.Sp)
	}
	for _, w := range b.Toks {
		if !strings.HasPrefix(w, "@") && len(w) > 2 && strings.Contains(w, "\n") {
			cls["multiline_word"] = true // a literal that spans lines
		}
	}
	cls["gap"] = strings.Join(gl, "+")
	cls["marker"] = strings.Join(gm, "+")
	cls["sp"] = strings.Join(gs, "+")
	res.Class = cls
	res.Key = id
	obs := fmtObs{Src: src}
	var raw any
	json.Unmarshal(line, &raw) // nolint:errcheck
	fail := func() {
		res.Input = raw
		res.Observed = obs
	}
	if keepInput {
		res.Input = raw
	}
	drift := func(what string, detail any) {
		res.Drift = append(res.Drift, map[string]any{"obs": what, "detail": detail})
	}
	want := canon(b.Ast)

	// 0. the concretiser is faithful: the undecorated document parses to the tree TLC generated
	v0, err := parseVCL(src0)
	if err != nil {
		res.Skip = "render"
		drift("render-unparseable", map[string]any{"src": src0, "err": err.Error()})
		fail()
		return res, nil
	}
	// (the undecorated document has no leading comments: compared without the presentational fields)
	if got := canon(stripP(generic(projectVCL(v0)))); got != canon(stripP(generic(b.Ast))) {
		res.Skip = "render"
		drift("render-tree", map[string]any{"src": src0, "got": got, "want": want})
		fail()
		return res, nil
	}
	// 1. the decorated document
	v, err := parseVCL(src)
	if err != nil {
		res.Skip = "decorated-unparseable"
		drift("decorated-unparseable", map[string]any{"src": src, "err": err.Error()})
		fail()
		return res, nil
	}
	if got := canon(projectVCL(v)); got != want {
		drift("decorated-tree", map[string]any{"src": src, "got": got, "want": want})
	}
	cin := lexComments(src)
	if !sameComments(cin, wantComments(b.Cm)) {
		res.Skip = "render-comments"
		drift("render-comments", map[string]any{"src": src, "got": cin})
		fail()
		return res, nil
	}
	ev := &fmtEvent{ID: id, Cfg: b.Cfg, In: b.Ast, Cin: cin, Out: none, Cout: []lexComment{}, Idem: "na"}

	// 2. format
	out1, outcome := formatVCL(v, b.Cfg)
	obs.Outcome = outcome
	obs.Idem = "na"
	if outcome != "text" {
		obs.Out1 = out1
		res.MM["C03"] = append(res.MM["C03"], map[string]any{"obs": "format-" + outcome})
		if len(b.Cm) > 0 {
			res.MM["C15"] = append(res.MM["C15"], map[string]any{"obs": "format-" + outcome})
		}
		fail()
		return res, ev
	}
	obs.Out1 = out1
	// 3. C15: comments of the output
	cout := lexComments(out1)
	ev.Cout = cout
	obs.Cout = cout
	wantOut := wantComments(b.ExpCm)
	obs.CommentEq = sameComments(cout, wantOut)
	if !obs.CommentEq {
		res.Pending["C15"] = commentItems(b, gaps, wantOut, cout)
	}
	// 4. C03: re-parse and compare
	v1, err := parseVCL(out1)
	if err != nil {
		obs.Reparse = err.Error()
		res.MM["C03"] = append(res.MM["C03"], map[string]any{"obs": "reparse-fail"})
		// formatting the output again is impossible: it is not returned unchanged either
		res.MM["C14"] = append(res.MM["C14"], map[string]any{"obs": "output-unparseable"})
		fail()
		return res, ev
	}
	ev.Parsed = true
	outp := projectVCL(v1)
	ev.Out = outp
	got := canon(outp)
	exp := canon(b.ExpAst)
	obs.AstEq = got == exp
	obs.SemEq = obs.AstEq || canon(stripP(generic(outp))) == canon(stripP(generic(b.ExpAst)))
	if !obs.SemEq {
		res.Pending["C03"] = append(res.Pending["C03"], map[string]any{"obs": "tree", "got": outp})
	} else if !obs.AstEq {
		drift("presentation", map[string]any{"got": got, "want": exp})
	}
	// 5. C14: format the output again
	out2, outcome2 := formatVCL(v1, b.Cfg)
	if outcome2 != "text" {
		obs.Idem = "second-pass-" + outcome2
		res.MM["C14"] = append(res.MM["C14"], map[string]any{"obs": "second-pass-" + outcome2})
	} else if out2 != out1 {
		obs.Idem = "differs"
		obs.Out2 = out2
		res.MM["C14"] = append(res.MM["C14"], map[string]any{"obs": "not-idempotent"})
	} else {
		obs.Idem = "same"
	}
	ev.Idem = obs.Idem
	if len(res.MM["C03"])+len(res.MM["C14"])+len(res.MM["C15"])+len(res.Pending["C03"])+len(res.Pending["C15"])+len(res.Drift) > 0 {
		fail()
	} else if keepInput {
		res.Observed = obs
	}
	if len(res.Pending["C03"])+len(res.Pending["C15"]) == 0 {
		ev = nil // nothing for the trace specification to decide
	}
	return res, ev
}

// commentItems names, per expected comment, what happened to it (diagnosis; the verdict is FormatTrace's)
func commentItems(b fmtBehaviour, gaps []piece, want, got []lexComment) []map[string]any {
	var items []map[string]any
	count := map[string]int{}
	marker := map[string]string{}
	for _, c := range got {
		count[c.Body]++
		marker[c.Body] = c.M
	}
	for i, w := range want {
		g := gaps[b.ExpCm[i].At-1]
		it := map[string]any{"gap_node": g.N, "gap_label": g.L, "gap_class": g.C, "documented": g.S == "1", "cmarker": b.Cm[i].M, "csp": b.Cm[i].Sp,
			"gap_next": nextWord(b.Toks, b.ExpCm[i].At)}
		switch {
		case count[w.Body] == 0:
			it["obs"] = "comment-lost"
		case count[w.Body] > 1:
			it["obs"] = "comment-duplicated"
		case marker[w.Body] != w.M:
			it["obs"] = "comment-marker"
			it["got"] = marker[w.Body]
		default:
			continue
		}
		items = append(items, it)
	}
	if len(items) == 0 {
		items = append(items, map[string]any{"obs": "comment-order-or-extra", "got": got})
	}
	return items
}

// nextWord is the word that follows gap number at in the template (class field for findings)
func nextWord(toks []string, at int) string {
	n := 0
	for i, t := range toks {
		if strings.HasPrefix(t, "@") {
			n++
			if n == at {
				for _, w := range toks[i+1:] {
					if !strings.HasPrefix(w, "@") && w != "\n" && w != "\n\n" {
						return w
					}
				}
			}
		}
	}
	return ""
}

func fmtReplay(args []string) int {
	fs := flag.NewFlagSet("fmtreplay", flag.ExitOnError)
	events := fs.String("events", "", "write FormatTrace events here")
	window := fs.Bool("window", false, "also format windows of 3 documents with all results outstanding (sequentially and in goroutines)")
	fs.Parse(args) // nolint:errcheck
	out := hx.NewOut()
	defer out.Close()
	var evw *json.Encoder
	if *events != "" {
		f, err := os.Create(*events)
		if err != nil {
			fmt.Fprintln(os.Stderr, err)
			return 2
		}
		defer f.Close()
		evw = json.NewEncoder(f)
	}
	n := 0
	var win []winCase
	err := hx.Lines(func(line []byte) error {
		n++
		r, ev := runCase(line, n <= 3)
		out.Write(r)
		if ev != nil && evw != nil {
			evw.Encode(ev) // nolint:errcheck
		}
		if *window {
			if wc, ok := newWinCase(line, r); ok {
				win = append(win, wc)
				if len(win) == 3 {
					for _, wr := range windowCheck(win, n) {
						out.Write(wr)
					}
					win = win[:0]
				}
			}
		}
		return nil
	})
	if err != nil {
		fmt.Fprintln(os.Stderr, err)
		return 2
	}
	return 0
}

// ---- several results of the API outstanding at once -------------------------------------------------------
// The property speaks about the formatted text for every use of formatter.New(conf).Format: the io.Reader a call
// returns must keep its text while other documents are formatted (sequentially or in other goroutines).

type winCase struct {
	id     string
	b      fmtBehaviour
	src    string
	cls    map[string]any
	want   string       // semantic projection TLC predicted
	wantCm []lexComment // comments TLC predicted, nil when the immediate result already deviated
}

func newWinCase(line []byte, r fmtResult) (winCase, bool) {
	if r.Skip != "" || len(r.MM["C03"])+len(r.Pending["C03"]) > 0 {
		return winCase{}, false // only cases whose immediate result is fine
	}
	var b fmtBehaviour
	if json.Unmarshal(line, &b) != nil {
		return winCase{}, false
	}
	src, _ := render(decodeToks(b.Toks), b.Cm, &layout{})
	wc := winCase{id: r.ID, b: b, src: src, cls: r.Class, want: canon(stripP(generic(b.ExpAst)))}
	if len(r.MM["C15"])+len(r.Pending["C15"]) == 0 {
		wc.wantCm = wantComments(b.ExpCm)
	}
	return wc, true
}

func readAllSafe(r io.Reader) (s string) {
	defer func() {
		if e := recover(); e != nil {
			s = fmt.Sprint("panic: ", e)
		}
	}()
	if r == nil {
		return ""
	}
	b, _ := io.ReadAll(r)
	return string(b)
}

func formatReader(v *ast.VCL, c fmtCfg) (r io.Reader) {
	defer func() {
		if e := recover(); e != nil {
			r = nil
		}
	}()
	return formatter.New(c.conf()).Format(v)
}

// windowCheck formats all documents of the window before reading any result (read back in reverse order), then does
// the same with one goroutine per document (all formatted before any is read); every text must still re-parse to the
// tree TLC predicted.
func windowCheck(win []winCase, n int) []fmtResult {
	var out []fmtResult
	judge := func(mode string, texts []string) {
		for i, w := range win {
			ok := false
			if v, err := parseVCL(texts[i]); err == nil {
				ok = canon(stripP(generic(projectVCL(v)))) == w.want
			}
			// C15: the comments of the outstanding result are still the comments of its own document
			cmOK := w.wantCm == nil || sameComments(lexComments(texts[i]), w.wantCm)
			if ok && cmOK {
				continue
			}
			r := fmtResult{MM: map[string][]map[string]any{}}
			if !ok {
				r.MM["C03"] = []map[string]any{{"obs": "outstanding-result-corrupted", "mode": mode}}
			}
			if !cmOK {
				r.MM["C15"] = []map[string]any{{"obs": "outstanding-result-corrupted", "mode": mode}}
			}
			r.ID = w.id + ":" + mode
			r.Key = r.ID
			r.Class = map[string]any{"fam": w.cls["fam"], "focus": w.cls["focus"], "opts": w.cls["opts"], "mode": mode}
			var others []string
			for j := range win {
				if j != i {
					others = append(others, win[j].src)
				}
			}
			r.Input = map[string]any{"window": mode, "src": w.src, "cfg": w.b.Cfg, "formatted_before_reading": others}
			r.Observed = map[string]any{"text": texts[i]}
			out = append(out, r)
		}
	}
	parseAll := func() []*ast.VCL {
		vs := make([]*ast.VCL, len(win))
		for i, w := range win {
			vs[i], _ = parseVCL(w.src)
		}
		return vs
	}
	// sequential: format A, B, C, then read C, B, A
	vs := parseAll()
	rs := make([]io.Reader, len(win))
	for i := range win {
		if vs[i] != nil {
			rs[i] = formatReader(vs[i], win[i].b.Cfg)
		}
	}
	texts := make([]string, len(win))
	for i := len(win) - 1; i >= 0; i-- {
		texts[i] = readAllSafe(rs[i])
	}
	judge("window", texts)
	// concurrent: one goroutine per document, a barrier between formatting and reading
	vs = parseAll()
	var formatted, done sync.WaitGroup
	formatted.Add(len(win))
	done.Add(len(win))
	ctexts := make([]string, len(win))
	for i := range win {
		go func(i int) {
			defer done.Done()
			var r io.Reader
			if vs[i] != nil {
				r = formatReader(vs[i], win[i].b.Cfg)
			}
			formatted.Done()
			formatted.Wait()
			ctexts[i] = readAllSafe(r)
		}(i)
	}
	done.Wait()
	judge("concurrent", ctexts)
	return out
}
