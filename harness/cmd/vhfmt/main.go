package main

// vhfmt - harness of the formatter properties C03 (meaning preserved), C14
// (idempotent), C15 (comments kept) and of C09 (comments are inert).
//
//	fmtreplay   stdin: behaviours of spec/Format.tla; each document is rendered, parsed, formatted,
//	            re-parsed, projected and compared with the values TLC predicted; stdout: case results,
//	            -events: observations for spec/FormatTrace.tla
//	corpus      every .vcl under <repo>/examples x configurations, recorded as events for FormatTrace.tla
//	c09replay   decorated / undecorated pairs through the linter and the simulator

import (
	"verif/harness/internal/hx"
)

func main() {
	hx.Commands["fmtreplay"] = fmtReplay
	hx.Commands["corpus"] = corpus
	hx.Commands["c09replay"] = c09Replay
	hx.Commands["probe"] = probe
	hx.Main()
}
