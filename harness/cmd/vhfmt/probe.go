package main

import (
	"encoding/json"
	"fmt"
	"io"
	"os"
)

// probe: format stdin with the configuration given as JSON overrides of the defaults (debugging aid)
//   vhfmt probe '{"line_width":20}' < x.vcl
func probe(args []string) int {
	c := defaultCfg
	if len(args) > 0 && args[0] != "lint" {
		if err := json.Unmarshal([]byte(args[0]), &c); err != nil {
			fmt.Fprintln(os.Stderr, err)
			return 2
		}
	}
	b, _ := io.ReadAll(os.Stdin)
	if len(args) > 0 && args[0] == "lint" {
		obs, perr := lintObs(string(b))
		fmt.Println("parse:", perr)
		for _, o := range obs {
			fmt.Println(o)
		}
		return 0
	}
	v, err := parseVCL(string(b))
	if err != nil {
		fmt.Println("PARSE:", err)
		return 1
	}
	out, oc := formatVCL(v, c)
	fmt.Printf("--- pass 1 (%s)\n%s", oc, out)
	v1, err := parseVCL(out)
	if err != nil {
		fmt.Println("REPARSE:", err)
		return 1
	}
	fmt.Println("--- tree equal:", canon(stripP(generic(projectVCL(v1)))) == canon(stripP(generic(projectVCL(v)))))
	out2, oc2 := formatVCL(v1, c)
	if out2 != out {
		fmt.Printf("--- pass 2 differs (%s)\n%s", oc2, out2)
	}
	fmt.Println("--- comments in/out:", len(lexComments(string(b))), len(lexComments(out)))
	return 0
}
