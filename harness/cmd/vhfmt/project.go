package main

// project: *ast.VCL -> the abstract document of spec/FmtDoc.tla (DESIGN appendix A).
// A table of node kinds and structural recursion, nothing else (R4).  Semantic
// fields carry plain names; presentational fields that Normalize (Format.tla)
// predicts carry the prefix "p_" and never decide a verdict.  Everything in
// *ast.Meta (positions, nest, comments, blank-line counts) is dropped.

import (
	"fmt"
	"strconv"

	"github.com/ysugimoto/falco/v2/ast"
)

type node = map[string]any

var none = node{"k": "none"}

func pIdent(i *ast.Ident) string {
	if i == nil {
		return ""
	}
	return i.Value
}

func pExprOrNone(e ast.Expression) any {
	if e == nil {
		return none
	}
	return pExpr(e)
}

func isNilExpr(e ast.Expression) bool {
	if e == nil {
		return true
	}
	switch t := e.(type) {
	case *ast.Ident:
		return t == nil
	case *ast.Integer:
		return t == nil
	case *ast.String:
		return t == nil
	case *ast.FunctionCallExpression:
		return t == nil
	}
	return false
}

func pExprs(es []ast.Expression) []any {
	out := []any{}
	for _, e := range es {
		out = append(out, pExpr(e))
	}
	return out
}

func pExpr(e ast.Expression) any {
	if isNilExpr(e) {
		return none
	}
	switch t := e.(type) {
	case *ast.Ident:
		return node{"k": "ident", "v": t.Value}
	case *ast.String:
		return node{"k": "string", "v": t.Value}
	case *ast.Integer:
		return node{"k": "int", "v": strconv.FormatInt(t.Value, 10)}
	case *ast.Float:
		return node{"k": "float", "v": strconv.FormatFloat(t.Value, 'g', -1, 64)}
	case *ast.RTime:
		return node{"k": "rtime", "v": t.Value}
	case *ast.Boolean:
		return node{"k": "bool", "v": t.Value}
	case *ast.IP:
		return node{"k": "ip", "v": t.Value}
	case *ast.PrefixExpression:
		return node{"k": "prefix", "op": t.Operator, "right": pExpr(t.Right)}
	case *ast.InfixExpression:
		n := node{"k": "infix", "op": t.Operator, "l": pExpr(t.Left), "r": pExpr(t.Right)}
		if t.Operator == "+" {
			n["p_explicit"] = t.Explicit
		}
		return n
	case *ast.PostfixExpression:
		return node{"k": "postfix", "op": t.Operator, "left": pExpr(t.Left)}
	case *ast.GroupedExpression:
		return node{"k": "group", "e": pExpr(t.Right)}
	case *ast.IfExpression:
		return node{"k": "ifx", "c": pExpr(t.Condition), "a": pExpr(t.Consequence), "b": pExpr(t.Alternative)}
	case *ast.FunctionCallExpression:
		return node{"k": "fcallx", "fn": pIdent(t.Function), "args": pExprs(t.Arguments)}
	case *ast.BackendProbeObject:
		return node{"k": "probe", "props": pBackendProps(t.Values)}
	case *ast.DirectorProperty:
		return node{"k": "prop", "key": pIdent(t.Key), "value": pExpr(t.Value), "p_blank": t.PreviousEmptyLines > 0}
	case *ast.DirectorBackendObject:
		ps := []any{}
		for _, v := range t.Values {
			ps = append(ps, node{"k": "prop", "key": pIdent(v.Key), "value": pExpr(v.Value), "p_blank": false})
		}
		return node{"k": "dbackend", "props": ps, "p_blank": t.PreviousEmptyLines > 0}
	}
	return node{"k": fmt.Sprintf("?%T", e)}
}

func pBackendProps(ps []*ast.BackendProperty) []any {
	out := []any{}
	for _, p := range ps {
		out = append(out, node{"k": "prop", "key": pIdent(p.Key), "value": pExpr(p.Value), "p_blank": p.PreviousEmptyLines > 0})
	}
	return out
}

func pStmts(ss []ast.Statement) []any {
	out := []any{}
	for _, s := range ss {
		out = append(out, pStmt(s))
	}
	return out
}

func pBlock(b *ast.BlockStatement) []any {
	if b == nil {
		return []any{}
	}
	return pStmts(b.Statements)
}

func blank(s ast.Node) bool { return s.GetMeta() != nil && s.GetMeta().PreviousEmptyLines > 0 }

func pStmt(s ast.Statement) any {
	n := pStmt0(s)
	if m, ok := n.(node); ok {
		if _, has := m["p_blank"]; !has {
			m["p_blank"] = blank(s)
		}
	}
	return n
}

func pStmt0(s ast.Statement) any {
	switch t := s.(type) {
	case *ast.AclDeclaration:
		cs := []any{}
		for _, c := range t.CIDRs {
			mask := ""
			if c.Mask != nil {
				mask = strconv.FormatInt(c.Mask.Value, 10)
			}
			cs = append(cs, node{"k": "cidr", "inverse": c.Inverse != nil && c.Inverse.Value, "ip": c.IP.Value, "mask": mask,
				"p_blank": c.PreviousEmptyLines > 0})
		}
		return node{"k": "acl", "name": pIdent(t.Name), "cidrs": cs}
	case *ast.BackendDeclaration:
		return node{"k": "backend", "name": pIdent(t.Name), "props": pBackendProps(t.Properties)}
	case *ast.DirectorDeclaration:
		return node{"k": "director", "name": pIdent(t.Name), "dtype": pIdent(t.DirectorType), "props": pExprs(t.Properties)}
	case *ast.TableDeclaration:
		ps := []any{}
		for _, p := range t.Properties {
			ps = append(ps, node{"k": "tprop", "key": p.Key.Value, "value": pExpr(p.Value), "p_comma": p.HasComma,
				"p_blank": p.PreviousEmptyLines > 0})
		}
		return node{"k": "table", "name": pIdent(t.Name), "vtype": pIdent(t.ValueType), "props": ps}
	case *ast.SubroutineDeclaration:
		ps := []any{}
		for _, p := range t.Parameters {
			ps = append(ps, node{"k": "param", "type": pIdent(p.Type), "name": pIdent(p.Name)})
		}
		return node{"k": "sub", "name": pIdent(t.Name), "params": ps, "rtype": pIdent(t.ReturnType), "body": pBlock(t.Block)}
	case *ast.PenaltyboxDeclaration:
		return node{"k": "penaltybox", "name": pIdent(t.Name)}
	case *ast.RatecounterDeclaration:
		return node{"k": "ratecounter", "name": pIdent(t.Name)}
	case *ast.ImportStatement:
		return node{"k": "import", "name": pIdent(t.Name)}
	case *ast.IncludeStatement:
		m := ""
		if t.Module != nil {
			m = t.Module.Value
		}
		return node{"k": "include", "module": m}
	case *ast.BlockStatement:
		return node{"k": "block", "body": pBlock(t)}
	case *ast.SetStatement:
		return node{"k": "set", "ident": pIdent(t.Ident), "op": t.Operator.Operator, "value": pExpr(t.Value)}
	case *ast.AddStatement:
		return node{"k": "add", "ident": pIdent(t.Ident), "op": t.Operator.Operator, "value": pExpr(t.Value)}
	case *ast.UnsetStatement:
		return node{"k": "unset", "ident": pIdent(t.Ident)}
	case *ast.RemoveStatement:
		return node{"k": "remove", "ident": pIdent(t.Ident)}
	case *ast.DeclareStatement:
		return node{"k": "declare", "name": pIdent(t.Name), "vtype": pIdent(t.ValueType), "value": pExprOrNone(t.Value)}
	case *ast.CallStatement:
		return node{"k": "call", "sub": pIdent(t.Subroutine), "args": pExprs(t.Arguments)}
	case *ast.FunctionCallStatement:
		return node{"k": "fcall", "fn": pIdent(t.Function), "args": pExprs(t.Arguments)}
	case *ast.ErrorStatement:
		return node{"k": "error", "code": pExprOrNone(t.Code), "arg": pExprOrNone(t.Argument)}
	case *ast.EsiStatement:
		return node{"k": "esi"}
	case *ast.RestartStatement:
		return node{"k": "restart"}
	case *ast.BreakStatement:
		return node{"k": "break"}
	case *ast.FallthroughStatement:
		return node{"k": "fallthrough"}
	case *ast.LogStatement:
		return node{"k": "log", "value": pExpr(t.Value)}
	case *ast.SyntheticStatement:
		return node{"k": "synthetic", "value": pExpr(t.Value)}
	case *ast.SyntheticBase64Statement:
		return node{"k": "synthetic64", "value": pExpr(t.Value)}
	case *ast.GotoStatement:
		return node{"k": "goto", "dest": pIdent(t.Destination)}
	case *ast.GotoDestinationStatement:
		return node{"k": "label", "name": pIdent(t.Name)}
	case *ast.ReturnStatement:
		n := node{"k": "return", "expr": pExprOrNone(t.ReturnExpression)}
		if t.ReturnExpression != nil {
			n["p_paren"] = t.HasParenthesis
		}
		return n
	case *ast.IfStatement:
		elifs := []any{}
		for _, a := range t.Another {
			elifs = append(elifs, node{"k": "elif", "p_kw": a.Keyword, "cond": pExpr(a.Condition), "then": pBlock(a.Consequence)})
		}
		var els any = none
		if t.Alternative != nil {
			els = node{"k": "else", "body": pBlock(t.Alternative.Consequence)}
		}
		return node{"k": "if", "cond": pExpr(t.Condition), "then": pBlock(t.Consequence), "elifs": elifs, "else": els}
	case *ast.SwitchStatement:
		cases := []any{}
		for _, c := range t.Cases {
			var test any = none
			if c.Test != nil {
				test = node{"k": "test", "op": c.Test.Operator, "right": pExpr(c.Test.Right)}
			}
			cases = append(cases, node{"k": "case", "test": test, "body": pStmts(c.Statements), "fallthrough": c.Fallthrough})
		}
		var ctl any = none
		if t.Control != nil {
			ctl = pExpr(t.Control.Expression)
		}
		return node{"k": "switch", "control": ctl, "cases": cases}
	}
	return node{"k": fmt.Sprintf("?%T", s)}
}

// projectVCL: top-level declarations additionally say whether leading comments are attached (p_lead):
// Formatter.Format decides the empty line in front of the first declaration with it.
func projectVCL(v *ast.VCL) []any {
	out := pStmts(v.Statements)
	for i, s := range v.Statements {
		if m, ok := out[i].(node); ok {
			m["p_lead"] = len(s.GetMeta().Leading) > 0
		}
	}
	return out
}
