package main

// concretize: the token/gap template TLC computed with Render (spec/FmtDoc.tla)
// -> VCL text.  Pieces are {"t":"w","s":word} {"t":"nl"} {"t":"bl"} (blank line)
// and {"t":"g","n":node kind,"l":gap label,"c":class}.  A comment placed at a
// gap is laid out according to the gap's class only:
//   lead / inner : on a line of its own
//   in           : inline; a line comment is followed by a line break
//   trail        : on the same line, after the token before it
// Nothing here knows any VCL grammar.

import (
	"fmt"
	"strconv"
	"math/rand"
	"strings"

	"github.com/ysugimoto/falco/v2/config"
	"github.com/ysugimoto/falco/v2/lexer"
	"github.com/ysugimoto/falco/v2/token"
)

type piece struct {
	T string `json:"t"`
	S string `json:"s,omitempty"`
	N string `json:"n,omitempty"`
	L string `json:"l,omitempty"`
	C string `json:"c,omitempty"`
}

type comment struct {
	At int    `json:"at"` // index of the gap (1-based, source order)
	M  string `json:"m"`  // "#", "//", "/*"
	Sp string `json:"sp"` // plain | fastly | ignore | scope
}

// commentBody is the text table of comment payloads (after the marker).
func commentBody(c comment) string {
	switch c.Sp {
	case "canary":
		// planted fault (checks/c09.py): with the marker /* this is not a comment only, it carries a statement
		return " x */ log \"canary\"; /* y"
	case "fastly":
		return "FASTLY RECV"
	case "ignore":
		return fmt.Sprintf(" falco-ignore-next-line k%d", c.At)
	case "scope":
		return fmt.Sprintf(" @scope: recv k%d", c.At)
	}
	return fmt.Sprintf(" c%dx  two blanks", c.At)
}

func commentText(c comment) string {
	b := commentBody(c)
	if n, ok := strings.CutPrefix(c.Sp, "long"); ok && c.M != "/*" {
		// a line comment of exactly n bytes whose tail is valid VCL
		size, _ := strconv.Atoi(n)
		tail := ` log "activated";`
		return c.M + strings.Repeat("x", size-len(c.M)-len(tail)) + tail
	}
	switch {
	case c.M == "/*" && c.Sp == "stars2":
		return "/**" + b + " **/"
	case c.M == "/*" && c.Sp == "stars3":
		return "/*" + b + " ***/"
	case c.M == "/*" && c.Sp == "stars4":
		return "/****" + b + " ****/"
	case c.M == "/*" && c.Sp == "tri":
		return "/***/"
	case c.Sp == "bare": // nothing but the marker
		if c.M == "/*" {
			return "/**/"
		}
		return c.M
	case c.Sp == "run3":
		return "###" + b
	case c.Sp == "mix": // the other family's character right after the marker
		if c.M == "#" {
			return "#/" + strings.TrimPrefix(b, " ")
		}
		return "//#" + strings.TrimPrefix(b, " ")
	case c.Sp == "star":
		return "#*" + strings.TrimPrefix(b, " ")
	case c.M == "/*" && c.Sp == "twolines":
		return "/*" + b + "\n   second line */"
	case c.M == "/*":
		return "/*" + b + " */"
	case c.Sp == "run": // a run of marker characters: ## and ///
		return c.M + c.M[:1] + b
	}
	return c.M + b
}

// canonical form of a COMMENT token literal: marker class and payload.  The marker of a line comment is its first
// character class (# or //); the payload is what follows the leading run of marker characters of either family
// (comment_style rewrites that run, and `#/x` -> `//x` keeps every character of the text).
func canonComment(lit string) (m, body string) {
	switch {
	case strings.HasPrefix(lit, "/*"):
		// the indentation of the continuation line of a block comment is layout, not text
		b := strings.TrimSuffix(strings.TrimPrefix(lit, "/*"), "*/")
		b = strings.TrimSuffix(b, " ")
		if i := strings.Index(b, "\n"); i >= 0 && strings.TrimSpace(b[i:]) == "second line" {
			b = b[:i]
		}
		return "/*", b
	case strings.HasPrefix(lit, "//"):
		return "//", strings.TrimLeft(lit, "/#")
	case strings.HasPrefix(lit, "#"):
		return "#", strings.TrimLeft(lit, "#/")
	}
	return "?", lit
}

type layout struct {
	rng  *rand.Rand // nil = canonical single-space layout
	tabs bool       // a tab between tokens and after macro / annotation words
}

func (l *layout) sep() string {
	if l.tabs {
		return "\t"
	}
	if l.rng == nil {
		return " "
	}
	switch l.rng.Intn(8) {
	case 0:
		return "  "
	case 1:
		return "\t"
	case 2:
		return "\n"
	case 3:
		return " \n\n  "
	case 4:
		return "\n\t\t"
	}
	return " "
}

// render returns the text and the gaps in source order
func render(toks []piece, cm []comment, lay *layout) (string, []piece) {
	var sb strings.Builder
	at := map[int][]comment{}
	for _, c := range cm {
		at[c.At] = append(at[c.At], c)
	}
	lineEmpty := true
	needSep := false
	var gaps []piece
	word := func(s string) {
		if needSep && !lineEmpty {
			sb.WriteString(lay.sep())
		}
		sb.WriteString(s)
		lineEmpty = false
		needSep = true
	}
	nl := func() {
		sb.WriteString("\n")
		lineEmpty = true
		needSep = false
	}
	for _, p := range toks {
		switch p.T {
		case "w":
			word(p.S)
			if lay.tabs && strings.HasPrefix(p.S, "#FASTLY") {
				sb.WriteString("\t")
			}
		case "nl":
			if !lineEmpty {
				nl()
			}
		case "bl":
			if !lineEmpty {
				nl()
			}
			nl()
			if sb.Len() == 1 {
				nl() // at the very start of a file one line feed is not yet an empty line for the parser
			}
		case "g":
			gaps = append(gaps, p)
			for _, c := range at[len(gaps)] {
				if c.Sp == "blankonly" { // no comment, just an empty line at this position
					if !lineEmpty {
						nl()
					}
					nl()
					continue
				}
				txt := commentText(c)
				switch p.C {
				case "lead", "inner":
					if !lineEmpty {
						nl()
					}
					if c.Sp == "blankbefore" {
						nl()
						if sb.Len() == 1 {
							nl()
						}
					}
					sb.WriteString(txt)
					nl()
				default: // in, trail
					if c.Sp == "blankbefore" { // an empty line above the comment, inside the statement
						if !lineEmpty {
							nl()
						}
						nl()
					}
					if !lineEmpty {
						sb.WriteString(" ")
					}
					sb.WriteString(txt)
					lineEmpty = false
					needSep = true
					if c.M != "/*" {
						nl()
					}
				}
			}
		}
	}
	if !lineEmpty {
		nl()
	}
	return sb.String(), gaps
}

type lexComment struct {
	M    string `json:"m"`
	Body string `json:"body"`
	Sp   string `json:"sp"` // "fastly" for a #FASTLY macro comment, else "plain"
}

func commentClass(lit string) string {
	if strings.HasPrefix(lit, "#FASTLY") {
		return "fastly"
	}
	return "plain"
}

func lexComments(src string) []lexComment {
	out := []lexComment{}
	l := lexer.NewFromString(src)
	for i := 0; i < len(src)+16; i++ {
		t := l.NextToken()
		if t.Type == token.EOF {
			break
		}
		if t.Type == token.COMMENT {
			m, b := canonComment(t.Literal)
			out = append(out, lexComment{m, b, commentClass(t.Literal)})
		}
	}
	return out
}

// fmtCfg is the configuration record of Format.tla
type fmtCfg struct {
	IndentWidth                int    `json:"indent_width"`
	TrailingCommentWidth       int    `json:"trailing_comment_width"`
	IndentStyle                string `json:"indent_style"`
	LineWidth                  int    `json:"line_width"`
	ExplicitStringConcat       bool   `json:"explicit_string_concat"`
	SortDeclarationProperty    bool   `json:"sort_declaration_property"`
	AlignDeclarationProperty   bool   `json:"align_declaration_property"`
	ElseIf                     bool   `json:"else_if"`
	AlwaysNextLineElseIf       bool   `json:"always_next_line_else_if"`
	ReturnStatementParenthesis bool   `json:"return_statement_parenthesis"`
	SortDeclaration            bool   `json:"sort_declaration"`
	AlignTrailingComment       bool   `json:"align_trailing_comment"`
	CommentStyle               string `json:"comment_style"`
	ShouldUseUnset             bool   `json:"should_use_unset"`
	IndentCaseLabels           bool   `json:"indent_case_labels"`
	BreakCompoundConditions    bool   `json:"break_compound_conditions"`
}

func (c fmtCfg) conf() *config.FormatConfig {
	return &config.FormatConfig{
		IndentWidth: c.IndentWidth, TrailingCommentWidth: c.TrailingCommentWidth, IndentStyle: c.IndentStyle,
		LineWidth: c.LineWidth, ExplicitStringConcat: c.ExplicitStringConcat,
		SortDeclarationProperty: c.SortDeclarationProperty, AlignDeclarationProperty: c.AlignDeclarationProperty,
		ElseIf: c.ElseIf, AlwaysNextLineElseIf: c.AlwaysNextLineElseIf,
		ReturnStatementParenthesis: c.ReturnStatementParenthesis, SortDeclaration: c.SortDeclaration,
		AlignTrailingComment: c.AlignTrailingComment, CommentStyle: c.CommentStyle, ShouldUseUnset: c.ShouldUseUnset,
		IndentCaseLabels: c.IndentCaseLabels, BreakCompoundConditions: c.BreakCompoundConditions,
	}
}

var defaultCfg = fmtCfg{IndentWidth: 2, TrailingCommentWidth: 1, IndentStyle: "space", LineWidth: 120,
	ExplicitStringConcat: true, ReturnStatementParenthesis: true, CommentStyle: "none", BreakCompoundConditions: true}

// opts names the options that differ from the documented defaults (class field for findings)
func (c fmtCfg) opts() string {
	var d []string
	add := func(cond bool, s string) {
		if cond {
			d = append(d, s)
		}
	}
	add(c.IndentWidth != 2, fmt.Sprintf("indent_width=%d", c.IndentWidth))
	add(c.TrailingCommentWidth != 1, fmt.Sprintf("trailing_comment_width=%d", c.TrailingCommentWidth))
	add(c.IndentStyle != "space", "indent_style="+c.IndentStyle)
	add(c.LineWidth != 120, fmt.Sprintf("line_width=%d", c.LineWidth))
	add(!c.ExplicitStringConcat, "explicit_string_concat=false")
	add(c.SortDeclarationProperty, "sort_declaration_property=true")
	add(c.AlignDeclarationProperty, "align_declaration_property=true")
	add(c.ElseIf, "else_if=true")
	add(c.AlwaysNextLineElseIf, "always_next_line_else_if=true")
	add(!c.ReturnStatementParenthesis, "return_statement_parenthesis=false")
	add(c.SortDeclaration, "sort_declaration=true")
	add(c.AlignTrailingComment, "align_trailing_comment=true")
	add(c.CommentStyle != "none", "comment_style="+c.CommentStyle)
	add(c.ShouldUseUnset, "should_use_unset=true")
	add(c.IndentCaseLabels, "indent_case_labels=true")
	add(!c.BreakCompoundConditions, "break_compound_conditions=false")
	if len(d) == 0 {
		return "default"
	}
	return strings.Join(d, ",")
}
