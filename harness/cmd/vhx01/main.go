package main

// X01 - step debugging (extension, spec/Stepper.tla).
//
//	vhx01 dap -falco BIN -programs FILE [-jobs N] < behaviours.jsonl
//
// Every behaviour TLC explored (program, breakpoints, the command issued at each stop) is replayed
// against the real `falco dap` binary over the Debug Adapter Protocol: the harness renders the VCL text
// of the program from the program data TLC printed, launches the adapter, sets the breakpoints, sends one
// HTTP request and answers each `stopped` event with the command of the behaviour.  It records where the
// debugger stopped (top stack frame), why, how many log lines had been printed before the stop, the whole
// log sequence and what the HTTP client received.  Expected values (mechanism stops, required stops, the
// class of every departure) all come from TLC; the harness only compares.
import (
	"bufio"
	"encoding/json"
	"flag"
	"fmt"
	"io"
	"net"
	"net/http"
	"os"
	"os/exec"
	"path/filepath"
	"sort"
	"strconv"
	"strings"
	"sync"
	"time"

	"verif/harness/internal/hx"
)

func main() {
	hx.Commands["dap"] = cmdDap
	hx.Commands["render"] = cmdRender
	hx.Main()
}

// ---------------------------------------------------------------- program data (printed by TLC)

type arm struct {
	N    int    `json:"n"`
	C    bool   `json:"c"`
	Body []stmt `json:"body"`
}
type stmt struct {
	K    string `json:"k"`
	N    int    `json:"n"`
	Sub  string `json:"sub"`
	Arms []arm  `json:"arms"`
	Els  []stmt `json:"els"`
}
type program struct {
	Subs map[string][]stmt `json:"subs"`
	Fns  []string          `json:"fns"`
	N    int               `json:"n"`
}

type rendered struct {
	text   string
	lineOf map[int]int // statement id -> line
	idOf   map[int]int // line -> statement id
}

var lifecycle = map[string]string{"vcl_recv": "RECV", "vcl_error": "ERROR", "vcl_deliver": "DELIVER", "vcl_log": "LOG",
	"vcl_hash": "HASH", "vcl_miss": "MISS", "vcl_pass": "PASS", "vcl_hit": "HIT", "vcl_fetch": "FETCH"}

func render(p program) rendered {
	r := rendered{lineOf: map[int]int{}, idOf: map[int]int{}}
	var b strings.Builder
	line := 0
	emit := func(id int, s string) {
		line++
		if id > 0 {
			r.lineOf[id] = line
			r.idOf[line] = id
		}
		b.WriteString(s)
		b.WriteString("\n")
	}
	cond := func(c bool) string {
		if c {
			return `req.http.T == "1"`
		}
		return `req.http.T == "0"`
	}
	var block func(ss []stmt, ind string)
	block = func(ss []stmt, ind string) {
		for _, s := range ss {
			switch s.K {
			case "set":
				emit(s.N, fmt.Sprintf(`%slog "n%d";`, ind, s.N))
			case "call":
				emit(s.N, fmt.Sprintf(`%scall %s;`, ind, s.Sub))
			case "setf":
				emit(s.N, fmt.Sprintf(`%sset req.http.F%d = %s();`, ind, s.N, s.Sub))
			case "ret":
				emit(s.N, ind+"return;")
			case "retv":
				emit(s.N, fmt.Sprintf(`%sreturn "v%d";`, ind, s.N))
			case "err":
				emit(s.N, ind+"error 601;")
			case "nop":
				emit(s.N, ind+"break;")
			case "sw":
				emit(s.N, ind+"switch (req.http.T) {")
				for i, a := range s.Arms {
					if i == 0 {
						emit(0, ind+`case "1":`)
					} else {
						emit(0, fmt.Sprintf(`%scase "x%d":`, ind, i))
					}
					block(a.Body, ind+"  ")
					if i < len(s.Arms)-1 {
						emit(a.N, ind+"  fallthrough;")
					} else {
						emit(a.N, ind+"  break;")
					}
				}
				emit(0, ind+"}")
			case "if":
				for i, a := range s.Arms {
					if i == 0 {
						emit(a.N, fmt.Sprintf("%sif (%s) {", ind, cond(a.C)))
					} else {
						emit(a.N, fmt.Sprintf("%s} else if (%s) {", ind, cond(a.C)))
					}
					block(a.Body, ind+"  ")
				}
				if len(s.Els) > 0 {
					emit(0, ind+"} else {")
					block(s.Els, ind+"  ")
				}
				emit(0, ind+"}")
			}
		}
	}
	emit(0, `backend b0 { .host = "127.0.0.1"; .port = "1"; }`)
	names := make([]string, 0, len(p.Subs))
	for n := range p.Subs {
		names = append(names, n)
	}
	sort.Strings(names)
	isFn := map[string]bool{}
	for _, f := range p.Fns {
		isFn[f] = true
	}
	for _, n := range names {
		switch {
		case isFn[n]:
			emit(0, "sub "+n+" STRING {")
		default:
			emit(0, "sub "+n+" {")
		}
		if sc, ok := lifecycle[n]; ok {
			emit(0, "  #FASTLY "+sc)
		}
		block(p.Subs[n], "  ")
		emit(0, "}")
	}
	r.text = b.String()
	return r
}

func loadPrograms(path string) (map[string]program, error) {
	raw, err := os.ReadFile(path)
	if err != nil {
		return nil, err
	}
	var ps map[string]program
	if err := json.Unmarshal(raw, &ps); err != nil {
		return nil, err
	}
	return ps, nil
}

func cmdRender(args []string) int {
	fs := flag.NewFlagSet("render", flag.ExitOnError)
	progs := fs.String("programs", "", "programs json printed by TLC")
	name := fs.String("prog", "P1", "")
	fs.Parse(args) // nolint:errcheck
	ps, err := loadPrograms(*progs)
	if err != nil {
		fmt.Fprintln(os.Stderr, err)
		return 2
	}
	fmt.Print(render(ps[*name]).text)
	return 0
}

// ---------------------------------------------------------------- behaviours (printed by TLC)

type expStop struct {
	N    int    `json:"n"`
	Why  string `json:"why"`
	Cmd  string `json:"cmd"`
	Logs int    `json:"logs"`
	D    int    `json:"d"`
}
type reqStop struct {
	N    int `json:"n"`
	Logs int `json:"logs"`
}
type dev struct {
	ID   string `json:"id"`
	Dev  string `json:"dev"`
	Cmd  string `json:"cmd"`
	Why  string `json:"why"`
	Og   string `json:"og"`
	Infn bool   `json:"infn"`
	Rel  string `json:"rel"`
}
type behaviour struct {
	Prog  string    `json:"prog"`
	Bps   []int     `json:"bps"`
	Stops []expStop `json:"stops"`
	Req   []reqStop `json:"req"`
	Dev   []dev     `json:"dev"`
	Logs  []int     `json:"logs"`
	// canary: the harness is told to corrupt its own observation so the comparison must reject it
	Canary string `json:"canary,omitempty"`
}

type obsStop struct {
	N      int    `json:"n"`
	Why    string `json:"why"`
	Logs   int    `json:"logs"`
	Frames int    `json:"frames"`
	Line   int    `json:"line"`
}
type observation struct {
	Stops      []obsStop `json:"stops"`
	Logs       []int     `json:"logs"`
	HTTP       string    `json:"http"`
	Terminated int       `json:"terminated"`
	BpIDs      []int     `json:"bp_ids"`
	BpLines    []int     `json:"bp_lines"`
	Locations  []int     `json:"locations"`
	Threads    int       `json:"threads"`
	FrameLines [][]int   `json:"-"`
	Note       string    `json:"note,omitempty"`
}

// ---------------------------------------------------------------- DAP client

type dapClient struct {
	cmd   *exec.Cmd
	in    io.WriteCloser
	out   *bufio.Reader
	seq   int
	msgs  chan map[string]any
	errCh chan error
}

func (c *dapClient) send(command string, args any) int {
	c.seq++
	m := map[string]any{"seq": c.seq, "type": "request", "command": command}
	if args != nil {
		m["arguments"] = args
	}
	b, _ := json.Marshal(m)
	fmt.Fprintf(c.in, "Content-Length: %d\r\n\r\n", len(b))
	c.in.Write(b) // nolint:errcheck
	return c.seq
}

func (c *dapClient) reader() {
	for {
		n := -1
		for {
			l, err := c.out.ReadString('\n')
			if err != nil {
				c.errCh <- err
				close(c.msgs)
				return
			}
			l = strings.TrimSpace(l)
			if l == "" {
				break
			}
			if strings.HasPrefix(strings.ToLower(l), "content-length:") {
				n, _ = strconv.Atoi(strings.TrimSpace(l[len("content-length:"):]))
			}
		}
		if n < 0 {
			continue
		}
		buf := make([]byte, n)
		if _, err := io.ReadFull(c.out, buf); err != nil {
			c.errCh <- err
			close(c.msgs)
			return
		}
		var m map[string]any
		if json.Unmarshal(buf, &m) == nil {
			c.msgs <- m
		}
	}
}

func freePort() int {
	l, err := net.Listen("tcp", "127.0.0.1:0")
	if err != nil {
		return 0
	}
	defer l.Close()
	return l.Addr().(*net.TCPAddr).Port
}

type machineryError struct{ msg string }

func (e *machineryError) Error() string { return e.msg }

func num(v any) int {
	f, _ := v.(float64)
	return int(f)
}

// runOne replays one behaviour; a machineryError means "could not execute" (never a verdict).
func runOne(falco, vclPath string, r rendered, b behaviour) (*observation, error) {
	port := freePort()
	if port == 0 {
		return nil, &machineryError{"no free port"}
	}
	cmd := exec.Command(falco, "dap", "-p", strconv.Itoa(port))
	cmd.Dir = filepath.Dir(vclPath)
	stdin, _ := cmd.StdinPipe()
	stdout, _ := cmd.StdoutPipe()
	var stderr strings.Builder
	cmd.Stderr = &stderr
	if err := cmd.Start(); err != nil {
		return nil, &machineryError{"cannot start falco dap: " + err.Error()}
	}
	c := &dapClient{cmd: cmd, in: stdin, out: bufio.NewReaderSize(stdout, 1<<16), msgs: make(chan map[string]any, 256), errCh: make(chan error, 2)}
	go c.reader()
	defer func() {
		stdin.Close()
		done := make(chan struct{})
		go func() { cmd.Wait(); close(done) }() // nolint:errcheck
		select {
		case <-done:
		case <-time.After(2 * time.Second):
			cmd.Process.Kill() // nolint:errcheck
			<-done
		}
	}()

	obs := &observation{}
	deadline := time.After(40 * time.Second)
	// wait for the response to request seq, collecting events on the way
	var events []map[string]any
	waitResp := func(seq int) (map[string]any, error) {
		for {
			select {
			case m, ok := <-c.msgs:
				if !ok {
					return nil, &machineryError{"adapter closed its output early; stderr: " + stderr.String()}
				}
				if m["type"] == "response" && num(m["request_seq"]) == seq {
					return m, nil
				}
				events = append(events, m)
			case <-deadline:
				return nil, &machineryError{"timeout waiting for a response"}
			}
		}
	}
	if _, err := waitResp(c.send("initialize", map[string]any{"adapterID": "verif"})); err != nil {
		return nil, err
	}
	lr, err := waitResp(c.send("launch", map[string]any{"mainVCL": vclPath, "includePaths": []string{}}))
	if err != nil {
		return nil, err
	}
	if ok, _ := lr["success"].(bool); !ok {
		return nil, &machineryError{fmt.Sprintf("launch failed: %v", lr["message"])}
	}
	bl := make([]map[string]any, 0, len(b.Bps))
	for _, id := range b.Bps {
		bl = append(bl, map[string]any{"line": r.lineOf[id]})
	}
	// the breakpoints of a source are what the LAST setBreakpoints request said: first set one line more (the first
	// statement of the program that is not a breakpoint of the behaviour), then the behaviour's own set
	inBps := map[int]bool{}
	for _, id := range b.Bps {
		inBps[id] = true
	}
	for id := 1; id <= 3; id++ {
		if !inBps[id] && r.lineOf[id] > 0 {
			more := append(append([]map[string]any{}, bl...), map[string]any{"line": r.lineOf[id]})
			if _, err := waitResp(c.send("setBreakpoints", map[string]any{"source": map[string]any{"path": vclPath}, "breakpoints": more})); err != nil {
				return nil, err
			}
			break
		}
	}
	// breakpoints are kept per source: requests about ANOTHER file (one breakpoint set before, cleared afterwards) must not
	// disturb the ones of the program
	otherPath := filepath.Join(filepath.Dir(vclPath), "other.vcl")
	if _, err := waitResp(c.send("setBreakpoints", map[string]any{"source": map[string]any{"path": otherPath}, "breakpoints": []map[string]any{{"line": 3}}})); err != nil {
		return nil, err
	}
	sr, err := waitResp(c.send("setBreakpoints", map[string]any{"source": map[string]any{"path": vclPath}, "breakpoints": bl}))
	if err == nil {
		_, err = waitResp(c.send("setBreakpoints", map[string]any{"source": map[string]any{"path": otherPath}, "breakpoints": []map[string]any{}}))
	}
	if err != nil {
		return nil, err
	}
	if body, ok := sr["body"].(map[string]any); ok {
		if bs, ok := body["breakpoints"].([]any); ok {
			for _, x := range bs {
				if bm, ok := x.(map[string]any); ok {
					obs.BpIDs = append(obs.BpIDs, num(bm["id"]))
					obs.BpLines = append(obs.BpLines, num(bm["line"]))
				}
			}
		}
	}
	lo, err := waitResp(c.send("breakpointLocations", map[string]any{"source": map[string]any{"path": vclPath}, "line": 1}))
	if err != nil {
		return nil, err
	}
	if body, ok := lo["body"].(map[string]any); ok {
		if bs, ok := body["breakpoints"].([]any); ok {
			for _, x := range bs {
				if bm, ok := x.(map[string]any); ok {
					obs.Locations = append(obs.Locations, num(bm["line"]))
				}
			}
		}
	}
	th, err := waitResp(c.send("threads", nil))
	if err != nil {
		return nil, err
	}
	if body, ok := th["body"].(map[string]any); ok {
		if ts, ok := body["threads"].([]any); ok {
			obs.Threads = len(ts)
		}
	}
	if _, err := waitResp(c.send("configurationDone", nil)); err != nil {
		return nil, err
	}

	// the HTTP request (the adapter starts listening in a goroutine: retry until it accepts)
	httpDone := make(chan string, 1)
	go func() {
		cl := &http.Client{Timeout: 30 * time.Second, Transport: &http.Transport{DisableKeepAlives: true}}
		var last string
		for i := 0; i < 200; i++ {
			req, _ := http.NewRequest("GET", fmt.Sprintf("http://127.0.0.1:%d/x", port), nil)
			req.Header.Set("T", "1")
			resp, err := cl.Do(req)
			if err != nil {
				last = err.Error()
				if strings.Contains(last, "connection refused") {
					time.Sleep(10 * time.Millisecond)
					continue
				}
				httpDone <- "lost"
				return
			}
			body, rerr := io.ReadAll(resp.Body)
			resp.Body.Close()
			switch {
			case rerr != nil:
				httpDone <- "lost-body" // status line arrived, the body never completed
			case !json.Valid(body):
				httpDone <- "invalid-body"
			default:
				httpDone <- "status:" + strconv.Itoa(resp.StatusCode)
			}
			return
		}
		httpDone <- "never-connected:" + last
	}()

	handle := func(m map[string]any) (stopped bool, why string, terminated bool) {
		if m["type"] != "event" {
			return
		}
		switch m["event"] {
		case "output":
			if body, ok := m["body"].(map[string]any); ok {
				out, _ := body["output"].(string)
				out = strings.TrimSpace(out)
				if strings.HasPrefix(out, "n") {
					if id, err := strconv.Atoi(out[1:]); err == nil {
						obs.Logs = append(obs.Logs, id)
					}
				}
			}
		case "stopped":
			body, _ := m["body"].(map[string]any)
			w, _ := body["reason"].(string)
			return true, w, false
		case "terminated":
			return false, "", true
		}
		return
	}
	diverged := false
	cmdName := map[string]string{"Pass": "continue", "In": "stepIn", "Over": "next", "Out": "stepOut"}
	onStop := func(why string) error {
		logsBefore := len(obs.Logs)
		st, err := waitResp(c.send("stackTrace", map[string]any{"threadId": 1}))
		if err != nil {
			return err
		}
		o := obsStop{Why: why, Logs: logsBefore}
		var lines []int
		if body, ok := st["body"].(map[string]any); ok {
			o.Frames = num(body["totalFrames"])
			if fr, ok := body["stackFrames"].([]any); ok {
				for _, x := range fr {
					if fm, ok := x.(map[string]any); ok {
						lines = append(lines, num(fm["line"]))
					}
				}
			}
		}
		if len(lines) > 0 {
			o.Line = lines[0]
			o.N = r.idOf[lines[0]]
		}
		// a client that asks for one frame only (levels = 1, what editors do on every stop) must get the newest one
		if st1, err := waitResp(c.send("stackTrace", map[string]any{"threadId": 1, "startFrame": 0, "levels": 1})); err == nil {
			if body, ok := st1["body"].(map[string]any); ok {
				if fr, ok := body["stackFrames"].([]any); ok && len(fr) > 0 {
					if fm, ok := fr[0].(map[string]any); ok && len(lines) > 0 && num(fm["line"]) != lines[0] {
						o.Line = -num(fm["line"]) // reported as a stop at a line that is no statement: a mismatch
						o.N = -1
					}
				}
			}
		} else {
			return err
		}
		obs.FrameLines = append(obs.FrameLines, lines)
		obs.Stops = append(obs.Stops, o)
		k := len(obs.Stops)
		next := "Pass"
		if !diverged && k <= len(b.Stops) && b.Stops[k-1].N == o.N && b.Stops[k-1].Logs == o.Logs {
			next = b.Stops[k-1].Cmd
		} else {
			diverged = true // from here on the behaviour's commands no longer apply: just continue
		}
		// the response of a step request arrives after the adapter has consumed it
		if _, err := waitResp(c.send(cmdName[next], map[string]any{"threadId": 1})); err != nil {
			return err
		}
		return nil
	}
	terminated := false
	process := func(m map[string]any) error {
		stopped, why, term := handle(m)
		if term {
			obs.Terminated++
			terminated = true
		}
		if stopped {
			return onStop(why)
		}
		return nil
	}
	for !terminated {
		// events that arrived while waiting for a response come first, in order
		if len(events) > 0 {
			m := events[0]
			events = events[1:]
			if err := process(m); err != nil {
				return nil, err
			}
			continue
		}
		select {
		case m, ok := <-c.msgs:
			if !ok {
				return nil, &machineryError{"adapter closed its output before the terminated event; stderr: " + stderr.String()}
			}
			if err := process(m); err != nil {
				return nil, err
			}
		case <-deadline:
			return nil, &machineryError{fmt.Sprintf("timeout: %d stops so far", len(obs.Stops))}
		}
	}
	// give the HTTP client a moment, then let the adapter go (closing stdin ends it)
	select {
	case s := <-httpDone:
		obs.HTTP = s
	case <-time.After(300 * time.Millisecond):
		stdin.Close()
		select {
		case s := <-httpDone:
			obs.HTTP = s
		case <-time.After(5 * time.Second):
			obs.HTTP = "hung"
		}
	}
	// late events (a second terminated, more stops) would be a protocol error
	stdin.Close()
	drain := time.After(200 * time.Millisecond)
	for draining := true; draining; {
		select {
		case m, ok := <-c.msgs:
			if !ok {
				draining = false
				break
			}
			if m["type"] == "event" && m["event"] == "terminated" {
				obs.Terminated++
			}
		case <-drain:
			draining = false
		}
	}
	return obs, nil
}

func eqInts(a, b []int) bool {
	if len(a) != len(b) {
		return false
	}
	for i := range a {
		if a[i] != b[i] {
			return false
		}
	}
	return true
}

func compare(b behaviour, r rendered, obs *observation) hx.CaseResult {
	res := hx.CaseResult{Validated: true}
	res.Input = map[string]any{"prog": b.Prog, "bps": b.Bps, "cmds": cmds(b)}
	res.Observed = obs
	res.Class = map[string]any{"prog": b.Prog}
	res.Key = map[string]any{"prog": b.Prog, "bps": b.Bps, "cmds": cmds(b)}
	mis := func(m map[string]any) { res.Mismatch = append(res.Mismatch, m) }
	drift := func(m map[string]any) { res.Drift = append(res.Drift, m) }

	// requirement: debugging is transparent - the statements executed do not depend on the session
	if !eqInts(obs.Logs, b.Logs) {
		mis(map[string]any{"obs": "execution-changed", "expected": b.Logs, "got": obs.Logs})
	}
	// requirement: exactly one terminated event, after the request
	if obs.Terminated != 1 {
		mis(map[string]any{"obs": "terminated-events", "expected": 1, "got": obs.Terminated})
	}
	// requirement: the HTTP client gets its response
	if !strings.HasPrefix(obs.HTTP, "status:") {
		mis(map[string]any{"obs": "http-response", "expected": "a response", "got": obs.HTTP, "dev": "K6"})
	}
	// walk the stops: step k (1-based) is the stop that follows command k-1 (command 0 = start)
	follows := true // observation has followed the mechanism so far
	for k := 1; k <= len(b.Stops)+1 && follows; k++ {
		var o *obsStop
		if k <= len(obs.Stops) {
			o = &obs.Stops[k-1]
		}
		var m *expStop
		if k <= len(b.Stops) {
			m = &b.Stops[k-1]
		}
		rq := b.Req[k-1]
		sameAsMech := (o == nil && m == nil) || (o != nil && m != nil && o.N == m.N && o.Logs == m.Logs)
		sameAsReq := (o == nil && rq.N == 0) || (o != nil && rq.N != 0 && o.N == rq.N && o.Logs == rq.Logs)
		if !sameAsMech {
			drift(map[string]any{"obs": "stop-differs-from-mechanism", "k": k, "expected": m, "got": o})
			follows = false
		}
		if !sameAsReq {
			d := b.Dev[k-1]
			item := map[string]any{"obs": "stop-differs-from-requirement", "k": k, "cmd": d.Cmd, "expected": rq, "got": o}
			if sameAsMech && d.ID != "none" {
				item["dev"] = d.ID // the class TLC derived for this step of this behaviour
				item["why"] = d.Why
				item["og"] = d.Og
				item["rel"] = d.Rel
			} else {
				item["dev"] = "unclassified"
			}
			mis(item)
		}
		if o != nil && m != nil && sameAsMech {
			if o.Why != m.Why {
				mis(map[string]any{"obs": "stop-reason", "k": k, "expected": m.Why, "got": o.Why})
			}
			// requirement (DAP): stackTrace answers the call stack of the stopped thread, innermost first
			if o.Frames != m.D+1 {
				mis(map[string]any{"obs": "stacktrace-not-callstack", "k": k, "expected": m.D + 1, "got": o.Frames, "dev": "K7"})
			}
			// mechanism: it answers the history of stops, newest first
			if o.Frames != k {
				drift(map[string]any{"obs": "stacktrace-history-length", "k": k, "expected": k, "got": o.Frames})
			}
		}
	}
	if follows && len(obs.Stops) > len(b.Stops) {
		drift(map[string]any{"obs": "extra-stops", "expected": len(b.Stops), "got": len(obs.Stops)})
	}
	// breakpoints: every requested line is answered verified with a fresh id, and listed afterwards
	want := make([]int, 0, len(b.Bps))
	for _, id := range b.Bps {
		want = append(want, r.lineOf[id])
	}
	if !eqInts(obs.BpLines, want) {
		mis(map[string]any{"obs": "setBreakpoints-lines", "expected": want, "got": obs.BpLines})
	}
	if !eqInts(obs.Locations, want) {
		mis(map[string]any{"obs": "breakpointLocations", "expected": want, "got": obs.Locations})
	}
	ids := map[int]bool{}
	for _, id := range obs.BpIDs {
		if ids[id] {
			mis(map[string]any{"obs": "breakpoint-ids-not-distinct", "got": obs.BpIDs})
		}
		ids[id] = true
	}
	if obs.Threads != 1 {
		mis(map[string]any{"obs": "threads", "expected": 1, "got": obs.Threads})
	}
	return res
}

func cmds(b behaviour) string {
	var s []string
	for _, st := range b.Stops {
		s = append(s, st.Cmd)
	}
	return strings.Join(s, ",")
}

func cmdDap(args []string) int {
	fs := flag.NewFlagSet("dap", flag.ExitOnError)
	falco := fs.String("falco", "", "falco binary built from the tree under test")
	progs := fs.String("programs", "", "programs json printed by TLC")
	jobs := fs.Int("jobs", 8, "concurrent adapters")
	dir := fs.String("dir", "", "scratch directory for the VCL files")
	fs.Parse(args) // nolint:errcheck
	ps, err := loadPrograms(*progs)
	if err != nil {
		fmt.Fprintln(os.Stderr, "programs:", err)
		return 2
	}
	rs := map[string]rendered{}
	paths := map[string]string{}
	for name, p := range ps {
		r := render(p)
		rs[name] = r
		d := filepath.Join(*dir, name)
		os.MkdirAll(d, 0o755) // nolint:errcheck
		paths[name] = filepath.Join(d, "main.vcl")
		if err := os.WriteFile(paths[name], []byte(r.text), 0o644); err != nil {
			fmt.Fprintln(os.Stderr, err)
			return 2
		}
	}
	var behs []behaviour
	if err := hx.Lines(func(line []byte) error {
		var b behaviour
		if err := json.Unmarshal(line, &b); err != nil {
			return err
		}
		behs = append(behs, b)
		return nil
	}); err != nil {
		fmt.Fprintln(os.Stderr, "behaviours:", err)
		return 2
	}
	out := hx.NewOut()
	defer out.Close()
	var mu sync.Mutex
	var wg sync.WaitGroup
	sem := make(chan struct{}, *jobs)
	failed := 0
	for i := range behs {
		wg.Add(1)
		sem <- struct{}{}
		go func(i int) {
			defer wg.Done()
			defer func() { <-sem }()
			b := behs[i]
			r, ok := rs[b.Prog]
			if !ok {
				mu.Lock()
				failed++
				fmt.Fprintln(os.Stderr, "unknown program", b.Prog)
				mu.Unlock()
				return
			}
			var obs *observation
			var err error
			for try := 0; try < 3; try++ {
				obs, err = runOne(*falco, paths[b.Prog], r, b)
				if err == nil {
					break
				}
			}
			if err != nil {
				mu.Lock()
				failed++
				fmt.Fprintf(os.Stderr, "behaviour %d (%s %v %s): %v\n", i, b.Prog, b.Bps, cmds(b), err)
				mu.Unlock()
				return
			}
			switch b.Canary {
			case "stop": // corrupt one observed stop: the comparison must reject this case
				if len(obs.Stops) > 0 {
					obs.Stops[len(obs.Stops)-1].N += 1000
				}
			case "log":
				obs.Logs = append(obs.Logs, 999)
			}
			res := compare(b, r, obs)
			res.ID = fmt.Sprintf("%s/%v/%s", b.Prog, b.Bps, cmds(b))
			if b.Canary != "" {
				res.ID = "canary-" + b.Canary + ":" + res.ID
				res.Key = nil
			}
			mu.Lock()
			out.Write(res)
			mu.Unlock()
		}(i)
	}
	wg.Wait()
	if failed > 0 {
		fmt.Fprintf(os.Stderr, "%d behaviour(s) could not be executed\n", failed)
		return 3
	}
	return 0
}

// ---------------------------------------------------------------- session protocol (spec/DapSession.tla)

type protoSchedule struct {
	S       int              `json:"S"`
	E       int              `json:"E"`
	Allowed []map[string]any `json:"allowed"` // outcomes TLC found reachable: {stops_seen, term, unanswered_steps, discon}
	Reps    int              `json:"reps"`
	Canary  bool             `json:"canary,omitempty"`
}

func runProto(falco, vclPath string, r rendered, s protoSchedule) (map[string]any, error) {
	port := freePort()
	cmd := exec.Command(falco, "dap", "-p", strconv.Itoa(port))
	cmd.Dir = filepath.Dir(vclPath)
	stdin, _ := cmd.StdinPipe()
	stdout, _ := cmd.StdoutPipe()
	if err := cmd.Start(); err != nil {
		return nil, &machineryError{"cannot start falco dap: " + err.Error()}
	}
	c := &dapClient{cmd: cmd, in: stdin, out: bufio.NewReaderSize(stdout, 1<<16), msgs: make(chan map[string]any, 256), errCh: make(chan error, 2)}
	go c.reader()
	defer func() {
		stdin.Close()
		done := make(chan struct{})
		go func() { cmd.Wait(); close(done) }() // nolint:errcheck
		select {
		case <-done:
		case <-time.After(2 * time.Second):
			cmd.Process.Kill() // nolint:errcheck
			<-done
		}
	}()
	deadline := time.After(40 * time.Second)
	var pending []map[string]any
	waitResp := func(seq int) error {
		for {
			select {
			case m, ok := <-c.msgs:
				if !ok {
					return &machineryError{"adapter closed its output early"}
				}
				if m["type"] == "response" && num(m["request_seq"]) == seq {
					return nil
				}
				pending = append(pending, m)
			case <-deadline:
				return &machineryError{"timeout during setup"}
			}
		}
	}
	if err := waitResp(c.send("initialize", map[string]any{"adapterID": "verif"})); err != nil {
		return nil, err
	}
	if err := waitResp(c.send("launch", map[string]any{"mainVCL": vclPath, "includePaths": []string{}})); err != nil {
		return nil, err
	}
	if err := waitResp(c.send("setBreakpoints", map[string]any{"source": map[string]any{"path": vclPath},
		"breakpoints": []map[string]any{{"line": r.lineOf[1]}}})); err != nil {
		return nil, err
	}
	if err := waitResp(c.send("configurationDone", nil)); err != nil {
		return nil, err
	}
	stepSeqs := map[int]bool{}
	issued, answered, seenStopped, stops := 0, 0, 0, 0
	issue := func() {
		issued++
		name := "next"
		if issued >= s.S {
			name = "continue"
		}
		stepSeqs[c.send(name, map[string]any{"threadId": 1})] = true
	}
	for i := 0; i < s.E; i++ {
		issue() // before the request exists: the dispatch goroutines block on stateCh
	}
	go func() {
		cl := &http.Client{Timeout: 20 * time.Second, Transport: &http.Transport{DisableKeepAlives: true}}
		for i := 0; i < 200; i++ {
			req, _ := http.NewRequest("GET", fmt.Sprintf("http://127.0.0.1:%d/x", port), nil)
			req.Header.Set("T", "1")
			resp, err := cl.Do(req)
			if err != nil {
				if strings.Contains(err.Error(), "connection refused") {
					time.Sleep(10 * time.Millisecond)
					continue
				}
				return
			}
			io.Copy(io.Discard, resp.Body) // nolint:errcheck
			resp.Body.Close()
			return
		}
	}()
	seenTerm := false
	discon := "none"
	disconSeq := -1
	var quiet <-chan time.Time
	handle := func(m map[string]any) {
		switch {
		case m["type"] == "event" && m["event"] == "stopped":
			seenStopped++
			stops++
		case m["type"] == "event" && m["event"] == "terminated":
			if !seenTerm {
				seenTerm = true
				disconSeq = c.send("disconnect", map[string]any{})
				discon = "sent"
				quiet = time.After(1500 * time.Millisecond)
			}
		case m["type"] == "response" && stepSeqs[num(m["request_seq"])]:
			answered++
		case m["type"] == "response" && num(m["request_seq"]) == disconSeq:
			discon = "answered"
		}
	}
	for _, m := range pending {
		handle(m)
	}
	for {
		if seenStopped > 0 && issued == answered && !seenTerm {
			seenStopped--
			issue()
		}
		select {
		case m, ok := <-c.msgs:
			if !ok { // the adapter exited: nothing more will be answered
				return map[string]any{"stops_seen": stops, "term": seenTerm, "unanswered_steps": issued - answered, "discon": discon}, nil
			}
			handle(m)
		case <-quiet:
			return map[string]any{"stops_seen": stops, "term": seenTerm, "unanswered_steps": issued - answered, "discon": discon}, nil
		case <-deadline:
			return nil, &machineryError{fmt.Sprintf("timeout: stops=%d issued=%d answered=%d term=%v", stops, issued, answered, seenTerm)}
		}
	}
}

func cmdProto(args []string) int {
	fs := flag.NewFlagSet("proto", flag.ExitOnError)
	falco := fs.String("falco", "", "falco binary built from the tree under test")
	progs := fs.String("programs", "", "programs json printed by TLC")
	dir := fs.String("dir", "", "scratch directory")
	fs.Parse(args) // nolint:errcheck
	ps, err := loadPrograms(*progs)
	if err != nil {
		fmt.Fprintln(os.Stderr, "programs:", err)
		return 2
	}
	r := render(ps["P1"])
	os.MkdirAll(*dir, 0o755) // nolint:errcheck
	path := filepath.Join(*dir, "proto.vcl")
	if err := os.WriteFile(path, []byte(r.text), 0o644); err != nil {
		fmt.Fprintln(os.Stderr, err)
		return 2
	}
	out := hx.NewOut()
	defer out.Close()
	err = hx.Lines(func(line []byte) error {
		var s protoSchedule
		if err := json.Unmarshal(line, &s); err != nil {
			return err
		}
		if s.Reps == 0 {
			s.Reps = 1
		}
		for rep := 0; rep < s.Reps; rep++ {
			var o map[string]any
			var rerr error
			for try := 0; try < 3; try++ {
				if o, rerr = runProto(*falco, path, r, s); rerr == nil {
					break
				}
			}
			if rerr != nil {
				return fmt.Errorf("schedule S=%d E=%d: %v", s.S, s.E, rerr)
			}
			if s.Canary {
				o["stops_seen"] = o["stops_seen"].(int) + 1
			}
			allowed := false
			for _, a := range s.Allowed {
				if num(a["stops_seen"]) == o["stops_seen"].(int) && a["term"] == o["term"] &&
					num(a["unanswered_steps"]) == o["unanswered_steps"].(int) && a["discon"] == o["discon"] {
					allowed = true
				}
			}
			res := hx.CaseResult{ID: fmt.Sprintf("proto/S%d/E%d/rep%d", s.S, s.E, rep), Input: map[string]any{"S": s.S, "E": s.E},
				Observed: o, Validated: true, Class: map[string]any{"front": "dap-session"}, Key: fmt.Sprintf("proto/%d/%d/%d", s.S, s.E, rep)}
			if s.Canary {
				res.ID = "canary-proto:" + res.ID
				res.Key = nil
			}
			cls := func(id string) string {
				if allowed {
					return id
				}
				return "unclassified"
			}
			// requirement: the request stops S times, is terminated once, every DAP request gets its response
			if o["stops_seen"].(int) != s.S || o["term"] != true {
				res.Mismatch = append(res.Mismatch, map[string]any{"obs": "session-outcome", "expected_stops": s.S, "got": o, "dev": "unclassified"})
			}
			if o["unanswered_steps"].(int) > 0 {
				res.Mismatch = append(res.Mismatch, map[string]any{"obs": "step-request-never-answered", "n": o["unanswered_steps"], "early": s.E, "dev": cls("K9")})
			}
			if o["discon"] != "answered" {
				res.Mismatch = append(res.Mismatch, map[string]any{"obs": "disconnect-never-answered", "dev": cls("K10")})
			}
			if !allowed {
				res.Drift = append(res.Drift, map[string]any{"obs": "outcome-not-reachable-in-DapSession", "got": o, "allowed": s.Allowed})
			}
			out.Write(res)
		}
		return nil
	})
	if err != nil {
		fmt.Fprintln(os.Stderr, err)
		return 2
	}
	return 0
}

func init() { hx.Commands["proto"] = cmdProto }
