package main

// vhx01 tui -programs FILE -dir DIR < behaviours.jsonl
//
// The same behaviours as `vhx01 dap`, replayed through the terminal front end: debugger.New(interpreter) with the
// console drawing on a tcell simulation screen (hook H2, debugger/verif_on.go), breakpoints written as `// @debugger`
// comments, commands injected as function keys F7 (continue) F8 (step in) F9 (step over) F10 (step out).
// Where the debugger is stopped is read from two places: the node handed to Debugger.Run (a wrapper around the real
// debugger object records it) and the line highlighted on the screen; "stopped" itself is decided from the
// goroutine dump (the interpreter goroutine is in a channel receive inside (*Debugger).breakPoint), never by timing.
//
// vhx01 keys: the key-handling protocol of the console (spec/TuiLoop.tla) - schedules TLC explored, executed on the
// real console; a schedule that freezes it is reported with the goroutine states that prove the deadlock.
import (
	"encoding/json"
	"flag"
	"fmt"
	"io"
	"net/http"
	"os"
	"path/filepath"
	"regexp"
	"runtime"
	"strconv"
	"strings"
	"sync"
	"sync/atomic"
	"time"

	"github.com/gdamore/tcell/v2"
	"github.com/ysugimoto/falco/v2/ast"
	"github.com/ysugimoto/falco/v2/config"
	"github.com/ysugimoto/falco/v2/debugger"
	"github.com/ysugimoto/falco/v2/interpreter"
	icontext "github.com/ysugimoto/falco/v2/interpreter/context"
	"github.com/ysugimoto/falco/v2/resolver"

	"verif/harness/internal/hx"
)

func init() {
	hx.Commands["tui"] = cmdTui
	hx.Commands["keys"] = cmdKeys
}

// spy wraps the real debugger object: it records which node Run was entered with and whether Run has returned
type spy struct {
	real    interpreter.Debugger
	mu      sync.Mutex
	line    int
	entered atomic.Int64
	exited  atomic.Int64
	logs    []int
}

func (s *spy) Run(n ast.Node) interpreter.DebugState {
	s.mu.Lock()
	s.line = n.GetMeta().Token.Line
	s.mu.Unlock()
	s.entered.Add(1)
	st := s.real.Run(n)
	s.exited.Add(1)
	return st
}
func (s *spy) Message(m string) { s.real.Message(m) }
func (s *spy) Log(st *ast.LogStatement, v string) {
	if strings.HasPrefix(v, "n") {
		if id, err := strconv.Atoi(v[1:]); err == nil {
			s.mu.Lock()
			s.logs = append(s.logs, id)
			s.mu.Unlock()
		}
	}
	s.real.Log(st, v)
}

// renderWithMarks renders the program with a `// @debugger` comment line above every breakpoint statement
func renderWithMarks(p program, bps []int) rendered {
	plain := render(p)
	mark := map[int]bool{}
	for _, id := range bps {
		mark[plain.lineOf[id]] = true
	}
	r := rendered{lineOf: map[int]int{}, idOf: map[int]int{}}
	var b strings.Builder
	out := 0
	for i, l := range strings.Split(strings.TrimSuffix(plain.text, "\n"), "\n") {
		if mark[i+1] {
			out++
			b.WriteString("  // @debugger\n")
		}
		out++
		b.WriteString(l + "\n")
		if id, ok := plain.idOf[i+1]; ok {
			r.lineOf[id] = out
			r.idOf[out] = id
		}
	}
	r.text = b.String()
	return r
}

var goroutineHdr = regexp.MustCompile(`(?m)^goroutine \d+ \[([^\]]+)\]:$`)

// goroutineStates returns, for every goroutine whose stack mentions `frame`, its scheduler state
func goroutineStates(frame string) []string {
	buf := make([]byte, 1<<20)
	for {
		n := runtime.Stack(buf, true)
		if n < len(buf) {
			buf = buf[:n]
			break
		}
		buf = make([]byte, 2*len(buf))
	}
	var out []string
	for _, g := range strings.Split(string(buf), "\n\n") {
		if strings.Contains(g, frame) {
			if m := goroutineHdr.FindStringSubmatch(g); m != nil {
				out = append(out, strings.Split(m[1], ",")[0])
			}
		}
	}
	return out
}

// waitingForKey: the request's goroutine is blocked receiving from stateChan inside breakPoint (and not inside the
// Draw that precedes it, which is a channel receive too - in tview's QueueUpdate)
func waitingForKey(c *debugger.Console) bool {
	self := fmt.Sprintf("debugger.(*Console).ServeHTTP(%p", c)
	for _, g := range dump() {
		if strings.Contains(g, self) && strings.Contains(g, "debugger.(*Debugger).breakPoint(") && !strings.Contains(g, "QueueUpdate") &&
			stateOf(g) == "chan receive" {
			return true
		}
	}
	return false
}

func has(states []string, want string) bool {
	for _, s := range states {
		if s == want {
			return true
		}
	}
	return false
}

// highlighted returns the source line number the code view highlights (black on silver line number), 0 if none
func highlighted(sim tcell.SimulationScreen) int {
	cells, w, h := sim.GetContents()
	for y := 0; y < h; y++ {
		var digits strings.Builder
		for x := 0; x < w; x++ {
			c := cells[y*w+x]
			_, bg, _ := c.Style.Decompose()
			if bg == tcell.ColorSilver && len(c.Runes) > 0 {
				if c.Runes[0] >= '0' && c.Runes[0] <= '9' {
					digits.WriteRune(c.Runes[0])
				}
			}
		}
		if digits.Len() > 0 {
			n, _ := strconv.Atoi(digits.String())
			return n
		}
	}
	return 0
}

type console struct {
	c    *debugger.Console
	sim  tcell.SimulationScreen
	spy  *spy
	port int
}

func startConsole(vclPath string) (*console, error) {
	rslv, err := resolver.NewFileResolvers(vclPath, []string{})
	if err != nil || len(rslv) != 1 {
		return nil, fmt.Errorf("resolver: %v", err)
	}
	ip := interpreter.New(icontext.WithResolver(rslv[0]))
	c := debugger.New(ip)
	sp := &spy{real: ip.Debugger}
	ip.Debugger = sp
	sim := tcell.NewSimulationScreen("UTF-8")
	c.VerifSetScreen(sim)
	sim.SetSize(120, 60)
	port := freePort()
	go c.Run(&config.SimulatorConfig{Port: port}) // nolint:errcheck
	return &console{c: c, sim: sim, spy: sp, port: port}, nil
}

func (k *console) stop() { k.sim.InjectKey(tcell.KeyEscape, 0, tcell.ModNone) }

func (k *console) request(done chan<- string) {
	cl := &http.Client{Timeout: 60 * time.Second, Transport: &http.Transport{DisableKeepAlives: true}}
	for i := 0; i < 300; i++ {
		req, _ := http.NewRequest("GET", fmt.Sprintf("http://127.0.0.1:%d/x", k.port), nil)
		req.Header.Set("T", "1")
		resp, err := cl.Do(req)
		if err != nil {
			if strings.Contains(err.Error(), "connection refused") {
				time.Sleep(10 * time.Millisecond)
				continue
			}
			done <- "error:" + err.Error()
			return
		}
		body, rerr := io.ReadAll(resp.Body)
		resp.Body.Close()
		switch {
		case rerr != nil:
			done <- "lost-body"
		case !json.Valid(body):
			done <- "invalid-body"
		default:
			done <- "status:" + strconv.Itoa(resp.StatusCode)
		}
		return
	}
	done <- "never-connected"
}

var keyOf = map[string]tcell.Key{"Pass": tcell.KeyF7, "In": tcell.KeyF8, "Over": tcell.KeyF9, "Out": tcell.KeyF10}

type tuiObs struct {
	Stops   []obsStop `json:"stops"`
	Logs    []int     `json:"logs"`
	HTTP    string    `json:"http"`
	Display []int     `json:"display"` // line highlighted on the screen at each stop
}

func runTui(vclPath string, r rendered, b behaviour) (*tuiObs, error) {
	k, err := startConsole(vclPath)
	if err != nil {
		return nil, &machineryError{err.Error()}
	}
	defer k.stop()
	obs := &tuiObs{}
	done := make(chan string, 1)
	go k.request(done)
	deadline := time.Now().Add(40 * time.Second)
	if os.Getenv("VHX_DEBUG") != "" {
		deadline = time.Now().Add(3 * time.Second)
	}
	diverged := false
	for {
		select {
		case s := <-done:
			obs.HTTP = s
			k.spy.mu.Lock()
			obs.Logs = append([]int(nil), k.spy.logs...)
			k.spy.mu.Unlock()
			return obs, nil
		default:
		}
		if time.Now().After(deadline) {
			return nil, &machineryError{fmt.Sprintf("timeout: %d stops so far", len(obs.Stops))}
		}
		ent, ex := k.spy.entered.Load(), k.spy.exited.Load()
		if ent == ex+1 && waitingForKey(k.c) {
			k.spy.mu.Lock()
			line := k.spy.line
			logs := len(k.spy.logs)
			k.spy.mu.Unlock()
			o := obsStop{N: r.idOf[line], Line: line, Logs: logs}
			obs.Stops = append(obs.Stops, o)
			obs.Display = append(obs.Display, highlighted(k.sim))
			n := len(obs.Stops)
			next := "Pass"
			if !diverged && n <= len(b.Stops) && b.Stops[n-1].N == o.N && b.Stops[n-1].Logs == o.Logs {
				next = b.Stops[n-1].Cmd
			} else {
				diverged = true
			}
			k.sim.InjectKey(keyOf[next], 0, tcell.ModNone)
			// the key is consumed when Run returns
			for k.spy.exited.Load() < ent {
				if time.Now().After(deadline) {
					if os.Getenv("VHX_DEBUG") != "" {
						for _, g := range dump() {
							if strings.Contains(g, "debugger.") || strings.Contains(g, "tview.") {
								fmt.Fprintln(os.Stderr, g)
							}
						}
					}
					return nil, &machineryError{"timeout: key not consumed"}
				}
				time.Sleep(200 * time.Microsecond)
			}
			continue
		}
		time.Sleep(200 * time.Microsecond)
	}
}

func compareTui(b behaviour, obs *tuiObs) hx.CaseResult {
	res := hx.CaseResult{Validated: true}
	res.Input = map[string]any{"prog": b.Prog, "bps": b.Bps, "cmds": cmds(b), "front": "tui"}
	res.Observed = obs
	res.Class = map[string]any{"prog": b.Prog, "front": "tui"}
	res.Key = map[string]any{"prog": b.Prog, "bps": b.Bps, "cmds": cmds(b), "front": "tui"}
	mis := func(m map[string]any) { res.Mismatch = append(res.Mismatch, m) }
	if !eqInts(obs.Logs, b.Logs) {
		mis(map[string]any{"obs": "execution-changed", "expected": b.Logs, "got": obs.Logs})
	}
	if !strings.HasPrefix(obs.HTTP, "status:") {
		mis(map[string]any{"obs": "http-response", "expected": "a response", "got": obs.HTTP})
	}
	follows := true
	for k := 1; k <= len(b.Stops)+1 && follows; k++ {
		var o *obsStop
		if k <= len(obs.Stops) {
			o = &obs.Stops[k-1]
		}
		var m *expStop
		if k <= len(b.Stops) {
			m = &b.Stops[k-1]
		}
		rq := b.Req[k-1]
		sameAsMech := (o == nil && m == nil) || (o != nil && m != nil && o.N == m.N && o.Logs == m.Logs)
		sameAsReq := (o == nil && rq.N == 0) || (o != nil && rq.N != 0 && o.N == rq.N && o.Logs == rq.Logs)
		if !sameAsMech {
			res.Drift = append(res.Drift, map[string]any{"obs": "stop-differs-from-mechanism", "k": k, "expected": m, "got": o})
			follows = false
		}
		if !sameAsReq {
			d := b.Dev[k-1]
			item := map[string]any{"obs": "stop-differs-from-requirement", "k": k, "cmd": d.Cmd, "expected": rq, "got": o}
			if sameAsMech && d.ID != "none" {
				item["dev"] = d.ID
			} else {
				item["dev"] = "unclassified"
			}
			mis(item)
		}
		// requirement: the screen shows the line the debugger is stopped at
		if o != nil && k <= len(obs.Display) && obs.Display[k-1] != o.Line {
			mis(map[string]any{"obs": "display-shows-another-line", "k": k, "expected": o.Line, "got": obs.Display[k-1]})
		}
	}
	return res
}

func elifIDs(p program) map[int]bool {
	out := map[int]bool{}
	var walk func(ss []stmt)
	walk = func(ss []stmt) {
		for _, s := range ss {
			for i, a := range s.Arms {
				if i > 0 {
					out[a.N] = true
				}
				walk(a.Body)
			}
			walk(s.Els)
		}
	}
	for _, ss := range p.Subs {
		walk(ss)
	}
	return out
}

func cmdTui(args []string) int {
	fs := flag.NewFlagSet("tui", flag.ExitOnError)
	progs := fs.String("programs", "", "programs json printed by TLC")
	dir := fs.String("dir", "", "scratch directory for the VCL files")
	fs.Parse(args) // nolint:errcheck
	ps, err := loadPrograms(*progs)
	if err != nil {
		fmt.Fprintln(os.Stderr, "programs:", err)
		return 2
	}
	out := hx.NewOut()
	defer out.Close()
	n, failed, skipped := 0, 0, 0
	err = hx.Lines(func(line []byte) error {
		var b behaviour
		if err := json.Unmarshal(line, &b); err != nil {
			return err
		}
		n++
		p := ps[b.Prog]
		el := elifIDs(p)
		for _, id := range b.Bps {
			if el[id] { // a comment above `} else if` is not attached to the else-if node: no @debugger mark possible there
				skipped++
				return nil
			}
		}
		r := renderWithMarks(p, b.Bps)
		d := filepath.Join(*dir, fmt.Sprintf("t%d", n))
		os.MkdirAll(d, 0o755) // nolint:errcheck
		path := filepath.Join(d, "main.vcl")
		if err := os.WriteFile(path, []byte(r.text), 0o644); err != nil {
			return err
		}
		var obs *tuiObs
		var rerr error
		for try := 0; try < 2; try++ {
			if obs, rerr = runTui(path, r, b); rerr == nil {
				break
			}
		}
		if rerr != nil {
			failed++
			fmt.Fprintf(os.Stderr, "behaviour %d (%s %v %s): %v\n", n, b.Prog, b.Bps, cmds(b), rerr)
			return nil
		}
		if b.Canary == "stop" && len(obs.Stops) > 0 {
			obs.Stops[len(obs.Stops)-1].N += 1000
		}
		res := compareTui(b, obs)
		res.ID = fmt.Sprintf("tui:%s/%v/%s", b.Prog, b.Bps, cmds(b))
		if b.Canary != "" {
			res.ID = "canary-" + b.Canary + ":" + res.ID
			res.Key = nil
		}
		out.Write(res)
		return nil
	})
	if err != nil {
		fmt.Fprintln(os.Stderr, err)
		return 2
	}
	fmt.Fprintf(os.Stderr, "tui: %d behaviours, %d skipped (breakpoint on an else-if arm), %d could not be executed\n", n, skipped, failed)
	if failed > 0 {
		return 3
	}
	return 0
}

// ---------------------------------------------------------------- key protocol (spec/TuiLoop.tla)

type keySchedule struct {
	S       int      `json:"S"`       // stops of the request
	K       int      `json:"K"`       // keys pressed in one burst once the first stop is on the screen
	Allowed []string `json:"allowed"` // outcomes TLC found reachable for (S, K): "completes", "frozen"
	Reps    int      `json:"reps"`
	Canary  bool     `json:"canary,omitempty"`
}

func dump() []string {
	buf := make([]byte, 1<<20)
	for {
		n := runtime.Stack(buf, true)
		if n < len(buf) {
			buf = buf[:n]
			break
		}
		buf = make([]byte, 2*len(buf))
	}
	return strings.Split(string(buf), "\n\n")
}

func stateOf(g string) string {
	if m := goroutineHdr.FindStringSubmatch(g); m != nil {
		return strings.Split(m[1], ",")[0]
	}
	return ""
}

// frozenProof looks, in ONE goroutine dump, for the cycle: the event loop blocked sending a key on stateChan and the
// request's goroutine blocked in Application.QueueUpdate (waiting for the event loop). Both at once is permanent.
func frozenProof(c *debugger.Console) (bool, map[string]any) {
	var loop, reqg string
	self := fmt.Sprintf("(%p", c) // consoles frozen by earlier schedules are still around: only this console's goroutines count
	for _, g := range dump() {
		if !strings.Contains(g, "debugger.(*Console).keyEventHandler"+self) && !strings.Contains(g, "debugger.(*Console).ServeHTTP"+self) {
			continue
		}
		if strings.Contains(g, "debugger.(*Console).keyEventHandler") && stateOf(g) == "chan send" {
			loop = "event loop: [chan send] in debugger.(*Console).keyEventHandler"
		}
		if strings.Contains(g, "tview.(*Application).QueueUpdate") && strings.HasPrefix(stateOf(g), "chan") {
			for _, f := range []string{"debugger.(*Debugger).breakPoint", "debugger.(*Console).deactivate", "debugger.(*Console).activate"} {
				if strings.Contains(g, f) {
					reqg = "request goroutine: [" + stateOf(g) + "] in tview.(*Application).QueueUpdate called from " + f
				}
			}
		}
	}
	return loop != "" && reqg != "", map[string]any{"loop": loop, "request": reqg}
}

func runKeys(path string, s keySchedule) (string, map[string]any, error) {
	k, err := startConsole(path)
	if err != nil {
		return "", nil, err
	}
	done := make(chan string, 1)
	go k.request(done)
	key := func(i int) tcell.Key { // the i-th key (1-based): step over until the last stop, then continue
		if i < s.S {
			return tcell.KeyF9
		}
		return tcell.KeyF7
	}
	stopped := func() bool {
		return k.spy.entered.Load() == k.spy.exited.Load()+1 && waitingForKey(k.c)
	}
	t0 := time.Now()
	for !stopped() {
		if time.Since(t0) > 20*time.Second {
			return "", nil, fmt.Errorf("the first breakpoint was never reached")
		}
		time.Sleep(500 * time.Microsecond)
	}
	injected := 0
	for i := 0; i < s.K; i++ {
		injected++
		k.sim.InjectKey(key(injected), 0, tcell.ModNone)
	}
	deadline := time.Now().Add(30 * time.Second)
	var since time.Time
	for {
		select {
		case <-done:
			k.stop()
			return "completes", nil, nil
		default:
		}
		if fr, proof := frozenProof(k.c); fr {
			return "frozen", proof, nil // a frozen console cannot be stopped; it is abandoned
		}
		if time.Now().After(deadline) {
			return "", nil, fmt.Errorf("neither completed nor provably frozen after 30s")
		}
		// one key per further stop, pressed only after the stop has been on the screen, unanswered, for 50ms
		if stopped() && len(goroutineStates(fmt.Sprintf("debugger.(*Console).keyEventHandler(%p", k.c))) == 0 {
			if since.IsZero() {
				since = time.Now()
			} else if time.Since(since) > 50*time.Millisecond {
				injected++
				k.sim.InjectKey(key(injected), 0, tcell.ModNone)
				since = time.Time{}
			}
		} else {
			since = time.Time{}
		}
		time.Sleep(500 * time.Microsecond)
	}
}

func cmdKeys(args []string) int {
	fs := flag.NewFlagSet("keys", flag.ExitOnError)
	progs := fs.String("programs", "", "programs json printed by TLC")
	dir := fs.String("dir", "", "scratch directory")
	fs.Parse(args) // nolint:errcheck
	ps, err := loadPrograms(*progs)
	if err != nil {
		fmt.Fprintln(os.Stderr, "programs:", err)
		return 2
	}
	r := renderWithMarks(ps["P1"], []int{1})
	os.MkdirAll(*dir, 0o755) // nolint:errcheck
	path := filepath.Join(*dir, "keys.vcl")
	if err := os.WriteFile(path, []byte(r.text), 0o644); err != nil {
		fmt.Fprintln(os.Stderr, err)
		return 2
	}
	out := hx.NewOut()
	defer out.Close()
	err = hx.Lines(func(line []byte) error {
		var s keySchedule
		if err := json.Unmarshal(line, &s); err != nil {
			return err
		}
		if s.Reps == 0 {
			s.Reps = 1
		}
		for rep := 0; rep < s.Reps; rep++ {
			observed, proof, err := runKeys(path, s)
			if err != nil {
				return fmt.Errorf("schedule S=%d K=%d: %v", s.S, s.K, err)
			}
			if s.Canary { // report the opposite of what happened: the comparison must notice
				observed = map[string]string{"completes": "frozen", "frozen": "completes"}[observed]
			}
			allowed := false
			for _, a := range s.Allowed {
				allowed = allowed || a == observed
			}
			res := hx.CaseResult{ID: fmt.Sprintf("keys/S%d/K%d/rep%d", s.S, s.K, rep), Input: s, Validated: true,
				Observed: map[string]any{"outcome": observed, "proof": proof}, Class: map[string]any{"front": "tui-keys"},
				Key: fmt.Sprintf("keys/%d/%d/%d", s.S, s.K, rep)}
			if s.Canary {
				res.ID = "canary-keys:" + res.ID
				res.Key = nil
			}
			// requirement: whatever keys the user presses, the request completes and the console stays responsive
			if observed != "completes" {
				item := map[string]any{"obs": "console-frozen", "S": s.S, "K": s.K, "proof": proof, "dev": "unclassified"}
				if allowed {
					item["dev"] = "K8" // TLC found this outcome reachable for this schedule
				}
				res.Mismatch = append(res.Mismatch, item)
			}
			if !allowed {
				res.Drift = append(res.Drift, map[string]any{"obs": "outcome-not-reachable-in-TuiLoop", "allowed": s.Allowed, "got": observed})
			}
			out.Write(res)
		}
		return nil
	})
	if err != nil {
		fmt.Fprintln(os.Stderr, err)
		return 2
	}
	return 0
}
