package main

// X02 - expansion of the #FASTLY <scope> macro into scoped snippets (extension, spec/Expand.tla).
//
//	vhx02 replay < behaviours.jsonl
//
// Every behaviour TLC explored (macro position, number of snippets per scope, restart site, number of restarts)
// is rendered as a VCL program plus scoped snippets, one request is served by the real interpreter
// (interpreter.New + context.WithSnippets + ServeHTTP) and the log lines are compared with the two sequences
// TLC printed: the requirement's and the mechanism's.
import (
	"encoding/json"
	"fmt"
	"net/http/httptest"
	"os"
	"strings"

	"github.com/ysugimoto/falco/v2/ast"
	"github.com/ysugimoto/falco/v2/interpreter"
	"github.com/ysugimoto/falco/v2/interpreter/context"
	"github.com/ysugimoto/falco/v2/resolver"
	"github.com/ysugimoto/falco/v2/snippet"

	"verif/harness/internal/hx"
)

type behaviour struct {
	Pos    string   `json:"pos"`
	Nsnip  int      `json:"nsnip"`
	Site   string   `json:"site"`
	R      int      `json:"R"`
	Dev    string   `json:"dev"`
	Mech   []string `json:"mech"`
	Req    []string `json:"req"`
	Canary bool     `json:"canary,omitempty"`
}

type logDebugger struct {
	interpreter.DefaultDebugger
	lines *[]string
}

func (d logDebugger) Message(string) {}
func (d logDebugger) Log(_ *ast.LogStatement, v string) {
	if strings.HasPrefix(v, "b:") || strings.HasPrefix(v, "s:") {
		*d.lines = append(*d.lines, v)
	}
}

// macro spellings: the code trims " */#" and compares case-insensitively
var spellings = []string{"#FASTLY %s", "# fastly %s", "// FASTLY %s", "/* FASTLY %s */", "#Fastly %s"}

func renderSub(b behaviour, name, scope string, variant int, terminal string) string {
	var s strings.Builder
	macro := fmt.Sprintf(spellings[variant%len(spellings)], strings.ToUpper(scope))
	if variant%len(spellings) == 1 || variant%len(spellings) == 4 {
		macro = fmt.Sprintf(spellings[variant%len(spellings)], scope)
	}
	fmt.Fprintf(&s, "sub %s {\n", name)
	n := 3
	if b.Pos == "only" {
		n = 0
	}
	if b.Pos == "only" {
		s.WriteString("  " + macro + "\n")
	}
	for k := 1; k <= n; k++ {
		if (b.Pos == "lead1" && k == 1) || (b.Pos == "lead2" && k == 2) || (b.Pos == "lead3" && k == 3) ||
			(b.Pos == "twice" && k <= 2) {
			s.WriteString("  " + macro + "\n")
		}
		// decoys that must not expand: the macro of ANOTHER scope, and the macro words inside a sentence
		if k == 2 && b.Pos != "lead2" && b.Pos != "twice" {
			other := "DELIVER"
			if scope == "deliver" {
				other = "RECV"
			}
			s.WriteString("  #FASTLY " + other + "\n")
		}
		if k == 3 && b.Pos != "lead3" {
			s.WriteString("  # keep the FASTLY " + strings.ToUpper(scope) + " macro of this subroutine\n")
		}
		fmt.Fprintf(&s, "  log \"b:%s:%d\";\n", scope, k)
	}
	if b.Site == scope {
		fmt.Fprintf(&s, "  if (req.restarts < %d) {\n    restart;\n  }\n", b.R)
	}
	if terminal != "" {
		s.WriteString("  " + terminal + "\n")
	}
	if b.Pos == "tail" {
		s.WriteString("  " + macro + "\n")
	}
	s.WriteString("}\n")
	return s.String()
}

func program(b behaviour, variant int) (string, *snippet.Snippets) {
	vcl := "backend b0 { .host = \"127.0.0.1\"; .port = \"1\"; }\n" +
		renderSub(b, "vcl_recv", "recv", variant, "error 601;") +
		renderSub(b, "vcl_deliver", "deliver", variant+1, "")
	sn := &snippet.Snippets{ScopedSnippets: snippet.ScopedSnippets{}, IncludeSnippets: snippet.IncludeSnippets{}}
	for _, scope := range []string{"recv", "deliver"} {
		for j := 1; j <= b.Nsnip; j++ {
			sn.ScopedSnippets.Add(scope, snippet.Item{
				Name:     fmt.Sprintf("snip_%s_%d", scope, j),
				Data:     fmt.Sprintf("log \"s:%s:%d\";\n", scope, j),
				Priority: int64(100 + j),
			})
		}
	}
	return vcl, sn
}

func eq(a, b []string) bool {
	if len(a) != len(b) {
		return false
	}
	for i := range a {
		if a[i] != b[i] {
			return false
		}
	}
	return true
}

func cmdReplay(args []string) int {
	out := hx.NewOut()
	defer out.Close()
	n := 0
	err := hx.Lines(func(line []byte) error {
		var b behaviour
		if err := json.Unmarshal(line, &b); err != nil {
			return err
		}
		n++
		for variant := 0; variant < len(spellings); variant++ {
			vcl, sn := program(b, variant)
			var lines []string
			ip := interpreter.New(context.WithResolver(resolver.NewStaticResolver("main", vcl)), context.WithSnippets(sn))
			ip.Debugger = logDebugger{lines: &lines}
			// two requests through the same interpreter: the second must print what the first printed
			var both [2][]string
			crashed := ""
			for q := 0; q < 2 && crashed == ""; q++ {
				lines = nil
				func() {
					defer func() {
						if r := recover(); r != nil {
							crashed = fmt.Sprint(r)
						}
					}()
					rec := httptest.NewRecorder()
					ip.ServeHTTP(rec, httptest.NewRequest("GET", "http://example.com/x", nil))
				}()
				both[q] = append([]string(nil), lines...)
			}
			if b.Canary {
				both[0] = append(both[0], "s:recv:9")
			}
			res := hx.CaseResult{
				ID:        fmt.Sprintf("%s/n%d/%s/R%d/v%d", b.Pos, b.Nsnip, b.Site, b.R, variant),
				Input:     map[string]any{"pos": b.Pos, "nsnip": b.Nsnip, "site": b.Site, "R": b.R, "variant": variant, "vcl": vcl},
				Observed:  map[string]any{"first": both[0], "second": both[1], "crashed": crashed},
				Class:     map[string]any{"pos": b.Pos, "site": b.Site},
				Key:       fmt.Sprintf("%s/%d/%s/%d/%d", b.Pos, b.Nsnip, b.Site, b.R, variant),
				Validated: true,
			}
			if b.Canary {
				res.ID = "canary:" + res.ID
				res.Key = nil
			}
			if crashed != "" {
				res.Mismatch = append(res.Mismatch, map[string]any{"obs": "crash", "got": crashed})
			}
			followsMech := eq(both[0], b.Mech)
			if !eq(both[0], b.Req) {
				item := map[string]any{"obs": "expansion-differs-from-requirement", "expected": b.Req, "got": both[0]}
				if followsMech && b.Dev != "none" {
					item["dev"] = b.Dev
				} else {
					item["dev"] = "unclassified"
				}
				res.Mismatch = append(res.Mismatch, item)
			}
			if !followsMech {
				res.Drift = append(res.Drift, map[string]any{"obs": "expansion-differs-from-mechanism", "expected": b.Mech, "got": both[0]})
			}
			if crashed == "" && !eq(both[0], both[1]) {
				res.Mismatch = append(res.Mismatch, map[string]any{"obs": "second-request-differs", "expected": both[0], "got": both[1]})
			}
			out.Write(res)
			if b.Canary {
				break
			}
		}
		return nil
	})
	if err != nil {
		fmt.Fprintln(os.Stderr, err)
		return 2
	}
	if n == 0 {
		fmt.Fprintln(os.Stderr, "no behaviours")
		return 2
	}
	return 0
}

func main() {
	hx.Commands["replay"] = cmdReplay
	hx.Main()
}
