module verif/harness

go 1.25.5

require github.com/ysugimoto/falco/v2 v2.0.0-00010101000000-000000000000

require (
	github.com/avct/uasurfer v0.0.0-20191028135549-26b5daa857f1
	github.com/fatih/color v1.12.0
	github.com/google/go-cmp v0.5.9
	github.com/google/uuid v1.6.0
	github.com/kyokomi/emoji v2.2.4+incompatible
	github.com/mattn/go-colorable v0.1.8
	github.com/pkg/errors v0.9.1
	github.com/pquerna/otp v1.4.0
	github.com/rs/xid v1.5.0
	github.com/ysugimoto/twist v0.10.2
	golang.org/x/net v0.38.0
	golang.org/x/sync v0.12.0
	golang.org/x/sys v0.31.0 // indirect
	github.com/c-bata/go-prompt v0.2.6
	github.com/fsnotify/fsnotify v1.7.0
	github.com/gdamore/tcell/v2 v2.6.0
	github.com/go-yaml/yaml v2.1.0+incompatible
	github.com/gobwas/glob v0.2.3
	github.com/k0kubun/pp v3.0.1+incompatible
	github.com/olekukonko/tablewriter v0.0.5
	github.com/pierrec/xxHash v0.1.5
	github.com/pion/dtls/v2 v2.2.12
	github.com/rivo/tview v0.0.0-20230814110005-ccc2c8119703
	go.elara.ws/pcre v0.0.0-20230805032557-4ce849193f64
	gopkg.in/yaml.v3 v3.0.1
	github.com/BurntSushi/toml v1.3.2 // indirect
	github.com/boombuler/barcode v1.0.1-0.20190219062509-6c824513bacc // indirect
	github.com/gdamore/encoding v1.0.0 // indirect
	github.com/go-ini/ini v1.67.0 // indirect
	github.com/google/go-dap v0.12.0
	github.com/k0kubun/colorstring v0.0.0-20150214042306-9440f1994b88 // indirect
	github.com/kr/text v0.2.0 // indirect
	github.com/lucasb-eyer/go-colorful v1.2.0 // indirect
	github.com/mattn/go-isatty v0.0.12 // indirect
	github.com/mattn/go-runewidth v0.0.14 // indirect
	github.com/mattn/go-tty v0.0.3 // indirect
	github.com/pkg/term v1.2.0-beta.2 // indirect
	github.com/remyoudompheng/bigfft v0.0.0-20200410134404-eec4a21b6bb0 // indirect
	github.com/rivo/uniseg v0.4.3 // indirect
	golang.org/x/term v0.30.0 // indirect
	golang.org/x/text v0.23.0 // indirect
	modernc.org/libc v1.17.0 // indirect
	modernc.org/mathutil v1.4.1 // indirect
	modernc.org/memory v1.2.0 // indirect
)

replace github.com/ysugimoto/falco/v2 => /repo

replace go.elara.ws/pcre => github.com/dip-proto/go-pcre v0.0.0-20260204122309-dcbff9cb6240
