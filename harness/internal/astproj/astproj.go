// Package astproj projects a falco AST onto the abstract syntax of spec/Grammar.tla (DESIGN appendix A): node
// kind, identifiers, operators, literal values, children in source order.  Everything presentational is left out:
// *ast.Meta (tokens, positions, nesting, comments, blank-line counts), InfixExpression.Explicit, IfStatement.Keyword,
// ReturnStatement.HasParenthesis, TableProperty.HasComma, String.LongString/Delimiter, the source spelling of
// numbers, SwitchStatement.Default.  The JSON shape is documented in notes/C02.md; it is what TLC prints for a
// generated program (Grammar!StripStmt), so projections are compared as canonical JSON (Canon).
package astproj

import (
	"encoding/json"
	"fmt"
	"strconv"

	"github.com/ysugimoto/falco/v2/ast"
)

type M = map[string]any

// Options: Juxt keeps the one presentational bit C02's trace validation needs to re-render an expression - a
// concatenation written without "+" is reported with op "juxt".
type Options struct {
	Juxt bool
}

var none = M{"k": "none"}

// Project projects a *ast.VCL, a statement, a declaration or an expression.
func Project(n any) any { return Options{}.Project(n) }

// Canon is the canonical JSON text of a projection (or of a tree decoded from TLC's output).
func Canon(v any) string {
	b, err := json.Marshal(v)
	if err != nil {
		return "!" + err.Error()
	}
	var x any
	if err := json.Unmarshal(b, &x); err != nil {
		return "!" + err.Error()
	}
	b, _ = json.Marshal(x) // maps are written with sorted keys
	return string(b)
}

func identOrNone(i *ast.Ident) any {
	if i == nil {
		return none
	}
	return M{"k": "ident", "v": i.Value}
}

func (o Options) exprOrNone(e ast.Expression) any {
	if e == nil || isNil(e) {
		return none
	}
	return o.Project(e)
}

func isNil(e any) bool {
	switch t := e.(type) {
	case *ast.Ident:
		return t == nil
	case *ast.String:
		return t == nil
	case *ast.Integer:
		return t == nil
	case *ast.FunctionCallExpression:
		return t == nil
	case *ast.BlockStatement:
		return t == nil
	}
	return false
}

func (o Options) exprs(es []ast.Expression) []any {
	out := make([]any, 0, len(es))
	for _, e := range es {
		out = append(out, o.Project(e))
	}
	return out
}

func (o Options) stmts(ss []ast.Statement) []any {
	out := make([]any, 0, len(ss))
	for _, s := range ss {
		out = append(out, o.Project(s))
	}
	return out
}

func (o Options) block(b *ast.BlockStatement) any {
	if b == nil {
		return none
	}
	return M{"k": "block", "stmts": o.stmts(b.Statements)}
}

func str(i *ast.Ident) string {
	if i == nil {
		return "<nil>"
	}
	return i.Value
}

// Project (see package comment).
func (o Options) Project(n any) any {
	switch t := n.(type) {
	case *ast.VCL:
		return M{"k": "vcl", "stmts": o.stmts(t.Statements)}
	// ---- expressions
	case *ast.Ident:
		return M{"k": "ident", "v": t.Value}
	case *ast.String:
		return M{"k": "string", "v": t.Value}
	case *ast.IP:
		return M{"k": "ip", "v": t.Value}
	case *ast.Integer:
		return M{"k": "int", "v": strconv.FormatInt(t.Value, 10)}
	case *ast.Float:
		return M{"k": "float", "v": strconv.FormatFloat(t.Value, 'f', -1, 64)}
	case *ast.RTime:
		return M{"k": "rtime", "v": t.Value}
	case *ast.Boolean:
		return M{"k": "bool", "b": t.Value}
	case *ast.PrefixExpression:
		return M{"k": "prefix", "op": t.Operator, "right": o.Project(t.Right)}
	case *ast.InfixExpression:
		op := t.Operator
		if o.Juxt && op == "+" && !t.Explicit {
			op = "juxt"
		}
		return M{"k": "infix", "op": op, "left": o.Project(t.Left), "right": o.Project(t.Right)}
	case *ast.PostfixExpression:
		return M{"k": "postfix", "op": t.Operator, "left": o.Project(t.Left)}
	case *ast.GroupedExpression:
		return M{"k": "group", "e": o.Project(t.Right)}
	case *ast.IfExpression:
		return M{"k": "ifx", "c": o.Project(t.Condition), "a": o.Project(t.Consequence), "b": o.Project(t.Alternative)}
	case *ast.FunctionCallExpression:
		return M{"k": "fcallx", "fn": str(t.Function), "args": o.exprs(t.Arguments)}
	// ---- statements
	case *ast.BlockStatement:
		return o.block(t)
	case *ast.SetStatement:
		return M{"k": "set", "ident": str(t.Ident), "op": t.Operator.Operator, "value": o.Project(t.Value)}
	case *ast.AddStatement:
		return M{"k": "add", "ident": str(t.Ident), "op": t.Operator.Operator, "value": o.Project(t.Value)}
	case *ast.UnsetStatement:
		return M{"k": "unset", "ident": str(t.Ident)}
	case *ast.RemoveStatement:
		return M{"k": "remove", "ident": str(t.Ident)}
	case *ast.DeclareStatement:
		return M{"k": "declare", "name": str(t.Name), "vtype": str(t.ValueType), "value": o.exprOrNone(t.Value)}
	case *ast.CallStatement:
		return M{"k": "call", "sub": str(t.Subroutine), "args": o.exprs(t.Arguments)}
	case *ast.FunctionCallStatement:
		return M{"k": "fcall", "fn": str(t.Function), "args": o.exprs(t.Arguments)}
	case *ast.ErrorStatement:
		return M{"k": "error", "code": o.exprOrNone(t.Code), "arg": o.exprOrNone(t.Argument)}
	case *ast.EsiStatement:
		return M{"k": "esi"}
	case *ast.RestartStatement:
		return M{"k": "restart"}
	case *ast.BreakStatement:
		return M{"k": "break"}
	case *ast.FallthroughStatement:
		return M{"k": "fallthrough"}
	case *ast.LogStatement:
		return M{"k": "log", "value": o.Project(t.Value)}
	case *ast.SyntheticStatement:
		return M{"k": "synthetic", "value": o.Project(t.Value)}
	case *ast.SyntheticBase64Statement:
		return M{"k": "synthetic64", "value": o.Project(t.Value)}
	case *ast.GotoStatement:
		return M{"k": "goto", "dest": str(t.Destination)}
	case *ast.GotoDestinationStatement:
		return M{"k": "label", "name": str(t.Name)}
	case *ast.ReturnStatement:
		return M{"k": "return", "expr": o.exprOrNone(t.ReturnExpression)}
	case *ast.IncludeStatement:
		return M{"k": "include", "module": t.Module.Value}
	case *ast.ImportStatement:
		return M{"k": "import", "name": str(t.Name)}
	case *ast.IfStatement:
		elifs := make([]any, 0, len(t.Another))
		for _, a := range t.Another {
			elifs = append(elifs, M{"cond": o.Project(a.Condition), "then": o.block(a.Consequence)})
		}
		var els any = none
		if t.Alternative != nil {
			els = o.block(t.Alternative.Consequence)
		}
		return M{"k": "if", "cond": o.Project(t.Condition), "then": o.block(t.Consequence), "elifs": elifs, "else": els}
	case *ast.SwitchStatement:
		cases := make([]any, 0, len(t.Cases))
		for _, c := range t.Cases {
			var test any = none
			if c.Test != nil {
				test = M{"k": "test", "op": c.Test.Operator, "right": o.Project(c.Test.Right)}
			}
			cases = append(cases, M{"test": test, "stmts": o.stmts(c.Statements), "fallthrough": c.Fallthrough})
		}
		return M{"k": "switch", "control": o.Project(t.Control.Expression), "cases": cases}
	// ---- declarations
	case *ast.AclDeclaration:
		cidrs := make([]any, 0, len(t.CIDRs))
		for _, c := range t.CIDRs {
			var mask any = none
			if c.Mask != nil {
				mask = o.Project(c.Mask)
			}
			cidrs = append(cidrs, M{"inverse": c.Inverse != nil && c.Inverse.Value, "ip": c.IP.Value, "mask": mask})
		}
		return M{"k": "acl", "name": str(t.Name), "cidrs": cidrs}
	case *ast.BackendProperty:
		return M{"k": "prop", "key": str(t.Key), "value": o.Project(t.Value)}
	case *ast.BackendProbeObject:
		props := make([]any, 0, len(t.Values))
		for _, p := range t.Values {
			props = append(props, o.Project(p))
		}
		return M{"k": "probe", "props": props}
	case *ast.BackendDeclaration:
		props := make([]any, 0, len(t.Properties))
		for _, p := range t.Properties {
			props = append(props, o.Project(p))
		}
		return M{"k": "backend", "name": str(t.Name), "props": props}
	case *ast.DirectorProperty:
		return M{"k": "prop", "key": str(t.Key), "value": o.Project(t.Value)}
	case *ast.DirectorBackendObject:
		props := make([]any, 0, len(t.Values))
		for _, p := range t.Values {
			props = append(props, o.Project(p))
		}
		return M{"k": "backendobj", "props": props}
	case *ast.DirectorDeclaration:
		return M{"k": "director", "name": str(t.Name), "type": str(t.DirectorType), "props": o.exprs(t.Properties)}
	case *ast.TableDeclaration:
		props := make([]any, 0, len(t.Properties))
		for _, p := range t.Properties {
			props = append(props, M{"key": p.Key.Value, "value": o.Project(p.Value)})
		}
		return M{"k": "table", "name": str(t.Name), "vtype": identOrNone(t.ValueType), "props": props}
	case *ast.SubroutineDeclaration:
		params := make([]any, 0, len(t.Parameters))
		for _, p := range t.Parameters {
			params = append(params, M{"type": str(p.Type), "name": str(p.Name)})
		}
		return M{"k": "sub", "name": str(t.Name), "params": params, "rtype": identOrNone(t.ReturnType), "block": o.block(t.Block)}
	case *ast.PenaltyboxDeclaration:
		return M{"k": "penaltybox", "name": str(t.Name)}
	case *ast.RatecounterDeclaration:
		return M{"k": "ratecounter", "name": str(t.Name)}
	case nil:
		return none
	}
	return M{"k": fmt.Sprintf("?%T", n)}
}
