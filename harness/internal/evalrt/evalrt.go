// Package evalrt binds programs emitted by spec/EvalGen.tla (and the totality
// cases of spec/Total.tla) to falco's interpreter: it renders the abstract
// statements as VCL text (concretize), executes them one top-level statement at
// a time through the exported Interpreter API, and projects the variable pool
// back to the abstract values of spec/Eval.tla (project).  It contains no
// expected values: those come from TLC.
package evalrt

import (
	"encoding/json"
	"fmt"
	"math/rand"
	ghttp "net/http"
	"strconv"
	"strings"

	"github.com/ysugimoto/falco/v2/ast"
	"github.com/ysugimoto/falco/v2/interpreter"
	"github.com/ysugimoto/falco/v2/interpreter/context"
	"github.com/ysugimoto/falco/v2/interpreter/http"
	"github.com/ysugimoto/falco/v2/interpreter/value"
	"github.com/ysugimoto/falco/v2/lexer"
	"github.com/ysugimoto/falco/v2/parser"
	"github.com/ysugimoto/falco/v2/resolver"
	"github.com/ysugimoto/falco/v2/token"
)

// ---------------------------------------------------------------- abstract syntax (JSON of EvalGen.tla)

type Regex struct {
	A   bool     `json:"a"`
	Z   bool     `json:"z"`
	Lit []string `json:"lit"`
}

type Expr struct {
	K     string   `json:"k"`
	IV    int64    `json:"iv"`
	FN    int64    `json:"fn"`
	FE    int      `json:"fe"`
	CS    []string `json:"cs"`
	BV    bool     `json:"bv"`
	MS    int64    `json:"ms"`
	Name  string   `json:"name"`
	E     *Expr    `json:"e"`
	Op    string   `json:"op"`
	L     *Expr    `json:"l"`
	R     *Expr    `json:"r"`
	Neg   bool     `json:"neg"`
	Rx    *Regex   `json:"rx"`
	Parts []*Expr  `json:"parts"`
	C     *Expr    `json:"c"`
	Th    *Expr    `json:"th"`
	El    *Expr    `json:"el"`
	Raw   string   `json:"raw"`  // k = "raw": literal VCL text (totality cases only)
	Bits  []int    `json:"bits"` // k = "bits": INTEGER literal as its 64-bit two's-complement pattern
}

type Arm struct {
	C    *Expr   `json:"c"`
	Body []*Stmt `json:"body"`
}

type Case struct {
	Dflt bool     `json:"dflt"`
	Re   bool     `json:"re"`
	Lit  []string `json:"lit"`
	Pat  Regex    `json:"pat"`
	Body []*Stmt  `json:"body"`
	Ft   bool     `json:"ft"`
}

type Stmt struct {
	K     string  `json:"k"`
	Tgt   string  `json:"tgt"`
	Op    string  `json:"op"`
	E     *Expr   `json:"e"`
	Arms  []Arm   `json:"arms"`
	Els   []*Stmt `json:"els"`
	Ctl   *Expr   `json:"ctl"`
	Cases []Case  `json:"cases"`
	Raw   string  `json:"raw"` // k = "raw": literal VCL statement text (totality cases only)
}

// Val is an abstract value of Eval.tla.
type Val struct {
	T    string   `json:"t"`
	I    int64    `json:"i"`
	Bits []int    `json:"bits,omitempty"`
	N    int64    `json:"n"`
	E    int      `json:"e"`
	B    bool     `json:"b"`
	MS   int64    `json:"ms"`
	Sub  int64    `json:"sub"` // RTIMEX: the part finer than a millisecond, in nanoseconds
	Neg  bool     `json:"neg"` // RTIMEX: sign
	Set  bool     `json:"set"`
	CS   []string `json:"cs,omitempty"`
}

type Obs struct {
	St      string         `json:"st"`
	S       map[string]Val `json:"S"`
	NLogs   int            `json:"nlogs"`
	LastLog []string       `json:"lastlog"`
}

type Program struct {
	Scope string         `json:"scope"`
	Tag   string         `json:"tag"`
	Stmts []*Stmt        `json:"stmts"`
	Exp   []Obs          `json:"exp"`
	Free  []string       `json:"free"` // names whose value the reference leaves open (not compared)
	Law   [][]string     `json:"law"`  // pairs of names that must hold equal values after the last statement
	Fin   map[string]Val `json:"fin"`  // what a header receives from the final value of each pooled name (t = "SKIP": not compared)
}

// ExportName is the header a whole-program run copies the pooled name n to before the subroutine returns.
func ExportName(n string) string { return "req.http.E-" + n }

// ParseSubroutine parses `sub <name> [TYPE] { body }` and returns its declaration.
func ParseSubroutine(src string) (*ast.SubroutineDeclaration, error) {
	v, err := parser.New(lexer.NewFromString(src)).ParseVCL()
	if err != nil {
		return nil, err
	}
	if len(v.Statements) != 1 {
		return nil, fmt.Errorf("expected one declaration, got %d", len(v.Statements))
	}
	sub, ok := v.Statements[0].(*ast.SubroutineDeclaration)
	if !ok {
		return nil, fmt.Errorf("not a subroutine")
	}
	return sub, nil
}

// RunSub executes a subroutine declaration in its own frame: through ProcessSubroutine, or through
// ProcessFunctionSubroutine when functional (the statement loop the interpreter keeps for functional subroutines).
func (m *Machine) RunSub(sub *ast.SubroutineDeclaration, functional bool) (out Outcome) {
	defer func() {
		if r := recover(); r != nil {
			out = Outcome{Kind: "crash", Msg: fmt.Sprint(r)}
		}
	}()
	var err error
	if functional {
		_, _, err = m.IP.ProcessFunctionSubroutine(sub, interpreter.DebugPass, nil)
	} else {
		_, err = m.IP.ProcessSubroutine(sub, interpreter.DebugPass, nil)
	}
	if err != nil {
		msg := err.Error()
		if i := strings.Index(msg, "\n"); i > 0 {
			msg = msg[:i]
		}
		return Outcome{Kind: "error", Msg: msg}
	}
	return Outcome{Kind: "ok"}
}

// ReadConcrete projects a variable given by its concrete name.
func (m *Machine) ReadConcrete(name string) (g Got) {
	defer func() {
		if r := recover(); r != nil {
			g = Got{T: "CRASH", Str: fmt.Sprint(r)}
		}
	}()
	v, err := m.IP.ProcessExpression(ident(name))
	if err != nil {
		return Got{T: "UNDECL"}
	}
	return Project(v)
}

// ---------------------------------------------------------------- concretize

var Locals = []struct{ Name, Type string }{
	{"i1", "INTEGER"}, {"i2", "INTEGER"}, {"f1", "FLOAT"}, {"f2", "FLOAT"}, {"s1", "STRING"}, {"s2", "STRING"},
	{"b1", "BOOL"}, {"b2", "BOOL"}, {"r1", "RTIME"}, {"r2", "RTIME"},
}

// header names per scope: abstract h1, h2 -> headers of the HTTP objects visible in the scope
var hdrTable = map[string][2]string{
	"recv":    {"req.http.VA", "req.http.VB"},
	"fetch":   {"bereq.http.VA", "beresp.http.VA"},
	"deliver": {"req.http.VA", "resp.http.VA"},
	"error":   {"req.http.VA", "obj.http.VA"},
}

var scopeTable = map[string]context.Scope{
	"recv": context.RecvScope, "fetch": context.FetchScope, "deliver": context.DeliverScope, "error": context.ErrorScope,
	"hit": context.HitScope, "miss": context.MissScope, "pass": context.PassScope, "hash": context.HashScope, "log": context.LogScope,
}

// Style holds the presentational choices of the concretiser (seed-dependent, semantically neutral).
type Style struct {
	Plus    bool   // concatenation written with an explicit "+"
	ElseIf  string // "else if" | "elsif" | "elseif"
	Compact bool
}

func StyleFor(r *rand.Rand) Style {
	return Style{Plus: r.Intn(2) == 0, ElseIf: []string{"else if", "elsif", "elseif"}[r.Intn(3)], Compact: r.Intn(2) == 0}
}

func ConcreteName(scope, n string) string {
	switch n {
	case "h1":
		return hdrTable[scope][0]
	case "h2":
		return hdrTable[scope][1]
	case "g0":
		return "re.group.0"
	}
	if strings.Contains(n, ".") {
		return n
	}
	return "var." + n
}

func chars(cs []string) string { return strings.Join(cs, "") }

func quote(s string) string { return `"` + s + `"` }

func regexText(r *Regex) string {
	s := chars(r.Lit)
	if r.A {
		s = "^" + s
	}
	if r.Z {
		s += "$"
	}
	return s
}

func floatText(n int64, e int) string {
	f := float64(n) / float64(int64(1)<<uint(e))
	s := strconv.FormatFloat(f, 'f', -1, 64)
	if !strings.Contains(s, ".") {
		s += ".0"
	}
	return s
}

func rtimeText(ms int64) string {
	if ms%1000 == 0 {
		return fmt.Sprintf("%ds", ms/1000)
	}
	return fmt.Sprintf("%dms", ms)
}

type Renderer struct {
	Scope string
	Style Style
}

func (r Renderer) Expr(e *Expr) string {
	switch e.K {
	case "int":
		return strconv.FormatInt(e.IV, 10)
	case "float":
		return floatText(e.FN, e.FE)
	case "str":
		return quote(chars(e.CS))
	case "bool":
		if e.BV {
			return "true"
		}
		return "false"
	case "rtime":
		return rtimeText(e.MS)
	case "bits":
		var u uint64
		for _, b := range e.Bits {
			u = u<<1 | uint64(b)
		}
		return strconv.FormatInt(int64(u), 10)
	case "id":
		return ConcreteName(r.Scope, e.Name)
	case "raw":
		return e.Raw
	case "neg":
		return "-" + r.Expr(e.E)
	case "not":
		return "!" + r.Expr(e.E)
	case "grp":
		return "(" + r.Expr(e.E) + ")"
	case "cmp":
		return r.Expr(e.L) + " " + e.Op + " " + r.Expr(e.R)
	case "and", "or":
		op := " && "
		if e.K == "or" {
			op = " || "
		}
		// a nested && / || operand is parenthesised so that the text parses to this tree
		sub := func(x *Expr) string {
			if x.K == "and" || x.K == "or" {
				return "(" + r.Expr(x) + ")"
			}
			return r.Expr(x)
		}
		return sub(e.L) + op + sub(e.R)
	case "match":
		op := " ~ "
		if e.Neg {
			op = " !~ "
		}
		return r.Expr(e.L) + op + quote(regexText(e.Rx))
	case "cat":
		ps := make([]string, len(e.Parts))
		for i, p := range e.Parts {
			ps[i] = r.Expr(p)
		}
		if r.Style.Plus {
			return strings.Join(ps, " + ")
		}
		return strings.Join(ps, " ")
	case "ifx":
		return "if(" + r.Expr(e.C) + ", " + r.Expr(e.Th) + ", " + r.Expr(e.El) + ")"
	}
	panic("unknown expression kind " + e.K)
}

func (r Renderer) Block(ss []*Stmt, ind string) string {
	var sb strings.Builder
	for _, s := range ss {
		sb.WriteString(r.Stmt(s, ind))
	}
	return sb.String()
}

func (r Renderer) Stmt(s *Stmt, ind string) string {
	nl := "\n"
	switch s.K {
	case "declall":
		var sb strings.Builder
		for _, l := range Locals {
			fmt.Fprintf(&sb, "%sdeclare local var.%s %s;%s", ind, l.Name, l.Type, nl)
		}
		return sb.String()
	case "raw":
		return ind + s.Raw + nl
	case "set":
		return fmt.Sprintf("%sset %s %s %s;%s", ind, ConcreteName(r.Scope, s.Tgt), s.Op, r.Expr(s.E), nl)
	case "unset":
		return fmt.Sprintf("%sunset %s;%s", ind, ConcreteName(r.Scope, s.Tgt), nl)
	case "log":
		return fmt.Sprintf("%slog %s;%s", ind, r.Expr(s.E), nl)
	case "if":
		var sb strings.Builder
		for i, a := range s.Arms {
			if i == 0 {
				fmt.Fprintf(&sb, "%sif (%s) {%s", ind, r.Expr(a.C), nl)
			} else {
				fmt.Fprintf(&sb, "%s} %s (%s) {%s", ind, r.Style.ElseIf, r.Expr(a.C), nl)
			}
			sb.WriteString(r.Block(a.Body, ind+"  "))
		}
		if len(s.Els) > 0 {
			fmt.Fprintf(&sb, "%s} else {%s", ind, nl)
			sb.WriteString(r.Block(s.Els, ind+"  "))
		}
		sb.WriteString(ind + "}" + nl)
		return sb.String()
	case "switch":
		var sb strings.Builder
		fmt.Fprintf(&sb, "%sswitch (%s) {%s", ind, r.Expr(s.Ctl), nl)
		for _, c := range s.Cases {
			switch {
			case c.Dflt:
				fmt.Fprintf(&sb, "%sdefault:%s", ind, nl)
			case c.Re:
				fmt.Fprintf(&sb, "%scase ~ %s:%s", ind, quote(regexText(&c.Pat)), nl)
			default:
				fmt.Fprintf(&sb, "%scase %s:%s", ind, quote(chars(c.Lit)), nl)
			}
			sb.WriteString(r.Block(c.Body, ind+"  "))
			if c.Ft {
				sb.WriteString(ind + "  fallthrough;" + nl)
			} else {
				sb.WriteString(ind + "  break;" + nl)
			}
		}
		sb.WriteString(ind + "}" + nl)
		return sb.String()
	}
	panic("unknown statement kind " + s.K)
}

// ---------------------------------------------------------------- execute

type logDebugger struct {
	interpreter.DefaultDebugger
	lines []string
}

func (d *logDebugger) Message(string) {}
func (d *logDebugger) Log(_ *ast.LogStatement, line string) {
	d.lines = append(d.lines, line)
}

// Machine is one interpreter instance prepared for statement-by-statement execution.
type Machine struct {
	IP    *interpreter.Interpreter
	dbg   *logDebugger
	Scope string
}

const mainVCL = `backend example { .host = "example.com"; }
sub vcl_recv { return (lookup); }
`

// NewMachine creates an interpreter whose context is initialised the way the test runner does it
// (every HTTP object present) and selects the scope. extraVCL is prepended to the main VCL (ACLs, tables, subs).
func NewMachine(scope, extraVCL string) (*Machine, error) {
	ip := interpreter.New(context.WithResolver(resolver.NewStaticResolver("main", extraVCL+mainVCL)))
	d := &logDebugger{}
	ip.Debugger = d
	req, err := http.NewRequest(ghttp.MethodGet, "http://localhost/", ghttp.NoBody)
	if err != nil {
		return nil, err
	}
	req.RemoteAddr = "192.0.2.1:1111"
	if err := ip.TestProcessInit(req); err != nil {
		return nil, err
	}
	sc, ok := scopeTable[scope]
	if !ok {
		return nil, fmt.Errorf("unknown scope %q", scope)
	}
	ip.SetScope(sc)
	return &Machine{IP: ip, dbg: d, Scope: scope}, nil
}

// ParseStatements parses VCL statement text (wrapped in a subroutine).
func ParseStatements(text string) ([]ast.Statement, error) {
	v, err := parser.New(lexer.NewFromString("sub x {\n" + text + "}\n")).ParseVCL()
	if err != nil {
		return nil, err
	}
	if len(v.Statements) != 1 {
		return nil, fmt.Errorf("expected one declaration, got %d", len(v.Statements))
	}
	sub, ok := v.Statements[0].(*ast.SubroutineDeclaration)
	if !ok {
		return nil, fmt.Errorf("not a subroutine")
	}
	return sub.Block.Statements, nil
}

// Outcome of executing one top-level statement.
type Outcome struct {
	Kind string // "ok" | "error" | "crash"
	Msg  string
}

// Exec runs the statements; a Go panic is caught and reported as "crash".
func (m *Machine) Exec(stmts []ast.Statement) (out Outcome) {
	defer func() {
		if r := recover(); r != nil {
			out = Outcome{Kind: "crash", Msg: fmt.Sprint(r)}
		}
	}()
	_, _, _, err := m.IP.ProcessBlockStatement(stmts, interpreter.DebugPass, false)
	if err != nil {
		msg := err.Error()
		if i := strings.Index(msg, "\n"); i > 0 {
			msg = msg[:i]
		}
		return Outcome{Kind: "error", Msg: msg}
	}
	return Outcome{Kind: "ok"}
}

func (m *Machine) Logs() []string { return m.dbg.lines }

// ---------------------------------------------------------------- project

func ident(name string) *ast.Ident {
	return &ast.Ident{Meta: ast.New(token.Token{Type: token.IDENT, Literal: name}, 0), Value: name}
}

// Got is the projection of a real value; Raw keeps what does not fit the abstract domain.
type Got struct {
	T    string  `json:"t"`
	I    int64   `json:"i,omitempty"`
	F    float64 `json:"f,omitempty"`
	B    bool    `json:"b,omitempty"`
	NS   int64   `json:"ns,omitempty"`
	Set  bool    `json:"set,omitempty"`
	Str  string  `json:"str,omitempty"`
	Flag string  `json:"flag,omitempty"`
}

// Read returns the projection of the pooled variable with the abstract name n.
func (m *Machine) Read(n string) (g Got) {
	defer func() {
		if r := recover(); r != nil {
			g = Got{T: "CRASH", Str: fmt.Sprint(r)}
		}
	}()
	v, err := m.IP.ProcessExpression(ident(ConcreteName(m.Scope, n)))
	if err != nil {
		return Got{T: "UNDECL"}
	}
	return Project(v)
}

func Project(v value.Value) Got {
	switch t := v.(type) {
	case *value.Integer:
		g := Got{T: "INT", I: t.Value}
		switch {
		case t.IsNAN:
			g.Flag = "nan"
		case t.IsPositiveInf:
			g.Flag = "+inf"
		case t.IsNegativeInf:
			g.Flag = "-inf"
		}
		return g
	case *value.Float:
		g := Got{T: "FLOAT", F: t.Value}
		switch {
		case t.IsNAN:
			g.Flag = "nan"
		case t.IsPositiveInf:
			g.Flag = "+inf"
		case t.IsNegativeInf:
			g.Flag = "-inf"
		}
		return g
	case *value.Boolean:
		return Got{T: "BOOL", B: t.Value}
	case *value.RTime:
		return Got{T: "RTIME", NS: int64(t.Value)}
	case *value.String:
		return Got{T: "STR", Set: !t.IsNotSet, Str: t.Value}
	case *value.IP:
		if t.IsNotSet {
			return Got{T: "IP"}
		}
		return Got{T: "IP", Set: true, Str: t.Value.String()}
	}
	return Got{T: "OTHER:" + string(v.Type()), Str: v.String()}
}

// NormText removes the one presentational difference the model cannot express: the dyadic
// rationals of Eval.tla have a single zero, binary64 prints a negative zero as "-0.000".
func NormText(s string) string { return strings.ReplaceAll(s, "-0.000", "0.000") }

func bitsOf(n int64) string { return fmt.Sprintf("%064b", uint64(n)) }

// Same tests a projected value against the abstract value TLC predicted.
func Same(exp Val, got Got) bool {
	switch exp.T {
	case "UNDECL":
		return got.T == "UNDECL"
	case "INT":
		return got.T == "INT" && got.Flag == "" && got.I == exp.I
	case "BITS":
		if got.T != "INT" || got.Flag != "" || len(exp.Bits) != 64 {
			return false
		}
		var sb strings.Builder
		for _, b := range exp.Bits {
			sb.WriteByte(byte('0' + b))
		}
		return bitsOf(got.I) == sb.String()
	case "FLOAT":
		return got.T == "FLOAT" && got.Flag == "" && got.F == float64(exp.N)/float64(int64(1)<<uint(exp.E))
	case "BOOL":
		return got.T == "BOOL" && got.B == exp.B
	case "RTIME":
		return got.T == "RTIME" && got.NS == exp.MS*1000000
	case "RTIMEX":
		// a computed duration with a sub-millisecond part: the whole milliseconds (cut toward zero) and the sign are
		// compared, of the finer part only that there is one (its exact value depends on the clock resolution)
		if got.T != "RTIME" || got.NS%1000000 == 0 || (got.NS < 0) != exp.Neg {
			return false
		}
		return got.NS/1000000 == exp.MS
	case "STR":
		if got.T != "STR" || got.Set != exp.Set {
			return false
		}
		return !exp.Set || NormText(got.Str) == NormText(chars(exp.CS))
	}
	return false
}

// ShowVal renders an expected value for reports.
func ShowVal(v Val) string {
	switch v.T {
	case "INT":
		return fmt.Sprintf("INT %d", v.I)
	case "BITS":
		var sb strings.Builder
		for _, b := range v.Bits {
			sb.WriteByte(byte('0' + b))
		}
		u, _ := strconv.ParseUint(sb.String(), 2, 64)
		return fmt.Sprintf("INT %d (bits)", int64(u))
	case "FLOAT":
		return "FLOAT " + floatText(v.N, v.E)
	case "BOOL":
		return fmt.Sprintf("BOOL %v", v.B)
	case "RTIME":
		return fmt.Sprintf("RTIME %dms", v.MS)
	case "RTIMEX":
		return fmt.Sprintf("RTIME %dms + %dns (neg=%v)", v.MS, v.Sub, v.Neg)
	case "STR":
		if !v.Set {
			return "STR not-set"
		}
		return "STR " + quote(chars(v.CS))
	}
	return v.T
}

func ShowGot(g Got) string {
	switch g.T {
	case "INT":
		if g.Flag != "" {
			return "INT " + g.Flag
		}
		return fmt.Sprintf("INT %d", g.I)
	case "FLOAT":
		if g.Flag != "" {
			return "FLOAT " + g.Flag
		}
		return "FLOAT " + strconv.FormatFloat(g.F, 'g', -1, 64)
	case "BOOL":
		return fmt.Sprintf("BOOL %v", g.B)
	case "RTIME":
		return fmt.Sprintf("RTIME %gms", float64(g.NS)/1e6)
	case "STR":
		if !g.Set {
			return "STR not-set"
		}
		return "STR " + quote(g.Str)
	}
	b, _ := json.Marshal(g)
	return string(b)
}

// PoolNames is the read-back order.
var PoolNames = []string{"i1", "i2", "f1", "f2", "s1", "s2", "b1", "b2", "r1", "r2", "h1", "h2", "g0"}
