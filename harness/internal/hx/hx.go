// Package hx holds the few helpers every harness binary shares: the sub-command
// table, the per-case result record consumed by lib/vlib.py, and jsonl I/O.
package hx

import (
	"bufio"
	"encoding/json"
	"fmt"
	"os"
	"strconv"
)

// CaseResult is one line of a harness binary's stdout (see lib/vlib.py add_result).
//
//	Mismatch: requirement observables that differ (each item is matched against known findings,
//	          an unmatched item makes the check exit 1)
//	Drift:    mechanism observables that differ (reported, never change the exit status)
//	Class:    fields describing the input class of the case (merged into each mismatch item for matching)
//	Key:      identity used to count distinct non-trivial cases (nil = trivial)
type CaseResult struct {
	ID        string           `json:"id"`
	Input     any              `json:"input,omitempty"`
	Observed  any              `json:"observed,omitempty"`
	Mismatch  []map[string]any `json:"mismatch,omitempty"`
	Drift     []map[string]any `json:"drift,omitempty"`
	Class     map[string]any   `json:"class,omitempty"`
	Key       any              `json:"key,omitempty"`
	Validated bool             `json:"validated,omitempty"`
}

type CmdFn func(args []string) int

var Commands = map[string]CmdFn{}

// Main dispatches os.Args[1] to a registered command.
func Main() {
	if len(os.Args) < 2 {
		fmt.Fprintln(os.Stderr, "usage: <binary> <command> [args]")
		os.Exit(2)
	}
	fn, ok := Commands[os.Args[1]]
	if !ok {
		fmt.Fprintln(os.Stderr, "unknown command", os.Args[1])
		os.Exit(2)
	}
	os.Exit(fn(os.Args[2:]))
}

// Seed returns VERIF_SEED (default 1).
func Seed() int64 {
	if v := os.Getenv("VERIF_SEED"); v != "" {
		if n, err := strconv.ParseInt(v, 10, 64); err == nil {
			return n
		}
	}
	return 1
}

// Lines calls fn for every non-empty line of stdin (lines may be very long).
func Lines(fn func(line []byte) error) error {
	sc := bufio.NewScanner(os.Stdin)
	sc.Buffer(make([]byte, 1<<20), 1<<28)
	for sc.Scan() {
		b := sc.Bytes()
		if len(b) == 0 {
			continue
		}
		if err := fn(b); err != nil {
			return err
		}
	}
	return sc.Err()
}

// Out is a buffered jsonl writer on stdout.
type Out struct {
	w   *bufio.Writer
	enc *json.Encoder
}

func NewOut() *Out {
	w := bufio.NewWriterSize(os.Stdout, 1<<20)
	return &Out{w: w, enc: json.NewEncoder(w)}
}
func (o *Out) Write(v any) { o.enc.Encode(v) } // nolint:errcheck
func (o *Out) Close()      { o.w.Flush() }
