// Package vchars is the character table shared by spec/Chars.tla and the harness (R4: concretize / project
// are dumb table look-ups).  A source text is, for TLC, a sequence of one-character strings; characters that a
// TLA+ string cannot hold have symbolic names: NUL (0x00), XFF (an invalid UTF-8 byte, decoded by Go as U+FFFD),
// U2 / U3 / U4 (any non-ASCII rune of that encoded width).
package vchars

import (
	"strings"
	"unicode/utf8"
)

// chunk symbol -> bytes (concretize)
var sym2text = map[string]string{"NUL": "\x00", "XFF": "\xff", "U2": "é", "U3": "€", "U4": "\U0001F600"}

// Concretize turns chunk strings as TLC printed them (symbol names stand alone in a chunk) into source text.
func Concretize(chunks []string) string {
	var b strings.Builder
	for _, c := range chunks {
		if t, ok := sym2text[c]; ok {
			b.WriteString(t)
		} else {
			b.WriteString(c)
		}
	}
	return b.String()
}

func symbolOf(r rune, size int, invalid bool) string {
	switch {
	case invalid:
		return "XFF"
	case r == 0:
		return "NUL"
	case r == utf8.RuneError: // a genuine U+FFFD in a literal is what the lexer made of an invalid byte
		return "XFF"
	case size == 1:
		return string(r)
	case size == 2:
		return "U2"
	case size == 3:
		return "U3"
	default:
		return "U4"
	}
}

// Symbols projects text to the character sequence of Chars.tla.
func Symbols(s string) []string {
	out := make([]string, 0, len(s))
	for i := 0; i < len(s); {
		r, size := utf8.DecodeRuneInString(s[i:])
		out = append(out, symbolOf(r, size, r == utf8.RuneError && size == 1))
		i += size
	}
	return out
}

// Joined is Symbols concatenated (the form Lexer.tla prints literals in).
func Joined(s string) string { return strings.Join(Symbols(s), "") }

// HasReplacementRune reports a genuine U+FFFD in the text (indistinguishable from an invalid byte once lexed).
func HasReplacementRune(s string) bool { return strings.Contains(s, "\uFFFD") }
