"""Shared pipeline of the formatter checks C03 (meaning preserved), C14 (idempotent), C15 (comments kept).

spec/FmtDoc.tla + spec/Format.tla  (TLC: Normalize/Restyle |= requirement for every generated document x
                                    configuration x comment placement; every case printed with predicted values)
 -> vhfmt fmtreplay                (each case through the real lexer, parser, formatter: render, parse, format,
                                    re-parse, project, compare with TLC's prediction, format again)
 -> vhfmt corpus                   (every .vcl under examples/ x the configurations TLC enumerated)
 -> spec/FormatTrace.tla           (every corpus execution and every replayed case that differed from the
                                    mechanism's prediction is judged by the requirement layer in TLC)
"""
import json, os
from concurrent.futures import ThreadPoolExecutor
import vlib
from vlib import MachineryFault

PROPS = ("C03", "C14", "C15")
VERDICT_FIELD = {"C03": "c03", "C14": "c14", "C15": "c15"}


def plan_expr(r):
    return '[doc |-> "%s", cfg |-> "%s", mc |-> %d, od |-> %s, sp |-> %s]' % (
        r["DocSet"], r["CfgSet"], r["MaxComments"], "TRUE" if r["OnlyDocumented"] else "FALSE", "TRUE" if r["Specials"] else "FALSE")


def tlc_cases(ctx, runs):
    """runs: list of plans dict(DocSet, CfgSet, MaxComments, OnlyDocumented, Specials [, simulate]).  All exhaustive
    plans are explored by ONE TLC run (constant Plans of Format.tla), every simulated plan by a run of its own.
    Returns the merged behaviour file."""
    allb = os.path.join(ctx.work, "fmt_beh.jsonl")
    seen = set()
    per_run = []
    exhaustive = [r for r in runs if not r.get("simulate")]
    jobs = []
    if exhaustive:
        jobs.append(({"Plans": "{" + ", ".join(plan_expr(r) for r in exhaustive) + "}"}, {}, "cases:%d plans" % len(exhaustive)))
    for r in runs:
        if r.get("simulate"):
            jobs.append(({"Plans": "{" + plan_expr(r) + "}"}, {"simulate": r["simulate"], "depth": 4, "cfg": "FormatSim.cfg"},
                         "simulate:%s/%s" % (r["DocSet"], r["CfgSet"])))
    with open(allb, "w") as out:
        for defs, kw, tag in jobs:
            m = ctx.tlc("Format", defines=defs, timeout=1700, tag=tag, **kw)
            if m.violated:
                raise MachineryFault("Format.tla: mechanism layer violates requirement layer on the model: %s "
                                     "(a lead, not a verdict - see %s)" % (m.violated, m.out_path))
            n = 0
            for line in open(m.beh_path):
                if line in seen:
                    continue
                seen.add(line)
                out.write(line)
                n += 1
            per_run.append(n)
    ctx.notes["plans"] = [plan_expr(r) + (" simulate=%d" % r["simulate"] if r.get("simulate") else "") for r in runs]
    ctx.notes["cases_per_tlc_run"] = per_run
    if not seen:
        raise MachineryFault("TLC emitted no case (dead driver)")
    return allb, len(seen)


def shard(path, n, workdir, name):
    outs = [open(os.path.join(workdir, "%s_%02d.jsonl" % (name, i)), "w") for i in range(n)]
    k = 0
    with open(path) as f:
        for line in f:
            outs[k % n].write(line)
            k += 1
    for o in outs:
        o.close()
    return [o.name for o in outs]


def replay(ctx, beh_path, name="r"):
    n = min(ctx.workers, 16)
    shards = shard(beh_path, n, ctx.work, name)
    ctx.build_bin("vhfmt")

    def one(i):
        ev = shards[i] + ".events"
        out = ctx.harness("vhfmt", ["fmtreplay", "-window", "-events", ev], stdin_path=shards[i], out_name="%s_res_%02d.jsonl" % (name, i))
        return out, ev
    with ThreadPoolExecutor(max_workers=n) as ex:
        res = list(ex.map(one, range(n)))
    return [r[0] for r in res], [r[1] for r in res]


DEFAULT_CFG = {"indent_width": 2, "trailing_comment_width": 1, "indent_style": "space", "line_width": 120,
               "explicit_string_concat": True, "sort_declaration_property": False, "align_declaration_property": False,
               "else_if": False, "always_next_line_else_if": False, "return_statement_parenthesis": True,
               "sort_declaration": False, "align_trailing_comment": False, "comment_style": "none",
               "should_use_unset": False, "indent_case_labels": False, "break_compound_conditions": True}


def deviations(cfg):
    return sorted("%s=%s" % (k, str(v).lower() if isinstance(v, bool) else v) for k, v in cfg.items() if DEFAULT_CFG.get(k) != v)


def distinct_cfgs(beh_path, workdir, keep=None, rng=None, sample=60):
    """the configurations TLC enumerated: with keep, those whose deviations from the defaults are all in keep;
    without, the default, every single deviation and a seeded sample of the others"""
    seen, chosen, others = set(), [], []
    for line in open(beh_path):
        cfg = json.loads(line)["cfg"]
        c = json.dumps(cfg, sort_keys=True)
        if c in seen:
            continue
        seen.add(c)
        dev = deviations(cfg)
        if keep is not None:
            if all(d in keep for d in dev):
                chosen.append(c)
        elif len(dev) <= 1:
            chosen.append(c)
        else:
            others.append(c)
    if keep is None and others:
        others.sort()
        (rng or __import__("random").Random(1)).shuffle(others)
        chosen += others[:sample]
    out = os.path.join(workdir, "cfgs.jsonl")
    with open(out, "w") as o:
        for c in chosen:
            o.write(c + "\n")
    return out, len(chosen)


def corpus(ctx, cfgs_path, maxbytes=0):
    n = min(ctx.workers, 8)
    ctx.build_bin("vhfmt")

    def one(i):
        ev = os.path.join(ctx.work, "corpus_%02d.events" % i)
        args = ["corpus", "-root", vlib.REPO, "-cfgs", cfgs_path, "-events", ev, "-shard", str(i), "-shards", str(n)]
        if maxbytes:
            args += ["-maxbytes", str(maxbytes)]
        out = ctx.harness("vhfmt", args, out_name="corpus_res_%02d.jsonl" % i)
        return out, ev
    with ThreadPoolExecutor(max_workers=n) as ex:
        res = list(ex.map(one, range(n)))
    return [r[0] for r in res], [r[1] for r in res]


def canaries(ev):
    """corrupted copies of a recorded event; FormatTrace must judge each of them a violation of the named property"""
    out = []
    e = json.loads(json.dumps(ev)); e["id"] = "canary-c14"; e["idem"] = "differs"; out.append((e, "c14"))
    if ev["cin"]:
        e = json.loads(json.dumps(ev)); e["id"] = "canary-c15"; e["cout"] = e["cout"][:-1]; out.append((e, "c15"))
    if ev["parsed"] and ev["out"]:
        e = json.loads(json.dumps(ev)); e["id"] = "canary-c03"
        e["out"] = e["out"][:-1]      # the last declaration vanished
        out.append((e, "c03"))
    return out


def validate(ctx, event_files, tag="events"):
    """run FormatTrace over the events (plus canaries); returns {id: verdict}"""
    allp = os.path.join(ctx.work, "fmt_events_%s.ndjson" % tag)
    n = 0
    seed_ev = None
    with open(allp, "w") as out:
        for ef in event_files:
            if not os.path.exists(ef):
                continue
            for line in open(ef):
                line = line.strip()
                if not line:
                    continue
                n += 1
                out.write(line + "\n")
                if seed_ev is None or (not seed_ev["cin"]):
                    e = json.loads(line)
                    if e["parsed"] and e["idem"] == "same" and e["out"] and (seed_ev is None or e["cin"]):
                        seed_ev = e
        planted = []
        if seed_ev is not None:
            for e, f in canaries(seed_ev):
                out.write(json.dumps(e) + "\n")
                planted.append((e["id"], f))
    if n == 0:
        return {}, 0
    res = ctx.tlc("FormatTrace", extra_files=[allp], defines={"TraceFile": '"%s"' % os.path.basename(allp)},
                  timeout=1700, tag="trace-validation:" + tag)
    if res.violated:
        raise MachineryFault("FormatTrace: unexpected invariant failure %s (%s)" % (res.violated, res.out_path))
    verdicts = {}
    for line in open(res.beh_path):
        v = json.loads(line)
        verdicts[v["id"]] = v
    # canary accounting never pre-empts real mismatches (notes/LESSONS.md 5): deferred, reported by finish()
    if seed_ev is None:
        ctx.defer_fault("no recorded event that passed to derive canaries from")
    for cid, f in planted:
        if cid not in verdicts:
            ctx.defer_fault("canary %s was not judged by FormatTrace" % cid)
        elif verdicts[cid][f] is not False:
            ctx.defer_fault("canary %s was accepted by FormatTrace (validator is vacuous)" % cid)
    ctx.notes["canaries_rejected"] = [c for c, f in planted if c in verdicts and verdicts[c][f] is False]
    return verdicts, n


def classify(ctx, pid, res_files, corpus_files, verdicts):
    """turn harness results + FormatTrace verdicts into framework results for property pid"""
    vf = VERDICT_FIELD[pid]
    skipped = {}
    for rp in res_files:
        for r in ctx.read_results(rp):
            mm = list((r.get("mm") or {}).get(pid) or [])
            pend = (r.get("pending") or {}).get(pid) or []
            if r.get("skip"):
                skipped[r["skip"]] = skipped.get(r["skip"], 0) + 1
            if pend:
                v = verdicts.get(r["id"])
                if v is None:
                    raise MachineryFault("case %s has pending items but no FormatTrace verdict" % r["id"])
                r["validated"] = True
                if v[vf] is False:
                    mm += [{k: v for k, v in it.items() if k != "got"} for it in pend]
                else:
                    r.setdefault("drift", []).append({"obs": "mechanism-differs-requirement-holds", "items": [i.get("obs") for i in pend]})
            r["mismatch"] = mm
            for k in ("mm", "pending", "skip"):
                r.pop(k, None)
            ctx.add_result(r)
    for rp in corpus_files:
        for r in ctx.read_results(rp):
            v = verdicts.get(r["id"])
            if v is None:
                raise MachineryFault("corpus execution %s was not judged by FormatTrace" % r["id"])
            r["validated"] = True
            if v[vf] is False:
                r["mismatch"] = [{"obs": {"C03": "corpus-tree", "C14": "corpus-not-idempotent", "C15": "corpus-comments"}[pid]}]
            if v.get("mech") == "differs":
                r.setdefault("drift", []).append({"obs": "corpus-mechanism-differs"})
            ctx.add_result(r)
    ctx.notes["skipped_cases"] = skipped
    return skipped


def run(ctx, pid, runs, corpus_keep=None, corpus_maxbytes=0):
    if ctx.replay:
        rp = json.load(open(ctx.replay))
        case = rp["case"]
        if (case.get("class") or {}).get("fam") == "corpus":
            cfgs = os.path.join(ctx.work, "cfgs.jsonl")
            open(cfgs, "w").write(json.dumps(case["input"]["cfg"]) + "\n")
            cres, cev = corpus(ctx, cfgs)
            verdicts, _ = validate(ctx, cev, tag="replay")
            keep = os.path.join(ctx.work, "corpus_keep.jsonl")
            with open(keep, "w") as o:
                for f in cres:
                    for r in ctx.read_results(f):
                        if r["id"] == case["id"]:
                            o.write(json.dumps(r) + "\n")
            classify(ctx, pid, [], [keep], verdicts)
            return
        inp = os.path.join(ctx.work, "replay_beh.jsonl")
        open(inp, "w").write(json.dumps(case["input"]) + "\n")
        ress, evs = replay(ctx, inp, "rp")
        verdicts, _ = validate(ctx, evs, tag="replay") if any(os.path.getsize(e) for e in evs) else ({}, 0)
        classify(ctx, pid, ress, [], verdicts)
        return
    beh, ncases = tlc_cases(ctx, runs)
    ctx.notes["cases_emitted"] = ncases
    ress, evs = replay(ctx, beh)
    cfgs, ncfg = distinct_cfgs(beh, ctx.work, corpus_keep, ctx.rng)
    if ncfg == 0:
        raise MachineryFault("no configuration for the corpus run")
    cres, cev = corpus(ctx, cfgs, corpus_maxbytes)
    ctx.notes["corpus_configurations"] = ncfg
    verdicts, nev = validate(ctx, evs + cev)
    ctx.notes["events_trace_validated"] = nev
    skipped = classify(ctx, pid, ress, cres, verdicts)
    bad = sum(v for k, v in skipped.items() if k.startswith("render"))
    if bad * 20 > ncases:
        ctx.defer_fault("%d of %d generated documents do not parse to the tree the specification generated "
                        "(concretiser or projection out of date)" % (bad, ncases))
    ctx.exhaustive = False
