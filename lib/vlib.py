"""Shared runtime of the falco verification framework (python3 stdlib only).

A check is a python module checks/<id>.py with a function run(ctx) that
  1. builds the Go harness against the repository under test (ctx.build_*),
  2. runs TLC on a specification under spec/ (ctx.tlc) - model checking the
     properties on the model and emitting behaviours as JSON,
  3. replays the behaviours through the real code / validates recorded traces
     (ctx.harness, ctx.tlc again for trace specs),
  4. hands every per-case result to ctx.add_results and ends with ctx.finish().

Exit status contract (DESIGN.md section 2):
  0  property held on everything explored (known findings are printed)
  1  a violation was observed on the real code (VIOLATION line, replay file)
  2  machinery fault (build error, TLC error, dead driver, canary accepted,
     unreproduced model counterexample, timeout) - never a verdict.
"""
import json, os, re, shutil, subprocess, sys, tempfile, time, hashlib, random, threading

ROOT = os.path.dirname(os.path.dirname(os.path.abspath(__file__)))
REPO = os.environ.get("VERIF_REPO", "/repo")
BEH_PREFIX = '<<"BEHAVIOUR", '


class MachineryFault(Exception):
    pass


def goenv(harness=True):
    e = dict(os.environ)
    e["GOPROXY"] = "off"
    e["GOTOOLCHAIN"] = "auto"
    e.pop("GOSUMDB", None)
    e.pop("GOFLAGS", None)
    e.pop("GOWORK", None)
    if harness:
        e["GOFLAGS"] = "-mod=mod"
    return e


class TlcResult:
    def __init__(self):
        self.generated = 0
        self.distinct = 0
        self.behaviours = 0      # number of BEHAVIOUR lines
        self.beh_path = None     # jsonl file, one behaviour per line
        self.violated = []       # names of violated invariants/properties
        self.rc = None
        self.out_path = None
        self.wall = 0.0
        self.coverage_zero = []
        self.error_text = ""
        self.postcondition_failed = False


class Ctx:
    def __init__(self, pid, tier, seed, level="model_checking"):
        self.pid = pid
        self.tier = tier
        self.seed = seed
        self.level = level
        self.t0 = time.time()
        self.work = tempfile.mkdtemp(prefix="verif_%s_" % pid)
        self.workers = int(os.environ.get("VERIF_WORKERS", str(os.cpu_count() or 4)))
        self.results_n = 0
        self.nontrivial = set()
        self.samples = []
        self.failing = []        # (case, [unmatched mismatch items], [matched (finding, item)])
        self.drift = []
        self.states = 0
        self.transitions = 0
        self.traces_validated = 0
        self.notes = {}
        self.assumptions = []
        self.rule = ""
        self.exhaustive = None
        self.tlc_runs = []
        self.findings = load_findings(pid)
        self.findings_hit = {}
        self.repo_status0 = repo_status()
        self.rng = random.Random(seed)
        self._bins = {}
        self._falco = None
        self.quiet = False
        self.deferred_faults = []
        self._tlc_lock = threading.Lock()
        self._tlc_n = 0

    # ---------------------------------------------------------------- build
    def _harness_modfile(self):
        """go.mod for the harness; replace line points at the tree under test."""
        src = os.path.join(ROOT, "harness")
        if REPO == "/repo":
            # refresh go.sum from the repo so that dependency bumps do not break us
            return src, []
        # scratch copy so a different tree (mutant worktree) can be used
        dst = os.path.join(self.work, "harness")
        if not os.path.isdir(dst):
            shutil.copytree(src, dst)
            gm = open(os.path.join(dst, "go.mod")).read().replace("=> /repo", "=> " + REPO)
            open(os.path.join(dst, "go.mod"), "w").write(gm)
        return dst, []

    def build_bin(self, name, race=False):
        """go build -tags verif ./cmd/<name> of the harness module against the tree under test"""
        key = (name, race)
        if key in self._bins:
            return self._bins[key]
        src, extra = self._harness_modfile()
        out = os.path.join(self.work, name + ("_race" if race else ""))
        # -race switches on checkptr, which aborts inside the transpiled PCRE library falco depends on
        # (pointer arithmetic of C origin): keep the race detector, switch checkptr off
        cmd = ["go", "build", "-tags", "verif"] + (["-race", "-gcflags=all=-d=checkptr=0"] if race else []) + ["-o", out, "./cmd/" + name]
        t = time.time()
        p = subprocess.run(cmd, cwd=src, env=goenv(True), capture_output=True, text=True)
        if p.returncode != 0:
            raise MachineryFault("harness build failed (%s):\n%s%s" % (name, p.stdout, p.stderr))
        self.notes.setdefault("build_s", {})[name + ("_race" if race else "")] = round(time.time() - t, 1)
        self._bins[key] = out
        return out

    def build_falco(self, race=False):
        if self._falco and not race:
            return self._falco
        out = os.path.join(self.work, "falco_race" if race else "falco")
        cmd = ["go", "build", "-tags", "verif"] + (["-race"] if race else []) + ["-o", out, "./cmd/falco"]
        t = time.time()
        p = subprocess.run(cmd, cwd=REPO, env=goenv(False), capture_output=True, text=True)
        if p.returncode != 0:
            raise MachineryFault("falco build failed:\n" + p.stdout + p.stderr)
        self.notes.setdefault("build_s", {})["falco"] = round(time.time() - t, 1)
        if not race:
            self._falco = out
        return out

    # ------------------------------------------------------------------ TLC
    def tlc(self, module, cfg=None, simulate=None, depth=None, workers=None, timeout=900,
            coverage=False, defines=None, extra_files=None, deque=False, expect_violation=False,
            tag=None):
        """Run TLC on spec/<module>.tla with spec/<cfg> (default <module>.cfg).
        defines: dict NAME -> TLA+ expression text, written into a generated
        module MC_<n> that EXTENDS <module>; the cfg gets CONSTANT lines NAME <- MCNAME.
        Returns TlcResult; behaviours printed by the spec are decoded to a jsonl file."""
        with self._tlc_lock:             # re-entrant: several TLC runs of one check may go on in parallel threads
            self._tlc_n += 1
            n = self._tlc_n
        d = os.path.join(self.work, "tlc_%d" % n)
        os.makedirs(d)
        specdir = os.path.join(ROOT, "spec")
        for f in os.listdir(specdir):
            if f.endswith(".tla") or f.endswith(".cfg"):
                shutil.copy(os.path.join(specdir, f), d)
        for src in (extra_files or []):
            shutil.copy(src, d)
        cfg = cfg or (module + ".cfg")
        root_module = module
        if defines:
            root_module = "MC%d_%s" % (n, module)
            lines = ["---- MODULE %s ----" % root_module, "EXTENDS %s" % module]
            cfg_lines = open(os.path.join(d, cfg)).read().rstrip("\n").split("\n")
            for k, v in defines.items():
                lines.append("MC_%s == %s" % (k, v))
                cfg_lines.append("CONSTANT %s <- MC_%s" % (k, k))
            lines.append("====")
            open(os.path.join(d, root_module + ".tla"), "w").write("\n".join(lines) + "\n")
            cfg = root_module + ".cfg"
            open(os.path.join(d, cfg), "w").write("\n".join(cfg_lines) + "\n")
        w = workers or self.workers
        cmd = ["tlc", "-workers", str(w), "-metadir", os.path.join(d, "md"), "-config", cfg]
        if simulate is not None:
            w = workers or min(self.workers, 4)
            cmd = ["tlc", "-workers", str(w), "-metadir", os.path.join(d, "md"), "-config", cfg,
                   "-simulate", "num=%d" % max(1, simulate // w), "-seed", str(self.seed)]
            if depth:
                cmd += ["-depth", str(depth)]
        if coverage:
            cmd += ["-coverage", "1"]
        cmd.append(root_module + ".tla")
        env = dict(os.environ)
        # TLC unpacks its standard modules into java.io.tmpdir on every run and leaves them there: keep that inside the
        # run's scratch directory (removed with it) instead of littering /tmp
        jtmp = os.path.join(d, "jtmp")
        os.makedirs(jtmp, exist_ok=True)
        jto = "-Xss512m -Djava.io.tmpdir=" + jtmp
        if deque:
            jto += " -Dtlc2.tool.queue.IStateQueue=StateDeque"
        env["JAVA_TOOL_OPTIONS"] = jto
        res = TlcResult()
        res.out_path = os.path.join(d, "tlc.out")
        res.beh_path = os.path.join(d, "behaviours.jsonl")
        t = time.time()
        with open(res.out_path, "w") as out:
            try:
                p = subprocess.run(["timeout", str(timeout)] + cmd, cwd=d, env=env, stdout=out,
                                   stderr=subprocess.STDOUT)
                res.rc = p.returncode
            except Exception as e:  # pragma: no cover
                raise MachineryFault("cannot run tlc: %s" % e)
        res.wall = time.time() - t
        errlines = []
        with open(res.out_path, errors="replace") as f, open(res.beh_path, "w") as bf:
            for line in f:
                if line.startswith(BEH_PREFIX):
                    s = line.rstrip("\n")
                    s = s[len(BEH_PREFIX):]
                    if s.endswith(">>"):
                        s = s[:-2]
                    try:
                        bf.write(json.loads(s) + "\n")
                        res.behaviours += 1
                    except Exception:
                        errlines.append("undecodable behaviour line: " + line[:200])
                    continue
                m = re.match(r"(\d+) states generated, (\d+) distinct states found", line)
                if m:
                    res.generated, res.distinct = int(m.group(1)), int(m.group(2))
                m = re.match(r"The number of states generated: (\d+)", line)
                if m:
                    res.generated = int(m.group(1))
                m = re.match(r"Error: Invariant (\S+) is violated", line)
                if m:
                    res.violated.append(m.group(1))
                m = re.match(r"Error: Action property (\S+) is violated", line)
                if m:
                    res.violated.append(m.group(1))
                if "Temporal properties were violated" in line:
                    res.violated.append("<temporal>")
                if line.startswith("Error:") and "is violated" not in line and "Temporal properties" not in line \
                        and "behavior up to this point" not in line:
                    errlines.append(line.rstrip())
                if "Postcondition" in line and "violated" in line or "POSTCONDITION" in line and "false" in line.lower():
                    res.postcondition_failed = True
                m = re.match(r"\s*<(\w+) line .*>: (\d+):(\d+)$", line)
                if m and coverage and m.group(2) == "0" and m.group(3) == "0":
                    res.coverage_zero.append(m.group(1))
        res.error_text = "\n".join(errlines[:20])
        if simulate is not None and res.distinct == 0:
            res.distinct = res.generated
        with self._tlc_lock:
          self.states += res.distinct
          self.transitions += res.generated
          self.tlc_runs.append({"module": module, "cfg": cfg, "mode": "simulate" if simulate is not None else "bfs",
                              "generated": res.generated, "distinct": res.distinct, "behaviours": res.behaviours,
                              "violated": res.violated, "rc": res.rc, "wall_s": round(res.wall, 1),
                              "tag": tag, "cmd": " ".join(cmd)})
        if res.rc == 124:
            raise MachineryFault("TLC timeout on %s (%ss)" % (module, timeout))
        if res.rc not in (0,) and not res.violated and not res.postcondition_failed:
            tail = "".join(open(res.out_path, errors="replace").readlines()[-40:])
            raise MachineryFault("TLC failed on %s rc=%s\n%s" % (module, res.rc, tail))
        if res.violated and not expect_violation:
            # a model counterexample is a lead, not a verdict (R1): the caller decides.
            pass
        return res

    # -------------------------------------------------------------- harness
    def harness(self, binary, args, stdin_path=None, race=False, timeout=1800, env=None, out_name=None):
        """Run harness binary cmd/<binary> with args; stdin from a file; stdout (jsonl of case results)
        is written to a file whose path is returned."""
        vh = binary if os.path.isabs(binary) else self.build_bin(binary, race=race)
        self._outn = getattr(self, "_outn", 0) + 1
        outp = os.path.join(self.work, out_name or ("vh_out_%d.jsonl" % self._outn))
        errp = outp + ".err"
        e = dict(os.environ)
        e["VERIF_SEED"] = str(self.seed)
        e["VERIF_TIER"] = self.tier
        if env:
            e.update(env)
        with open(outp, "w") as o, open(errp, "w") as er:
            stdin = open(stdin_path) if stdin_path else subprocess.DEVNULL
            try:
                p = subprocess.run(["timeout", str(timeout), vh] + args, stdin=stdin, stdout=o, stderr=er, env=e)
            finally:
                if stdin_path:
                    stdin.close()
        if p.returncode == 124:
            raise MachineryFault("harness timeout: vh %s" % " ".join(args))
        if p.returncode != 0:
            raise MachineryFault("harness failed rc=%d: vh %s\n%s" % (p.returncode, " ".join(args),
                                                                      open(errp, errors="replace").read()[-4000:]))
        return outp

    def read_results(self, path):
        with open(path) as f:
            for line in f:
                line = line.strip()
                if line:
                    yield json.loads(line)

    # ------------------------------------------------------- classification
    def add_result(self, r):
        """r: {"id":..., "input":..., "mismatch":[{obs, expected, got, ...}], "drift":[...],
               "class":{...}, "nontrivial_key": str|None, "trace": bool}"""
        self.results_n += 1
        k = r.get("key")
        if k is not None:
            self.nontrivial.add(k if isinstance(k, str) else json.dumps(k, sort_keys=True))
        if len(self.samples) < 3 and r.get("input") is not None and not r.get("mismatch"):
            self.samples.append({"input": r.get("input"), "observed": r.get("observed")})
        if r.get("validated"):
            self.traces_validated += 1
        for d in r.get("drift") or []:
            if len(self.drift) < 50:
                self.drift.append({"id": r.get("id"), "drift": d})
        mm = r.get("mismatch") or []
        if mm:
            unmatched, matched = [], []
            for item in mm:
                rec = dict(r.get("class") or {})
                rec.update(item)
                f = match_finding(self.findings, rec)
                if f is None:
                    unmatched.append(item)
                else:
                    matched.append((f, item))
                    self.findings_hit.setdefault(f["id"], [f, 0])[1] += 1
            self.failing.append((r, unmatched, matched))

    def add_results(self, path):
        n = 0
        for r in self.read_results(path):
            self.add_result(r)
            n += 1
        return n

    def defer_fault(self, msg):
        """a machinery problem (e.g. an accepted canary) that must not hide real mismatches found in the same run:
        finish() exits 1 if there are unexplained violations, and only otherwise turns this into exit 2"""
        self.deferred_faults.append(msg)

    # --------------------------------------------------------------- finish
    def check_repo_clean(self):
        if repo_status() != self.repo_status0:
            raise MachineryFault("check changed the state of the repository under test")

    def finish(self):
        self.check_repo_clean()
        violations = [(r, u) for (r, u, m) in self.failing if u]
        wall = time.time() - self.t0
        for fid, (f, n) in sorted(self.findings_hit.items()):
            print("KNOWN-FINDING: property=%s %s [%s, %d case(s)]" % (self.pid, f["what"], fid, n))
        for d in self.drift[:10]:
            print("DRIFT: property=%s %s" % (self.pid, json.dumps(d)[:300]))
        replay_paths = []
        if violations:
            rdir = os.path.join(ROOT, "replays", self.pid) if not os.environ.get("VERIF_NOEVIDENCE") \
                else os.path.join("/tmp", "verif-seed-replays", self.pid)
            os.makedirs(rdir, exist_ok=True)
            seen = set()
            for (r, u) in violations:
                sig = json.dumps(sorted(str(i.get("obs")) for i in u))
                if sig in seen and len(seen) >= 1 and len(replay_paths) >= 5:
                    continue
                seen.add(sig)
                if len(replay_paths) >= 10:
                    break
                h = hashlib.sha1(json.dumps(r, sort_keys=True).encode()).hexdigest()[:12]
                p = os.path.join(rdir, "%s_%s.json" % (self.tier, h))
                with open(p, "w") as f:
                    json.dump({"property": self.pid, "case": r, "unmatched": u}, f, indent=1)
                replay_paths.append(p)
                print("VIOLATION property=%s replay=%s" % (self.pid, p))
                print("  detail: %s" % json.dumps(u)[:600])
        cov = {
            "states": self.states, "transitions": self.transitions,
            "traces_validated_against_impl": self.traces_validated,
            "evaluations": self.results_n,
            "distinct_nontrivial": len(self.nontrivial),
            "rule": self.rule,
            "samples": self.samples[:3] if self.samples else [{"note": "no passing sample recorded"}],
            "tlc_runs": self.tlc_runs,
            "known_findings_hit": {k: v[1] for k, v in self.findings_hit.items()},
            "failing_cases": len(self.failing),
            "drift": self.drift[:10],
        }
        if self.exhaustive is not None:
            cov["exhaustive"] = self.exhaustive
        cov.update(self.notes)
        ev = {"property_id": self.pid, "tier": self.tier, "seed": self.seed, "level": self.level,
              "coverage": cov, "assumptions": self.assumptions, "wall_s": round(wall, 1),
              "violations": len(violations)}
        evdir = os.path.join(ROOT, "evidence")
        if not self.pid.startswith("C"):             # extension specs (X..): not listed properties, own directory
            evdir = os.path.join(ROOT, "evidence-ext")
        if os.environ.get("VERIF_NOEVIDENCE"):       # checking a scratch tree (seeded change): leave evidence alone
            evdir = os.path.join(self.work, "evidence")
        os.makedirs(evdir, exist_ok=True)
        with open(os.path.join(evdir, self.pid + ".json"), "w") as f:
            json.dump(ev, f, indent=1, default=str)
        print("%s %s seed=%d: cases=%d distinct=%d states=%d traces=%d failing=%d unexplained=%d wall=%.1fs" % (
            self.pid, self.tier, self.seed, self.results_n, len(self.nontrivial), self.states,
            self.traces_validated, len(self.failing), len(violations), wall))
        if self.deferred_faults:
            for m in self.deferred_faults:
                print("MACHINERY-WARNING property=%s: %s" % (self.pid, m))
            if not violations:
                self.cleanup()
                raise MachineryFault("; ".join(self.deferred_faults))
        self.cleanup()
        return 1 if violations else 0

    def cleanup(self):
        if os.environ.get("VERIF_KEEP"):
            print("work dir kept:", self.work)
            return
        shutil.rmtree(self.work, ignore_errors=True)


def repo_status():
    p = subprocess.run(["git", "-C", REPO, "status", "--porcelain"], capture_output=True, text=True)
    return p.stdout


def load_findings(pid):
    """known findings: /verif/known_findings.jsonl plus /verif/known_findings/*.jsonl (one object per line:
    {"status":"known"|"fixed","property":"Cxx","id":...,"match":{...},"what":...,"commit":...});
    only status=known entries suppress anything."""
    out = []
    paths = [os.path.join(ROOT, "known_findings.jsonl")]
    d = os.path.join(ROOT, "known_findings")
    if os.path.isdir(d):
        paths += sorted(os.path.join(d, f) for f in os.listdir(d) if f.endswith(".jsonl"))
    for p in paths:
        if not os.path.exists(p):
            continue
        for line in open(p):
            line = line.strip()
            if not line or line.startswith("#"):
                continue
            f = json.loads(line)
            if f.get("property") == pid and f.get("status") == "known":
                out.append(f)
    return out


def match_finding(findings, rec):
    for f in findings:
        ok = True
        for k, v in f["match"].items():
            rv = rec.get(k)
            if isinstance(v, dict) and "in" in v:
                if rv not in v["in"]:
                    ok = False
                    break
            elif isinstance(v, dict) and "re" in v:
                if rv is None or not re.search(v["re"], str(rv)):
                    ok = False
                    break
            elif rv != v:
                ok = False
                break
        if ok:
            return f
    return None


def main(run_fn, pid, level="model_checking"):
    import argparse
    ap = argparse.ArgumentParser()
    ap.add_argument("--tier", default=os.environ.get("VERIF_TIER", "quick"), choices=["quick", "thorough"])
    ap.add_argument("--replay", default=None)
    a = ap.parse_args(sys.argv[2:])
    seed = int(os.environ.get("VERIF_SEED", "1") or "1")
    ctx = Ctx(pid, a.tier, seed, level)
    ctx.replay = a.replay
    try:
        run_fn(ctx)
        rc = ctx.finish()
    except MachineryFault as e:
        print("MACHINERY-FAULT property=%s: %s" % (pid, e), file=sys.stderr)
        print("MACHINERY-FAULT property=%s (see stderr)" % pid)
        ctx.cleanup()
        rc = 2
    sys.exit(rc)
