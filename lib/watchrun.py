"""Supervised execution of harness cases in child processes (used by C08: crash / hang observation).

The child (`vhc08 run`) reads cases from stdin, prints {"start": id} before a case and one result line after it,
flushing both.  Nothing is recovered in the child, so a Go panic / fatal error kills it exactly as it would kill
the simulator.  supervise() restarts the child after every death and attributes the death to the case that was
in flight: outcome "crash" (with the first lines of the Go trace).  A case that does not answer within
`budget` seconds is killed and re-run alone once with the same budget before it counts as "hang" - verdicts do
not depend on machine load: the budget is several hundred times the normal running time of a case.
"""
import json, os, resource, select, subprocess, time


def _limits(mem_bytes):
    def f():
        resource.setrlimit(resource.RLIMIT_AS, (mem_bytes, mem_bytes))
        resource.setrlimit(resource.RLIMIT_CORE, (0, 0))
    return f


def _spawn(binary, args, env, mem_bytes, errpath):
    e = dict(os.environ)
    e["GOTRACEBACK"] = "single"
    e["GOMAXPROCS"] = "2"
    if env:
        e.update(env)
    return subprocess.Popen([binary] + args, stdin=subprocess.PIPE, stdout=subprocess.PIPE, stderr=open(errpath, "w"),
                            env=e, preexec_fn=_limits(mem_bytes))


def _crash_text(errpath):
    try:
        t = open(errpath, errors="replace").read()
    except OSError:
        return ""
    for marker in ("panic:", "fatal error:", "runtime: "):
        i = t.find(marker)
        if i >= 0:
            return " | ".join(l.strip() for l in t[i:i + 600].splitlines()[:4])
    return t[-300:].strip()


def _run_from(binary, args, cases, start, budget, mem_bytes, errpath, env):
    """run cases[start:] in one child; returns (results dict id->record, index of the case in flight when the child
    stopped answering or None, reason 'crash'|'hang'|None, text)"""
    p = _spawn(binary, args, env, mem_bytes, errpath)
    out = {}
    try:
        payload = "".join(json.dumps(c) + "\n" for c in cases[start:]).encode()
        # feed stdin from a helper thread-free approach: write everything (pipes are large enough for batches we use,
        # otherwise the child consumes while we poll below)
        import threading

        def feed():
            try:
                p.stdin.write(payload)
                p.stdin.close()
            except (BrokenPipeError, OSError):
                pass
        th = threading.Thread(target=feed, daemon=True)
        th.start()
        inflight = None
        idx = start - 1
        buf = b""
        last = time.time()
        fd = p.stdout.fileno()
        while True:
            r, _, _ = select.select([fd], [], [], 1.0)
            if r:
                chunk = os.read(fd, 1 << 16)
                if not chunk:
                    break
                buf += chunk
                last = time.time()
                while b"\n" in buf:
                    line, buf = buf.split(b"\n", 1)
                    if not line.strip():
                        continue
                    rec = json.loads(line)
                    if "start" in rec:
                        inflight = rec["start"]
                        idx += 1
                    else:
                        out[rec["id"]] = rec
                        inflight = None
            elif inflight is not None and time.time() - last > budget:
                p.kill()
                p.wait()
                return out, idx, "hang", "no answer within %ds" % budget
            elif p.poll() is not None and not r:
                # drained?
                rest = os.read(fd, 1 << 16)
                if not rest:
                    break
                buf += rest
        p.wait()
        if inflight is None and p.returncode == 7:
            # the child reported a hang of case idx itself (per-request watchdog) and left
            return out, idx, "selfhang", ""
        if inflight is not None:
            return out, idx, "crash", _crash_text(errpath)
        if p.returncode != 0 and idx + 1 < len(cases):
            # died between cases (should not happen): blame the next one
            return out, idx + 1, "crash", _crash_text(errpath)
        return out, None, None, ""
    finally:
        if p.poll() is None:
            p.kill()
            p.wait()


def supervise(binary, args, cases, workdir, name, budget=30, mem_bytes=4 << 30, env=None, max_restarts=5000,
              family=None, max_bad_per_family=None):
    """cases: list of dicts with an "id".  Returns dict id -> {"outcome": ..., "msg": ..., "text": ...};
    outcome is what the child reported ("value" / "error" / "unbound") or "crash" / "hang".
    family(case) -> key and max_bad_per_family bound the time spent on a tree that is broken wholesale: once that many
    cases of one family crashed or hung in this shard, the remaining cases of the family get outcome "skipped"."""
    results = {}
    start = 0
    restarts = 0
    bad = {}
    cases = list(cases)
    errpath = os.path.join(workdir, "%s.stderr" % name)
    while start < len(cases):
        out, at, why, text = _run_from(binary, args, cases, start, budget, mem_bytes, errpath, env)
        results.update(out)
        if at is None:
            break
        cid = cases[at]["id"]
        if why == "selfhang":
            pass        # the result line is already in `out`
        elif why == "hang":
            # re-run alone before it counts
            o2, at2, why2, text2 = _run_from(binary, args, [cases[at]], 0, budget, mem_bytes, errpath, env)
            if at2 is None and cid in o2:
                results[cid] = o2[cid]
            else:
                results[cid] = {"id": cid, "outcome": why2 or "hang", "msg": text2 or text}
        else:
            results[cid] = {"id": cid, "outcome": "crash", "msg": text}
        start = at + 1
        restarts += 1
        if family is not None and max_bad_per_family:
            fam = family(cases[at])
            bad[fam] = bad.get(fam, 0) + 1
            if bad[fam] == max_bad_per_family:
                keep = []
                for c in cases[start:]:
                    if family(c) == fam:
                        results[c["id"]] = {"id": c["id"], "outcome": "skipped", "msg": "family %s: %d crashes/hangs already" % (fam, bad[fam])}
                    else:
                        keep.append(c)
                cases = cases[:start] + keep
        if restarts > max_restarts:
            raise RuntimeError("too many child restarts (%d)" % restarts)
    return results
