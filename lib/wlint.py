"""Helpers shared by the lint-side checks (C04, C11, C12): sharded replay of TLC behaviours through a harness
binary.  Additive to lib/vlib.py; nothing here computes an expected value."""
import json, os
from concurrent.futures import ThreadPoolExecutor
from vlib import MachineryFault


def shard_lines(lines_iter, n, workdir, name):
    outs = [open(os.path.join(workdir, "%s_%02d.jsonl" % (name, i)), "w") for i in range(n)]
    k = 0
    for line in lines_iter:
        outs[k % n].write(line if line.endswith("\n") else line + "\n")
        k += 1
    for o in outs:
        o.close()
    return [o.name for o in outs], k


def replay_sharded(ctx, binary, args, lines_iter, name, nshards=None, env=None, timeout=1800):
    """run `binary args` on shards of the given jsonl lines in parallel; returns list of result paths"""
    n = nshards or min(ctx.workers, 16)
    shards, total = shard_lines(lines_iter, n, ctx.work, name)
    if total == 0:
        raise MachineryFault("no behaviours to replay (dead driver): %s" % name)
    ctx.build_bin(binary)

    def one(i):
        if os.path.getsize(shards[i]) == 0:
            return None
        return ctx.harness(binary, args + ["-prefix", "%s%d_" % (name, i)], stdin_path=shards[i],
                           out_name="%s_res_%02d.jsonl" % (name, i), env=env, timeout=timeout)
    with ThreadPoolExecutor(max_workers=n) as ex:
        res = list(ex.map(one, range(n)))
    return [r for r in res if r], total


def iter_lines(paths):
    for p in paths:
        with open(p) as f:
            for line in f:
                if line.strip():
                    yield line


def dead_actions(out_path, names):
    """actions of `names` whose count is 0 in the LAST coverage report of a TLC run (with -coverage TLC prints interim
    reports while the search is still running; an action that has simply not been reached yet is not dead)"""
    import re
    last = {}
    with open(out_path, errors="replace") as f:
        for line in f:
            m = re.match(r"\s*<(\w+) line .*>: (\d+):(\d+)\s*$", line)
            if m:
                last[m.group(1)] = (int(m.group(2)), int(m.group(3)))
    return [a for a in names if a in last and last[a] == (0, 0)]
