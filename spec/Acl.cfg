SPECIFICATION Spec
CONSTANTS
  W = 3
  MaxEntries = 2
  Canonical = FALSE
  RandLen = 0
INVARIANTS
  Agree
  OrderIndependent
  EmitInv
CHECK_DEADLOCK FALSE
