--------------------------------- MODULE Acl ---------------------------------
(***************************************************************************)
(* ACL matching (property C07).                                            *)
(*                                                                         *)
(* Addresses are W-bit vectors (numbers 0 .. 2^W-1).  An entry is          *)
(*   [p: address, len: 0..W, neg: BOOLEAN, nomask: BOOLEAN]                *)
(* `"p"/len` or `!"p"/len`; nomask (only with len = W) is an entry written *)
(* without a mask - a single host.  p need not be canonical: only its top  *)
(* len bits matter.                                                        *)
(*                                                                         *)
(* REQUIREMENT (property text): an address matches exactly when the most   *)
(* specific entry (longest prefix) containing it is not negated, entries   *)
(* without a mask being single hosts, independent of entry order.  When    *)
(* the same longest prefix is listed both plain and negated the statement  *)
(* does not decide (Ambiguous) - such addresses are exempt.                *)
(*                                                                         *)
(* MECHANISM (interpreter/operator/operator.go matchesAcl): one pass over  *)
(* the entries keeping the longest containing prefix seen so far; on equal *)
(* length a negated entry overrides.                                       *)
(*                                                                         *)
(* The replayer embeds the W model bits into IPv4 and IPv6 addresses at    *)
(* spread-out bit positions (so that /len, /32 and /128 differ) and asks   *)
(* the real interpreter `var.ip ~ acl` for every address.                  *)
(***************************************************************************)
EXTENDS Naturals, Sequences, FiniteSets, TLC, Json

CONSTANTS W,           \* address width in model bits
          MaxEntries,  \* exhaustive enumeration of all lists up to this length
          Canonical,   \* TRUE: only entries whose p has no bits below the prefix
          RandLen      \* simulation mode: random lists grow to this length

Addr == 0..(2^W - 1)
Top(a, len) == a \div (2^(W - len))
Entries == { e \in [p : Addr, len : 0..W, neg : BOOLEAN, nomask : BOOLEAN] :
               /\ (e.nomask => e.len = W)
               /\ (Canonical => e.p % (2^(W - e.len)) = 0) }

Contains(e, a) == Top(a, e.len) = Top(e.p, e.len)

(* requirement *)
Containing(acl, a) == { i \in 1..Len(acl) : Contains(acl[i], a) }
Longest(acl, a) == { i \in Containing(acl, a) : \A j \in Containing(acl, a) : acl[j].len <= acl[i].len }
Ambiguous(acl, a) == \E i, j \in Longest(acl, a) : acl[i].neg # acl[j].neg
MatchR(acl, a) == Containing(acl, a) # {} /\ \A i \in Longest(acl, a) : ~acl[i].neg

(* mechanism: the loop of matchesAcl; state = [best: longest length so far or -1 (as W+1 coded 0..W+1), m: result] *)
RECURSIVE Scan(_, _, _, _, _)
Scan(acl, a, i, best, m) ==      \* best: 0 = nothing yet, k+1 = a prefix of length k
  IF i > Len(acl) THEN m
  ELSE LET e == acl[i] IN
       IF ~Contains(e, a) THEN Scan(acl, a, i + 1, best, m)
       ELSE IF e.len + 1 > best THEN Scan(acl, a, i + 1, e.len + 1, ~e.neg)
       ELSE IF e.len + 1 = best /\ e.neg THEN Scan(acl, a, i + 1, best, FALSE)
       ELSE Scan(acl, a, i + 1, best, m)
MatchM(acl, a) == Scan(acl, a, 1, 0, FALSE)

VARIABLE acl
Init == acl = <<>>
Next == Len(acl) < MaxEntries /\ \E e \in Entries : acl' = Append(acl, e)
Spec == Init /\ [][Next]_acl

\* simulation mode: random lists (longer than the exhaustive bound)
RandNext == Len(acl) < RandLen /\ \E e \in {RandomElement(Entries)} : acl' = Append(acl, e)
RandSpec == Init /\ [][RandNext]_acl

(* mechanism |= requirement *)
Agree == \A a \in Addr : ~Ambiguous(acl, a) => MatchM(acl, a) = MatchR(acl, a)
\* the requirement does not depend on the order of the entries (checked on the last two entries swapped and on the reversal)
Swap(s) == IF Len(s) < 2 THEN s ELSE SubSeq(s, 1, Len(s) - 2) \o <<s[Len(s)], s[Len(s) - 1]>>
Reverse(s) == [i \in 1..Len(s) |-> s[Len(s) + 1 - i]]
OrderIndependent == \A a \in Addr : /\ MatchR(Swap(acl), a) = MatchR(acl, a) /\ MatchR(Reverse(acl), a) = MatchR(acl, a)
                                    /\ MatchM(Swap(acl), a) = MatchM(acl, a) /\ MatchM(Reverse(acl), a) = MatchM(acl, a)

\* mixed address families: the replayer also writes the entries at odd positions as IPv4 and those at even positions
\* as IPv6 entries of ONE acl; an address of a family is then judged by the sub-list of its family alone
OddPart(s) == [i \in 1..((Len(s) + 1) \div 2) |-> s[2 * i - 1]]
EvenPart(s) == [i \in 1..(Len(s) \div 2) |-> s[2 * i]]
Bit(b) == IF b THEN 1 ELSE 0
EmitInv == PrintT(<<"BEHAVIOUR", ToJson([w |-> W, acl |-> acl,
                                          r |-> [a \in Addr |-> Bit(MatchR(acl, a))],
                                          amb |-> [a \in Addr |-> Bit(Ambiguous(acl, a))],
                                          m |-> [a \in Addr |-> Bit(MatchM(acl, a))],
                                          rodd |-> [a \in Addr |-> Bit(MatchR(OddPart(acl), a))],
                                          ambodd |-> [a \in Addr |-> Bit(Ambiguous(OddPart(acl), a))],
                                          reven |-> [a \in Addr |-> Bit(MatchR(EvenPart(acl), a))],
                                          ambeven |-> [a \in Addr |-> Bit(Ambiguous(EvenPart(acl), a))]])>>)
=============================================================================
