SPECIFICATION RandSpec
CONSTANTS
  W = 4
  MaxEntries = 0
  Canonical = FALSE
  RandLen = 8
INVARIANTS
  Agree
  OrderIndependent
  EmitInv
CHECK_DEADLOCK FALSE
