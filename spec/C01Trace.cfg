SPECIFICATION TraceSpec
CONSTANTS
  TracePrefix = "traces_"
  Groups = 32
  PragmaEofExit = TRUE
INVARIANT Verdict
CHECK_DEADLOCK FALSE
