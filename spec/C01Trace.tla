------------------------------ MODULE C01Trace ------------------------------
(***************************************************************************)
(* Trace validation for C01 (code -> spec), monitor form: every record is   *)
(* consumed completely and gets a verdict line; requirement violations are  *)
(* listed, mechanism disagreement is flagged (drift), nothing blocks.       *)
(*                                                                         *)
(* One record (ndjson, written by harness vhc01) = one source text:         *)
(*   input  its characters                                                  *)
(*   lexed  whether toks is recorded; toks = what the real lexer returned   *)
(*          up to and including its first EOF                               *)
(*   runs   the parses of that source: mode, cm/ct = the tokenizer calls    *)
(*          the real parser made (method, type returned), outcome, err =    *)
(*          the ParseError token (0 or 1 element)                           *)
(* Verdict:                                                                 *)
(*   exact  <=> toks is what LexerCore!NextToken yields on that input       *)
(*   viol    =  indices of tokens that are not Located (requirement), 0     *)
(*              when the stream does not end in EOF                         *)
(*   per run: pump = 0 <=> the calls are a sequence of complete ReadPeek    *)
(*              runs of PumpCore (mechanism); viol = "outcome" unless a     *)
(*              tree or a parse error came back, "errtok" when the          *)
(*              ParseError token is not Located (requirement)               *)
(* The records are spread over Groups files (TracePrefix<g>.ndjson); a      *)
(* worker loads one file and judges its records, one state per record.      *)
(***************************************************************************)
EXTENDS LexerCore, PumpCore, FiniteSets, Json, TLCExt

CONSTANTS TracePrefix, Groups

\* Canaries built from the specification alone (nothing the lexer / parser under test produced enters them): the
\* source `set x;` on two lines, its token stream as LexerCore!NextToken yields it, and the tokenizer calls PumpCore
\* makes for it.  control must be exact, located, pump = 0, no violation; each canary-* corrupts one field.
CanaryInput == <<"s", "e", "t", " ", "x", "\n", ";">>
VARIABLES stage, grp, file, rec
tvars == <<input, stage, grp, file, rec>>
CanaryToks ==      \* evaluated in a state whose input is CanaryInput
  LET st == Stream(S0, 0, 20) IN [k \in 1..Len(st) |-> [type |-> st[k].type, lit |-> st[k].lit, line |-> st[k].line, col |-> st[k].col]]
\* parser.New pulls SET, IDENT; then LF (+ peek), SEMICOLON, EOF: N N N P N N as PumpCore walks it
CanaryRun(outcome, cm, err) == [mode |-> "vcl", cm |-> cm, ct |-> <<"SET", "IDENT", "LF", "SEMICOLON", "SEMICOLON", "EOF">>,
                                outcome |-> outcome, err |-> err]
GoodCM == <<"N", "N", "N", "P", "N", "N">>
CanaryRecsFor(toks) ==
  LET base == [id |-> "control", input |-> CanaryInput, lexed |-> TRUE, toks |-> toks, runs |-> <<CanaryRun("tree", GoodCM, <<>>)>>] IN
  { base,
    [base EXCEPT !.id = "control-errtok", !.runs = <<CanaryRun("parse_error", GoodCM, <<toks[2]>>)>>],
    [base EXCEPT !.id = "canary-col", !.toks = [toks EXCEPT ![2] = [@ EXCEPT !.col = @ + 1]]],
    [base EXCEPT !.id = "canary-line", !.toks = [toks EXCEPT ![3] = [@ EXCEPT !.line = @ + 1]]],
    [base EXCEPT !.id = "canary-type", !.toks = [toks EXCEPT ![1] = [@ EXCEPT !.type = ""]]],
    [base EXCEPT !.id = "canary-outcome", !.runs = <<CanaryRun("panic", GoodCM, <<>>)>>],
    [base EXCEPT !.id = "canary-pump", !.runs = <<CanaryRun("tree", <<"N", "N", "N", "N", "N", "N">>, <<>>)>>],
    [base EXCEPT !.id = "canary-errtok", !.runs = <<CanaryRun("parse_error", GoodCM, <<[toks[2] EXCEPT !.line = 0, !.col = 0]>>)>>] }
CanaryStep == /\ stage = 0 /\ stage' = 9 /\ input' = CanaryInput /\ UNCHANGED <<grp, file, rec>>     \* set the input ...
CanaryPick == /\ stage = 9 /\ stage' = 3 /\ rec' \in CanaryRecsFor(CanaryToks) /\ UNCHANGED <<grp, file, input>>   \* ... lex it

Init == stage = 0 /\ grp = 0 /\ file = <<>> /\ rec = <<>> /\ input = <<>>
Next == \/ CanaryStep \/ CanaryPick
        \/ /\ stage = 0 /\ stage' = 1 /\ \E g \in 0..(Groups - 1) : grp' = g
           /\ UNCHANGED <<file, rec, input>>
        \/ /\ stage = 1 /\ stage' = 2            \* a worker loads one file ...
           /\ file' = ndJsonDeserialize(TracePrefix \o ToString(grp) \o ".ndjson")
           /\ UNCHANGED <<grp, rec, input>>
        \/ /\ stage = 2 /\ stage' = 3            \* ... and judges each of its records
           /\ \E t \in 1..Len(file) : rec' = file[t] /\ input' = file[t].input
           /\ file' = <<>> /\ UNCHANGED grp
TraceSpec == Init /\ [][Next]_tvars

SameTok(a, b) == a.type = b.type /\ a.lit = b.lit /\ a.line = b.line /\ a.col = b.col

\* walk the recorded calls through the pump; returns 0 when they are complete ReadPeek runs, else the
\* index of the first call the pump would not have made (Len + 1: stopped inside a run)
RECURSIVE Walk(_, _, _)
Walk(run, p, i) ==
  IF i > Len(run.cm) THEN (IF p.pc = "idle" THEN 0 ELSE i)
  ELSE LET q == IF p.pc = "idle" THEN Call(p) ELSE p IN
       IF Method(q.pc) # run.cm[i] THEN i ELSE Walk(run, After(q, run.ct[i]), i + 1)

RunVerdict(starts, run) ==
  [mode |-> run.mode,
   pump |-> Walk(run, Pump0, 1),
   eofcalls |-> Cardinality({i \in 1..Len(run.ct) : run.ct[i] = "EOF"}),
   viol |-> (IF run.outcome \in {"tree", "parse_error"} THEN {} ELSE {"outcome"})
            \cup (IF run.outcome = "parse_error" /\ (run.err = <<>> \/ ~LocatedS(starts, run.err[1])) THEN {"errtok"} ELSE {})]

RecVerdict ==
  LET real == rec.toks
      pred == Stream(S0, 0, Len(real) + 4)
      endsOk == real # <<>> /\ real[Len(real)].type = "EOF"
      starts == LineStarts
  IN [id |-> rec.id,
      lexed |-> rec.lexed,
      exact |-> ~rec.lexed \/ (Len(pred) = Len(real) /\ \A k \in 1..Len(real) : SameTok(pred[k], real[k])),
      viol |-> IF rec.lexed THEN {k \in 1..Len(real) : ~LocatedS(starts, real[k])} \cup (IF endsOk THEN {} ELSE {0}) ELSE {},
      runs |-> [j \in 1..Len(rec.runs) |-> RunVerdict(starts, rec.runs[j])]]

Verdict == stage = 3 => PrintT(<<"BEHAVIOUR", ToJson(RecVerdict)>>)
=============================================================================
