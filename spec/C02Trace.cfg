SPECIFICATION TraceSpec
CONSTANTS
  TracePrefix = "traces_"
  Groups = 16
INVARIANT Verdict
CHECK_DEADLOCK FALSE
