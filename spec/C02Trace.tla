------------------------------ MODULE C02Trace ------------------------------
(***************************************************************************)
(* Trace validation for C02 (code -> spec): expressions beyond the model's  *)
(* bound (seeded random, up to six binary operators, nested calls, if(),    *)
(* parentheses) were parsed by the real parser; a record holds the tokens   *)
(* of the expression as the real lexer cut them and the tree the parser     *)
(* returned (projection).                                                   *)
(* TLC judges each record by the requirement layer of Grammar.tla:          *)
(*   renders - the tree, written out by Render, is exactly the token        *)
(*             sequence: every operand and operator once, in source order   *)
(*             (up to the presence of "+" signs);                           *)
(*   grouped - the grouping is the documented one: no child binds looser    *)
(*             than its parent (or as loosely, on the right) unless it is   *)
(*             written in parentheses;                                      *)
(* and by the mechanism layer: pratt - Grammar!Pratt on the tokens returns  *)
(* the same tree (drift when not).                                          *)
(***************************************************************************)
EXTENDS Grammar, FiniteSets, Json, TLCExt

CONSTANTS TracePrefix, Groups
\* Canaries, built from the specification alone (Grammar's constructors, Render, Strip) - nothing the parser under
\* test produces enters them.  control-*: a written tree with its own rendering must get renders, grouped, pratt;
\* canary-order-*: the operands of the top node swapped must fail renders; canary-grouping-*: the tree regrouped to
\* the other side without parentheses must fail grouped (and pratt).
CA == Ident("req.http.A")   CB == Ident("req.http.B")   CS == String("s")
CanaryTrees == {Infix("&&", Infix("==", CA, CS), CB), Infix("~", CA, Infix("juxt", CS, CB)),
                Infix("||", CA, Infix("&&", CB, Infix("!~", CA, Infix("+", CS, CB)))), Infix("<", Infix("+", CS, CA), CB)}
Swap(t) == [t EXCEPT !.left = t.right, !.right = t.left]
\* (l o1 r1) o r  ->  l o1 (r1 o r)   and   l o (l1 o1 r) -> (l o l1) o1 r : same tokens, the other grouping
Regroup(t) == IF t.left.k = "infix" THEN Infix(t.left.op, t.left.left, Infix(t.op, t.left.right, t.right))
              ELSE Infix(t.right.op, Infix(t.op, t.left, t.right.left), t.right.right)
CanaryRec(kind, i, toksOf, tree) == [id |-> kind \o "-" \o ToString(i), toks |-> Render(toksOf), tree |-> Strip(tree)]
CanarySeq == CHOOSE q \in [1..Cardinality(CanaryTrees) -> CanaryTrees] : \A i, j \in DOMAIN q : i # j => q[i] # q[j]
CanaryRecs == {CanaryRec("control", i, CanarySeq[i], CanarySeq[i]) : i \in DOMAIN CanarySeq}
              \cup {CanaryRec("canary-order", i, CanarySeq[i], Swap(CanarySeq[i])) : i \in DOMAIN CanarySeq}
              \cup {CanaryRec("canary-grouping", i, CanarySeq[i], Regroup(CanarySeq[i])) : i \in DOMAIN CanarySeq}

VARIABLES stage, grp, file, rec
tvars == <<stage, grp, file, rec>>
Init == stage = 0 /\ grp = 0 /\ file = <<>> /\ rec = <<>>
Next == \/ /\ stage = 0 /\ stage' = 1 /\ \E g \in 0..(Groups - 1) : grp' = g /\ UNCHANGED <<file, rec>>
        \/ /\ stage = 1 /\ stage' = 2 /\ file' = ndJsonDeserialize(TracePrefix \o ToString(grp) \o ".ndjson")
           /\ UNCHANGED <<grp, rec>>
        \/ /\ stage = 2 /\ stage' = 3 /\ \E t \in 1..Len(file) : rec' = file[t]
           /\ file' = <<>> /\ UNCHANGED grp
        \/ /\ stage = 0 /\ stage' = 3 /\ rec' \in CanaryRecs /\ UNCHANGED <<grp, file>>
TraceSpec == Init /\ [][Next]_tvars

RECURSIVE WellGrouped(_)
Tight(child, min) == child.k = "group" \/ PrecOf(child) >= min
WellGrouped(t) ==
  CASE t.k = "infix"   -> /\ t.op \in {"||", "&&", "~", "!~", "==", "!=", "<", ">", "<=", ">=", "+", "juxt"}
                          /\ Tight(t.left, DocPrec(t.op)) /\ Tight(t.right, DocPrec(t.op) + 1)
                          /\ WellGrouped(t.left) /\ WellGrouped(t.right)
    [] t.k = "prefix"  -> Tight(t.right, DocPrefix) /\ WellGrouped(t.right)
    [] t.k = "postfix" -> WellGrouped(t.left)
    [] t.k = "group"   -> WellGrouped(t.e)
    [] t.k = "ifx"     -> WellGrouped(t.c) /\ WellGrouped(t.a) /\ WellGrouped(t.b)
    [] t.k = "fcallx"  -> \A i \in 1..Len(t.args) : WellGrouped(t.args[i])
    [] OTHER           -> t.k \in {"ident", "string", "int", "float", "rtime", "bool"}
\* whether a concatenation was written with or without "+" is presentation (InfixExpression.Explicit is not part of
\* the projection): the "+" tokens are left out on both sides
Texts(toks) == LET all == [i \in 1..Len(toks) |-> toks[i].s] IN SelectSeq(all, LAMBDA x : x # "+")
Verdict == stage = 3 =>
  LET p == Pratt(rec.toks) IN
  PrintT(<<"BEHAVIOUR", ToJson([id |-> rec.id,
                                renders |-> Texts(Render(rec.tree)) = Texts(rec.toks),
                                grouped |-> WellGrouped(rec.tree),
                                pratt |-> p.ok /\ p.tree = Strip(rec.tree) /\ p.next = Len(rec.toks) + 1])>>)
=============================================================================
