------------------------------- MODULE Chars -------------------------------
(***************************************************************************)
(* Characters of a VCL source as TLC sees them.  TLC strings are atomic, so *)
(* a source text is a sequence of one-character strings; characters that   *)
(* cannot be written in a TLA+ string have symbolic names:                 *)
(*   "NUL"  the byte 0x00 (also what the lexer's cursor holds past the end) *)
(*   "XFF"  an invalid UTF-8 byte (decoded by Go as U+FFFD, width 1)        *)
(*   "U2" "U3" "U4"  any non-ASCII rune encoded in 2, 3, 4 bytes            *)
(* A column is counted in runes (one per sequence element); only the       *)
(* long-string reader counts bytes (Width).                                *)
(* The harness table harness/internal/vchars maps text <-> these symbols.  *)
(***************************************************************************)
EXTENDS Naturals, Sequences, TLC

NUL == "NUL"
Lower == {"a","b","c","d","e","f","g","h","i","j","k","l","m","n","o","p","q","r","s","t","u","v","w","x","y","z"}
Upper == {"A","B","C","D","E","F","G","H","I","J","K","L","M","N","O","P","Q","R","S","T","U","V","W","X","Y","Z"}
Letter   == Lower \cup Upper \cup {"_"}                       \* lexer.isLetter
DecDigit == {"0","1","2","3","4","5","6","7","8","9"}         \* lexer.isDecimalDigit
Digit    == DecDigit \cup {"."}                               \* lexer.isDigit (includes '.')
HexDigit == DecDigit \cup {"a","b","c","d","e","f","A","B","C","D","E","F"}
Delim    == Letter \cup DecDigit                              \* lexer.isLongStringDelimiter
White    == {" ", "\t", "\r"}                                 \* lexer.skipWhitespace
Width(c) == CASE c = "U2" -> 2 [] c = "U3" -> 3 [] c = "U4" -> 4 [] OTHER -> 1

\* token.keywords (token/token.go); everything else that starts with a letter is IDENT
Keywords ==
  <<"a","c","l">> :> "ACL" @@
  <<"b","a","c","k","e","n","d">> :> "BACKEND" @@
  <<"d","i","r","e","c","t","o","r">> :> "DIRECTOR" @@
  <<"t","a","b","l","e">> :> "TABLE" @@
  <<"s","u","b">> :> "SUBROUTINE" @@
  <<"a","d","d">> :> "ADD" @@
  <<"c","a","l","l">> :> "CALL" @@
  <<"d","e","c","l","a","r","e">> :> "DECLARE" @@
  <<"e","r","r","o","r">> :> "ERROR" @@
  <<"e","s","i">> :> "ESI" @@
  <<"i","n","c","l","u","d","e">> :> "INCLUDE" @@
  <<"i","m","p","o","r","t">> :> "IMPORT" @@
  <<"l","o","g">> :> "LOG" @@
  <<"r","e","s","t","a","r","t">> :> "RESTART" @@
  <<"r","e","t","u","r","n">> :> "RETURN" @@
  <<"s","e","t">> :> "SET" @@
  <<"s","y","n","t","h","e","t","i","c">> :> "SYNTHETIC" @@
  <<"u","n","s","e","t">> :> "UNSET" @@
  <<"i","f">> :> "IF" @@
  <<"e","l","s","e">> :> "ELSE" @@
  <<"e","l","s","e","i","f">> :> "ELSEIF" @@
  <<"e","l","s","i","f">> :> "ELSIF" @@
  <<"t","r","u","e">> :> "TRUE" @@
  <<"f","a","l","s","e">> :> "FALSE" @@
  <<"r","e","m","o","v","e">> :> "REMOVE" @@
  <<"s","y","n","t","h","e","t","i","c",".","b","a","s","e","6","4">> :> "SYNTHETIC_BASE64" @@
  <<"p","e","n","a","l","t","y","b","o","x">> :> "PENALTYBOX" @@
  <<"r","a","t","e","c","o","u","n","t","e","r">> :> "RATECOUNTER" @@
  <<"g","o","t","o">> :> "GOTO" @@
  <<"s","w","i","t","c","h">> :> "SWITCH" @@
  <<"c","a","s","e">> :> "CASE" @@
  <<"d","e","f","a","u","l","t">> :> "DEFAULT" @@
  <<"b","r","e","a","k">> :> "BREAK" @@
  <<"f","a","l","l","t","h","r","o","u","g","h">> :> "FALLTHROUGH" @@
  <<"p","r","a","g","m","a">> :> "PRAGMA"
LookupIdent(lit) == IF lit \in DOMAIN Keywords THEN Keywords[lit] ELSE "IDENT"

(***************************************************************************)
(* The chunk alphabet of the bounded model: multi-character pieces chosen   *)
(* so that every arm of NextToken and every exit of every reader is         *)
(* reachable within three chunks.  QuickChunks is the sub-alphabet of the   *)
(* quick tier.  (A .cfg file cannot hold tuples, hence the definitions.)    *)
(***************************************************************************)
QuickChunks == {
  <<"x">>, <<"C","!">>, <<"p","r","a","g","m","a">>, <<"d","e","f","a","u","l","t">>, <<"r","o","l">>,
  <<"1">>, <<"0","x">>, <<".">>, <<"e">>, <<"m","s">>, <<"-">>, <<":">>, <<"\"">>, <<"{">>, <<"}">>,
  <<"/">>, <<"*">>, <<"#">>, <<"\n">>, <<" ">>, <<"=">>, <<"|">>, <<"<">>, <<"!">>, <<";">>, <<"NUL">>, <<"U2">>,
  <<"{", "\"">>, <<"\"", "}">> }
MoreChunks == {
  <<"C">>, <<"W","!">>, <<"r","o","r">>, <<"0">>, <<"p">>, <<"s">>, <<"h">>, <<"f">>, <<"X">>, <<"_">>,
  <<"\t">>, <<"\r">>, <<"&">>, <<"^">>, <<">">>, <<"~">>, <<"%">>, <<"+">>, <<",">>, <<"(">>, <<")">>,
  <<"[">>, <<"]">>, <<"XFF">>, <<"@">>, <<"i","f">>,
  \* the remaining RTIME units, the capital spellings of the hex prefix and of the exponent markers
  <<"m">>, <<"d">>, <<"y">>, <<"0","X">>, <<"E">>, <<"P">>, <<"W">> }
AllChunks == QuickChunks \cup MoreChunks
\* a small alphabet for long inputs: line structure, strings, long strings, comments left open and closed across
\* several lines, a wide rune - the state the lexer carries from token to token (line / column bookkeeping, the
\* queue of pushed tokens) is only visible several tokens later
DeepChunks == { <<"x">>, <<" ">>, <<"\n">>, <<"\"">>, <<"{", "\"">>, <<"\"", "}">>, <<"/", "*">>, <<"*", "/">>, <<"#">>, <<"U2">> }
RECURSIVE Flatten(_)
Flatten(cs) == IF cs = <<>> THEN <<>> ELSE Head(cs) \o Flatten(Tail(cs))
=============================================================================
