SPECIFICATION Spec
CONSTANTS
  Tier = "quick"
  MutBases = "kinds"
INVARIANTS
  EmitInv
CHECK_DEADLOCK FALSE
