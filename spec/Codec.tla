-------------------------------- MODULE Codec --------------------------------
(***************************************************************************)
(* The AST codec of falco (ast/codec): statements are shipped to lint      *)
(* plugins as type-length-value frames.                                    *)
(*                                                                         *)
(* A frame is a type byte, a 16-bit length and a payload.  Leaf frames     *)
(* (identifier, string, operator, boolean, integer, float, rtime, ip)      *)
(* carry bytes; every other frame is a container whose payload is the      *)
(* concatenation of its children - and the decoder never looks at a        *)
(* container's length: it reads the stream as ONE FLAT SEQUENCE of frame   *)
(* headers, leaf payloads and the one-byte markers END (closes a           *)
(* variable-length child list) and FIN (closes the stream).  The model     *)
(* therefore works on that flat token sequence.                            *)
(*                                                                         *)
(* Two layers:                                                             *)
(*   requirement  RoundTrip: decoding the encoding of a node yields the    *)
(*                node's semantic part (Sem: everything except the         *)
(*                presentational fields); DecTotal: on every token         *)
(*                sequence the decoder ends in "ok" or "err" - never       *)
(*                "panic", never "hang".                                   *)
(*   mechanism    EncF(kind): the fields *_encode.go writes, in order,     *)
(*                with the conditions under which it writes them;          *)
(*                DecF(kind): the fields *_decode.go reads, with how it    *)
(*                detects an optional one (peek) and what each loop does   *)
(*                with a frame it does not expect; ReadLeaf = Frame.Read   *)
(*                plus the per-type payload access.  The two tables are    *)
(*                transcribed independently: a field present in one and    *)
(*                absent in the other is exactly a RoundTrip violation.    *)
(***************************************************************************)
EXTENDS Integers, Sequences, FiniteSets, TLC, Json

CONSTANTS Tier,        \* "quick" / "thorough": size of the generated node pools
          MutBases     \* which nodes are mutated for DecTotal: "kinds" (one per kind) / "all"

Nil == [k |-> "nil"]

(***************************************************************************)
(* Symbol tables: byte lengths of the leaf values the generator uses.      *)
(* (The Go concretiser holds the same symbols; S<n> is n times "x".)       *)
(***************************************************************************)
\* Size sweep: literal lengths chosen so that the payload of an enclosing COMPOSITE frame is exactly 65534, 65535,
\* 65536, 65537 or 131071 bytes (its 16-bit length field then reads FFFE, FFFF, 0000, 0001, FFFF).  over = the
\* bytes of that payload besides the literal's own bytes, with a 3-byte literal header (frame layout, see EncF):
\*   set   IDENT(3+10) OPERATOR(3+1) STRING(3+n)                 infix  IDENT(3+10) OPERATOR(3+1) STRING(3+n)
\*   call  IDENT(3+8) STRING(3+n) END(1)                          block  SET(3+20+n) END(1)
Targets == {65534, 65535, 65536, 65537, 131071}
Fit(over, T) == IF T - over < 65535 THEN T - over ELSE T - over - 4       \* a literal of >= 65535 bytes has a 7-byte header
SweepSpecs == {<<"set", 20>>, <<"infix", 20>>, <<"call", 15>>, <<"block", 24>>}
SweepNs == {Fit(sp[2], T) : sp \in SweepSpecs, T \in Targets}
Sym(n) == "S" \o ToString(n)
StrLen(v) == CASE v = "" -> 0 [] v = "x" -> 1 [] v = "yz" -> 2 [] v = "e9" -> 2   \* "e9" = U+00E9, two bytes
               [] v = "S65535" -> 65535 [] v = "S65536" -> 65536 [] v = "S70000" -> 70000
               [] v = "if" -> 2 [] v = "else if" -> 7 [] v = "elseif" -> 6 [] v = "elsif" -> 5
               [] v = "m" -> 1 [] v = "GET /" -> 5 [] v = "h" -> 1 [] v = "eA==" -> 4
               [] v = "10.0.0.0" -> 8 [] v = "::1" -> 3 [] v = "192.168.0.1" -> 11
               \* values a "normalising" codec would change: U+FFFD itself (a U+FFFD b), a 4-byte rune, a leading U+FEFF,
               \* U+2028 between letters, surrounding blanks; addresses in non-canonical spellings and non-addresses
               [] v = "uFFFD" -> 5 [] v = "u1F600" -> 4 [] v = "uFEFF" -> 4 [] v = "u2028" -> 5 [] v = "sp" -> 3 [] v = "X" -> 1
               [] v = "2001:DB8::1" -> 11 [] v = "0:0:0:0:0:0:0:1" -> 15 [] v = "::ffff:192.0.2.7" -> 16
               [] v = "010.001.000.001" -> 15 [] v = "localhost" -> 9 [] v = "2001:0db8:0000::0001" -> 20
               [] OTHER -> CHOOSE n \in SweepNs : v = Sym(n)            \* "S<n>" of the size sweep
IdLen(v) == CASE v = "req.http.X-Foo" -> 14 [] v = "req.http.x-foo:Bar" -> 18 [] v = "req.http.A" -> 10 [] v = "req.http.B" -> 10 [] v = "var.x" -> 5 [] v = "var.p" -> 5 [] v = "var.q" -> 5
              [] v = "STRING" -> 6 [] v = "INTEGER" -> 7 [] v = "BOOL" -> 4 [] v = "f" -> 1 [] v = "s" -> 1 [] v = "l" -> 1 [] v = "l:" -> 2
              [] v = "std.itoa" -> 8 [] v = "std.collect" -> 11 [] v = "std.tolower" -> 11 [] v = "std.toupper" -> 11 [] v = "std.strstr" -> 10 [] v = "lookup" -> 6 [] v = "a" -> 1 [] v = "b" -> 1 [] v = "d" -> 1
              [] v = "t" -> 1 [] v = "p" -> 1 [] v = "r" -> 1 [] v = "random" -> 6 [] v = "host" -> 4 [] v = "port" -> 4 [] v = "probe" -> 5
              [] v = "request" -> 7 [] v = "timeout" -> 7 [] v = "quorum" -> 6 [] v = "backend" -> 7 [] v = "weight" -> 6
              [] v = "vcl_recv" -> 8
LitLen(v) == CASE v = "10" -> 2 [] v = "1" -> 1 [] v = "8" -> 1 [] v = "16" -> 2 [] v = "401" -> 3 [] v = "50" -> 2
               [] v = "1.5" -> 3 [] v = "0.25" -> 4 [] v = "0.1" -> 3 [] v = "9223372036854775807" -> 19
               [] OTHER -> 0                       \* "d<n>": an integer the encoder synthesises (no source literal)
OpLen(v) == CASE v \in {"=", "+", "!", "~", "%", "-", "<", ">"} -> 1 [] v \in {"<<=", ">>=", "&&=", "||="} -> 3
              [] v \in {"rol=", "ror="} -> 4 [] OTHER -> 2
RtLen(v) == CASE v \in {"10s", "60s"} -> 3 [] v = "1.5h" -> 4 [] v = "010ms" -> 5

LeafFT == [ident |-> "IDENT_VALUE", string |-> "STRING_VALUE", ip |-> "IP_VALUE", int |-> "INTEGER_VALUE",
           float |-> "FLOAT_VALUE", rtime |-> "RTIME_VALUE", bool |-> "BOOL_VALUE", op |-> "OPERATOR"]
LeafKinds == DOMAIN LeafFT
FTLeafKind == [IDENT_VALUE |-> "ident", STRING_VALUE |-> "string", IP_VALUE |-> "ip", INTEGER_VALUE |-> "int",
               FLOAT_VALUE |-> "float", RTIME_VALUE |-> "rtime", BOOL_VALUE |-> "bool", OPERATOR |-> "op"]
LeafTypes == DOMAIN FTLeafKind
PayLen(x) == CASE x.k = "ident" -> IdLen(x.v) [] x.k \in {"string", "ip"} -> StrLen(x.v) [] x.k = "op" -> OpLen(x.v)
               [] x.k = "rtime" -> RtLen(x.v) [] x.k = "bool" -> 1 [] x.k \in {"int", "float"} -> 8 + LitLen(x.v)

(* container kinds and their frame types *)
FT == [set |-> "SET_STATEMENT", add |-> "ADD_STATEMENT", unset |-> "UNSET_STATEMENT", remove |-> "REMOVE_STATEMENT",
       declare |-> "DECLARE_STATEMENT", call |-> "CALL_STATEMENT", fcall |-> "FUNCTIONCALL_STATEMENT",
       error |-> "ERROR_STATEMENT", esi |-> "ESI_STATEMENT", restart |-> "RESTART_STATEMENT", break |-> "BREAK_STATEMENT",
       fallthrough |-> "FALLTHROUGH_STATEMENT", log |-> "LOG_STATEMENT", synthetic |-> "SYNTHETIC_STATEMENT",
       synthetic64 |-> "SYNTHETIC_BASE64_STATEMENT", goto |-> "GOTO_STATEMENT", label |-> "GOTO_DESTINATION_STATEMENT",
       return |-> "RETURN_STATEMENT", if |-> "IF_STATEMENT", else |-> "ELSE_STATEMENT", switch |-> "SWITCH_STATEMENT",
       case |-> "CASE_STATEMENT", block |-> "BLOCK_STATEMENT", import |-> "IMPORT_STATEMENT", include |-> "INCLUDE_STATEMENT",
       acl |-> "ACL_DECLARATION", cidr |-> "ACL_CIDR", backend |-> "BACKEND_DECLARATION", bprop |-> "BACKEND_PROPERTY",
       bprobe |-> "BACKEND_PROBE", director |-> "DIRECTOR_DECLARATION", dprop |-> "DIRECTOR_PROPERTY",
       dbackend |-> "DIRECTOR_BACKEND", table |-> "TABLE_DECLARATION", tprop |-> "TABLE_PROPERTY",
       sub |-> "SUBROUTINE_DECLARATION", param |-> "SUBROUTINE_PARAMETER", penaltybox |-> "PENALTYBOX_DECLARATION", ratecounter |-> "RATECOUNTER_DECLARATION",
       group |-> "GROUPED_EXPRESSION", infix |-> "INFIX_EXPRESSION", postfix |-> "POSTFIX_EXPRESSION",
       prefix |-> "PREFIX_EXPRESSION", ifx |-> "IF_EXPRESSION", fcallx |-> "FUNCTIONCALL_EXPRESSION"]
\* Decoder.decode: the frame types accepted where a statement is expected
StmtKinds == {"acl", "backend", "director", "penaltybox", "ratecounter", "sub", "table", "add", "block", "break", "call", "case",
              "declare", "error", "esi", "fallthrough", "fcall", "goto", "label", "if", "import", "include", "log", "remove",
              "restart", "return", "set", "switch", "synthetic", "synthetic64", "unset"}
ExprContainerKinds == {"group", "infix", "postfix", "prefix", "ifx", "fcallx"}
KindOfFT(t, ks) == CHOOSE kk \in ks : FT[kk] = t
\* helper.go isExpressionFrame
ExprTypes == {FT[kk] : kk \in ExprContainerKinds} \cup (LeafTypes \ {"OPERATOR"})

(***************************************************************************)
(* Schema: the fields of every node kind; ty = how Sem treats the field.   *)
(*   pres = presentational (excepted by the property statement)            *)
(***************************************************************************)
F(n, ty) == [n |-> n, ty |-> ty]
Schema(kd) ==
  CASE kd \in {"set", "add"} -> <<F("ident", "node"), F("op", "node"), F("value", "node")>>
    [] kd \in {"unset", "remove"} -> <<F("ident", "node")>>
    [] kd = "declare" -> <<F("name", "node"), F("vtype", "node"), F("value", "node")>>
    [] kd = "call" -> <<F("sub", "node"), F("args", "list")>>
    [] kd \in {"fcall", "fcallx"} -> <<F("fn", "node"), F("args", "list")>>
    [] kd = "error" -> <<F("code", "node"), F("arg", "node")>>
    [] kd \in {"esi", "restart", "break", "fallthrough"} -> <<>>
    [] kd \in {"log", "synthetic", "synthetic64"} -> <<F("value", "node")>>
    [] kd = "goto" -> <<F("dest", "node")>>
    [] kd \in {"label", "import", "penaltybox", "ratecounter"} -> <<F("name", "node")>>
    [] kd = "include" -> <<F("module", "node")>>
    [] kd = "return" -> <<F("hp", "pres"), F("expr", "node")>>
    [] kd = "if" -> <<F("keyword", "pres"), F("cond", "node"), F("then", "node"), F("elifs", "list"), F("else", "node")>>
    [] kd = "else" -> <<F("block", "node")>>
    [] kd = "block" -> <<F("stmts", "list")>>
    [] kd = "switch" -> <<F("control", "node"), F("cases", "list"), F("dflt", "pres")>>
    [] kd = "case" -> <<F("test", "node"), F("stmts", "list"), F("ft", "bool")>>
    [] kd = "acl" -> <<F("name", "node"), F("cidrs", "list")>>
    [] kd = "cidr" -> <<F("inverse", "node"), F("ip", "node"), F("mask", "node")>>
    [] kd \in {"backend"} -> <<F("name", "node"), F("props", "list")>>
    [] kd \in {"bprop", "dprop", "tprop"} -> <<F("key", "node"), F("value", "node")>>
    [] kd = "bprobe" -> <<F("key", "node"), F("props", "list")>>
    [] kd = "director" -> <<F("name", "node"), F("dtype", "node"), F("props", "list")>>
    [] kd = "dbackend" -> <<F("props", "list")>>
    [] kd = "table" -> <<F("name", "node"), F("vtype", "node"), F("props", "list")>>
    [] kd = "sub" -> <<F("name", "node"), F("params", "list"), F("rtype", "node"), F("block", "node")>>
    [] kd = "param" -> <<F("type", "node"), F("name", "node")>>
    [] kd = "group" -> <<F("e", "node")>>
    [] kd = "infix" -> <<F("left", "node"), F("op", "node"), F("right", "node")>>
    [] kd = "postfix" -> <<F("left", "node"), F("op", "node")>>
    [] kd = "prefix" -> <<F("op", "node"), F("right", "node")>>
    [] kd = "ifx" -> <<F("c", "node"), F("a", "node"), F("b", "node")>>

SeqToSet(s) == {s[i] : i \in 1..Len(s)}
FieldOf(kd, nm) == CHOOSE fd \in SeqToSet(Schema(kd)) : fd.n = nm
\* the node a decoder starts from (Go zero values)
Blank(kd) == [nm \in {"k"} \cup {fd.n : fd \in SeqToSet(Schema(kd))} |->
               IF nm = "k" THEN kd
               ELSE LET ty == FieldOf(kd, nm).ty IN
                    IF ty = "list" THEN <<>> ELSE IF ty = "bool" THEN FALSE ELSE Nil]

(***************************************************************************)
(* Requirement layer                                                       *)
(***************************************************************************)
RECURSIVE Sem(_)
Sem(x) ==
  IF x.k = "nil" \/ x.k \in LeafKinds THEN x
  ELSE [nm \in {"k"} \cup {fd.n : fd \in {g \in SeqToSet(Schema(x.k)) : g.ty # "pres"}} |->
          IF nm = "k" THEN x.k
          ELSE LET ty == FieldOf(x.k, nm).ty IN
               IF ty = "list" THEN [i \in 1..Len(x[nm]) |-> Sem(x[nm][i])]
               ELSE IF ty = "bool" THEN x[nm] ELSE Sem(x[nm])]

(***************************************************************************)
(* Mechanism layer - encoder                                               *)
(* field descriptors [f, n, t, kinds, lenient]                             *)
(***************************************************************************)
D(f, n, t) == [f |-> f, n |-> n, t |-> t, kinds |-> [x \in {} |-> ""], lenient |-> FALSE]
Items(n, kinds, lenient) == [f |-> "items", n |-> n, t |-> "", kinds |-> kinds, lenient |-> lenient]

\* *_encode.go: what is written for each kind, in order
\*   node     the child frame (a nil expression is written as an UNKNOWN frame)
\*   optnode  the child frame if the field is not nil
\*   list     every element, then END
\*   optlist  as list, but nothing at all for an empty list
\*   rawlist  every element, no END (the elements are recognised by their frame type)
\*   iftrue   BOOL true if the flag is set, nothing otherwise
EncF(kd) ==
  CASE kd \in {"set", "add"} -> <<D("node", "ident", ""), D("node", "op", ""), D("node", "value", "")>>
    [] kd \in {"unset", "remove"} -> <<D("node", "ident", "")>>
    [] kd = "declare" -> <<D("node", "name", ""), D("node", "vtype", ""), D("optnode", "value", "")>>
    [] kd = "call" -> <<D("node", "sub", ""), D("optlist", "args", "")>>         \* arguments and END only if there are any
    [] kd \in {"fcall", "fcallx"} -> <<D("node", "fn", ""), D("list", "args", "")>>
    [] kd = "error" -> <<D("optnode", "code", ""), D("optnode", "arg", "")>>
    [] kd \in {"esi", "restart", "break", "fallthrough"} -> <<>>
    [] kd \in {"log", "synthetic", "synthetic64"} -> <<D("node", "value", "")>>
    [] kd = "goto" -> <<D("node", "dest", "")>>
    [] kd \in {"label", "import", "penaltybox", "ratecounter"} -> <<D("node", "name", "")>>
    [] kd = "include" -> <<D("node", "module", "")>>
    [] kd = "return" -> <<D("node", "hp", ""), D("optnode", "expr", "")>>
    [] kd = "if" -> <<D("node", "keyword", ""), D("node", "cond", ""), D("node", "then", ""), D("list", "elifs", ""),
                      D("optnode", "else", "")>>
    [] kd = "else" -> <<D("node", "block", "")>>
    [] kd = "block" -> <<D("list", "stmts", "")>>
    [] kd = "switch" -> <<D("node", "control", ""), D("list", "cases", ""), D("node", "dflt", "")>>
    [] kd = "case" -> <<D("optnode", "test", ""), D("list", "stmts", ""), D("iftrue", "ft", "")>>
    [] kd = "acl" -> <<D("node", "name", ""), D("list", "cidrs", "")>>
    [] kd = "cidr" -> <<D("optnode", "inverse", ""), D("node", "ip", ""), D("optnode", "mask", "")>>
    [] kd = "backend" -> <<D("node", "name", ""), D("list", "props", "")>>
    [] kd \in {"bprop", "dprop", "tprop"} -> <<D("node", "key", ""), D("node", "value", "")>>
    [] kd = "bprobe" -> <<D("node", "key", ""), D("list", "props", "")>>
    [] kd = "director" -> <<D("node", "name", ""), D("node", "dtype", ""), D("list", "props", "")>>
    [] kd = "dbackend" -> <<D("list", "props", "")>>
    [] kd = "table" -> <<D("node", "name", ""), D("optnode", "vtype", ""), D("list", "props", "")>>
    [] kd = "sub" -> <<D("node", "name", ""), D("rawlist", "params", ""), D("optnode", "rtype", ""), D("node", "block", "")>>
    [] kd = "param" -> <<D("node", "type", ""), D("node", "name", "")>>
    [] kd = "group" -> <<D("node", "e", "")>>
    [] kd = "infix" -> <<D("optnode", "left", ""), D("node", "op", ""), D("node", "right", "")>>
    [] kd = "postfix" -> <<D("node", "left", ""), D("node", "op", "")>>
    [] kd = "prefix" -> <<D("node", "op", ""), D("node", "right", "")>>
    [] kd = "ifx" -> <<D("node", "c", ""), D("node", "a", ""), D("node", "b", "")>>

\* tokens: [t, sz, len, v, part]   sz = the 16-bit length field; len = payload bytes that follow; part = "" (complete)
Tok(t, sz, len, v) == [t |-> t, sz |-> sz, len |-> len, v |-> v, part |-> ""]
EndTok == Tok("END", 0, 0, "")
FinTok == Tok("FIN", 0, 0, "")
\* frame.go Encode: a value (leaf) frame of 65535 bytes or more has 0xFFFF in the 16-bit field and a 32-bit length after it
HdrLen(tk) == IF tk.t \in LeafTypes /\ tk.sz >= 65535 THEN 7 ELSE 3
RECURSIVE ByteLen(_)
ByteLen(s) == IF s = <<>> THEN 0
              ELSE (IF Head(s).t \in {"END", "FIN"} THEN 1 ELSE HdrLen(Head(s)) + Head(s).len) + ByteLen(Tail(s))

RECURSIVE EncNode(_), EncFlds(_, _, _), EncList(_, _)
EncNode(x) ==
  IF x.k = "nil" THEN <<Tok("UNKNOWN", 0, 0, "")>>
  ELSE IF x.k \in LeafKinds THEN <<Tok(LeafFT[x.k], PayLen(x), PayLen(x), x.v)>>
  ELSE LET body == EncFlds(x, EncF(x.k), 1) IN <<Tok(FT[x.k], ByteLen(body) % 65536, 0, "")>> \o body
EncFlds(x, fds, i) ==
  IF i > Len(fds) THEN <<>>
  ELSE LET fd == fds[i]
           val == x[fd.n]
           here == CASE fd.f = "node" -> EncNode(val)
                     [] fd.f = "optnode" -> IF val = Nil THEN <<>> ELSE EncNode(val)
                     [] fd.f = "list" -> EncList(val, 1) \o <<EndTok>>
                     [] fd.f = "optlist" -> IF val = <<>> THEN <<>> ELSE EncList(val, 1) \o <<EndTok>>
                     [] fd.f = "rawlist" -> EncList(val, 1)
                     [] fd.f = "iftrue" -> IF val THEN <<Tok("BOOL_VALUE", 1, 1, "true")>> ELSE <<>>
       IN here \o EncFlds(x, fds, i + 1)
EncList(l, i) == IF i > Len(l) THEN <<>> ELSE EncNode(l[i]) \o EncList(l, i + 1)

Enc(x) == EncNode(x) \o <<FinTok>>          \* Encoder.Encode

(***************************************************************************)
(* Mechanism layer - decoder                                               *)
(***************************************************************************)
\* *_decode.go: what is read for each kind, in order
\*   leaf t      nextFrame must be a leaf of type t (typeMismatch otherwise)
\*   optleaf t   read it if peekFrame has type t
\*   expr        decodeExpression(nextFrame)
\*   optexpr     decodeExpression(nextFrame) if isExpressionFrame(peekFrame)
\*   optinfix    INFIX_EXPRESSION if peeked
\*   block       peek must be BLOCK_STATEMENT, then statements until END
\*   optelse     ELSE_STATEMENT if peeked, then as block
\*   stmts/exprs loop until END: FIN is an error, anything else is decoded as a statement / expression
\*   optexprs    as exprs, but only if isExpressionFrame(peekFrame)
\*   items       loop until END: FIN is an error, the listed frame types are decoded; any other frame is an
\*               error - or, if lenient, silently skipped (no list is lenient any more: decodeIfStatement's
\*               else-if loop used to have no default arm and spun for ever at the end of a truncated input)
\*   peekitems   while peekFrame has one of the listed types: decode it (no END)
\*   truebool    BOOL if peeked (case fallthrough)
DecF(kd) ==
  CASE kd \in {"set", "add"} -> <<D("leaf", "ident", "IDENT_VALUE"), D("leaf", "op", "OPERATOR"), D("expr", "value", "")>>
    [] kd = "unset" -> <<D("leaf", "ident", "IDENT_VALUE")>>
    [] kd = "remove" -> <<D("leaf", "ident", "IDENT_VALUE")>>
    [] kd = "declare" -> <<D("leaf", "name", "IDENT_VALUE"), D("leaf", "vtype", "IDENT_VALUE"), D("optexpr", "value", "")>>
    [] kd = "call" -> <<D("leaf", "sub", "IDENT_VALUE"), D("optexprs", "args", "")>>
    [] kd \in {"fcall", "fcallx"} -> <<D("leaf", "fn", "IDENT_VALUE"), D("exprs", "args", "")>>
    [] kd = "error" -> <<D("optexpr", "code", ""), D("optexpr", "arg", "")>>
    [] kd \in {"esi", "restart", "break", "fallthrough"} -> <<>>
    [] kd \in {"log", "synthetic", "synthetic64"} -> <<D("expr", "value", "")>>
    [] kd = "goto" -> <<D("leaf", "dest", "IDENT_VALUE")>>
    [] kd \in {"label", "import", "penaltybox", "ratecounter"} -> <<D("leaf", "name", "IDENT_VALUE")>>
    [] kd = "include" -> <<D("leaf", "module", "STRING_VALUE")>>
    [] kd = "return" -> <<D("leaf", "hp", "BOOL_VALUE"), D("optexpr", "expr", "")>>
    [] kd = "if" -> <<D("leaf", "keyword", "STRING_VALUE"), D("expr", "cond", ""), D("block", "then", ""),
                      Items("elifs", [IF_STATEMENT |-> "if"], FALSE), D("optelse", "else", "")>>
    [] kd = "block" -> <<D("stmts", "stmts", "")>>
    [] kd = "switch" -> <<D("expr", "control", ""), Items("cases", [CASE_STATEMENT |-> "case"], FALSE),
                          D("optleaf", "dflt", "INTEGER_VALUE")>>
    [] kd = "case" -> <<D("optinfix", "test", ""), D("stmts", "stmts", ""), D("truebool", "ft", "")>>
    [] kd = "acl" -> <<D("leaf", "name", "IDENT_VALUE"), Items("cidrs", [ACL_CIDR |-> "cidr"], FALSE)>>
    [] kd = "cidr" -> <<D("optleaf", "inverse", "BOOL_VALUE"), D("leaf", "ip", "IP_VALUE"), D("optleaf", "mask", "INTEGER_VALUE")>>
    [] kd = "backend" -> <<D("leaf", "name", "IDENT_VALUE"),
                           Items("props", [BACKEND_PROPERTY |-> "bprop", BACKEND_PROBE |-> "bprobe"], FALSE)>>
    [] kd \in {"bprop", "dprop"} -> <<D("leaf", "key", "IDENT_VALUE"), D("expr", "value", "")>>
    [] kd = "tprop" -> <<D("leaf", "key", "STRING_VALUE"), D("expr", "value", "")>>
    [] kd = "bprobe" -> <<D("leaf", "key", "IDENT_VALUE"), Items("props", [BACKEND_PROPERTY |-> "bprop"], FALSE)>>
    [] kd = "director" -> <<D("leaf", "name", "IDENT_VALUE"), D("leaf", "dtype", "IDENT_VALUE"),
                            Items("props", [DIRECTOR_PROPERTY |-> "dprop", DIRECTOR_BACKEND |-> "dbackend"], FALSE)>>
    [] kd = "dbackend" -> <<Items("props", [DIRECTOR_PROPERTY |-> "dprop"], FALSE)>>
    [] kd = "table" -> <<D("leaf", "name", "IDENT_VALUE"), D("optleaf", "vtype", "IDENT_VALUE"),
                         Items("props", [TABLE_PROPERTY |-> "tprop"], FALSE)>>
    [] kd = "sub" -> <<D("leaf", "name", "IDENT_VALUE"), [Items("params", [SUBROUTINE_PARAMETER |-> "param"], FALSE) EXCEPT !.f = "peekitems"],
                       D("optleaf", "rtype", "IDENT_VALUE"), D("block", "block", "")>>
    [] kd = "param" -> <<D("leaf", "type", "IDENT_VALUE"), D("leaf", "name", "IDENT_VALUE")>>
    [] kd = "group" -> <<D("expr", "e", "")>>
    [] kd = "infix" -> <<D("optexpr", "left", ""), D("leaf", "op", "OPERATOR"), D("expr", "right", "")>>
    [] kd = "postfix" -> <<D("expr", "left", ""), D("leaf", "op", "OPERATOR")>>
    [] kd = "prefix" -> <<D("leaf", "op", "OPERATOR"), D("expr", "right", "")>>
    [] kd = "ifx" -> <<D("expr", "c", ""), D("expr", "a", ""), D("expr", "b", "")>>

UnknownTok == Tok("UNKNOWN", 0, 0, "")
\* decoder.go peekFrame: the type of the next frame; UNKNOWN when fewer than 3 bytes are left.  It looks at type
\* and 16-bit length only: the header of a long value (7 bytes) cut inside its 32-bit length still shows its type
Peek(s, p) == IF p > Len(s) THEN "UNKNOWN"
              ELSE IF s[p].part \in {"hdr1", "hdr2"} THEN "UNKNOWN"
              ELSE s[p].t
\* decoder.go nextFrame: FIN is sticky; at the end of input an UNKNOWN frame is returned for ever;
\* a header cut after its type byte or inside its 16-bit or 32-bit length is UNKNOWN (io.ReadFull)
Next(s, p) == IF p > Len(s) THEN [tok |-> UnknownTok, p |-> p, eof |-> TRUE]
              ELSE IF s[p].t = "FIN" THEN [tok |-> s[p], p |-> p, eof |-> FALSE]
              ELSE IF s[p].part \in {"hdr1", "hdr2", "hdr3", "hdr4", "hdr5", "hdr6"} THEN [tok |-> UnknownTok, p |-> p + 1, eof |-> FALSE]
              ELSE [tok |-> s[p], p |-> p + 1, eof |-> FALSE]

R(r, p, n) == [r |-> r, p |-> p, n |-> n]
\* Frame.Read + the access to the payload each leaf decoder makes
ReadLeaf(tok, t) ==
  IF tok.t # t THEN "err"                                   \* typeMismatch
  ELSE IF tok.part = "ext" THEN "desync"                    \* length bytes overwritten with FF FF: the payload is read as a 32-bit length
  ELSE IF tok.len < tok.sz THEN "err"                       \* payload cut short (end of input): io.ReadFull fails
  ELSE IF tok.len > tok.sz THEN "desync"                    \* the rest of the payload would be read as frames
  ELSE IF t = "BOOL_VALUE" /\ tok.sz < 1 THEN "err"         \* a zero-length payload is fine for every other leaf
  ELSE IF t \in {"INTEGER_VALUE", "FLOAT_VALUE"} /\ tok.sz < 8 THEN "err"
  ELSE "ok"
LeafNode(tok) == IF tok.t = "BOOL_VALUE" THEN [k |-> "bool", v |-> tok.v] ELSE [k |-> FTLeafKind[tok.t], v |-> tok.v]

RECURSIVE DecKind(_, _, _), DecFlds(_, _, _, _, _), DecLoop(_, _, _, _), DecPeek(_, _, _, _), DecExprTok(_, _, _), DecStmtTok(_, _, _)
DecExprTok(s, p, tok) ==
  IF tok.t \in LeafTypes \ {"OPERATOR"}
  THEN LET rl == ReadLeaf(tok, tok.t) IN IF rl = "ok" THEN R("ok", p, LeafNode(tok)) ELSE R(rl, p, Nil)
  ELSE IF tok.t \in {FT[kk] : kk \in ExprContainerKinds} THEN DecKind(s, p, KindOfFT(tok.t, ExprContainerKinds))
  ELSE R("err", p, Nil)
DecStmtTok(s, p, tok) ==
  IF tok.t \in {FT[kk] : kk \in StmtKinds} THEN DecKind(s, p, KindOfFT(tok.t, StmtKinds)) ELSE R("err", p, Nil)
DecKind(s, p, kd) == DecFlds(s, p, Blank(kd), DecF(kd), 1)
DecFlds(s, p, node, fds, i) ==
  IF i > Len(fds) THEN R("ok", p, node)
  ELSE
  LET fd == fds[i]
      nx == Next(s, p)
      pk == Peek(s, p)
      Cont(q, val) == DecFlds(s, q, [node EXCEPT ![fd.n] = val], fds, i + 1)
      Skip == DecFlds(s, p, node, fds, i + 1)
      Leaf == LET rl == ReadLeaf(nx.tok, fd.t) IN IF rl = "ok" THEN Cont(nx.p, LeafNode(nx.tok)) ELSE R(rl, nx.p, Nil)
      Expr == LET e == DecExprTok(s, nx.p, nx.tok) IN IF e.r = "ok" THEN Cont(e.p, e.n) ELSE e
      Blk(q) == IF Peek(s, q) # "BLOCK_STATEMENT" THEN R("err", q, Nil)
                ELSE DecKind(s, Next(s, q).p, "block")
  IN
  CASE fd.f = "leaf" -> Leaf
    [] fd.f = "optleaf" -> IF pk = fd.t THEN Leaf ELSE Skip
    [] fd.f = "truebool" -> IF pk = "BOOL_VALUE"
                            THEN LET rl == ReadLeaf(nx.tok, "BOOL_VALUE") IN
                                 IF rl = "ok" THEN Cont(nx.p, nx.tok.v = "true") ELSE R(rl, nx.p, Nil)
                            ELSE Skip
    [] fd.f = "expr" -> Expr
    [] fd.f = "optexpr" -> IF pk \in ExprTypes THEN Expr ELSE Skip
    [] fd.f = "optinfix" -> IF pk = "INFIX_EXPRESSION"
                            THEN LET e == DecKind(s, nx.p, "infix") IN IF e.r = "ok" THEN Cont(e.p, e.n) ELSE e
                            ELSE Skip
    [] fd.f = "block" -> LET b == Blk(p) IN IF b.r = "ok" THEN Cont(b.p, b.n) ELSE b
    [] fd.f = "optelse" -> IF pk = "ELSE_STATEMENT"
                           THEN LET b == Blk(nx.p) IN IF b.r = "ok" THEN Cont(b.p, [k |-> "else", block |-> b.n]) ELSE b
                           ELSE Skip
    [] fd.f \in {"stmts", "exprs", "items"} ->
         LET l == DecLoop(s, p, fd, <<>>) IN IF l.r = "ok" THEN Cont(l.p, l.n) ELSE l
    [] fd.f = "optexprs" -> IF pk \in ExprTypes
                            THEN LET l == DecLoop(s, p, [fd EXCEPT !.f = "exprs"], <<>>) IN IF l.r = "ok" THEN Cont(l.p, l.n) ELSE l
                            ELSE Skip
    [] fd.f = "peekitems" -> LET l == DecPeek(s, p, fd, <<>>) IN IF l.r = "ok" THEN Cont(l.p, l.n) ELSE l
DecLoop(s, p, fd, acc) ==
  LET nx == Next(s, p)
      More(d) == IF d.r = "ok" THEN DecLoop(s, d.p, fd, Append(acc, d.n)) ELSE d
  IN
  IF nx.tok.t = "END" THEN R("ok", nx.p, acc)
  ELSE IF nx.tok.t = "FIN" THEN R("err", nx.p, Nil)                         \* unexpectedFinByte
  ELSE CASE fd.f = "stmts" -> More(DecStmtTok(s, nx.p, nx.tok))
         [] fd.f = "exprs" -> More(DecExprTok(s, nx.p, nx.tok))
         [] fd.f = "items" ->
              IF nx.tok.t \in DOMAIN fd.kinds THEN More(DecKind(s, nx.p, fd.kinds[nx.tok.t]))
              ELSE IF ~fd.lenient THEN R("err", nx.p, Nil)
              ELSE IF nx.eof THEN R("hang", p, Nil)                         \* UNKNOWN for ever, no arm leaves the loop
              ELSE IF nx.tok.len > 0 THEN R("desync", nx.p, Nil)            \* payload of the skipped frame is read as frames
              ELSE DecLoop(s, nx.p, fd, acc)

DecPeek(s, p, fd, acc) ==
  IF Peek(s, p) \in DOMAIN fd.kinds
  THEN LET d == DecKind(s, Next(s, p).p, fd.kinds[Peek(s, p)]) IN
       IF d.r = "ok" THEN DecPeek(s, d.p, fd, Append(acc, d.n)) ELSE d
  ELSE R("ok", p, acc)

RECURSIVE DecTop(_, _, _)
DecTop(s, p, acc) ==                                                         \* Decoder.Decode
  LET nx == Next(s, p) IN
  IF nx.tok.t = "FIN" THEN R("ok", p, acc)
  ELSE LET d == DecStmtTok(s, nx.p, nx.tok) IN IF d.r = "ok" THEN DecTop(s, d.p, Append(acc, d.n)) ELSE d
Dec(s) == DecTop(s, 1, <<>>)

(***************************************************************************)
(* Generated nodes (the quantifier of the property, bounded)               *)
(***************************************************************************)
Id(v) == [k |-> "ident", v |-> v]
Str(v) == [k |-> "string", v |-> v]
IntL(v) == [k |-> "int", v |-> v]
Op(v) == [k |-> "op", v |-> v]
Bool(b) == [k |-> "bool", v |-> IF b THEN "true" ELSE "false"]
Thorough == Tier = "thorough"

Strs == {Str(""), Str("x"), Str("e9"), Str("S65536"), Str("S65535"), Str("uFFFD"), Str("u1F600"), Str("sp"), Str("X")}
        \cup (IF Thorough THEN {Str("yz"), Str("uFEFF"), Str("u2028")} ELSE {})   \* S65535 (first size with the 32-bit form) is in both tiers: seeded change C19-10
\* 2^63-1 needs all 8 bytes of the INTEGER payload, 0.1 all 64 bits of the FLOAT payload
ELeaf == Strs \cup {Id("req.http.A"), IntL("10"), IntL("9223372036854775807"), [k |-> "float", v |-> "1.5"], [k |-> "float", v |-> "0.1"],
                    [k |-> "rtime", v |-> "10s"], [k |-> "rtime", v |-> "60s"], [k |-> "rtime", v |-> "1.5h"], [k |-> "rtime", v |-> "010ms"],
                    Bool(TRUE), Bool(FALSE), Id("req.http.X-Foo"), Id("req.http.x-foo:Bar")}
        \cup (IF Thorough THEN {[k |-> "float", v |-> "0.25"], Id("var.x")} ELSE {})
ESmall == {Id("req.http.A"), Str("x"), IntL("10")}
Fcx(fn, args) == [k |-> "fcallx", fn |-> Id(fn), args |-> args]
Infix(op, l, r) == [k |-> "infix", left |-> l, op |-> Op(op), right |-> r]
EComp == {[k |-> "prefix", op |-> Op("!"), right |-> Id("req.http.A")],
          [k |-> "group", e |-> Infix("==", Id("req.http.A"), Str("x"))],
          Infix("+", Str("x"), Id("req.http.B")),
          Infix("&&", Id("req.http.A"), [k |-> "prefix", op |-> Op("!"), right |-> Id("req.http.B")]),
          [k |-> "postfix", left |-> IntL("10"), op |-> Op("%")],
          [k |-> "ifx", c |-> Id("req.http.A"), a |-> Str("x"), b |-> Str("")],
          Fcx("std.itoa", <<>>), Fcx("std.itoa", <<IntL("10")>>), Fcx("std.itoa", <<IntL("10"), Str("x")>>),
          Fcx("std.itoa", <<Fcx("std.itoa", <<IntL("1")>>)>>)}
        \cup (IF Thorough THEN {Infix("~", Id("req.http.A"), Str("")), [k |-> "group", e |-> Str("")],
                                [k |-> "ifx", c |-> Infix("==", Id("req.http.A"), Str("x")), a |-> IntL("1"), b |-> IntL("10")],
                                [k |-> "prefix", op |-> Op("-"), right |-> IntL("1")]} ELSE {})
(* Bounded-depth enumeration: every composite kind over every composite kind (depth 2); operands of one parent   *)
(* are DIFFERENT composites (kind, size, contents), so that a child encoded into the place of a sibling,       *)
(* reordered or aliased shows in the decoded tree.  An infix operand of an operator is parenthesised (W): that *)
(* is what the parser needs to build this tree.                                                                *)
EA == Id("req.http.A")
EB == Id("req.http.B")
Pre(e) == [k |-> "prefix", op |-> Op("!"), right |-> e]
Grp(e) == [k |-> "group", e |-> e]
Ifx(c, a, b) == [k |-> "ifx", c |-> c, a |-> a, b |-> b]
R1 == <<Pre(EA), Grp(Infix("==", EB, Str("x"))), Infix("+", Str("yz"), EB), Ifx(EA, Str("x"), Str("yz")),
        Fcx("std.tolower", <<EA>>), Fcx("std.toupper", <<EB>>), Fcx("std.strstr", <<EB, Str("yz")>>)>>
R1Set == {R1[i] : i \in 1..Len(R1)}
Cyc(i) == ((i - 1) % Len(R1)) + 1
W(c) == IF c.k = "infix" THEN Grp(c) ELSE c
DiffPairs == {q \in R1Set \X R1Set : q[1] # q[2]}
D2 == {Pre(W(c)) : c \in R1Set} \cup {Grp(c) : c \in R1Set}
      \cup {Infix("&&", W(q[1]), W(q[2])) : q \in DiffPairs}
      \cup {Ifx(R1[i], R1[Cyc(i + 1)], R1[Cyc(i + 2)]) : i \in 1..Len(R1)} \cup {Ifx(R1[Cyc(i + 2)], R1[Cyc(i + 1)], R1[i]) : i \in 1..Len(R1)}
      \cup {Fcx("std.strstr", <<q[1], q[2]>>) : q \in DiffPairs}
      \cup {Fcx("std.strstr", <<c, Str("x")>>) : c \in R1Set} \cup {Fcx("std.strstr", <<EA, c>>) : c \in R1Set}
      \cup {Fcx("std.strstr", <<R1[i], R1[Cyc(i + 3)], R1[Cyc(i + 5)]>>) : i \in 1..Len(R1)}
PairArgs(i) == <<R1[i], R1[Cyc(i + 1)]>>
Exprs == ELeaf \cup EComp \cup D2

Set(op, e) == [k |-> "set", ident |-> Id("req.http.A"), op |-> Op(op), value |-> e]
Ret(hp, e) == [k |-> "return", hp |-> Bool(hp), expr |-> e]
\* the parser accepts every assignment operator after `set` and after `add`
AssignOps == {"=", "+=", "-=", "*=", "/=", "%=", "|=", "&=", "^=", "<<=", ">>=", "rol=", "ror=", "&&=", "||="}
InfixOps == {"==", "!=", "~", "!~", "<", ">", "<=", ">=", "&&", "||", "+"}
Simple ==
  {Set("=", e) : e \in Exprs} \cup {Set(op, IntL("10")) : op \in AssignOps}
  \cup {[k |-> "add", ident |-> Id("req.http.A"), op |-> Op("="), value |-> e] : e \in ESmall}
  \cup {[k |-> "add", ident |-> Id("req.http.X-Foo"), op |-> Op(op), value |-> Str("x")] : op \in AssignOps}
  \cup {Set("=", [k |-> "group", e |-> Infix(op, Id("req.http.A"), Str("x"))]) : op \in InfixOps}
  \cup {[k |-> "unset", ident |-> Id("req.http.X-Foo")], [k |-> "remove", ident |-> Id("req.http.x-foo:Bar")]}
  \cup {[k |-> "unset", ident |-> Id("req.http.A")], [k |-> "remove", ident |-> Id("req.http.A")]}
  \cup {[k |-> "declare", name |-> Id("var.x"), vtype |-> Id("STRING"), value |-> e] : e \in {Nil, Str("x"), Str("")}}
  \cup {[k |-> "call", sub |-> Id("s"), args |-> a] : a \in {<<>>, <<Str("x")>>, <<Str("x"), IntL("1")>>}}
  \cup {[k |-> "fcall", fn |-> Id("std.collect"), args |-> a] : a \in {<<>>, <<Id("req.http.A")>>, <<Id("req.http.A"), Str("x")>>}}
  \cup {[k |-> "error", code |-> c[1], arg |-> c[2]] : c \in {<<Nil, Nil>>, <<IntL("401"), Nil>>, <<IntL("401"), Str("x")>>, <<IntL("401"), Str("")>>}}
  \cup {[k |-> kk] : kk \in {"esi", "restart"}}
  \cup {[k |-> kk, value |-> e] : kk \in {"log", "synthetic"}, e \in {Str("x"), Str("")}}
  \cup {[k |-> "synthetic64", value |-> Str("eA==")]}
  \cup {[k |-> "goto", dest |-> Id("l")], [k |-> "label", name |-> Id("l:")]}
  \cup {Ret(FALSE, Nil), Ret(TRUE, Id("lookup")), Ret(FALSE, Id("lookup")), Ret(FALSE, Bool(TRUE))}
Deep ==
  UNION {{[k |-> "call", sub |-> Id("s"), args |-> PairArgs(i)],
          [k |-> "fcall", fn |-> Id("std.collect"), args |-> PairArgs(i)],
          [k |-> "fcall", fn |-> Id("std.collect"), args |-> <<R1[i], R1[Cyc(i + 2)], R1[Cyc(i + 4)]>>],
          [k |-> "error", code |-> IntL("401"), arg |-> R1[i]],
          [k |-> "declare", name |-> Id("var.x"), vtype |-> Id("STRING"), value |-> R1[i]],
          [k |-> "add", ident |-> Id("req.http.A"), op |-> Op("="), value |-> R1[i]],
          [k |-> "log", value |-> R1[i]], [k |-> "synthetic", value |-> R1[i]],
          Ret(TRUE, R1[i])} : i \in 1..Len(R1)}
  \cup {Ret(FALSE, R1[i]) : i \in {j \in 1..Len(R1) : R1[j].k # "group"}}   \* `return (e);` is a return with parentheses, not a group
\* a value of 65536 bytes (7-byte header) at every position the decoder finds by PEEKING: declare value, return
\* expression, error argument, first call argument, left operand of an infix
LongLits ==
  {[k |-> "declare", name |-> Id("var.x"), vtype |-> Id("STRING"), value |-> Str("S65536")],
   Ret(FALSE, Str("S65536")),
   [k |-> "error", code |-> IntL("401"), arg |-> Str("S65536")],
   [k |-> "call", sub |-> Id("s"), args |-> <<Str("S65536")>>],
   Set("=", Infix("+", Str("S65536"), EB))}
Blk(ss) == [k |-> "block", stmts |-> ss]
Esi == [k |-> "esi"]
If(kw, then, elifs, els) == [k |-> "if", keyword |-> Str(kw), cond |-> Id("req.http.A"), then |-> then, elifs |-> elifs, else |-> els]
Else(b) == [k |-> "else", block |-> b]
Bodies == {Blk(<<>>), Blk(<<Esi>>), Blk(<<Set("=", Str("x")), Ret(FALSE, Nil)>>)}
ElifSets == {<<>>, <<If("else if", Blk(<<Esi>>), <<>>, Nil)>>,
             <<If("elseif", Blk(<<>>), <<>>, Nil), If("elsif", Blk(<<Esi>>), <<>>, Nil)>>}
Ifs == {If("if", b, ei, el) : b \in Bodies, ei \in ElifSets, el \in {Nil, Else(Blk(<<>>)), Else(Blk(<<Esi>>))}}
       \cup {If("if", Blk(<<If("if", Blk(<<Esi>>), <<>>, el)>>), <<>>, el) : el \in {Nil, Else(Blk(<<Esi>>))}}
       \cup {If("if", Blk(<<Esi>>), <<>>, Else(Blk(<<If("if", Blk(<<>>), <<>>, Nil)>>)))}
Case(t, ss, ft) == [k |-> "case", test |-> t, stmts |-> ss, ft |-> ft]
CTest(op, v) == [k |-> "infix", left |-> Nil, op |-> Op(op), right |-> Str(v)]
Break == [k |-> "break"]
Sw(cs, d) == [k |-> "switch", control |-> Id("req.http.A"), cases |-> cs, dflt |-> IntL(d)]
Switches == {Sw(<<Case(CTest("==", "x"), <<Esi, Break>>, FALSE)>>, "d-1"),
             Sw(<<Case(CTest("==", "x"), <<Break>>, FALSE), Case(Nil, <<Break>>, FALSE)>>, "d1"),
             Sw(<<Case(CTest("~", "x"), <<[k |-> "fallthrough"]>>, TRUE), Case(CTest("==", "yz"), <<Esi, Break>>, FALSE), Case(Nil, <<Esi, Break>>, FALSE)>>, "d2"),
             Sw(<<Case(Nil, <<Break>>, FALSE), Case(CTest("==", ""), <<Break>>, FALSE)>>, "d0")}
Stmts == Simple \cup Deep \cup LongLits \cup Ifs \cup Switches \cup {Blk(<<Esi>>), Blk(<<>>), Blk(<<Blk(<<Esi>>)>>)}
         \cup {Blk(<<If("if", Blk(<<Esi>>), <<>>, Nil), Sw(<<Case(CTest("==", "x"), <<Break>>, FALSE)>>, "d-1"), Set("=", EB)>>)}
         \cup {[k |-> "import", name |-> Id("a")], [k |-> "include", module |-> Str("m")]}

Cidr(inv, ip, m) == [k |-> "cidr", inverse |-> inv, ip |-> [k |-> "ip", v |-> ip], mask |-> m]
Acls == {[k |-> "acl", name |-> Id("a"), cidrs |-> cs] :
           cs \in {<<>>, <<Cidr(Nil, "10.0.0.0", IntL("8"))>>, <<Cidr(Bool(TRUE), "192.168.0.1", Nil)>>,
                   <<Cidr(Nil, "10.0.0.0", IntL("8")), Cidr(Bool(TRUE), "10.0.0.0", IntL("16")), Cidr(Nil, "::1", Nil)>>}}
        \* spellings a decoder that parses the address would change, and entries that are not addresses
        \cup {[k |-> "acl", name |-> Id("a"), cidrs |-> <<Cidr(c[1], ip, c[2])>>] :
               ip \in {"2001:DB8::1", "0:0:0:0:0:0:0:1", "::ffff:192.0.2.7", "010.001.000.001", "localhost", "2001:0db8:0000::0001", ""},
               c \in {<<Nil, Nil>>, <<Bool(TRUE), IntL("16")>>}}
BProp(key, v) == [k |-> "bprop", key |-> Id(key), value |-> v]
Backends == {[k |-> "backend", name |-> Id("b"), props |-> ps] :
               ps \in {<<>>, <<BProp("host", Str("h"))>>, <<BProp("host", Str("")), BProp("port", Str("x"))>>,
                       <<BProp("host", Str("h")), [k |-> "bprobe", key |-> Id("probe"),
                                                    props |-> <<BProp("request", Str("GET /")), BProp("timeout", [k |-> "rtime", v |-> "10s"])>>]>>,
                       <<[k |-> "bprobe", key |-> Id("probe"), props |-> <<>>], BProp("port", Str("x"))>>}}
DProp(key, v) == [k |-> "dprop", key |-> Id(key), value |-> v]
Directors == {[k |-> "director", name |-> Id("d"), dtype |-> Id("random"), props |-> ps] :
                ps \in {<<>>, <<DProp("quorum", [k |-> "postfix", left |-> IntL("50"), op |-> Op("%")])>>,
                        <<[k |-> "dbackend", props |-> <<DProp("backend", Id("b")), DProp("weight", IntL("1"))>>]>>,
                        <<DProp("quorum", [k |-> "postfix", left |-> IntL("50"), op |-> Op("%")]),
                          [k |-> "dbackend", props |-> <<DProp("backend", Id("b"))>>], [k |-> "dbackend", props |-> <<DProp("backend", Id("a"))>>]>>}}
TProp(key, v) == [k |-> "tprop", key |-> Str(key), value |-> v]
Tables == {[k |-> "table", name |-> Id("t"), vtype |-> vt, props |-> ps] : vt \in {Nil, Id("STRING")},
             ps \in {<<>>, <<TProp("x", Str("yz"))>>, <<TProp("x", Str("")), TProp("", Str("x"))>>}}
          \cup {[k |-> "table", name |-> Id("t"), vtype |-> Id("BOOL"), props |-> <<TProp("x", Bool(TRUE))>>]}
Param(ty, nm) == [k |-> "param", type |-> Id(ty), name |-> Id(nm)]
Subs == {[k |-> "sub", name |-> Id(c[1]), params |-> c[2], rtype |-> c[3], block |-> b] :
           c \in {<<"vcl_recv", <<>>, Nil>>, <<"f", <<>>, Id("BOOL")>>, <<"f", <<Param("STRING", "var.p")>>, Id("BOOL")>>,
                  <<"f", <<Param("STRING", "var.p"), Param("INTEGER", "var.q")>>, Nil>>},
           b \in {Blk(<<>>), Blk(<<Ret(FALSE, Bool(TRUE))>>), Blk(<<Esi, If("if", Blk(<<Esi>>), <<>>, Nil)>>)}}
\* every text payload of every node kind also carries the values a normalising codec would change
OddTexts == {"uFFFD", "u1F600", "sp", "X"} \cup (IF Thorough THEN {"uFEFF", "u2028", "e9"} ELSE {})
TextSlots ==
  UNION {{[k |-> "log", value |-> Str(t)], [k |-> "synthetic", value |-> Str(t)], [k |-> "synthetic64", value |-> Str(t)],
          [k |-> "error", code |-> IntL("401"), arg |-> Str(t)],
          [k |-> "declare", name |-> Id("var.x"), vtype |-> Id("STRING"), value |-> Str(t)],
          [k |-> "call", sub |-> Id("s"), args |-> <<Str(t), Str("x")>>],
          [k |-> "fcall", fn |-> Id("std.collect"), args |-> <<Str("x"), Str(t)>>],
          [k |-> "include", module |-> Str(t)],
          Sw(<<Case(CTest("==", t), <<Break>>, FALSE), Case(CTest("~", "x"), <<Break>>, FALSE)>>, "d-1"),
          [k |-> "table", name |-> Id("t"), vtype |-> Nil, props |-> <<TProp(t, Str("x")), TProp("x", Str(t))>>],
          [k |-> "backend", name |-> Id("b"), props |-> <<BProp("host", Str(t))>>]} : t \in OddTexts}
Decls == Acls \cup Backends \cup Directors \cup Tables \cup Subs \cup TextSlots
         \cup {[k |-> "penaltybox", name |-> Id("p")], [k |-> "ratecounter", name |-> Id("r")]}
\* a long block: the encoding is longer than the decoder's 4096-byte read buffer; pad slides every frame
\* header across the buffer boundary (pad = number of leading `esi;` statements, one 3-byte frame each)
RECURSIVE Rep(_, _)
Rep(x, n) == IF n = 0 THEN <<>> ELSE <<x>> \o Rep(x, n - 1)
Pads == IF Thorough THEN 0..15 ELSE 0..7
Longs == {[k |-> "sub", name |-> Id("vcl_recv"), params |-> <<>>, rtype |-> Nil,
           block |-> Blk(Rep(Esi, pad) \o Rep(Set("=", Str("x")), 180))] : pad \in Pads}
SweepNode(kd, n) ==
  CASE kd = "set" -> Set("=", Str(Sym(n)))
    [] kd = "infix" -> Set("=", Infix("+", EB, Str(Sym(n))))
    [] kd = "call" -> Set("=", Fcx("std.itoa", <<Str(Sym(n))>>))
    [] kd = "block" -> Blk(<<Set("=", Str(Sym(n)))>>)
Sweeps == {SweepNode(sp[1], Fit(sp[2], T)) : sp \in SweepSpecs, T \in Targets}
\* the sweep hits its targets: the payload length the model computes for the enclosing composite
SweepHit(kd, T) ==
  LET toks == EncNode(SweepNode(kd, Fit(CHOOSE o \in {sp[2] : sp \in {q \in SweepSpecs : q[1] = kd}} : TRUE, T)))
      want == CASE kd = "set" -> "SET_STATEMENT" [] kd = "infix" -> "INFIX_EXPRESSION" [] kd = "call" -> "FUNCTIONCALL_EXPRESSION"
                [] kd = "block" -> "BLOCK_STATEMENT"
      i == CHOOSE j \in 1..Len(toks) : toks[j].t = want /\ \A m \in 1..(j - 1) : toks[m].t # want
  IN toks[i].sz = T % 65536 /\ ByteLen(SubSeq(toks, i + 1, Len(toks))) - (IF kd \in {"infix", "call"} THEN 0 ELSE 0) >= T
ASSUME \A sp \in SweepSpecs : \A T \in Targets : SweepHit(sp[1], T)

(* Deep and long structures: whatever the parser accepts must round-trip - there is no depth or length in the   *)
(* statement.  Left-deep operand chains, nested groups / if() / blocks / if statements, else-if chains, long     *)
(* statement and argument lists.                                                                                *)
RECURSIVE Chain(_, _), GrpNest(_), IfxNest(_), BlkNest(_), IfNest(_)
Chain(op, n) == IF n = 1 THEN Str("x") ELSE Infix(op, Chain(op, n - 1), IF n % 2 = 0 THEN EB ELSE Str("yz"))
GrpNest(n) == IF n = 0 THEN EA ELSE Grp(GrpNest(n - 1))
IfxNest(n) == IF n = 0 THEN Str("x") ELSE Ifx(EA, IfxNest(n - 1), Str("yz"))
BlkNest(n) == IF n = 0 THEN Blk(<<Esi>>) ELSE Blk(<<BlkNest(n - 1), Esi>>)
IfNest(n) == IF n = 0 THEN If("if", Blk(<<Esi>>), <<>>, Nil) ELSE If("if", Blk(<<IfNest(n - 1)>>), <<>>, Else(Blk(<<Esi>>)))
ElifChain(n) == If("if", Blk(<<Esi>>), [i \in 1..n |-> If("else if", Blk(<<Esi>>), <<>>, Nil)], Nil)
ChainLens == {2, 64, 128, 129, 200} \cup (IF Thorough THEN {400} ELSE {})
Deeps ==
  {Set("=", Chain("+", n)) : n \in ChainLens} \cup {Set("=", Chain("&&", n)) : n \in {129} \cup (IF Thorough THEN {300} ELSE {})}
  \cup {Set("=", GrpNest(n)) : n \in {50, 129} \cup (IF Thorough THEN {300} ELSE {})}
  \cup {Set("=", IfxNest(n)) : n \in {50, 129} \cup (IF Thorough THEN {200} ELSE {})}
  \cup {BlkNest(n) : n \in {50, 129} \cup (IF Thorough THEN {300} ELSE {})}
  \cup {IfNest(n) : n \in {50} \cup (IF Thorough THEN {150} ELSE {})}
  \cup {ElifChain(n) : n \in {64, 129} \cup (IF Thorough THEN {300} ELSE {})}
  \cup {Blk(Rep(Esi, IF Thorough THEN 1500 ELSE 1000)), Set("=", Fcx("std.itoa", Rep(IntL("1"), 120))),
        [k |-> "fcall", fn |-> Id("std.collect"), args |-> Rep(Str("x"), 150)],
        [k |-> "call", sub |-> Id("s"), args |-> Rep(IntL("1"), 100)]}
Quiet == Longs \cup Deeps                \* too big to print frame by frame
Nodes == Stmts \cup Decls \cup Longs \cup Sweeps \cup Deeps

(***************************************************************************)
(* Frame-level mutations for DecTotal                                      *)
(*   cut   keep the first i tokens; part = "" (cut at a frame boundary),   *)
(*         "hdr1"/"hdr2" (1 / 2 bytes of the next header survive),         *)
(*         "pay" (header and half of the payload of the next leaf survive) *)
(*   sub   the type byte of token i is replaced                            *)
(*   shrink  leaf token i is replaced by a well-formed leaf of k bytes     *)
(*   splice  the first i tokens, then the tokens of another encoding from j*)
(***************************************************************************)
SubTypes == {"END", "FIN", "UNKNOWN", "IF_STATEMENT", "BLOCK_STATEMENT", "STRING_VALUE", "INTEGER_VALUE",
             "BOOL_VALUE", "IDENT_VALUE", "OPERATOR", "ELSE_STATEMENT", "CASE_STATEMENT", "SUBROUTINE_PARAMETER", "VCL"}
NoMut == [m |-> "none", i |-> 0, part |-> "", t |-> "", kk |-> 0]
Muts(s) ==
  {NoMut}
  \cup {[m |-> "cut", i |-> i, part |-> pt, t |-> "", kk |-> 0] : i \in 0..(Len(s) - 1), pt \in {"", "hdr1", "hdr2"}}
  \cup {[m |-> "cut", i |-> i, part |-> "pay", t |-> "", kk |-> 0] : i \in {j \in 0..(Len(s) - 1) : s[j + 1].len >= 2}}
  \cup {[m |-> "cut", i |-> i, part |-> pt, t |-> "", kk |-> 0] :
          i \in {j \in 0..(Len(s) - 1) : HdrLen(s[j + 1]) = 7}, pt \in {"hdr3", "hdr4", "hdr5", "hdr6"}}   \* inside the 32-bit length
  \cup {[m |-> "ext", i |-> i, part |-> "", t |-> "", kk |-> 0] : i \in {j \in 1..Len(s) : s[j].t \in LeafTypes /\ s[j].sz < 65535}}
  \cup {[m |-> "sub", i |-> i, part |-> "", t |-> t, kk |-> 0] : i \in 1..Len(s), t \in SubTypes}
  \cup {[m |-> "shrink", i |-> i, part |-> "", t |-> "", kk |-> kk] :
          i \in {j \in 1..Len(s) : s[j].t \in LeafTypes}, kk \in {0, 1, 7}}
ApplyMut(s, mu) ==
  CASE mu.m = "none" -> s
    [] mu.m = "cut" -> IF mu.part = "" THEN SubSeq(s, 1, mu.i)
                       ELSE IF s[mu.i + 1].t \in {"END", "FIN"} THEN SubSeq(s, 1, mu.i)     \* one-byte markers cannot be cut
                       ELSE IF mu.part = "pay"
                       THEN Append(SubSeq(s, 1, mu.i), [s[mu.i + 1] EXCEPT !.len = @ \div 2])
                       ELSE Append(SubSeq(s, 1, mu.i), [s[mu.i + 1] EXCEPT !.part = mu.part, !.len = 0])
    [] mu.m = "sub" -> [s EXCEPT ![mu.i] = [@ EXCEPT !.t = mu.t]]
    \* the 16-bit length of a short value is overwritten with FF FF: the decoder takes the next 4 bytes for a 32-bit length;
    \* with fewer than 4 bytes left this is a long-value header cut inside its length, otherwise the framing is lost
    [] mu.m = "ext" -> IF s[mu.i].len + ByteLen(SubSeq(s, mu.i + 1, Len(s))) < 4
                       THEN Append(SubSeq(s, 1, mu.i - 1), [s[mu.i] EXCEPT !.part = "hdr3", !.len = 0])
                       ELSE [s EXCEPT ![mu.i] = [@ EXCEPT !.part = "ext"]]
    [] mu.m = "shrink" -> [s EXCEPT ![mu.i] = [@ EXCEPT !.sz = mu.kk, !.len = mu.kk]]
\* substituting the type changes how the bytes that follow are framed: a leaf payload under a container or marker
\* type is read as frames, bytes after END/FIN shift - the model only predicts the cases where the framing survives
Framed(s, mu) ==
  IF mu.m = "ext" THEN s[mu.i].len + ByteLen(SubSeq(s, mu.i + 1, Len(s))) < 4
  ELSE IF mu.m # "sub" THEN TRUE
  ELSE LET o == s[mu.i] IN
    /\ ~(o.t \in {"END", "FIN"}) /\ ~(mu.t \in {"END", "FIN"})     \* markers have no length bytes
    /\ IF mu.t \in LeafTypes THEN (o.t \in LeafTypes \/ o.sz = 0)   \* a container's length would become a payload length
       ELSE o.len = 0                                               \* a payload would be read as frames

Unmutated == Longs \cup Sweeps \cup Deeps
MutNodes == IF MutBases = "all" THEN Nodes \ Unmutated
            ELSE LongLits \cup
                 {CHOOSE x \in (Nodes \ Unmutated) : x.k = kk /\ (\A y \in (Nodes \ Unmutated) : y.k = kk => Len(Enc(y)) <= Len(Enc(x))) :
                    kk \in {y.k : y \in (Nodes \ Unmutated)}}

VARIABLES node, mut
vars == <<node, mut>>
Init == /\ node \in Nodes
        /\ mut \in (IF node \in MutNodes THEN Muts(Enc(node)) ELSE {NoMut})
Next0 == UNCHANGED vars
Spec == Init /\ [][Next0]_vars

Toks == ApplyMut(Enc(node), mut)
Outcome == Dec(Toks)

\* requirement: the round trip of every generated node
RoundTripOf(o) == mut.m = "none" => (o.r = "ok" /\ Len(o.n) = 1 /\ Sem(o.n[1]) = Sem(node))
RoundTrip == RoundTripOf(Outcome)
\* requirement: decoding terminates with statements or an error and never crashes
DecTotalOf(o) == o.r \in {"ok", "err", "desync"}
DecTotal == DecTotalOf(Outcome)

TokJ(s) == [i \in 1..Len(s) |-> [t |-> s[i].t, sz |-> s[i].sz, len |-> s[i].len, part |-> s[i].part]]
Emit ==
  LET tk == Toks            \* evaluated once per state (the deep nodes make every evaluation expensive)
      o == Dec(tk)
      quiet == node \in Quiet
  IN
  PrintT(<<"BEHAVIOUR", ToJson(
     IF mut.m = "none"
     THEN [kind |-> "rt", node |-> node, sem |-> Sem(node), toks |-> (IF quiet THEN <<>> ELSE TokJ(tk)),
           ntoks |-> Len(tk), bytes |-> ByteLen(tk),
           dec |-> o.r, got |-> (IF o.r = "ok" /\ ~quiet THEN [i \in 1..Len(o.n) |-> Sem(o.n[i])] ELSE <<>>),
           rt |-> RoundTripOf(o), mutable |-> (node \in MutNodes), long |-> quiet]
     ELSE [kind |-> "mut", node |-> node, mut |-> mut, dec |-> o.r, framed |-> Framed(Enc(node), mut),
           total |-> DecTotalOf(o)])>>)
EmitInv == Emit
=============================================================================
