SPECIFICATION Spec
CONSTANTS
  Tier = "quick"
  MutBases = "kinds"
INVARIANTS
  RoundTrip
  DecTotal
CHECK_DEADLOCK FALSE
