SPECIFICATION Spec
CONSTANTS
  MaxLen = 3
  Emit = FALSE
INVARIANTS
  TypeOK
  OnlyKnownDevs
  ShortFormMeets
  Persist
CHECK_DEADLOCK FALSE
