------------------------------ MODULE Console ------------------------------
(***************************************************************************)
(* The `falco console` session (extension X03, not a listed property).     *)
(*                                                                         *)
(* Anchors: console/console.go  Run (control commands `\s`, `\scope`,      *)
(*          `\h`, `\q`), evaluateInput, evaluateExpression;                *)
(*          interpreter/context/scope.go ScopeByString;  docs/console.md   *)
(*                                                                         *)
(* REQUIREMENT (docs/console.md): `\s X` and `\scope X` change the scope   *)
(* the following lines are evaluated in, X one of the lifecycle scopes in  *)
(* any letter case; an unknown scope or INIT is refused and the session    *)
(* stays where it was; values stored by `set` and `declare local` stay for *)
(* the rest of the session, across scope changes; an expression line       *)
(* prints `(TYPE)value`; a line that fails changes nothing.                *)
(*                                                                         *)
(* MECHANISM (console.go): every line starting with `\s` is rewritten to   *)
(* `\scope ` + (line without a leading `\s `) and the text after           *)
(* `\scope ` is looked up; the result of the look-up becomes the scope     *)
(* whether or not it was reported as invalid.                              *)
(***************************************************************************)
EXTENDS Integers, Sequences, TLC, Json

CONSTANTS MaxLen, Emit

Valid == {"RECV", "HASH", "HIT", "MISS", "PASS", "FETCH", "ERROR", "DELIVER", "LOG", "PIPE"}
Upper(a) == CASE a = "recv" -> "RECV" [] a = "fetch" -> "FETCH" [] a = "FETCH" -> "FETCH" [] a = "Deliver" -> "DELIVER"
              [] a = "log" -> "LOG" [] a = "hit" -> "HIT" [] a = "init" -> "INIT" [] OTHER -> "UNKNOWN"
Args  == {"recv", "fetch", "FETCH", "Deliver", "log", "hit", "init", "nonsense"}
Forms == {"s", "scope", "s;"}           \* `\s X`, `\scope X`, `\s X;`
Vals  == {"v1", "v2"}

Lines == [k : {"sw"}, form : Forms, arg : Args, v : {""}]
         \cup [k : {"setA", "setX"}, form : {""}, arg : {""}, v : Vals]
         \cup [k : {"getA", "getX", "declX", "bad", "badX", "help", "empty"}, form : {""}, arg : {""}, v : {""}]

VARIABLES scope,   \* scope of the session (mechanism)
          A,       \* req.http.A: "" = not set
          xdecl, X,\* var.x declared? its value ("" = not set)
          hist     \* lines so far with what each must print / do
vars == <<scope, A, xdecl, X, hist>>

\* requirement: the scope after a switch command
ReqScope(s, l) == IF Upper(l.arg) \in Valid THEN Upper(l.arg) ELSE s
\* mechanism: the long form is looked up with its own name in front, so it never names a scope;
\*            whatever the look-up gives becomes the scope
MechScope(s, l) == IF l.form = "scope" THEN "UNKNOWN" ELSE Upper(l.arg)

Show(v) == IF v = "" THEN "(STRING)(null)" ELSE "(STRING)" \o v

Step(l) ==
  LET sM == IF l.k = "sw" THEN MechScope(scope, l) ELSE scope
      sR == IF l.k = "sw" THEN ReqScope(scope, l) ELSE scope
      \* what the line prints: "" nothing, "error", "help", or the value shown
      print == CASE l.k = "getA" -> Show(A)
                 [] l.k = "getX" -> IF xdecl THEN Show(X) ELSE "error"
                 [] l.k = "setX" -> IF xdecl THEN "" ELSE "error"
                 [] l.k = "bad"  -> "error"
                 [] l.k = "badX" -> "error"       \* `set var.x = 10;` parses and fails (type mismatch / undeclared): nothing changes
                 [] l.k = "help" -> "help"
                 [] l.k = "sw"   -> "scope"
                 [] OTHER -> ""
      dev == IF sM = sR THEN "none"
             ELSE IF l.form = "scope" /\ Upper(l.arg) \in Valid THEN "K1"     \* the documented long form does not work
             ELSE IF Upper(l.arg) \notin Valid THEN "K2"                      \* a refused scope is entered all the same
             ELSE "unknown"
  IN /\ scope' = sM
     /\ A' = IF l.k = "setA" THEN l.v ELSE A
     /\ xdecl' = (xdecl \/ l.k = "declX")
     /\ X' = IF l.k = "setX" /\ xdecl THEN l.v ELSE X
     /\ hist' = Append(hist, [line |-> l, mscope |-> sM, rscope |-> sR, print |-> print, dev |-> dev,
                              refused |-> (l.k = "sw" /\ Upper(l.arg) \notin Valid)])

Init == scope = "RECV" /\ A = "" /\ xdecl = FALSE /\ X = "" /\ hist = <<>>
Next == /\ Len(hist) < MaxLen
        /\ \E l \in Lines : (l.k = "declX" => ~xdecl) /\ Step(l)
Spec == Init /\ [][Next]_vars

TypeOK == scope \in Valid \cup {"UNKNOWN", "INIT"} /\ A \in Vals \cup {""} /\ X \in Vals \cup {""}
OnlyKnownDevs == \A i \in 1..Len(hist) : hist[i].dev # "unknown"
\* with the short form and scopes that exist the mechanism meets the requirement
ShortFormMeets == \A i \in 1..Len(hist) : (hist[i].line.k = "sw" /\ hist[i].line.form # "scope" /\ ~hist[i].refused)
                      => hist[i].mscope = hist[i].rscope
\* a stored value is shown by the next read whatever happened to the scope in between
Persist == \A i, j \in 1..Len(hist) :
             (i < j /\ hist[i].line.k = "setA" /\ hist[j].line.k = "getA"
                /\ \A m \in (i + 1)..(j - 1) : hist[m].line.k # "setA") => hist[j].print = Show(hist[i].line.v)

EmitInv == (Emit /\ Len(hist) = MaxLen) => PrintT(<<"BEHAVIOUR", ToJson([steps |-> hist])>>)
=============================================================================
