SPECIFICATION Spec
CONSTANTS
  MaxLen = 24
  Emit = TRUE
INVARIANTS
  EmitInv
CHECK_DEADLOCK FALSE
