SPECIFICATION Spec
CONSTANTS
  MaxStops = 3
  MaxEarly = 2
  Emit = TRUE
INVARIANTS
  TypeOK
  HandlerNeverReturns
  EndsInShutdown
  AtMostOneLost
  EmitInv
CHECK_DEADLOCK FALSE
