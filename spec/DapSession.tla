---------------------------- MODULE DapSession ----------------------------
(***************************************************************************)
(* The goroutines of a `falco dap` session (extension X01, DAP front end). *)
(*                                                                         *)
(* Anchors: dap/session.go  start (errgroup: sendFromQueue + reader loop), *)
(*          handler / dispatch (one goroutine per request), send,          *)
(*          launchServer (the HTTP handler and its deferred terminate +    *)
(*          close), onNextRequest & co (stateCh <- cmd, then the response),*)
(*          close (cancel, then http.Server.Shutdown);                     *)
(*          dap/debugger.go Run / waitForNewState.                         *)
(*                                                                         *)
(* Goroutines modelled: the SENDER (takes one message at a time from the   *)
(* unbuffered sendQueue until the context is cancelled), the HTTP handler  *)
(* H (runs the request: at every stop it sends `stopped` and then receives *)
(* a command from the unbuffered stateCh; when the request is over it      *)
(* sends `terminated`, cancels the context and calls Shutdown, which waits *)
(* for the active handlers - H itself), one DISPATCH goroutine per step    *)
(* command (sends the command on stateCh, then sends the response), and    *)
(* the CLIENT (may issue a command while the request is stopped or before; *)
(* issues `disconnect` after it has seen `terminated`).                    *)
(*                                                                         *)
(* REQUIREMENT (Debug Adapter Protocol + HTTP): every request gets its     *)
(* response; the HTTP client gets its response.                            *)
(***************************************************************************)
EXTENDS Integers, FiniteSets, TLC, Json

CONSTANTS MaxStops,   \* the debugged request stops 1..MaxStops times
          MaxEarly,   \* step commands the client issues before the first stop (0..MaxEarly)
          Emit

VARIABLES S, E,        \* parameters: stops, early commands
          hpc,         \* H: idle, run, sendStopped, wait, sendTerm, closing, shutdown, returned
          stops,       \* stops still ahead
          sender,      \* "up" | "down" (context cancelled)
          disp,        \* dispatch goroutines: multiset as record of counts per state
                       \*   cmd: blocked on stateCh <- cmd; resp: blocked on sendQueue <- response; done
          issued,      \* step commands issued so far
          answered,    \* responses the client has received for step commands
          seenStopped, \* stopped events received and not yet answered by a command
          seenTerm,    \* client saw `terminated`
          discon       \* disconnect request: none, sent (its dispatch goroutine blocked on the error response), answered
vars == <<S, E, hpc, stops, sender, disp, issued, answered, seenStopped, seenTerm, discon>>

Min(a, b) == IF a < b THEN a ELSE b
\* early commands are all `next`, the command answering the last stop is `continue`: at most S - 1 early ones
Init == /\ S \in 1..MaxStops /\ E \in 0..Min(MaxEarly, S - 1)
        /\ hpc = "idle" /\ stops = S /\ sender = "up" /\ disp = [cmd |-> 0, resp |-> 0]
        /\ issued = 0 /\ answered = 0 /\ seenStopped = 0 /\ seenTerm = FALSE /\ discon = "none"

(* client *)
IssueEarly == /\ hpc = "idle" /\ issued < E                      \* a step command before the request has started
              /\ issued' = issued + 1 /\ disp' = [disp EXCEPT !.cmd = @ + 1]
              /\ UNCHANGED <<S, E, hpc, stops, sender, answered, seenStopped, seenTerm, discon>>
StartHTTP  == /\ hpc = "idle" /\ issued = E /\ hpc' = "run"
              /\ UNCHANGED <<S, E, stops, sender, disp, issued, answered, seenStopped, seenTerm, discon>>
IssueAtStop == /\ seenStopped > 0 /\ issued = answered /\ ~seenTerm   \* answers a stop it has seen, once all its earlier commands were answered
               /\ seenStopped' = seenStopped - 1 /\ issued' = issued + 1 /\ disp' = [disp EXCEPT !.cmd = @ + 1]
               /\ UNCHANGED <<S, E, hpc, stops, sender, answered, seenTerm, discon>>
Disconnect == /\ seenTerm /\ discon = "none" /\ discon' = "sent"
              /\ UNCHANGED <<S, E, hpc, stops, sender, disp, issued, answered, seenStopped, seenTerm>>

(* H *)
HitStop  == /\ hpc = "run" /\ stops > 0 /\ hpc' = "sendStopped" /\ stops' = stops - 1
            /\ UNCHANGED <<S, E, sender, disp, issued, answered, seenStopped, seenTerm, discon>>
Finish   == /\ hpc = "run" /\ stops = 0 /\ hpc' = "sendTerm"
            /\ UNCHANGED <<S, E, stops, sender, disp, issued, answered, seenStopped, seenTerm, discon>>
(* sender takes one message from whoever is blocked on the queue *)
TakeStopped == /\ sender = "up" /\ hpc = "sendStopped" /\ hpc' = "wait" /\ seenStopped' = seenStopped + 1
               /\ UNCHANGED <<S, E, stops, sender, disp, issued, answered, seenTerm, discon>>
TakeTerm    == /\ sender = "up" /\ hpc = "sendTerm" /\ seenTerm' = TRUE /\ hpc' = "closing"
               /\ UNCHANGED <<S, E, stops, sender, disp, issued, answered, seenStopped, discon>>
Close       == /\ hpc = "closing" /\ hpc' = "shutdown" /\ sender' = "down"   \* close(): cancel() ends the sender, then Shutdown
               /\ UNCHANGED <<S, E, stops, disp, issued, answered, seenStopped, seenTerm, discon>>
\* http.Server.Shutdown returns when no handler is active; the only handler is H, which is the caller
ActiveHandlers == IF hpc \in {"idle", "returned"} THEN 0 ELSE 1
ShutdownReturns == /\ hpc = "shutdown" /\ ActiveHandlers = 0 /\ hpc' = "returned"   \* then H returns and the response is flushed
                   /\ UNCHANGED <<S, E, stops, sender, disp, issued, answered, seenStopped, seenTerm, discon>>
TakeResp    == /\ sender = "up" /\ disp.resp > 0 /\ disp' = [disp EXCEPT !.resp = @ - 1] /\ answered' = answered + 1
               /\ UNCHANGED <<S, E, hpc, stops, sender, issued, seenStopped, seenTerm, discon>>
TakeDiscon  == /\ sender = "up" /\ discon = "sent" /\ discon' = "answered"
               /\ UNCHANGED <<S, E, hpc, stops, sender, disp, issued, answered, seenStopped, seenTerm>>
(* stateCh rendezvous: a dispatch goroutine hands its command to the waiting debugger, then wants to send the response *)
Handover == /\ hpc = "wait" /\ disp.cmd > 0 /\ hpc' = "run"
            /\ disp' = [cmd |-> disp.cmd - 1, resp |-> disp.resp + 1]
            /\ UNCHANGED <<S, E, stops, sender, issued, answered, seenStopped, seenTerm, discon>>

Next == IssueEarly \/ StartHTTP \/ IssueAtStop \/ Disconnect \/ HitStop \/ Finish
        \/ TakeStopped \/ TakeTerm \/ Close \/ ShutdownReturns \/ TakeResp \/ TakeDiscon \/ Handover
Spec == Init /\ [][Next]_vars

TypeOK == /\ hpc \in {"idle", "run", "sendStopped", "wait", "sendTerm", "closing", "shutdown", "returned"} /\ sender \in {"up", "down"}
          /\ disp.cmd >= 0 /\ disp.resp >= 0 /\ answered <= issued
\* the HTTP client never gets its response: H never returns from Shutdown (ShutdownReturns is never enabled)
HandlerNeverReturns == hpc # "returned"
\* every request ends in Shutdown: the session cannot get stuck earlier (a stop is always answered eventually by this client)
EndsInShutdown == (~ENABLED Next) => hpc = "shutdown"
\* NOT an invariant (TLC finds the race): even the client that only speaks when spoken to may lose the response to its
\* last command - the dispatch goroutine hands the command over and only then queues the response, while H can run to
\* the end, send `terminated` and cancel the sender first.  At most one response is lost that way:
AtMostOneLost == (E = 0) => issued - answered <= 1
Stuck == ~ENABLED Next
Outcome == [stops_seen |-> S - stops, term |-> seenTerm,
            unanswered_steps |-> issued - answered,          \* step requests that never got a response
            discon |-> discon]
EmitInv == (Emit /\ Stuck) => PrintT(<<"BEHAVIOUR", ToJson([S |-> S, E |-> E, out |-> Outcome])>>)
=============================================================================
