SPECIFICATION Spec
CONSTANTS
  ProgSet = "exec"
  MaxDecor = 1
  Layouts = {0}
INVARIANTS
  Emit
PROPERTIES
  Inert
CHECK_DEADLOCK FALSE
